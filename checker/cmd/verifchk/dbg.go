package main

import (
	"fmt"

	"verif/checker/internal/core"
)

func dbg(repo, rel string) {
	p, err := core.Load(repo, []string{rel}, false, nil)
	fmt.Println(err, p.Loaded)
	fmt.Println(len(p.SrcFuncs()), len(p.FuncsOfPkg(rel)))
	for _, f := range p.SrcFuncs() {
		fmt.Println(core.QualName(f))
	}
}
