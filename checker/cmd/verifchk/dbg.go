package main

import (
	"fmt"
	"strings"

	"golang.org/x/tools/go/ssa"

	"verif/checker/internal/core"
)

// dbg: prototype - storage writes that precede a failing return in system contract entry points
func dbg(repo, rel string) {
	p, err := core.Load(repo, []string{rel}, false, nil)
	fmt.Println(err, p.Loaded)
	funcs := p.FuncsOfPkg(rel)
	if len(funcs) == 0 {
		return
	}
	wb := core.NewWriteBack(funcs[0].Pkg, funcs)
	wb.Run()
	writes := func(in ssa.Instruction) bool {
		cc := core.CallOf(in)
		if cc == nil {
			return false
		}
		if cc.IsInvoke() {
			n := cc.Method.Name()
			return n == "SetStorage" || n == "SetStorageForAddress" || n == "Transfer"
		}
		g := cc.StaticCallee()
		return g != nil && g.Pkg == funcs[0].Pkg && len(g.Blocks) > 0 && !wb.ReadOnly(g)
	}
	n := 0
	for _, fn := range funcs {
		if fn.Signature.Recv() == nil || fn.Signature.Results().Len() != 1 || !strings.HasSuffix(fn.Signature.Results().At(0).Type().String(), "ReturnCode") {
			continue
		}
		core.Instrs(fn, func(in ssa.Instruction) {
			if !writes(in) {
				return
			}
			esc, _ := core.PathQ{Fn: fn, From: in, Target: func(x ssa.Instruction, _ *ssa.BasicBlock) bool {
				r, ok := x.(*ssa.Return)
				if !ok {
					return false
				}
				k, isC := core.ConstInt(r.Results[0])
				if !isC || k == 0 {
					return false
				}
				// the failure of a writing call itself (marshal error of a saver) is not a validation
				conds := core.CondsAt(r.Block())
				if len(conds) > 0 {
					cd := conds[0]
					if bo, isBo := cd.V.(*ssa.BinOp); isBo {
						for _, side := range []ssa.Value{bo.X, bo.Y} {
							v := side
							if ex, isEx := v.(*ssa.Extract); isEx {
								v = ex.Tuple
							}
							if call, isCall := v.(*ssa.Call); isCall && writes(call) {
								return false
							}
						}
					}
				}
				return true
			}}.Escape()
			if esc != nil {
				n++
				fmt.Printf("%s: write at %s then failure at %s\n", core.FuncName(fn), p.Pos(in.Pos()), p.Pos(esc.Pos()))
			}
		})
	}
	fmt.Println("sites:", n)
}
