package main

import (
	"fmt"

	"verif/checker/internal/core"
)

func dbg(repo, rel string) {
	p, err := core.Load(repo, []string{rel}, false, nil)
	fmt.Println(err, p.Loaded)
	funcs := p.FuncsOfPkg(rel)
	if len(funcs) == 0 {
		return
	}
	wb := core.NewWriteBack(funcs[0].Pkg, funcs)
	wb.Run()
	fmt.Println("record types:", wb.RecordTypes())
	fmt.Println("savers:", wb.SaverNames())
	n := 0
	for _, fn := range funcs {
		for _, f := range wb.Findings[fn] {
			if wb.ReadOnly(fn) {
				continue
			}
			n++
			fmt.Printf("%s: %s %s; mutation at %s; return at %s\n", core.FuncName(fn), f.Record, f.What, p.Pos(f.Mutation.Pos()), p.Pos(f.Return.Pos()))
		}
	}
	fmt.Println("findings:", n)
}
