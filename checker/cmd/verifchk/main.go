// verifchk decides the claimed properties of /repo by static analysis of its current working tree.
package main

import (
	"encoding/json"
	"flag"
	"fmt"
	"go/token"
	"os"
	"runtime/debug"
	"strings"
	"time"

	"verif/checker/internal/core"
	"verif/checker/internal/rules"
)

func main() {
	verif := flag.String("verif", "/verif", "verification directory")
	repo := flag.String("repo", "/repo", "repository to analyse")
	flag.Parse()
	args := flag.Args()
	if len(args) == 0 {
		fmt.Println("usage: verifchk [-verif dir] [-repo dir] <ID>|list [--tier quick|thorough] [--replay file]")
		os.Exit(2)
	}
	if args[0] == "list" {
		for _, id := range rules.IDs() {
			fmt.Println(id, rules.Get(id).Title)
		}
		return
	}
	if args[0] == "list-json" {
		type jr struct {
			ID, Title, Explain string
			Pkgs, Assume       []string
		}
		var out []jr
		for _, id := range rules.IDs() {
			r := rules.Get(id)
			out = append(out, jr{r.ID, r.Title, r.Explain, r.Pkgs, r.Assume})
		}
		b, _ := json.MarshalIndent(out, "", " ")
		fmt.Println(string(b))
		return
	}
	if args[0] == "dbg" {
		dbg(*repo, args[1])
		return
	}
	if args[0] == "dump" && len(args) >= 3 {
		p, err := core.Load(*repo, []string{args[1]}, false, nil)
		if err != nil {
			fmt.Println(err)
			os.Exit(2)
		}
		for _, fn := range p.FuncsOfPkg(args[1]) {
			if core.FuncName(fn) == args[2] || strings.HasPrefix(core.FuncName(fn), args[2]+"$") {
				fn.WriteTo(os.Stdout)
			}
		}
		return
	}
	id := args[0]
	tier := os.Getenv("VERIF_TIER")
	replay := ""
	for i := 1; i < len(args); i++ {
		switch strings.TrimLeft(args[i], "-") {
		case "tier":
			if i+1 < len(args) {
				tier = args[i+1]
				i++
			}
		case "replay":
			if i+1 < len(args) {
				replay = args[i+1]
				i++
			}
		}
	}
	if tier != "thorough" {
		tier = "quick"
	}
	r := rules.Get(id)
	if r == nil {
		fmt.Printf("no check registered for %s\n", id)
		os.Exit(2)
	}
	start := time.Now()
	whole := tier == "thorough"
	p, err := core.Load(*repo, r.Pkgs, whole, nil)
	c := core.NewCtx(id, tier, p)
	c.Explain = r.Explain
	c.Assume = append(c.Assume, r.Assume...)
	if err != nil {
		c.Undecided("load", "packages", token.NoPos, "cannot load/type-check the anchored packages: "+err.Error())
		os.Exit(c.Finish(*verif, start, "other"))
	}
	func() {
		defer func() {
			if x := recover(); x != nil {
				c.Undecided("checker-panic", id, token.NoPos, fmt.Sprintf("%v\n%s", x, debug.Stack()))
			}
		}()
		r.Run(c)
		if (tier == "thorough" || os.Getenv("VERIF_CONTROLS") != "") && replay == "" {
			runControls(c, r, *verif, *repo)
		}
	}()
	if replay != "" {
		os.Exit(doReplay(c, replay))
	}
	os.Exit(c.Finish(*verif, start, "other"))
}

// doReplay re-evaluates on the current tree the single obligation named in a replay file.
func doReplay(c *core.Ctx, path string) int {
	b, err := os.ReadFile(path)
	if err != nil {
		fmt.Println("cannot read replay file:", err)
		return 2
	}
	var rp struct{ Rule, Construct string }
	if err := json.Unmarshal(b, &rp); err != nil {
		fmt.Println("bad replay file:", err)
		return 2
	}
	found := false
	code := 0
	for _, o := range c.Obls {
		if o.Rule == rp.Rule && o.Construct == rp.Construct {
			found = true
			fmt.Printf("%s: %s %s@%s: %s\n", o.Where, strings.ToUpper(string(o.Status)), o.Rule, o.Construct, o.Detail)
			if o.Status != core.OK {
				code = 1
			}
		}
	}
	if !found {
		fmt.Printf("obligation %s@%s no longer exists on this tree\n", rp.Rule, rp.Construct)
		return 1
	}
	return code
}
