package main

import (
	"fmt"
	"golang.org/x/tools/go/packages"
	"golang.org/x/tools/go/ssa"
	"golang.org/x/tools/go/ssa/ssautil"
	"golang.org/x/tools/go/callgraph/vta"
	"golang.org/x/tools/go/callgraph/cha"
	"golang.org/x/tools/go/types/typeutil"
	"golang.org/x/tools/go/cfg"
)

var _ = packages.Load
var _ ssa.Value
var _ = ssautil.AllFunctions
var _ = vta.CallGraph
var _ = cha.CallGraph
var _ typeutil.Map
var _ cfg.CFG

func main() { fmt.Println("ok") }
