package main

import (
	"encoding/json"
	"fmt"
	"go/token"
	"os"
	"path/filepath"
	"sort"
	"strings"

	"verif/checker/internal/core"
	"verif/checker/internal/rules"
)

// control is a variant of the source on which the rule's verdict is known in advance:
// positive = a breaking change the rule must report (seeded changes recorded as detected by this
// property and hand-written ones), negative = a behaviour-preserving rewrite the rule must stay
// silent on. Variants are supplied in memory through packages.Config.Overlay; nothing is written
// to /repo.
type control struct {
	Name string `json:"name"`
	Kind string `json:"kind"` // positive | negative
	File string `json:"file"`
	Old  string `json:"old"`
	New  string `json:"new"`
	Rule string `json:"expect_rule"` // positive: a violation whose rule starts with this must appear
	diff string
}

func loadControls(verif, id string) []control {
	var out []control
	if b, err := os.ReadFile(filepath.Join(verif, "controls", id+".json")); err == nil {
		var cs []control
		if json.Unmarshal(b, &cs) == nil {
			out = append(out, cs...)
		}
	}
	// seeded changes recorded as detected by this property
	dirs, _ := filepath.Glob(filepath.Join(verif, "seeded", "*", "meta.json"))
	sort.Strings(dirs)
	for _, m := range dirs {
		b, err := os.ReadFile(m)
		if err != nil {
			continue
		}
		var meta struct {
			DetectedBy []string `json:"detected_by"`
		}
		if json.Unmarshal(b, &meta) != nil {
			continue
		}
		for _, d := range meta.DetectedBy {
			if d == id {
				pd, err := os.ReadFile(filepath.Join(filepath.Dir(m), "patch.diff"))
				if err == nil {
					out = append(out, control{Name: "seeded/" + filepath.Base(filepath.Dir(m)), Kind: "positive", diff: string(pd)})
				}
			}
		}
	}
	// behaviour-preserving refactors written by independent agents (refactors/<ID>-r<k>/): the check of
	// the property they were written for must stay silent on them
	rdirs, _ := filepath.Glob(filepath.Join(verif, "refactors", "*", "meta.json"))
	sort.Strings(rdirs)
	for _, m := range rdirs {
		b, err := os.ReadFile(m)
		if err != nil {
			continue
		}
		var meta struct {
			Property string   `json:"property"`
			Also     []string `json:"also_silent_for"`
			Status   string   `json:"status"`
		}
		if json.Unmarshal(b, &meta) != nil || meta.Status == "rejected" || meta.Status == "unsupported" {
			continue
		}
		// also_silent_for lists the neighbouring checks (same packages) the refactor was run against when it was
		// ingested (bin/refactor-run) and in full sweeps (VERIF_CROSS=1); the regular thorough tier replays a
		// refactor against the check of its own property only, which keeps the tier within minutes
		applies := meta.Property == id
		if os.Getenv("VERIF_CROSS") != "" {
			for _, a := range meta.Also {
				if a == id {
					applies = true
				}
			}
		}
		if !applies {
			continue
		}
		pd, err := os.ReadFile(filepath.Join(filepath.Dir(m), "patch.diff"))
		if err == nil {
			out = append(out, control{Name: "refactor/" + filepath.Base(filepath.Dir(m)), Kind: "negative", diff: string(pd)})
		}
	}
	return out
}

// runControls evaluates the controls of a property and records one obligation per control.
func runControls(c *core.Ctx, r *rules.Rule, verif, repo string) {
	baseline := map[string]bool{}
	for _, o := range c.Obls {
		if o.Status == core.Violation || o.Status == core.Undecided {
			baseline[o.Key()] = true
		}
	}
	skipped := 0
	defer func() {
		if skipped > 0 {
			c.Note("%d control(s) skipped as not applicable to this tree", skipped)
		}
	}()
	for _, ct := range loadControls(verif, r.ID) {
		var ov map[string][]byte
		var err error
		if ct.diff != "" {
			ov, err = core.ApplyUnifiedDiff(repo, ct.diff)
		} else {
			ov, err = core.ReplaceOverlay(repo, ct.File, ct.Old, ct.New)
		}
		name := ct.Kind + "/" + ct.Name
		if err != nil {
			// the tree has moved on since the control was written: a control that no longer applies
			// says nothing about the property on this tree; it is skipped and reported, not failed
			c.Note("control %s skipped: cannot build the variant on this tree: %s", name, err.Error())
			skipped++
			continue
		}
		p, err := core.Load(repo, r.Pkgs, false, ov)
		if err != nil {
			c.Note("control %s skipped: the variant does not type-check on this tree: %s", name, firstLine(err.Error()))
			skipped++
			continue
		}
		vc := core.NewCtx(r.ID, "quick", p)
		func() {
			defer func() {
				if x := recover(); x != nil {
					vc.Undecided("checker-panic", r.ID, token.NoPos, fmt.Sprint(x))
				}
			}()
			r.Run(vc)
		}()
		vc.ApplyFloors()
		var fresh []string
		for _, o := range vc.Obls {
			if (o.Status == core.Violation || o.Status == core.Undecided) && !baseline[o.Key()] {
				fresh = append(fresh, o.Key())
			}
		}
		switch ct.Kind {
		case "positive":
			hit := false
			for _, k := range fresh {
				if ct.Rule == "" || strings.HasPrefix(k, ct.Rule) {
					hit = true
				}
			}
			if hit {
				c.Pass("control", name, token.NoPos, fmt.Sprintf("the rule fires on the breaking variant (%d new report(s), e.g. %s)", len(fresh), fresh[0]))
			} else {
				c.Fail("control", name, token.NoPos, fmt.Sprintf("the rule does NOT report the breaking variant (new reports: %v): the check has lost its teeth", fresh))
			}
		case "negative":
			if len(fresh) == 0 {
				c.Pass("control", name, token.NoPos, "the rule stays silent on the behaviour-preserving variant")
			} else {
				c.Fail("control", name, token.NoPos, fmt.Sprintf("the rule raises a false alarm on a behaviour-preserving variant: %v", fresh))
			}
		}
	}
}

func firstLine(s string) string {
	if i := strings.IndexByte(s, '\n'); i >= 0 {
		return s[:i]
	}
	return s
}
