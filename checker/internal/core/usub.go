package core

import (
	"go/token"
	"go/types"

	"golang.org/x/tools/go/ssa"
)

// USub is an unsigned subtraction whose operands are not both constants.
type USub struct {
	Op      *ssa.BinOp
	Guarded bool
	Why     string
}

func isUnsigned(t types.Type) bool {
	b, ok := t.Underlying().(*types.Basic)
	return ok && b.Info()&types.IsUnsigned != 0
}

// UnsignedSubs lists the unsigned subtractions of fn and decides for each whether a dominating
// comparison establishes minuend >= subtrahend on the same expressions (early-return form,
// if/else form and &&-chains are all the same to the dominance query).
func UnsignedSubs(fn *ssa.Function) []USub {
	var out []USub
	Instrs(fn, func(in ssa.Instruction) {
		b, ok := in.(*ssa.BinOp)
		if !ok || b.Op != token.SUB || !isUnsigned(b.Type()) {
			return
		}
		if _, c1 := b.X.(*ssa.Const); c1 {
			if _, c2 := b.Y.(*ssa.Const); c2 {
				return
			}
		}
		x, y := ExprKey(b.X), ExprKey(b.Y)
		us := USub{Op: b}
		for _, f := range FactsAt(b.Block()) {
			// y <= x  or  y < x
			if (f.Op == "<=" || f.Op == "<") && f.A == y && f.B == x {
				us.Guarded, us.Why = true, "dominated by "+f.String()
			}
			if f.Op == "==" && ((f.A == x && f.B == y) || (f.A == y && f.B == x)) {
				us.Guarded, us.Why = true, "dominated by "+f.String()
			}
			if n, isC := ConstInt(b.Y); isC {
				if lb, ok := f.LowerBound(x); ok && lb >= n {
					us.Guarded, us.Why = true, "dominated by "+f.String()
				}
			}
		}
		// x = max(...)-like: a phi whose edges are each y-dominated is not attempted
		if !us.Guarded {
			us.Why = "no dominating comparison establishes " + y + " <= " + x
		}
		out = append(out, us)
	})
	return out
}
