package core

import (
	"go/token"
	"go/types"

	"golang.org/x/tools/go/ssa"
)

// USub is an unsigned subtraction whose operands are not both constants.
type USub struct {
	Op      *ssa.BinOp
	Guarded bool
	Why     string
}

func isUnsigned(t types.Type) bool {
	b, ok := t.Underlying().(*types.Basic)
	return ok && b.Info()&types.IsUnsigned != 0
}

// UnsignedSubs lists the unsigned subtractions of fn and decides for each whether a dominating
// comparison establishes minuend >= subtrahend on the same expressions (early-return form,
// if/else form and &&-chains are all the same to the dominance query).
func UnsignedSubs(fn *ssa.Function) []USub {
	var out []USub
	Instrs(fn, func(in ssa.Instruction) {
		b, ok := in.(*ssa.BinOp)
		if !ok || b.Op != token.SUB || !isUnsigned(b.Type()) {
			return
		}
		if _, c1 := b.X.(*ssa.Const); c1 {
			if _, c2 := b.Y.(*ssa.Const); c2 {
				return
			}
		}
		x, y := ExprKey(b.X), ExprKey(b.Y)
		us := USub{Op: b}
		if clampedBefore(b, x, y) {
			us.Guarded, us.Why = true, "the minuend was clamped up to the subtrahend just before (if a < b { a = b })"
			out = append(out, us)
			return
		}
		for _, cd := range CondsAt(b.Block()) {
			f := FactOf(cd)
			if storedBetween(cd.If.Block(), b, b.X) || storedBetween(cd.If.Block(), b, b.Y) {
				continue // the compared memory may have been overwritten since the test
			}
			// y <= x  or  y < x
			if (f.Op == "<=" || f.Op == "<") && f.A == y && f.B == x {
				us.Guarded, us.Why = true, "dominated by "+f.String()
			}
			if f.Op == "==" && ((f.A == x && f.B == y) || (f.A == y && f.B == x)) {
				us.Guarded, us.Why = true, "dominated by "+f.String()
			}
			if n, isC := ConstInt(b.Y); isC {
				if lb, ok := f.LowerBound(x); ok && lb >= n {
					us.Guarded, us.Why = true, "dominated by "+f.String()
				}
			}
		}
		// x = max(...)-like: a phi whose edges are each y-dominated is not attempted
		if !us.Guarded {
			us.Why = "no dominating comparison establishes " + y + " <= " + x
		}
		out = append(out, us)
	})
	return out
}

// addrKeyOf returns the canonical key of the address a value was loaded from ("" if v is not a load).
func addrKeyOf(v ssa.Value) string {
	u, ok := v.(*ssa.UnOp)
	if !ok || u.Op != token.MUL {
		return ""
	}
	return ExprKey(u.X)
}

// storedBetween: v is a memory load and some store to the same location lies in a block
// dominated by `from` and executes before `at` can be reached (conservatively: any such store
// that is not after `at` in the same block).
func storedBetween(from *ssa.BasicBlock, at ssa.Instruction, v ssa.Value) bool {
	return storedBetweenX(from, at, v, false)
}

func storedBetweenX(from *ssa.BasicBlock, at ssa.Instruction, v ssa.Value, includeFrom bool) bool {
	key := addrKeyOf(v)
	if key == "" {
		return false
	}
	found := false
	Instrs(at.Parent(), func(in ssa.Instruction) {
		st, ok := in.(*ssa.Store)
		if !ok || ExprKey(st.Addr) != key {
			return
		}
		if !from.Dominates(st.Block()) || (st.Block() == from && !includeFrom) {
			return
		}
		if st.Block() == at.Block() && IndexOf(st) > IndexOf(at) {
			return
		}
		// the store must be able to reach the subtraction
		q := PathQ{Fn: at.Parent(), From: st, Target: func(x ssa.Instruction, _ *ssa.BasicBlock) bool { return x == at }}
		if esc, _ := q.Escape(); esc != nil {
			found = true
		}
	})
	return found
}

// clampedBefore recognises
//
//	if a < b { a = b }      (a, b memory locations or values; no else branch)
//	... a - b ...
//
// where the subtraction's block is (dominated by) the join of that if.
func clampedBefore(sub *ssa.BinOp, x, y string) bool {
	ax := addrKeyOf(sub.X)
	if ax == "" {
		return false
	}
	for d := sub.Block(); d != nil; d = d.Idom() {
		for _, p := range d.Preds {
			ifi, ok := p.Instrs[len(p.Instrs)-1].(*ssa.If)
			if !ok || len(p.Succs) != 2 {
				continue
			}
			for ti := 0; ti < 2; ti++ {
				thenB, other := p.Succs[ti], p.Succs[1-ti]
				if other != d || len(thenB.Succs) != 1 || thenB.Succs[0] != d || len(thenB.Preds) != 1 {
					continue
				}
				f := FactOf(normCond(ifi, ifi.Cond, ti == 0))
				if !(f.Op == "<" && f.A == x && f.B == y) {
					continue
				}
				okStore := false
				for _, in := range thenB.Instrs {
					if st, ok := in.(*ssa.Store); ok && ExprKey(st.Addr) == ax && ExprKey(st.Val) == y {
						okStore = true
					}
				}
				if !okStore {
					continue
				}
				// no later store to a or b before the subtraction
				if storedBetweenX(d, sub, sub.X, true) || storedBetweenX(d, sub, sub.Y, true) {
					continue
				}
				if d != sub.Block() && !d.Dominates(sub.Block()) {
					continue
				}
				return true
			}
		}
	}
	return false
}
