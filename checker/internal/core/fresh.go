package core

import (
	"go/types"

	"golang.org/x/tools/go/ssa"
)

// FreshSlice reports whether the slice value is backed, on every path, by an array allocated in
// the current function (so it shares no backing array with any caller-visible buffer).
// why names the first non-fresh origin found.
func FreshSlice(v ssa.Value) (bool, string) {
	return freshSlice(v, map[ssa.Value]bool{})
}

func freshSlice(v ssa.Value, seen map[ssa.Value]bool) (bool, string) {
	if seen[v] {
		return true, ""
	}
	seen[v] = true
	switch x := v.(type) {
	case *ssa.MakeSlice:
		return true, ""
	case *ssa.Const:
		return true, "" // nil
	case *ssa.Slice:
		if a, ok := x.X.(*ssa.Alloc); ok {
			_ = a
			return true, ""
		}
		return freshSlice(x.X, seen)
	case *ssa.Convert:
		// string -> []byte copies
		if b, ok := x.X.Type().Underlying().(*types.Basic); ok && b.Info()&types.IsString != 0 {
			return true, ""
		}
		return freshSlice(x.X, seen)
	case *ssa.ChangeType:
		return freshSlice(x.X, seen)
	case *ssa.Phi:
		for _, e := range x.Edges {
			if ok, why := freshSlice(e, seen); !ok {
				return false, why
			}
		}
		return true, ""
	case *ssa.Call:
		if b, ok := x.Call.Value.(*ssa.Builtin); ok && b.Name() == "append" {
			return freshSlice(x.Call.Args[0], seen)
		}
		if ok, _ := freshResult(&x.Call, 0, seen); ok {
			return true, ""
		}
		return false, "result of call " + CallDesc(&x.Call).String()
	case *ssa.Extract:
		if call, ok := x.Tuple.(*ssa.Call); ok {
			if ok2, _ := freshResult(&call.Call, x.Index, seen); ok2 {
				return true, ""
			}
			return false, "result of call " + CallDesc(&call.Call).String()
		}
	case *ssa.Parameter:
		return false, "parameter " + x.Name()
	}
	return false, "value " + v.Name() + " (" + ExprKey(v) + ")"
}

// freshResult: the idx-th result of a statically resolved callee with a body is a slice the callee
// allocated itself on every return (a helper that builds and returns a new buffer).
func freshResult(cc *ssa.CallCommon, idx int, seen map[ssa.Value]bool) (bool, string) {
	g := cc.StaticCallee()
	if g == nil || len(g.Blocks) == 0 || len(seen) > 200 {
		return false, ""
	}
	any := false
	for _, b := range g.Blocks {
		r, ok := b.Instrs[len(b.Instrs)-1].(*ssa.Return)
		if !ok || idx >= len(r.Results) {
			continue
		}
		any = true
		if ok2, why := freshSlice(r.Results[idx], seen); !ok2 {
			return false, why
		}
	}
	return any, ""
}
