package core

import (
	"fmt"
	"go/constant"
	"go/token"
	"go/types"
	"strings"

	"golang.org/x/tools/go/ssa"
)

// AccFlush analyses an accumulate-and-flush loop: a loop over the elements of an input slice that
// appends each element to a pending list (Acc) and from time to time emits a representation of
// pending elements into an output list (Out), resetting Acc. It decides conservation: on every
// pass through the loop body  emitted ++ pending' == pending ++ [element]  (as sequences), an
// auxiliary buffer carried around the loop (Aux, e.g. "the last marshalled batch") represents
// the pending list whenever that list is not empty, and after the loop the pending list is
// emitted before a success return. The abstract domain is finite: sequences over the two symbols
// H (whatever was pending at the loop head) and e (the current element); the loop body is
// acyclic, so each of its paths is evaluated once, with branches on len() of a tracked list
// decided or used to learn whether H is empty.
type AccFlush struct {
	Fn   *ssa.Function
	Loop *Loop
	Data ssa.Value
	Acc  *ssa.Phi
	Out  *ssa.Phi
	Aux  []*ssa.Phi
}

// AFIssue is one finding of the analysis.
type AFIssue struct {
	Kind   string // "iteration", "aux", "final", "early-exit", "undecided"
	Pos    token.Pos
	Detail string
}

type afContent struct {
	top   bool
	atoms string // over 'H' and 'e'
}

const (
	afRepNone = iota // an empty buffer: represents no element
	afRepContent
	afRepHeadIfNonEmpty
	afRepTop
)

type afRep struct {
	kind int
	c    afContent
}

type afState struct {
	choice map[*ssa.Phi]int
	zero   bool // H may be empty
	pos    bool // H may be non-empty
	path   []*ssa.BasicBlock
}

func (s afState) clone() afState {
	c := afState{choice: map[*ssa.Phi]int{}, zero: s.zero, pos: s.pos}
	for k, v := range s.choice {
		c.choice[k] = v
	}
	c.path = append([]*ssa.BasicBlock(nil), s.path...)
	return c
}

// NewAccFlush recognises the loop over `data` in fn and its accumulator/output/auxiliary
// variables. It returns nil and a reason when the function does not have that shape.
func NewAccFlush(fn *ssa.Function, data ssa.Value) (*AccFlush, string) {
	af := &AccFlush{Fn: fn, Data: data}
	for _, l := range Loops(fn) {
		if l.RangeSource() == data {
			af.Loop = l
		}
	}
	if af.Loop == nil {
		return nil, "no loop ranging over the input slice"
	}
	for _, inner := range Loops(fn) {
		if inner != af.Loop && af.Loop.Body[inner.Header] {
			return nil, "the loop over the input has an inner loop"
		}
	}
	// Out: the header phi on the base chain of the returned list
	var rets []*ssa.Return
	for _, r := range Returns(fn) {
		if SuccessReturn(r, nil) {
			rets = append(rets, r)
		}
	}
	isHeaderPhi := func(v ssa.Value) *ssa.Phi {
		if ph, ok := v.(*ssa.Phi); ok && ph.Block() == af.Loop.Header {
			return ph
		}
		return nil
	}
	var baseChain func(v ssa.Value, seen map[ssa.Value]bool) *ssa.Phi
	baseChain = func(v ssa.Value, seen map[ssa.Value]bool) *ssa.Phi {
		if seen[v] {
			return nil
		}
		seen[v] = true
		if ph := isHeaderPhi(v); ph != nil {
			return ph
		}
		switch x := v.(type) {
		case *ssa.Phi:
			for _, e := range x.Edges {
				if p := baseChain(e, seen); p != nil {
					return p
				}
			}
		case *ssa.Call:
			if isBuiltin(x, "append") {
				return baseChain(x.Call.Args[0], seen)
			}
		}
		return nil
	}
	for _, r := range rets {
		if len(r.Results) == 0 {
			continue
		}
		if p := baseChain(r.Results[0], map[ssa.Value]bool{}); p != nil {
			af.Out = p
		}
	}
	if af.Out == nil {
		return nil, "the returned list is not built by appends carried around the loop"
	}
	// Acc: a header phi (other than Out) to which the current element is appended in the loop
	for _, in := range af.Loop.Header.Instrs {
		ph, ok := in.(*ssa.Phi)
		if !ok || ph == af.Out {
			continue
		}
		if _, isSl := ph.Type().Underlying().(*types.Slice); !isSl {
			continue
		}
		isAcc := false
		for b := range af.Loop.Body {
			for _, in2 := range b.Instrs {
				call, ok := in2.(*ssa.Call)
				if !ok || !isBuiltin(call, "append") {
					continue
				}
				if baseChain(call.Call.Args[0], map[ssa.Value]bool{}) != ph {
					continue
				}
				for _, v := range appendedValues(call) {
					if af.isElem(v) {
						isAcc = true
					}
				}
			}
		}
		if isAcc {
			if af.Acc != nil {
				return nil, "more than one pending list"
			}
			af.Acc = ph
		}
	}
	if af.Acc == nil {
		return nil, "no pending list receiving the current element"
	}
	for _, in := range af.Loop.Header.Instrs {
		ph, ok := in.(*ssa.Phi)
		if !ok || ph == af.Out || ph == af.Acc {
			continue
		}
		if _, isSl := ph.Type().Underlying().(*types.Slice); isSl {
			af.Aux = append(af.Aux, ph)
		}
	}
	return af, ""
}

func isBuiltin(call *ssa.Call, name string) bool {
	b, ok := call.Call.Value.(*ssa.Builtin)
	return ok && b.Name() == name
}

// appendedValues returns the values appended by append(base, v1, v2...) (nil for a spread).
func appendedValues(call *ssa.Call) []ssa.Value {
	if len(call.Call.Args) != 2 {
		return nil
	}
	sl, ok := call.Call.Args[1].(*ssa.Slice)
	if !ok {
		return nil
	}
	al, ok := sl.X.(*ssa.Alloc)
	if !ok || al.Referrers() == nil {
		return nil
	}
	var out []ssa.Value
	for _, r := range *al.Referrers() {
		ia, ok := r.(*ssa.IndexAddr)
		if !ok || ia.Referrers() == nil {
			continue
		}
		for _, rr := range *ia.Referrers() {
			if st, ok := rr.(*ssa.Store); ok && st.Addr == ssa.Value(ia) {
				out = append(out, st.Val)
			}
		}
	}
	return out
}

func (af *AccFlush) isElem(v ssa.Value) bool {
	u, ok := v.(*ssa.UnOp)
	if !ok || u.Op != token.MUL {
		return false
	}
	ia, ok := u.X.(*ssa.IndexAddr)
	return ok && ia.X == af.Data && af.Loop.Body[u.Block()]
}

func isEmptyMake(v ssa.Value) bool {
	switch x := v.(type) {
	case *ssa.Slice:
		if al, ok := x.X.(*ssa.Alloc); ok {
			if pt, ok := al.Type().Underlying().(*types.Pointer); ok {
				if at, ok := pt.Elem().Underlying().(*types.Array); ok && at.Len() == 0 {
					return true
				}
			}
		}
	case *ssa.MakeSlice:
		if n, ok := ConstInt(x.Len); ok && n == 0 {
			return true
		}
	case *ssa.Const:
		return x.IsNil()
	}
	return false
}

func (af *AccFlush) content(v ssa.Value, st afState, depth int) afContent {
	if depth > 24 {
		return afContent{top: true}
	}
	if v == ssa.Value(af.Acc) {
		return afContent{atoms: "H"}
	}
	if isEmptyMake(v) {
		return afContent{}
	}
	switch x := v.(type) {
	case *ssa.Phi:
		if i, ok := st.choice[x]; ok {
			return af.content(x.Edges[i], st, depth+1)
		}
	case *ssa.Call:
		if isBuiltin(x, "append") {
			base := af.content(x.Call.Args[0], st, depth+1)
			if base.top {
				return base
			}
			vals := appendedValues(x)
			if len(vals) == 0 {
				return afContent{top: true}
			}
			for _, a := range vals {
				if !af.isElem(a) {
					return afContent{top: true}
				}
				base.atoms += "e"
			}
			return base
		}
	}
	return afContent{top: true}
}

func (af *AccFlush) rep(v ssa.Value, st afState, depth int) afRep {
	if depth > 24 {
		return afRep{kind: afRepTop}
	}
	for _, a := range af.Aux {
		if v == ssa.Value(a) {
			return afRep{kind: afRepHeadIfNonEmpty}
		}
	}
	// a list of elements represents itself (chunks of elements)
	if sl, ok := v.Type().Underlying().(*types.Slice); ok {
		if _, inner := sl.Elem().Underlying().(*types.Slice); inner {
			c := af.content(v, st, depth+1)
			if c.top {
				return afRep{kind: afRepTop}
			}
			return afRep{kind: afRepContent, c: c}
		}
	}
	if isEmptyMake(v) {
		return afRep{kind: afRepNone}
	}
	switch x := v.(type) {
	case *ssa.Phi:
		if i, ok := st.choice[x]; ok {
			return af.rep(x.Edges[i], st, depth+1)
		}
	case *ssa.Extract:
		call, ok := x.Tuple.(*ssa.Call)
		if !ok || x.Index != 0 {
			break
		}
		data := marshalledList(call)
		if data == nil {
			// a helper of the package that only marshals the list it is handed: `return m.Marshal(&T{Data: p})`
			h := call.Call.StaticCallee()
			if h == nil || h.Blocks == nil || call.Parent() == nil || h.Pkg != call.Parent().Pkg {
				break
			}
			rets := Returns(h)
			if len(rets) != 1 || len(rets[0].Results) == 0 {
				break
			}
			ex, ok := RetOperand(rets[0], 0).(*ssa.Extract)
			if !ok || ex.Index != 0 {
				break
			}
			inner, ok := ex.Tuple.(*ssa.Call)
			if !ok {
				break
			}
			pv := marshalledList(inner)
			for i, p := range h.Params {
				if pv != nil && ssa.Value(p) == pv && i < len(call.Call.Args) {
					data = call.Call.Args[i]
				}
			}
			if data == nil {
				break
			}
		}
		c := af.content(data, st, depth+1)
		if c.top {
			break
		}
		return afRep{kind: afRepContent, c: c}
	}
	return afRep{kind: afRepTop}
}

// marshalledList: for `m.Marshal(&T{F: list})` (one field stored into a fresh record) the list.
func marshalledList(call *ssa.Call) ssa.Value {
	if !call.Call.IsInvoke() || call.Call.Method.Name() != "Marshal" || len(call.Call.Args) != 1 {
		return nil
	}
	mi, ok := call.Call.Args[0].(*ssa.MakeInterface)
	if !ok {
		return nil
	}
	al, ok := mi.X.(*ssa.Alloc)
	if !ok || al.Referrers() == nil {
		return nil
	}
	var data ssa.Value
	n := 0
	for _, r := range *al.Referrers() {
		fa, ok := r.(*ssa.FieldAddr)
		if !ok || fa.Referrers() == nil {
			continue
		}
		for _, rr := range *fa.Referrers() {
			if s, ok := rr.(*ssa.Store); ok && s.Addr == ssa.Value(fa) {
				data = s.Val
				n++
			}
		}
	}
	if n != 1 {
		return nil
	}
	return data
}

// outEm returns what was appended to the output list since the loop head, in order.
func (af *AccFlush) outEm(v ssa.Value, st afState, depth int) ([]afRep, bool) {
	if depth > 24 {
		return nil, false
	}
	if v == ssa.Value(af.Out) {
		return nil, true
	}
	switch x := v.(type) {
	case *ssa.Phi:
		if i, ok := st.choice[x]; ok {
			return af.outEm(x.Edges[i], st, depth+1)
		}
	case *ssa.Call:
		if isBuiltin(x, "append") {
			base, ok := af.outEm(x.Call.Args[0], st, depth+1)
			if !ok {
				return nil, false
			}
			vals := appendedValues(x)
			if len(vals) == 0 {
				return nil, false
			}
			for _, a := range vals {
				base = append(base, af.rep(a, st, depth+1))
			}
			return base, true
		}
	}
	return nil, false
}

// flatten turns the emitted representations into one sequence; problem != "" when an emission
// represents nothing or is not understood.
func (af *AccFlush) flatten(em []afRep, st afState) (seq string, problem string, undecided bool) {
	for _, r := range em {
		switch r.kind {
		case afRepNone:
			return "", "a buffer that represents no element (a freshly made empty one) is emitted as a chunk", false
		case afRepTop:
			return "", "an emitted value is not recognised as the representation of a tracked list", true
		case afRepHeadIfNonEmpty:
			if st.zero {
				return "", "the auxiliary buffer is emitted on a path where the pending list may have been empty at the loop head (then it represents nothing)", false
			}
			seq += "H"
		case afRepContent:
			seq += r.c.atoms
		}
	}
	return seq, "", false
}

func dropH(s string) string { return strings.ReplaceAll(s, "H", "") }

// refine applies the branch condition cond==taken to the state; ok=false when the branch is infeasible.
func (af *AccFlush) refine(cond ssa.Value, taken bool, st afState) (afState, bool) {
	if u, ok := cond.(*ssa.UnOp); ok && u.Op == token.NOT {
		return af.refine(u.X, !taken, st)
	}
	b, ok := cond.(*ssa.BinOp)
	if !ok {
		return st, true
	}
	var lenOf ssa.Value
	var cst int64
	lenLeft := true
	side := func(v ssa.Value) ssa.Value {
		if call, ok := v.(*ssa.Call); ok && isBuiltin(call, "len") {
			return call.Call.Args[0]
		}
		return nil
	}
	if l := side(b.X); l != nil {
		if n, isC := ConstInt(b.Y); isC {
			lenOf, cst = l, n
		}
	} else if l := side(b.Y); l != nil {
		if n, isC := ConstInt(b.X); isC {
			lenOf, cst, lenLeft = l, n, false
		}
	}
	if lenOf == nil {
		return st, true
	}
	c := af.content(lenOf, st, 0)
	if c.top {
		return st, true
	}
	k := int64(len(dropH(c.atoms)))
	hasH := strings.Contains(c.atoms, "H")
	eval := func(h int64) bool {
		x, y := constant.MakeInt64(h+k), constant.MakeInt64(cst)
		if !lenLeft {
			x, y = y, x
		}
		return constant.Compare(x, b.Op, y)
	}
	if !hasH {
		return st, eval(0) == taken
	}
	ns := st.clone()
	ns.zero = st.zero && eval(0) == taken
	ns.pos = false
	if st.pos {
		for h := int64(1); h <= cst+3; h++ {
			if eval(h) == taken {
				ns.pos = true
			}
		}
	}
	return ns, ns.zero || ns.pos
}

func (af *AccFlush) pathString(p []*ssa.BasicBlock) string {
	var parts []string
	for _, b := range p {
		line := 0
		for _, in := range b.Instrs {
			if in.Pos().IsValid() {
				line = af.Fn.Prog.Fset.Position(in.Pos()).Line
				break
			}
		}
		parts = append(parts, fmt.Sprintf("b%d(L%d)", b.Index, line))
	}
	return strings.Join(parts, "→")
}

// Check runs the analysis. nPaths is the number of loop-body and epilogue paths evaluated.
func (af *AccFlush) Check() (issues []AFIssue, nPaths int) {
	hdr := af.Loop.Header
	edgeIdx := func(b, pred *ssa.BasicBlock) int {
		for i, p := range b.Preds {
			if p == pred {
				return i
			}
		}
		return -1
	}
	// entry: the pending list starts empty
	for i, p := range hdr.Preds {
		if af.Loop.Body[p] {
			continue
		}
		if !isEmptyMake(af.Acc.Edges[i]) {
			issues = append(issues, AFIssue{"undecided", af.Acc.Pos(), "the pending list does not start as an empty list"})
		}
	}
	var walk func(b, pred *ssa.BasicBlock, st afState, inLoop bool)
	atLatch := func(pred *ssa.BasicBlock, st afState) {
		nPaths++
		i := edgeIdx(hdr, pred)
		pend := af.content(af.Acc.Edges[i], st, 0)
		em, ok := af.outEm(af.Out.Edges[i], st, 0)
		where := af.pathString(st.path)
		pos := af.Fn.Pos()
		for _, in := range pred.Instrs {
			if in.Pos().IsValid() {
				pos = in.Pos()
			}
		}
		if pend.top || !ok {
			issues = append(issues, AFIssue{"undecided", pos, "the pending or the output list at the end of the iteration is not a tracked append chain (" + where + ")"})
			return
		}
		seq, problem, und := af.flatten(em, st)
		if problem != "" {
			kind := "iteration"
			if und {
				kind = "undecided"
			}
			issues = append(issues, AFIssue{kind, pos, problem + " (" + where + ")"})
			return
		}
		got, want := seq+pend.atoms, "He"
		if !st.pos { // H is empty on this path
			got, want = dropH(got), "e"
		}
		if got != want {
			issues = append(issues, AFIssue{"iteration", pos, fmt.Sprintf("on the pass %s: emitted ++ pending is [%s], it must be [%s] (H = what was pending at the loop head, e = the current element): an element is dropped, duplicated or reordered", where, got, want)})
		}
		// auxiliary buffers represent the new pending list, unless that list is empty
		newEmpty := dropH(pend.atoms) == "" && (!strings.Contains(pend.atoms, "H") || !st.pos)
		if !newEmpty {
			for _, a := range af.Aux {
				r := af.rep(a.Edges[i], st, 0)
				okRep := false
				switch r.kind {
				case afRepContent:
					x, y := r.c.atoms, pend.atoms
					if !st.pos {
						x, y = dropH(x), dropH(y)
					}
					okRep = x == y
				case afRepHeadIfNonEmpty:
					okRep = pend.atoms == "H"
				}
				if !okRep {
					issues = append(issues, AFIssue{"aux", pos, fmt.Sprintf("on the pass %s the pending list is left non-empty ([%s]) but %s does not hold its representation: the next flush of %s emits the wrong chunk and the pending elements are lost", where, pend.atoms, a.Comment, a.Comment)})
				}
			}
		}
	}
	atReturn := func(r *ssa.Return, st afState) {
		nPaths++
		if len(r.Results) == 0 {
			return
		}
		em, ok := af.outEm(r.Results[0], st, 0)
		where := af.pathString(st.path)
		if !ok {
			issues = append(issues, AFIssue{"undecided", r.Pos(), "the returned list is not a tracked append chain (" + where + ")"})
			return
		}
		seq, problem, und := af.flatten(em, st)
		if problem != "" {
			kind := "final"
			if und {
				kind = "undecided"
			}
			issues = append(issues, AFIssue{kind, r.Pos(), problem + " (" + where + ")"})
			return
		}
		want := "H"
		if !st.pos {
			seq, want = dropH(seq), ""
		}
		if seq != want {
			issues = append(issues, AFIssue{"final", r.Pos(), fmt.Sprintf("after the loop (%s) the chunks emitted are [%s] while [%s] is still pending: the last elements never reach the output", where, seq, want)})
		}
	}
	walk = func(b, pred *ssa.BasicBlock, st afState, inLoop bool) {
		for _, x := range st.path {
			if x == b && b != hdr {
				issues = append(issues, AFIssue{"undecided", b.Instrs[0].Pos(), "cycle inside the analysed region"})
				return
			}
		}
		if inLoop && b == hdr {
			atLatch(pred, st)
			return
		}
		if inLoop && !af.Loop.Body[b] {
			if !OnlyErrorReturnsFrom(b, pred, nil) {
				issues = append(issues, AFIssue{"early-exit", b.Instrs[0].Pos(), "the loop over the input is left early on a path that can report success (" + af.pathString(st.path) + "): the remaining elements are not packed"})
			}
			return
		}
		st = st.clone()
		st.path = append(st.path, b)
		if i := edgeIdx(b, pred); i >= 0 {
			for _, in := range b.Instrs {
				if ph, ok := in.(*ssa.Phi); ok {
					st.choice[ph] = i
				}
			}
		}
		switch t := b.Instrs[len(b.Instrs)-1].(type) {
		case *ssa.If:
			for si, s := range b.Succs {
				ns, ok := af.refine(t.Cond, si == 0, st)
				if !ok {
					continue
				}
				walk(s, b, ns, inLoop)
			}
		case *ssa.Jump:
			walk(b.Succs[0], b, st, inLoop)
		case *ssa.Return:
			if inLoop {
				if !OnlyErrorReturnsFrom(b, pred, nil) {
					issues = append(issues, AFIssue{"early-exit", t.Pos(), "return from inside the loop on a path that can report success (" + af.pathString(st.path) + ")"})
				}
				return
			}
			if SuccessReturn(t, pred) {
				atReturn(t, st)
			}
		}
	}
	start := afState{choice: map[*ssa.Phi]int{}, zero: true, pos: true}
	for _, s := range hdr.Succs {
		if af.Loop.Body[s] {
			st := start.clone()
			st.path = []*ssa.BasicBlock{hdr}
			walk(s, hdr, st, true)
		} else {
			st := start.clone()
			st.path = []*ssa.BasicBlock{hdr}
			walk(s, hdr, st, false)
		}
	}
	return issues, nPaths
}
