package core

import (
	"fmt"
	"go/token"

	"golang.org/x/tools/go/ssa"
)

// SliceRoots computes which caller-visible buffers a slice value may share its backing array
// with: the result is a set of root descriptions - "param:<ExprKey>" for a parameter or a field of
// a parameter, "fresh:<name>" for an array allocated in the function. Static callees are followed
// through summaries (which results may alias which parameters).
type AliasAnalyzer struct {
	summ   map[*ssa.Function]map[int]map[int]bool // result idx -> param idx set
	active map[*ssa.Function]bool
}

func NewAliasAnalyzer() *AliasAnalyzer {
	return &AliasAnalyzer{summ: map[*ssa.Function]map[int]map[int]bool{}, active: map[*ssa.Function]bool{}}
}

// Summary: for each result index of fn, the parameter indices whose backing array the result may share.
func (aa *AliasAnalyzer) Summary(fn *ssa.Function) map[int]map[int]bool {
	if s, ok := aa.summ[fn]; ok {
		return s
	}
	if aa.active[fn] || fn.Blocks == nil {
		return nil
	}
	aa.active[fn] = true
	s := map[int]map[int]bool{}
	for _, r := range Returns(fn) {
		for j := range r.Results {
			v := RetOperand(r, j)
			if !pointerLike(v.Type()) {
				continue
			}
			for root := range aa.Roots(v) {
				var idx int
				if _, err := fmt.Sscanf(root, "paramidx:%d", &idx); err == nil {
					if s[j] == nil {
						s[j] = map[int]bool{}
					}
					s[j][idx] = true
				}
			}
		}
	}
	delete(aa.active, fn)
	aa.summ[fn] = s
	return s
}

// Roots returns the alias roots of a slice/map/pointer value.
func (aa *AliasAnalyzer) Roots(v ssa.Value) map[string]bool {
	out := map[string]bool{}
	seen := map[ssa.Value]bool{}
	var visit func(x ssa.Value)
	visit = func(x ssa.Value) {
		if x == nil || seen[x] {
			return
		}
		seen[x] = true
		switch t := x.(type) {
		case *ssa.Parameter:
			for i, p := range t.Parent().Params {
				if p == t {
					out[fmt.Sprintf("paramidx:%d", i)] = true
				}
			}
			out["param:"+ExprKey(t)] = true
		case *ssa.Const:
		case *ssa.MakeSlice, *ssa.MakeMap, *ssa.Alloc:
			out["fresh:"+x.Name()] = true
		case *ssa.Slice:
			visit(t.X)
		case *ssa.Phi:
			for _, e := range t.Edges {
				visit(e)
			}
		case *ssa.ChangeType:
			visit(t.X)
		case *ssa.Convert:
			out["fresh:"+x.Name()] = true
		case *ssa.Field:
			// field of a struct parameter passed by value: the slice header is the caller's
			if p, ok := t.X.(*ssa.Parameter); ok {
				for i, pp := range p.Parent().Params {
					if pp == p {
						out[fmt.Sprintf("paramidx:%d", i)] = true
					}
				}
			}
			out["param:"+ExprKey(t)] = true
		case *ssa.UnOp:
			if t.Op != token.MUL {
				return
			}
			switch a := t.X.(type) {
			case *ssa.Alloc:
				stored := false
				for _, r := range *a.Referrers() {
					if st, ok := r.(*ssa.Store); ok && st.Addr == ssa.Value(a) {
						stored = true
						visit(st.Val)
					}
				}
				// field of a by-value struct parameter spilled to an alloc: handled through FieldAddr below
				if !stored {
					out["fresh:"+a.Name()] = true
				}
			case *ssa.FieldAddr:
				// load of x.f
				base := a.X
				if al, ok := base.(*ssa.Alloc); ok {
					// local struct (e.g. a by-value struct parameter spilled): look for what was stored
					for _, r := range *al.Referrers() {
						if st, ok := r.(*ssa.Store); ok && st.Addr == ssa.Value(al) {
							if p, ok := st.Val.(*ssa.Parameter); ok {
								for i, pp := range p.Parent().Params {
									if pp == p {
										out[fmt.Sprintf("paramidx:%d", i)] = true
									}
								}
							}
						}
					}
				}
				out["param:"+ExprKey(t)] = true
			default:
				out["mem:"+ExprKey(t)] = true
			}
		case *ssa.Lookup:
			out["mem:"+ExprKey(t.X)+"[]"] = true
		case *ssa.Call:
			if b, ok := t.Call.Value.(*ssa.Builtin); ok {
				if b.Name() == "append" {
					visit(t.Call.Args[0])
				}
				return
			}
			aa.applySummary(t, 0, visit, out)
		case *ssa.Extract:
			if call, ok := t.Tuple.(*ssa.Call); ok {
				aa.applySummary(call, t.Index, visit, out)
			}
		default:
			out["opaque:"+x.Name()] = true
		}
	}
	visit(v)
	return out
}

func (aa *AliasAnalyzer) applySummary(call *ssa.Call, res int, visit func(ssa.Value), out map[string]bool) {
	callee := call.Call.StaticCallee()
	if callee == nil || callee.Blocks == nil {
		out["opaque:"+call.Name()] = true
		return
	}
	s := aa.Summary(callee)
	if s == nil {
		out["opaque:"+call.Name()] = true
		return
	}
	if len(s[res]) == 0 {
		out["fresh:"+call.Name()] = true
		return
	}
	for pi := range s[res] {
		if pi < len(call.Call.Args) {
			visit(call.Call.Args[pi])
		}
	}
}
