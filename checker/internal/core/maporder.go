package core

import (
	"fmt"
	"go/token"
	"go/types"
	"strings"

	"golang.org/x/tools/go/ssa"
)

// MapLoop is a `for k, v := range m` loop over a map.
type MapLoop struct {
	edgeConds []Cond // conditions known on the phi edge being classified
	Fn        *ssa.Function
	Loop      *Loop
	Range     *ssa.Range
	Next      *ssa.Next
	Key       ssa.Value // may be nil
	Val       ssa.Value // may be nil
}

// MapLoops lists the loops of fn that range over a map.
func MapLoops(fn *ssa.Function) []*MapLoop {
	var out []*MapLoop
	for _, l := range Loops(fn) {
		for _, in := range l.Header.Instrs {
			n, ok := in.(*ssa.Next)
			if !ok {
				continue
			}
			r, ok := n.Iter.(*ssa.Range)
			if !ok {
				continue
			}
			if _, isMap := r.X.Type().Underlying().(*types.Map); !isMap {
				continue
			}
			ml := &MapLoop{Fn: fn, Loop: l, Range: r, Next: n}
			for _, ref := range *n.Referrers() {
				if e, ok := ref.(*ssa.Extract); ok {
					switch e.Index {
					case 1:
						ml.Key = e
					case 2:
						ml.Val = e
					}
				}
			}
			out = append(out, ml)
		}
	}
	return out
}

// OrderIssue is an effect of a map-range loop body that may depend on iteration order.
type OrderIssue struct {
	Kind   string // stable kind used in exception tables
	Pos    token.Pos
	Detail string
}

// OrderOpts configures the classifier.
type OrderOpts struct {
	// PureCall reports callees known not to write anything but their own result / iteration-local data.
	PureCall func(d Desc) bool
	EA       *EffectAnalyzer
}

func (ml *MapLoop) inLoop(v ssa.Value) bool {
	in, ok := v.(ssa.Instruction)
	if !ok {
		return false
	}
	return ml.Loop.Body[in.Block()]
}

// iterLocal: defined inside the loop and not a loop-carried header phi.
func (ml *MapLoop) iterLocal(v ssa.Value) bool {
	if !ml.inLoop(v) {
		return false
	}
	if p, ok := v.(*ssa.Phi); ok && p.Block() == ml.Loop.Header {
		return false
	}
	return true
}

func isRangeKey(ml *MapLoop, v ssa.Value) bool {
	for {
		if ml.Key != nil && v == ml.Key {
			return true
		}
		switch x := v.(type) {
		case *ssa.Convert:
			v = x.X
		case *ssa.ChangeType:
			v = x.X
		case *ssa.MakeInterface:
			v = x.X
		default:
			return false
		}
	}
}

var commutativeOps = map[token.Token]bool{token.ADD: true, token.OR: true, token.AND: true, token.XOR: true, token.MUL: true}

// tracesTo reports whether v is p, possibly through phis defined inside the loop.
func tracesTo(v ssa.Value, p ssa.Value, seen map[ssa.Value]bool) bool {
	if v == p {
		return true
	}
	if seen[v] {
		return false
	}
	seen[v] = true
	if ph, ok := v.(*ssa.Phi); ok {
		for _, e := range ph.Edges {
			if tracesTo(e, p, seen) {
				return true
			}
		}
	}
	return false
}

// Issues classifies the effects of the loop body that survive an iteration.
func (ml *MapLoop) Issues(o OrderOpts) []OrderIssue {
	var out []OrderIssue
	add := func(kind string, pos token.Pos, f string, a ...interface{}) {
		out = append(out, OrderIssue{kind, pos, fmt.Sprintf(f, a...)})
	}
	l := ml.Loop
	// ---- loop-carried phis
	for _, in := range l.Header.Instrs {
		p, ok := in.(*ssa.Phi)
		if !ok {
			continue
		}
		if ml.neverObserved(p) {
			continue // reset in every iteration before use and dead after the loop
		}
		for i, e := range p.Edges {
			pred := l.Header.Preds[i]
			if !l.Body[pred] {
				continue // initial value
			}
			ml.edgeConds = CondsOnEdgeTo(pred, l.Header)
			ml.classifyCarried(p, e, 0, add, o)
		}
	}
	// ---- instructions of the body
	for b := range l.Body {
		for _, in := range b.Instrs {
			switch x := in.(type) {
			case *ssa.Store:
				root := rootAddr(x.Addr)
				if a, ok := root.(*ssa.Alloc); ok {
					if ml.inLoop(a) {
						continue
					}
					// outer address-taken variable: commutative accumulation only
					if bo, ok := x.Val.(*ssa.BinOp); ok && commutativeOps[bo.Op] {
						if u, ok := bo.X.(*ssa.UnOp); ok && u.Op == token.MUL && sameAddr(u.X, x.Addr) {
							continue
						}
					}
					if _, isConst := x.Val.(*ssa.Const); isConst {
						continue // idempotent flag
					}
					if call, ok := x.Val.(*ssa.Call); ok {
						if bi, ok := call.Call.Value.(*ssa.Builtin); ok && bi.Name() == "append" {
							if u, ok := call.Call.Args[0].(*ssa.UnOp); ok && u.Op == token.MUL && u.X == ssa.Value(a) {
								ml.checkAllocSliceCanonicalised(a, add)
								continue
							}
						}
					}
					add("store-outer-var", x.Pos(), "store to variable %s declared outside the loop: last writer wins", a.Comment)
					continue
				}
				if ml.iterLocal(root) || ml.derivedFromElem(root) {
					continue // distinct object per iteration
				}
				if ia, ok := x.Addr.(*ssa.IndexAddr); ok {
					if hp, ok := ia.Index.(*ssa.Phi); ok && hp.Block() == l.Header {
						continue // counter-indexed fill: decided with the counter (must be sorted before use)
					}
				}
				if _, isConst := x.Val.(*ssa.Const); isConst {
					continue // idempotent flag / reset to a constant
				}
				if ml.guardedExtremumStore(x) {
					continue // running min/max over the unique range key, with its payload
				}
				add("store-outer-memory", x.Pos(), "store through %s, which is not local to the iteration", ExprKey(root))
			case *ssa.MapUpdate:
				if ml.iterLocal(x.Map) {
					continue
				}
				if isRangeKey(ml, x.Key) {
					continue // distinct cell per iteration
				}
				if _, isConst := x.Value.(*ssa.Const); isConst {
					continue // set insertion: idempotent and commutative
				}
				if st, ok := x.Value.(*ssa.Alloc); ok && ml.inLoop(st) {
					_ = st
				}
				if isZeroStruct(x.Value) {
					continue
				}
				// m[x] = m[x] (+) y
				if bo, ok := x.Value.(*ssa.BinOp); ok && commutativeOps[bo.Op] {
					if lk, ok := bo.X.(*ssa.Lookup); ok && lk.X == x.Map && ExprKey(lk.Index) == ExprKey(x.Key) {
						continue
					}
				}
				if call, ok := x.Value.(*ssa.Call); ok {
					if bi, ok := call.Call.Value.(*ssa.Builtin); ok && bi.Name() == "append" {
						add("map-append-in-order", x.Pos(), "%s[%s] = append(...): the per-key list is built in map iteration order", ExprKey(x.Map), ExprKey(x.Key))
						continue
					}
				}
				add("map-store-nonunique-key", x.Pos(), "%s[%s] = …: the key is not the range key, so the last iteration to write it wins", ExprKey(x.Map), ExprKey(x.Key))
			case *ssa.Send:
				add("send", x.Pos(), "channel send inside a map-range loop: delivery order follows map order")
			case *ssa.Go:
				add("go", x.Pos(), "goroutine spawned per map element")
			}
			cc := CallOf(in)
			if cc == nil {
				continue
			}
			if _, isGo := in.(*ssa.Go); isGo {
				continue
			}
			ml.classifyCall(in, cc, add, o)
		}
	}
	// ---- early exits
	for _, e := range l.Exits() {
		if e.From == l.Header {
			continue
		}
		to := e.From.Succs[e.Succ]
		if OnlyErrorReturnsFrom(to, e.From, l) {
			continue
		}
		// an exit from an inner loop's header that stays inside this loop is not an exit (Exits handles); this one leaves
		add("early-exit", firstPosOf(to), "the loop can be left before all elements were seen (break/return): which element triggers it depends on map order")
	}
	return out
}

// neverObserved: the loop-carried value of p is never read: every (transitive, through phis)
// referrer is a phi feeding back into loop-carried phis.
func (ml *MapLoop) neverObserved(p *ssa.Phi) bool {
	seen := map[ssa.Value]bool{}
	var dead func(v ssa.Value) bool
	dead = func(v ssa.Value) bool {
		if seen[v] {
			return true
		}
		seen[v] = true
		for _, r := range *v.Referrers() {
			switch x := r.(type) {
			case *ssa.Phi:
				if !dead(x) {
					return false
				}
			case *ssa.DebugRef:
			default:
				return false
			}
		}
		return true
	}
	return dead(p)
}

// guardedExtremumStore: a store into an object declared outside the loop is order-independent
// when it is the update of a running minimum/maximum over the unique range key: the block is
// controlled by a strict comparison between the range key and a field of that same object.
func (ml *MapLoop) guardedExtremumStore(st *ssa.Store) bool {
	root := rootAddr(st.Addr)
	for _, cd := range CondsAt(st.Block()) {
		if !ml.Loop.Body[cd.If.Block()] {
			continue
		}
		b, ok := cd.V.(*ssa.BinOp)
		if !ok || (b.Op != token.LSS && b.Op != token.GTR) {
			continue
		}
		for _, pair := range [][2]ssa.Value{{b.X, b.Y}, {b.Y, b.X}} {
			if !isRangeKey(ml, pair[0]) {
				continue
			}
			if u, ok := pair[1].(*ssa.UnOp); ok && u.Op == token.MUL && rootAddr(u.X) == root {
				return true
			}
		}
	}
	return false
}

func firstPosOf(b *ssa.BasicBlock) token.Pos {
	for _, in := range b.Instrs {
		if in.Pos().IsValid() {
			return in.Pos()
		}
	}
	return token.NoPos
}

func isZeroStruct(v ssa.Value) bool {
	if c, ok := v.(*ssa.Const); ok {
		return c.Value == nil
	}
	if u, ok := v.(*ssa.UnOp); ok && u.Op == token.MUL {
		if a, ok := u.X.(*ssa.Alloc); ok {
			if st, ok := a.Type().(*types.Pointer).Elem().Underlying().(*types.Struct); ok && st.NumFields() == 0 {
				return true
			}
		}
	}
	return false
}

// derivedFromElem: the address/value is reached from the range value or a lookup by range key.
func (ml *MapLoop) derivedFromElem(v ssa.Value) bool {
	return ml.derivedFromElemS(v, map[ssa.Value]bool{})
}

func (ml *MapLoop) derivedFromElemS(v ssa.Value, seen map[ssa.Value]bool) bool {
	for i := 0; i < 20; i++ {
		if seen[v] {
			return false
		}
		seen[v] = true
		if v == ml.Val && ml.Val != nil {
			return true
		}
		switch x := v.(type) {
		case *ssa.FieldAddr:
			v = x.X
		case *ssa.IndexAddr:
			v = x.X
		case *ssa.UnOp:
			v = x.X
		case *ssa.Field:
			v = x.X
		case *ssa.Index:
			v = x.X
		case *ssa.Lookup:
			if isRangeKey(ml, x.Index) {
				return true
			}
			return false
		case *ssa.Extract:
			v = x.Tuple
		case *ssa.Phi:
			// inner-loop induction over the element's slice
			for _, e := range x.Edges {
				if ml.derivedFromElemS(e, seen) {
					return true
				}
			}
			return false
		case *ssa.Call:
			// result of a call all of whose pointer-like inputs are the element
			return false
		default:
			return false
		}
	}
	return false
}

func (ml *MapLoop) classifyCarried(p *ssa.Phi, e ssa.Value, depth int, add func(string, token.Pos, string, ...interface{}), o OrderOpts) {
	if depth > 8 {
		add("carried-opaque", p.Pos(), "loop-carried variable %s updated in a way the classifier cannot follow", p.Comment)
		return
	}
	if e == ssa.Value(p) {
		return
	}
	switch x := e.(type) {
	case *ssa.Const:
		return // flag set to a constant
	case *ssa.BinOp:
		if commutativeOps[x.Op] && (tracesTo(x.X, p, map[ssa.Value]bool{}) || tracesTo(x.Y, p, map[ssa.Value]bool{})) {
			if isStringType(x.Type()) {
				add("carried-string-concat", x.Pos(), "string concatenation into %s in map order", p.Comment)
			}
			ml.checkIntermediateUnused(p, x, add)
			return
		}
		if x.Op == token.SUB && tracesTo(x.X, p, map[ssa.Value]bool{}) {
			ml.checkIntermediateUnused(p, x, add)
			return // acc -= y
		}
	case *ssa.Phi:
		if !ml.Loop.Body[x.Block()] {
			break
		}
		// conditional update: every edge is either "unchanged" or a new value
		for i, ee := range x.Edges {
			if i < len(x.Block().Preds) {
				ml.edgeConds = CondsOnEdgeTo(x.Block().Preds[i], x.Block())
			}
			ml.classifyCarried2(p, x, ee, depth+1, add, o)
		}
		return
	case *ssa.Call:
		if bi, ok := x.Call.Value.(*ssa.Builtin); ok && bi.Name() == "append" && tracesTo(x.Call.Args[0], p, map[ssa.Value]bool{}) {
			ml.checkSliceCanonicalised(p, add, o)
			ml.checkIntermediateUnused(p, x, add)
			return
		}
	}
	ml.conditionalOrOpaque(p, e, add)
}

func (ml *MapLoop) classifyCarried2(p *ssa.Phi, merge *ssa.Phi, e ssa.Value, depth int, add func(string, token.Pos, string, ...interface{}), o OrderOpts) {
	if tracesTo(e, p, map[ssa.Value]bool{}) && e == ssa.Value(p) {
		return
	}
	ml.classifyCarried(p, e, depth, add, o)
}

// conditionalOrOpaque handles `if cond { x = candidate }` updates: extremum selection is fine
// when the comparison is between the carried variable (or a sibling carried variable updated on
// the same edges) and a quantity of the current element.
func (ml *MapLoop) conditionalOrOpaque(p *ssa.Phi, e ssa.Value, add func(string, token.Pos, string, ...interface{})) {
	conds := append([]Cond{}, ml.edgeConds...)
	if in, ok := e.(ssa.Instruction); ok && ml.Loop.Body[in.Block()] {
		conds = append(conds, CondsAt(in.Block())...)
	}
	// runningOf: v is a loop-carried header phi, or a field read through one
	runningOf := func(v ssa.Value) *ssa.Phi {
		for i := 0; i < 6; i++ {
			if hp, ok := v.(*ssa.Phi); ok && hp.Block() == ml.Loop.Header {
				return hp
			}
			switch x := v.(type) {
			case *ssa.UnOp:
				v = x.X
			case *ssa.FieldAddr:
				v = x.X
			case *ssa.Field:
				v = x.X
			default:
				return nil
			}
		}
		return nil
	}
	for _, cd := range conds {
		if !ml.Loop.Body[cd.If.Block()] {
			continue
		}
		b, ok := cd.V.(*ssa.BinOp)
		if !ok {
			continue
		}
		switch b.Op {
		case token.LSS, token.GTR, token.LEQ, token.GEQ:
		default:
			continue
		}
		for _, pair := range [][2]ssa.Value{{b.X, b.Y}, {b.Y, b.X}} {
			hp := runningOf(pair[0])
			if hp == nil {
				continue
			}
			other := pair[1]
			if isRangeKey(ml, other) {
				return // selection by the unique range key: the extremum and its payload are order-independent
			}
			if hp == p && (other == e || ExprKey(other) == ExprKey(e)) {
				return // running min/max of a quantity
			}
			add("extremum-payload-tie", posOf(e, p), "%s is updated under a min/max comparison whose compared quantity is not the unique range key: ties are broken by map order", p.Comment)
			return
		}
	}
	add("carried-last-writer", posOf(e, p), "loop-carried variable %s takes a value from the current element (%s): the last element seen wins", p.Comment, ExprKey(e))
}

// checkIntermediateUnused: the running value of an accumulator depends on the visiting order, so
// inside the loop it may feed only its own update (and the phis that merge it).
func (ml *MapLoop) checkIntermediateUnused(p *ssa.Phi, update ssa.Value, add func(string, token.Pos, string, ...interface{})) {
	seen := map[ssa.Value]bool{}
	var visit func(v ssa.Value)
	visit = func(v ssa.Value) {
		if seen[v] {
			return
		}
		seen[v] = true
		refs := v.Referrers()
		if refs == nil {
			return
		}
		for _, r := range *refs {
			if !ml.Loop.Body[r.Block()] {
				continue
			}
			if rv, ok := r.(ssa.Value); ok && rv == update {
				continue
			}
			switch x := r.(type) {
			case *ssa.Phi:
				if x != p {
					visit(x)
				}
				continue
			case *ssa.DebugRef:
				continue
			case *ssa.BinOp:
				// another accumulation step of the same variable (acc += a; acc += b)
				if (commutativeOps[x.Op] || x.Op == token.SUB) && tracesTo(update, x, map[ssa.Value]bool{}) {
					continue
				}
			}
			if cc := CallOf(r); cc != nil {
				if bi, ok := cc.Value.(*ssa.Builtin); ok && bi.Name() == "append" && len(cc.Args) > 0 && cc.Args[0] == v {
					continue // the append that extends the slice
				}
			}
			// counter-indexed fill of a slice that is sorted before any other use
			if ia, ok := r.(*ssa.IndexAddr); ok && ia.Index == v {
				onlyStores := true
				for _, rr := range *ia.Referrers() {
					if st, ok := rr.(*ssa.Store); !ok || st.Addr != ssa.Value(ia) {
						onlyStores = false
					}
				}
				if onlyStores {
					if u, ok := ia.X.(*ssa.UnOp); ok && u.Op == token.MUL {
						if a, ok := u.X.(*ssa.Alloc); ok && !ml.inLoop(a) {
							ml.checkAllocSliceCanonicalised(a, add)
							continue
						}
					}
					if ms, ok := ia.X.(*ssa.MakeSlice); ok && !ml.inLoop(ms) {
						ml.checkValueSliceCanonicalised(ms, add)
						continue
					}
				}
			}
			add("accumulator-intermediate-used", r.Pos(), "the running value of %s (which depends on the order elements are visited in) is used inside the loop by `%s`", p.Comment, r.String())
			return
		}
	}
	visit(p)
}

func posOf(e ssa.Value, p *ssa.Phi) token.Pos {
	if e.Pos().IsValid() {
		return e.Pos()
	}
	return p.Pos()
}

func isStringType(t types.Type) bool {
	b, ok := t.Underlying().(*types.Basic)
	return ok && b.Info()&types.IsString != 0
}

// checkSliceCanonicalised: a slice appended to in map order must be sorted before any
// order-sensitive use after the loop, or be used only through len.
func (ml *MapLoop) checkSliceCanonicalised(p *ssa.Phi, add func(string, token.Pos, string, ...interface{}), o OrderOpts) {
	var sorts []ssa.Instruction
	var others []ssa.Instruction
	var visit func(v ssa.Value, depth int)
	seen := map[ssa.Value]bool{}
	visit = func(v ssa.Value, depth int) {
		if seen[v] || depth > 6 {
			return
		}
		seen[v] = true
		refs := v.Referrers()
		if refs == nil {
			return
		}
		for _, r := range *refs {
			if ml.Loop.Body[r.Block()] {
				continue // uses inside the loop (the append itself)
			}
			switch x := r.(type) {
			case *ssa.Phi:
				visit(x, depth+1)
				continue
			case *ssa.MakeInterface:
				visit(x, depth+1)
				continue
			case *ssa.ChangeType:
				visit(x, depth+1)
				continue
			case *ssa.DebugRef:
				continue
			case *ssa.MakeClosure:
				// captured by a sort comparator
				continue
			}
			if cc := CallOf(r); cc != nil {
				d := CallDesc(cc)
				if d.Pkg == "builtin" && (d.Name == "len" || d.Name == "cap") {
					continue
				}
				if d.Pkg == "sort" {
					sorts = append(sorts, r)
					continue
				}
			}
			others = append(others, r)
		}
	}
	visit(p, 0)
	for _, u := range others {
		ok := false
		for _, s := range sorts {
			if DominatesInstr(s, u) {
				ok = true
			}
		}
		if !ok {
			add("slice-in-map-order", u.Pos(), "slice %s is filled in map iteration order and used here before being sorted", p.Comment)
			return
		}
	}
}

// checkValueSliceCanonicalised: a slice value filled inside the loop must be sorted before any
// other use after the loop.
func (ml *MapLoop) checkValueSliceCanonicalised(sv ssa.Value, add func(string, token.Pos, string, ...interface{})) {
	var sorts, others []ssa.Instruction
	for _, r := range *sv.Referrers() {
		if ml.Loop.Body[r.Block()] {
			continue
		}
		if _, ok := r.(*ssa.DebugRef); ok {
			continue
		}
		if mi, ok := r.(*ssa.MakeInterface); ok {
			for _, r3 := range *mi.Referrers() {
				if cc := CallOf(r3); cc != nil && CallDesc(cc).Pkg == "sort" {
					sorts = append(sorts, r3)
				} else {
					others = append(others, r3)
				}
			}
			continue
		}
		if cc := CallOf(r); cc != nil {
			d := CallDesc(cc)
			if d.Pkg == "builtin" && (d.Name == "len" || d.Name == "cap") {
				continue
			}
			if d.Pkg == "sort" {
				sorts = append(sorts, r)
				continue
			}
		}
		if _, ok := r.(*ssa.MakeClosure); ok {
			continue
		}
		others = append(others, r)
	}
	for _, u := range others {
		ok := false
		for _, s := range sorts {
			if DominatesInstr(s, u) {
				ok = true
			}
		}
		if !ok {
			add("slice-in-map-order", u.Pos(), "slice %s is filled in map iteration order and used here before being sorted", sv.Name())
			return
		}
	}
}

// checkAllocSliceCanonicalised is checkSliceCanonicalised for a slice variable that lives in an
// allocation (captured by a closure, typically the sort comparator).
func (ml *MapLoop) checkAllocSliceCanonicalised(a *ssa.Alloc, add func(string, token.Pos, string, ...interface{})) {
	var sorts, others []ssa.Instruction
	for _, r := range *a.Referrers() {
		if ml.Loop.Body[r.Block()] {
			continue
		}
		switch x := r.(type) {
		case *ssa.MakeClosure, *ssa.DebugRef:
			continue
		case *ssa.Store:
			if x.Addr == ssa.Value(a) && !ml.Loop.Header.Dominates(x.Block()) {
				continue // initialisation before the loop
			}
			others = append(others, r)
		case *ssa.UnOp:
			for _, rr := range *x.Referrers() {
				if mi, ok := rr.(*ssa.MakeInterface); ok {
					for _, r3 := range *mi.Referrers() {
						if cc := CallOf(r3); cc != nil && CallDesc(cc).Pkg == "sort" {
							sorts = append(sorts, r3)
						} else {
							others = append(others, r3)
						}
					}
					continue
				}
				if cc := CallOf(rr); cc != nil {
					d := CallDesc(cc)
					if d.Pkg == "builtin" && (d.Name == "len" || d.Name == "cap") {
						continue
					}
					if d.Pkg == "sort" {
						sorts = append(sorts, rr)
						continue
					}
				}
				others = append(others, rr)
			}
		default:
			others = append(others, r)
		}
	}
	for _, u := range others {
		ok := false
		for _, s := range sorts {
			if DominatesInstr(s, u) {
				ok = true
			}
		}
		if !ok {
			add("slice-in-map-order", u.Pos(), "slice %s is filled in map iteration order and used here before being sorted", a.Comment)
			return
		}
	}
}

func (ml *MapLoop) classifyCall(in ssa.Instruction, cc *ssa.CallCommon, add func(string, token.Pos, string, ...interface{}), o OrderOpts) {
	d := CallDesc(cc)
	if d.Pkg == "builtin" {
		if d.Name == "delete" {
			return
		}
		if d.Name == "copy" && !ml.iterLocal(rootAddr(cc.Args[0])) && !ml.derivedFromElem(cc.Args[0]) {
			add("copy-outer", in.Pos(), "copy into memory that is not local to the iteration")
		}
		return
	}
	if o.PureCall != nil && o.PureCall(d) {
		return
	}
	callee := cc.StaticCallee()
	if callee == nil || callee.Blocks == nil {
		// dynamic or external: pure by table only
		if isKnownPure(d) {
			return
		}
		// a method invoked on the current element is confined to that element
		if cc.IsInvoke() && (ml.iterLocal(cc.Value) || ml.derivedFromElem(cc.Value)) && allArgsLocal(ml, cc.Args) {
			return
		}
		add("opaque-call", in.Pos(), "call to %s whose effects are not known", d.String())
		return
	}
	if o.EA == nil {
		return
	}
	for i, a := range cc.Args {
		if !pointerLike(a.Type()) {
			continue
		}
		if ml.iterLocal(a) && (ml.derivedFromElem(a) || isFreshValue(a)) {
			continue
		}
		for _, e := range o.EA.OfParam(callee, i) {
			if e.Write {
				add("callee-writes-outer", in.Pos(), "%s writes through argument %d (%s), which is shared across iterations: %s", FuncName(callee), i, ExprKey(a), e.What)
				break
			}
		}
	}
	// closures called in the loop: free variables
	if mc, ok := cc.Value.(*ssa.MakeClosure); ok {
		_ = mc
		add("closure-call", in.Pos(), "closure invoked per element")
	}
}

func allArgsLocal(ml *MapLoop, args []ssa.Value) bool {
	for _, a := range args {
		if !pointerLike(a.Type()) {
			continue
		}
		if _, isConst := a.(*ssa.Const); isConst {
			continue
		}
		if !(ml.iterLocal(a) || ml.derivedFromElem(a)) {
			return false
		}
	}
	return true
}

func isFreshValue(v ssa.Value) bool {
	switch x := v.(type) {
	case *ssa.Alloc, *ssa.MakeSlice, *ssa.MakeMap:
		return true
	case *ssa.Slice:
		return isFreshValue(x.X)
	case *ssa.Convert:
		return true
	}
	return false
}

func isKnownPure(d Desc) bool {
	switch d.Pkg {
	case "fmt", "strings", "bytes", "strconv", "encoding/hex", "math", "math/big", "errors", "sort", "encoding/binary", "sync", "sync/atomic":
		return true
	case "github.com/ElrondNetwork/elrond-go-logger":
		return true
	}
	if d.Recv == "Logger" {
		return true
	}
	switch d.Name {
	case "PubKey", "Chances", "Index", "Bytes", "String", "Len", "IsInterfaceNil", "Compute", "Size", "GetShardID", "GetList", "GetPublicKey", "GetIndex",
		"GetTempRating", "GetRating", "GetRewardAddress", "Error", "Trace", "Debug", "Info", "Warn", "LogIfError", "GetChance", "GetLevel":
		return true
	}
	if strings.HasPrefix(d.Name, "Get") && d.Recv != "" {
		return true
	}
	return false
}
