package core

import (
	"fmt"
	"go/token"
	"go/types"
	"sort"
	"strings"

	"golang.org/x/tools/go/ssa"
)

// WriteBack is the typestate analysis "a persistent record that was modified is written back":
// in a package whose state lives in a key-value store, records are loaded by getter functions
// (GetStorage + Unmarshal, returning *T) and persisted by saver functions (Marshal of a *T
// parameter + SetStorage). A record value is Clean when loaded, Dirty after one of its fields is
// written (directly, through a *big.Int it points to, through an element of a slice it holds, or
// by a callee that leaves its parameter dirty) and Clean again after it is handed to a saver. On
// a path that ends in a success return the record must not be Dirty, unless the function hands
// the record back to its caller (returns it, or received it as a parameter: then the caller
// inherits the obligation through the callee's summary).
type WriteBack struct {
	Pkg      *ssa.Package
	Funcs    []*ssa.Function
	savers   map[*ssa.Function]map[int]bool // param indexes persisted on every success path
	dirties  map[*ssa.Function]map[int]bool // param indexes possibly left dirty at a success return
	recTypes map[string]bool                // named struct types that have a saver
	done     map[*ssa.Function]bool
	busy     map[*ssa.Function]bool
	Findings map[*ssa.Function][]WBFinding
	Checked  map[*ssa.Function][]string // records (by expression and type) with at least one mutation that were checked
}

// WBFinding is one record left dirty at a success return.
type WBFinding struct {
	Type        string
	SavedBefore bool // a save of the same record dominates the mutation: what is persisted is the state before it
	Record      string
	Mutation    ssa.Instruction
	Return      ssa.Instruction
	Path        []*ssa.BasicBlock
	What        string
}

func NewWriteBack(pkg *ssa.Package, funcs []*ssa.Function) *WriteBack {
	wb := &WriteBack{Pkg: pkg, Funcs: funcs, savers: map[*ssa.Function]map[int]bool{}, dirties: map[*ssa.Function]map[int]bool{},
		recTypes: map[string]bool{}, done: map[*ssa.Function]bool{}, busy: map[*ssa.Function]bool{}, Findings: map[*ssa.Function][]WBFinding{}, Checked: map[*ssa.Function][]string{}}
	// primitive savers: marshal a pointer parameter and SetStorage
	for _, fn := range funcs {
		for i, p := range fn.Params {
			name := recordTypeName(p.Type())
			if name == "" {
				continue
			}
			marshals, sets := false, false
			Instrs(fn, func(in ssa.Instruction) {
				cc := CallOf(in)
				if cc == nil {
					return
				}
				if cc.IsInvoke() && cc.Method.Name() == "Marshal" && len(cc.Args) == 1 {
					if mi, ok := cc.Args[0].(*ssa.MakeInterface); ok && mi.X == ssa.Value(p) {
						marshals = true
					}
				}
				if cc.IsInvoke() && cc.Method.Name() == "SetStorage" {
					sets = true
				}
			})
			if marshals && sets {
				if wb.savers[fn] == nil {
					wb.savers[fn] = map[int]bool{}
				}
				wb.savers[fn][i] = true
				wb.recTypes[name] = true
			}
		}
	}
	return wb
}

// RecordTypes lists the struct types that have a saver.
func (wb *WriteBack) RecordTypes() []string {
	var out []string
	for k := range wb.recTypes {
		out = append(out, k)
	}
	sort.Strings(out)
	return out
}

func recordTypeName(t types.Type) string {
	pt, ok := t.Underlying().(*types.Pointer)
	if !ok {
		return ""
	}
	n, ok := pt.Elem().(*types.Named)
	if !ok {
		return ""
	}
	if _, isStruct := n.Underlying().(*types.Struct); !isStruct {
		return ""
	}
	return n.Obj().Name()
}

func (wb *WriteBack) isRecord(v ssa.Value) bool {
	return wb.recTypes[recordTypeName(v.Type())]
}

// recordOf resolves the record a field address / loaded sub-object belongs to.
func (wb *WriteBack) recordOf(v ssa.Value) ssa.Value {
	for i := 0; i < 8; i++ {
		switch x := v.(type) {
		case *ssa.FieldAddr:
			if wb.isRecord(x.X) {
				return x.X
			}
			v = x.X
		case *ssa.IndexAddr:
			v = x.X
		case *ssa.UnOp:
			if x.Op != token.MUL {
				return nil
			}
			v = x.X
		case *ssa.Slice:
			v = x.X
		default:
			return nil
		}
	}
	return nil
}

var bigMutators = map[string]bool{"Add": true, "Sub": true, "Mul": true, "Div": true, "Mod": true, "Set": true, "SetUint64": true, "SetInt64": true,
	"SetBytes": true, "SetString": true, "Neg": true, "Abs": true, "Quo": true, "Rem": true, "Lsh": true, "Rsh": true, "Exp": true}

// summarize computes, for fn, which record parameters it persists on every success path and
// which it may leave dirty, and records findings for records it owns.
func (wb *WriteBack) summarize(fn *ssa.Function) {
	if wb.done[fn] || wb.busy[fn] || len(fn.Blocks) == 0 {
		return
	}
	wb.busy[fn] = true
	defer func() { wb.busy[fn] = false; wb.done[fn] = true }()
	// callees first
	Instrs(fn, func(in ssa.Instruction) {
		if cc := CallOf(in); cc != nil {
			if g := cc.StaticCallee(); g != nil && g.Pkg == wb.Pkg {
				wb.summarize(g)
			}
		}
	})
	isSuccess := func(in ssa.Instruction, pred *ssa.BasicBlock) bool {
		r, ok := in.(*ssa.Return)
		if !ok {
			return false
		}
		if ErrIndex(fn.Signature) >= 0 {
			return SuccessReturn(r, pred)
		}
		// vmcommon.ReturnCode: Ok is 0
		for i := 0; i < fn.Signature.Results().Len(); i++ {
			if strings.HasSuffix(fn.Signature.Results().At(i).Type().String(), "ReturnCode") {
				v := r.Results[i]
				if n, isC := ConstInt(v); isC {
					return n == 0
				}
				// `if code != Ok { return code }`: the value returned is known not to be Ok
				for _, cd := range CondsAt(r.Block()) {
					bo, ok := cd.V.(*ssa.BinOp)
					if !ok || bo.Op != token.NEQ && bo.Op != token.EQL {
						continue
					}
					var other ssa.Value
					if sameValue(bo.X, v) {
						other = bo.Y
					} else if sameValue(bo.Y, v) {
						other = bo.X
					} else {
						continue
					}
					if n, isC := ConstInt(other); isC && n == 0 {
						if bo.Op == token.NEQ && cd.Taken || bo.Op == token.EQL && !cd.Taken {
							return false
						}
					}
				}
				return true
			}
		}
		return true
	}
	type ev struct {
		in   ssa.Instruction
		rec  ssa.Value
		what string
	}
	var muts []ev
	type delEv struct {
		in  ssa.Instruction
		key string
	}
	var deletes []delEv
	saves := map[ssa.Instruction]map[ssa.Value]bool{}
	escapes := map[ssa.Value]bool{}
	addSave := func(in ssa.Instruction, r ssa.Value) {
		if saves[in] == nil {
			saves[in] = map[ssa.Value]bool{}
		}
		saves[in][r] = true
	}
	Instrs(fn, func(in ssa.Instruction) {
		switch x := in.(type) {
		case *ssa.Store:
			if r := wb.recordOf(x.Addr); r != nil {
				muts = append(muts, ev{in, r, "field write " + ExprKey(x.Addr)})
			}
			// a record stored somewhere else escapes
			if wb.isRecord(x.Val) {
				if _, isAlloc := x.Addr.(*ssa.Alloc); !isAlloc {
					escapes[x.Val] = true
				}
			}
		case *ssa.MapUpdate:
			if r := wb.recordOf(x.Map); r != nil {
				muts = append(muts, ev{in, r, "map entry write"})
			}
			if wb.isRecord(x.Value) {
				escapes[x.Value] = true
			}
		case *ssa.Return:
			for _, v := range x.Results {
				if wb.isRecord(v) {
					escapes[v] = true
					if ph, ok := v.(*ssa.Phi); ok {
						for _, e := range ph.Edges {
							escapes[e] = true
						}
					}
				}
			}
		}
		cc := CallOf(in)
		if cc == nil {
			return
		}
		// deleting the record's storage entry is a write-back too
		if cc.IsInvoke() && cc.Method.Name() == "SetStorage" && len(cc.Args) == 2 && IsNilConst(cc.Args[1]) {
			deletes = append(deletes, delEv{in, ExprKey(cc.Args[0])})
		}
		if g := cc.StaticCallee(); g != nil {
			if g.Pkg != nil && g.Pkg.Pkg.Path() == "math/big" && g.Signature.Recv() != nil && bigMutators[g.Name()] && len(cc.Args) > 0 {
				if r := wb.recordOf(cc.Args[0]); r != nil {
					muts = append(muts, ev{in, r, "in-place big.Int " + g.Name() + " on " + ExprKey(cc.Args[0])})
				}
			}
			if g.Pkg == wb.Pkg {
				for i, a := range cc.Args {
					if !wb.isRecord(a) {
						continue
					}
					if wb.savers[g][i] {
						addSave(in, a)
					} else if wb.dirties[g][i] {
						muts = append(muts, ev{in, a, "left modified by " + FuncName(g)})
					}
				}
				return
			}
		}
		// records handed to code outside the package (or to closures/interfaces) escape
		for _, a := range cc.Args {
			if wb.isRecord(a) {
				if g := cc.StaticCallee(); g == nil || g.Pkg != wb.Pkg {
					if !(cc.IsInvoke() && (cc.Method.Name() == "Marshal" || cc.Method.Name() == "Unmarshal")) {
						escapes[a] = true
					}
				}
			}
			if mi, ok := a.(*ssa.MakeInterface); ok && wb.isRecord(mi.X) {
				if !(cc.IsInvoke() && (cc.Method.Name() == "Marshal" || cc.Method.Name() == "Unmarshal")) {
					escapes[mi.X] = true
				}
			}
		}
	})
	// a delete of the storage entry a record was loaded from (or of an entry whose key cannot be
	// related to the record: a record parameter, a getter with a computed key) clears the record
	recs := map[ssa.Value]bool{}
	for _, m := range muts {
		recs[m.rec] = true
	}
	for _, d := range deletes {
		for r := range recs {
			k, known := wb.storageKeyOf(r)
			if !known || k == d.key {
				addSave(d.in, r)
			}
		}
	}
	// a primitive saver persists its parameter by definition
	paramIdx := map[ssa.Value]int{}
	for i, p := range fn.Params {
		paramIdx[p] = i
	}
	// derived savers: a function that hands its record parameter to a saver on every success path
	for i, p := range fn.Params {
		if !wb.isRecord(p) || wb.savers[fn][i] {
			continue
		}
		any := false
		for _, m := range saves {
			if m[p] {
				any = true
			}
		}
		if !any {
			continue
		}
		q := PathQ{Fn: fn, Via: func(in ssa.Instruction) bool { return saves[in][ssa.Value(p)] }, Target: isSuccess}
		if esc, _ := q.Escape(); esc == nil {
			if wb.savers[fn] == nil {
				wb.savers[fn] = map[int]bool{}
			}
			wb.savers[fn][i] = true
		}
	}
	// dirty-at-return
	seen := map[string]bool{}
	checked := map[string]bool{}
	for _, m := range muts {
		if escapes[m.rec] {
			continue
		}
		rec := m.rec
		if _, isParam := paramIdx[rec]; !isParam {
			k := recordTypeName(rec.Type())
			if !checked[k] {
				checked[k] = true
				wb.Checked[fn] = append(wb.Checked[fn], k)
			}
		}
		q := PathQ{Fn: fn, From: m.in, Via: func(in ssa.Instruction) bool { return saves[in][rec] }, Target: isSuccess}
		esc, path := q.Escape()
		if esc == nil {
			continue
		}
		if i, isParam := paramIdx[rec]; isParam {
			if wb.dirties[fn] == nil {
				wb.dirties[fn] = map[int]bool{}
			}
			wb.dirties[fn][i] = true
			continue
		}
		key := fmt.Sprintf("%s|%d", ExprKey(rec), esc.Pos())
		if seen[key] {
			continue
		}
		seen[key] = true
		savedBefore := false
		for in2, m2 := range saves {
			if m2[rec] && DominatesInstr(in2, m.in) {
				savedBefore = true
			}
		}
		wb.Findings[fn] = append(wb.Findings[fn], WBFinding{Record: ExprKey(rec) + " (" + recordTypeName(rec.Type()) + ")", Type: recordTypeName(rec.Type()), Mutation: m.in, Return: esc, Path: path, What: m.what, SavedBefore: savedBefore})
	}
}

// Run analyses every function of the package.
func (wb *WriteBack) Run() {
	for _, fn := range wb.Funcs {
		wb.summarize(fn)
	}
}

// Stats returns the number of savers and of functions that may leave a parameter dirty.
func (wb *WriteBack) Stats() (savers, dirtyHelpers int) {
	for _, m := range wb.savers {
		if len(m) > 0 {
			savers++
		}
	}
	for _, m := range wb.dirties {
		if len(m) > 0 {
			dirtyHelpers++
		}
	}
	return
}

// SaverNames lists the functions recognised as savers.
func (wb *WriteBack) SaverNames() []string {
	var out []string
	for f, m := range wb.savers {
		if len(m) > 0 {
			out = append(out, FuncName(f))
		}
	}
	sort.Strings(out)
	return out
}

// sameValue reports whether two SSA values denote the same value: identical, or loads of the same
// field of the same object with no intervening block (the common `x.Code != Ok { return x.Code }`).
func sameValue(a, b ssa.Value) bool {
	if a == b {
		return true
	}
	return ExprKey(a) == ExprKey(b) && ExprKey(a) != ""
}

// storageKeyOf returns the expression of the storage key a record was loaded under, when the
// record is the result of a getter whose GetStorage key is one of its parameters.
func (wb *WriteBack) storageKeyOf(r ssa.Value) (string, bool) {
	var call *ssa.Call
	switch x := r.(type) {
	case *ssa.Call:
		call = x
	case *ssa.Extract:
		call, _ = x.Tuple.(*ssa.Call)
	}
	if call == nil || call.Call.StaticCallee() == nil {
		return "", false
	}
	g := call.Call.StaticCallee()
	key := ""
	n := 0
	Instrs(g, func(in ssa.Instruction) {
		cc := CallOf(in)
		if cc == nil || !cc.IsInvoke() || cc.Method.Name() != "GetStorage" || len(cc.Args) != 1 {
			return
		}
		n++
		for i, p := range g.Params {
			if cc.Args[0] == ssa.Value(p) && i < len(call.Call.Args) {
				key = ExprKey(call.Call.Args[i])
			}
		}
		if key == "" {
			if _, isParamFree := cc.Args[0].(*ssa.Parameter); !isParamFree {
				key = ExprKey(cc.Args[0]) // a constant key: the same expression at the delete site
			}
		}
	})
	if n != 1 || key == "" {
		return "", false
	}
	return key, true
}

// ReadOnly reports whether the call cone of fn inside the package performs no storage write,
// transfer or nested execution: a view, whose modified records are scratch values.
func (wb *WriteBack) ReadOnly(fn *ssa.Function) bool {
	seen := map[*ssa.Function]bool{}
	var walk func(f *ssa.Function) bool
	walk = func(f *ssa.Function) bool {
		if seen[f] {
			return true
		}
		seen[f] = true
		ok := true
		Instrs(f, func(in ssa.Instruction) {
			cc := CallOf(in)
			if cc == nil || !ok {
				return
			}
			if cc.IsInvoke() {
				switch cc.Method.Name() {
				case "SetStorage", "SetStorageForAddress", "Transfer", "ExecuteOnDestContext", "DeploySystemSC", "SendGlobalSettingToAll", "AddCode":
					ok = false
				}
				return
			}
			if g := cc.StaticCallee(); g != nil && g.Pkg == wb.Pkg && !walk(g) {
				ok = false
			}
		})
		return ok
	}
	return walk(fn)
}

// Saves reports whether fn persists its i-th argument on every success path.
func (wb *WriteBack) Saves(fn *ssa.Function, i int) bool { return wb.savers[fn][i] }
