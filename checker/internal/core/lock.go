package core

import (
	"go/token"
	"go/types"

	"golang.org/x/tools/go/ssa"
)

// Mode is the lock mode held at a program point.
type Mode int

const (
	ModeNone Mode = iota
	ModeR
	ModeW
)

func (m Mode) String() string { return [...]string{"unlocked", "read-locked", "write-locked"}[m] }

// mutexOp recognises sync.Mutex / sync.RWMutex operations on a field; returns the mutex field
// and the operation name.
func mutexOp(in ssa.Instruction) (*types.Var, ssa.Value, string) {
	cc := CallOf(in)
	if cc == nil || cc.IsInvoke() {
		return nil, nil, ""
	}
	d := CallDesc(cc)
	if d.Pkg != "sync" || (d.Recv != "RWMutex" && d.Recv != "Mutex") {
		return nil, nil, ""
	}
	if len(cc.Args) == 0 {
		return nil, nil, ""
	}
	fa, ok := cc.Args[0].(*ssa.FieldAddr)
	if !ok {
		return nil, nil, ""
	}
	return FieldOfAddr(fa), fa.X, d.Name
}

// LockModes computes, for every instruction of fn, the mode in which mutex field `mu` is held
// (intraprocedural forward dataflow; join = weakest; deferred unlocks release at exit only).
// entry is the mode assumed at function entry.
func LockModes(fn *ssa.Function, mu *types.Var, entry Mode) map[ssa.Instruction]Mode {
	res := map[ssa.Instruction]Mode{}
	in := map[*ssa.BasicBlock]Mode{}
	seen := map[*ssa.BasicBlock]bool{}
	if len(fn.Blocks) == 0 {
		return res
	}
	in[fn.Blocks[0]] = entry
	seen[fn.Blocks[0]] = true
	work := []*ssa.BasicBlock{fn.Blocks[0]}
	for len(work) > 0 {
		b := work[0]
		work = work[1:]
		m := in[b]
		for _, i := range b.Instrs {
			res[i] = m
			if _, isDefer := i.(*ssa.Defer); isDefer {
				continue
			}
			if _, isGo := i.(*ssa.Go); isGo {
				continue
			}
			f, _, op := mutexOp(i)
			if f == nil || f != mu {
				continue
			}
			switch op {
			case "Lock":
				m = ModeW
			case "RLock":
				m = ModeR
			case "Unlock", "RUnlock":
				m = ModeNone
			}
		}
		for _, s := range b.Succs {
			if !seen[s] {
				seen[s] = true
				in[s] = m
				work = append(work, s)
			} else if m < in[s] {
				in[s] = m
				work = append(work, s)
			}
		}
	}
	return res
}

// Effect is a read or write of state reachable from a root value.
type Effect struct {
	In    ssa.Instruction
	Write bool
	What  string
}

type effKey struct {
	fn  *ssa.Function
	idx int
}

// EffectAnalyzer computes which instructions read or write memory reachable from a root value
// (a receiver, parameter or loaded field), following package-local callees through parameters.
type EffectAnalyzer struct {
	memo    map[effKey][]Effect
	active  map[effKey]bool
	SameMod bool // follow callees anywhere in the module (default: any function with a body)
}

func NewEffectAnalyzer() *EffectAnalyzer {
	return &EffectAnalyzer{memo: map[effKey][]Effect{}, active: map[effKey]bool{}}
}

// OfParam returns the effects of fn through its idx-th parameter (receiver = 0 for methods).
func (ea *EffectAnalyzer) OfParam(fn *ssa.Function, idx int) []Effect {
	k := effKey{fn, idx}
	if e, ok := ea.memo[k]; ok {
		return e
	}
	if ea.active[k] || fn.Blocks == nil || idx >= len(fn.Params) {
		return nil
	}
	ea.active[k] = true
	e := ea.From(fn, []ssa.Value{fn.Params[idx]})
	delete(ea.active, k)
	ea.memo[k] = e
	return e
}

// From returns the effects in fn on memory reachable from the given root values.
func (ea *EffectAnalyzer) From(fn *ssa.Function, roots []ssa.Value) []Effect {
	derived := map[ssa.Value]bool{}
	for _, r := range roots {
		derived[r] = true
	}
	// propagate derivation to a fixpoint over the function's instructions
	for changed := true; changed; {
		changed = false
		mark := func(v ssa.Value) {
			if !derived[v] {
				derived[v] = true
				changed = true
			}
		}
		Instrs(fn, func(in ssa.Instruction) {
			switch x := in.(type) {
			case *ssa.FieldAddr:
				if derived[x.X] {
					mark(x)
				}
			case *ssa.Field:
				if derived[x.X] && pointerLike(x.Type()) {
					mark(x)
				}
			case *ssa.IndexAddr:
				if derived[x.X] {
					mark(x)
				}
			case *ssa.Index:
				if derived[x.X] && pointerLike(x.Type()) {
					mark(x)
				}
			case *ssa.Lookup:
				if derived[x.X] && (pointerLike(x.Type()) || x.CommaOk) {
					mark(x)
				}
			case *ssa.Extract:
				if derived[x.Tuple] && pointerLike(x.Type()) {
					mark(x)
				}
			case *ssa.UnOp:
				if x.Op == token.MUL && derived[x.X] && pointerLike(x.Type()) {
					mark(x)
				}
			case *ssa.Phi:
				for _, e := range x.Edges {
					if derived[e] {
						mark(x)
					}
				}
			case *ssa.ChangeType:
				if derived[x.X] {
					mark(x)
				}
			case *ssa.Slice:
				if derived[x.X] {
					mark(x)
				}
			case *ssa.Next:
				if derived[x.Iter] {
					mark(x)
				}
			case *ssa.Range:
				if derived[x.X] {
					mark(x)
				}
			}
		})
	}
	var out []Effect
	Instrs(fn, func(in ssa.Instruction) {
		switch x := in.(type) {
		case *ssa.Store:
			if derived[x.Addr] {
				out = append(out, Effect{in, true, "store"})
			}
		case *ssa.MapUpdate:
			if derived[x.Map] {
				out = append(out, Effect{in, true, "map insert"})
			}
		case *ssa.UnOp:
			if x.Op == token.MUL && derived[x.X] {
				out = append(out, Effect{in, false, "load"})
			}
		case *ssa.Lookup:
			if derived[x.X] {
				out = append(out, Effect{in, false, "map lookup"})
			}
		case *ssa.Range:
			if derived[x.X] {
				out = append(out, Effect{in, false, "range"})
			}
		}
		cc := CallOf(in)
		if cc == nil {
			return
		}
		if b, ok := cc.Value.(*ssa.Builtin); ok {
			for _, a := range cc.Args {
				if derived[a] {
					switch b.Name() {
					case "delete":
						out = append(out, Effect{in, true, "map delete"})
					case "len", "cap":
						out = append(out, Effect{in, false, b.Name()})
					case "append", "copy":
						// append(derived, ...) reads; copy(derived, ..) writes when first arg
						w := b.Name() == "copy" && cc.Args[0] == a
						out = append(out, Effect{in, w, b.Name()})
					}
					break
				}
			}
			return
		}
		callee := cc.StaticCallee()
		if callee == nil || callee.Blocks == nil {
			return
		}
		if _, isGo := in.(*ssa.Go); isGo {
			return
		}
		for i, a := range cc.Args {
			if !derived[a] {
				continue
			}
			for _, e := range ea.OfParam(callee, i) {
				w := "reads"
				if e.Write {
					w = "writes"
				}
				out = append(out, Effect{in, e.Write, "call " + FuncName(callee) + " (" + w + ": " + e.What + ")"})
			}
		}
	})
	return out
}

func pointerLike(t types.Type) bool {
	switch u := t.Underlying().(type) {
	case *types.Pointer, *types.Map, *types.Slice, *types.Chan, *types.Interface, *types.Signature:
		return true
	case *types.Struct:
		for i := 0; i < u.NumFields(); i++ {
			if pointerLike(u.Field(i).Type()) {
				return true
			}
		}
	case *types.Tuple:
		for i := 0; i < u.Len(); i++ {
			if pointerLike(u.At(i).Type()) {
				return true
			}
		}
	case *types.Array:
		return pointerLike(u.Elem())
	}
	return false
}

// EntryModes computes, for the given functions, the lock mode of mutex field mu that can be
// assumed at entry: exported functions, functions without callers among fns, goroutine targets
// and function values start unlocked; an unexported function called only with the lock held
// inherits the weakest mode over its call sites (fixpoint).
func EntryModes(fns []*ssa.Function, mu *types.Var) map[*ssa.Function]Mode {
	set := map[*ssa.Function]bool{}
	for _, f := range fns {
		set[f] = true
	}
	entry := map[*ssa.Function]Mode{}
	called := map[*ssa.Function]bool{}
	escapes := map[*ssa.Function]bool{}
	for _, f := range fns {
		Instrs(f, func(in ssa.Instruction) {
			if cc := CallOf(in); cc != nil {
				if g := cc.StaticCallee(); g != nil && set[g] {
					if _, isGo := in.(*ssa.Go); isGo {
						escapes[g] = true
					} else {
						called[g] = true
					}
				}
				for _, a := range cc.Args {
					if g, ok := a.(*ssa.Function); ok && set[g] {
						escapes[g] = true
					}
					if mc, ok := a.(*ssa.MakeClosure); ok {
						if g, ok := mc.Fn.(*ssa.Function); ok {
							escapes[g] = true
						}
					}
				}
				if mc, ok := cc.Value.(*ssa.MakeClosure); ok {
					if g, ok := mc.Fn.(*ssa.Function); ok && set[g] {
						if _, isGo := in.(*ssa.Go); isGo {
							escapes[g] = true
						} else {
							called[g] = true
						}
					}
				}
			}
			if st, ok := in.(*ssa.Store); ok {
				if g, ok := st.Val.(*ssa.Function); ok {
					escapes[g] = true
				}
			}
		})
	}
	exported := func(f *ssa.Function) bool {
		if f.Parent() != nil {
			return false
		}
		return token.IsExported(f.Name())
	}
	for _, f := range fns {
		if exported(f) || !called[f] || escapes[f] {
			entry[f] = ModeNone
		} else {
			entry[f] = ModeW
		}
	}
	for changed := true; changed; {
		changed = false
		for _, f := range fns {
			modes := LockModes(f, mu, entry[f])
			Instrs(f, func(in ssa.Instruction) {
				cc := CallOf(in)
				if cc == nil {
					return
				}
				var g *ssa.Function
				if sc := cc.StaticCallee(); sc != nil {
					g = sc
				} else if mc, ok := cc.Value.(*ssa.MakeClosure); ok {
					g, _ = mc.Fn.(*ssa.Function)
				}
				if g == nil || !set[g] {
					return
				}
				if _, isGo := in.(*ssa.Go); isGo {
					return
				}
				m := modes[in]
				if m < entry[g] {
					entry[g] = m
					changed = true
				}
			})
		}
	}
	return entry
}
