package core

import (
	"go/types"
	"sort"

	"golang.org/x/tools/go/ssa"
)

// Cone returns the source functions reachable from the entry points through static calls,
// closures and interface calls resolved to every implementation found among the loaded source
// functions (over-approximation: more functions, never fewer). Functions outside the loaded
// packages (no body) are not followed.
func (p *Prog) Cone(entries []*ssa.Function, stop func(*ssa.Function) bool) []*ssa.Function {
	src := p.SrcFuncs()
	byName := map[string][]*ssa.Function{}
	for _, f := range src {
		if f.Signature.Recv() != nil {
			byName[f.Name()] = append(byName[f.Name()], f)
		}
	}
	seen := map[*ssa.Function]bool{}
	var work []*ssa.Function
	push := func(f *ssa.Function) {
		if f == nil || f.Blocks == nil || seen[f] || !InRepo(f) {
			return // only functions of the analysed module are followed (whole-module loads have bodies for everything)
		}
		if stop != nil && stop(f) {
			return
		}
		seen[f] = true
		work = append(work, f)
	}
	for _, e := range entries {
		push(e)
	}
	for len(work) > 0 {
		f := work[0]
		work = work[1:]
		Instrs(f, func(in ssa.Instruction) {
			if mc, ok := in.(*ssa.MakeClosure); ok {
				if g, ok := mc.Fn.(*ssa.Function); ok {
					push(g)
				}
			}
			cc := CallOf(in)
			if cc == nil {
				return
			}
			if cc.IsInvoke() {
				iface, _ := cc.Value.Type().Underlying().(*types.Interface)
				for _, g := range byName[cc.Method.Name()] {
					if iface == nil {
						push(g)
						continue
					}
					rt := g.Signature.Recv().Type()
					if types.Implements(rt, iface) || types.Implements(types.NewPointer(rt), iface) {
						push(g)
					}
				}
				return
			}
			if g := cc.StaticCallee(); g != nil {
				push(g)
			}
			for _, a := range cc.Args {
				if g, ok := a.(*ssa.Function); ok {
					push(g)
				}
			}
		})
	}
	var out []*ssa.Function
	for f := range seen {
		out = append(out, f)
	}
	sort.Slice(out, func(i, j int) bool { return out[i].Pos() < out[j].Pos() })
	return out
}

// NondetSources lists calls in fn that introduce nondeterminism: wall clock, random numbers,
// multi-way select.
func NondetSources(fn *ssa.Function) []ssa.Instruction {
	var out []ssa.Instruction
	Instrs(fn, func(in ssa.Instruction) {
		if s, ok := in.(*ssa.Select); ok && len(s.States) > 1 {
			out = append(out, in)
			return
		}
		cc := CallOf(in)
		if cc == nil {
			return
		}
		d := CallDesc(cc)
		switch {
		case d.Pkg == "time" && (d.Name == "Now" || d.Name == "Since" || d.Name == "Until"):
			out = append(out, in)
		case d.Pkg == "math/rand" || d.Pkg == "crypto/rand":
			out = append(out, in)
		}
	})
	return out
}
