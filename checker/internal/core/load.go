// Package core holds the loader, the obligation/evidence model and the SSA helper queries that the
// per-property rules are written with.
package core

import (
	"fmt"
	"go/token"
	"go/types"
	"os"
	"sort"
	"strings"

	"golang.org/x/tools/go/callgraph"
	"golang.org/x/tools/go/callgraph/cha"
	"golang.org/x/tools/go/callgraph/vta"
	"golang.org/x/tools/go/packages"
	"golang.org/x/tools/go/ssa"
	"golang.org/x/tools/go/ssa/ssautil"
)

// Mod is the import path prefix of the analysed module.
const Mod = "github.com/ElrondNetwork/elrond-go"

// Prog is the loaded, type-checked program in SSA form.
type Prog struct {
	RepoDir string
	Pkgs    []*packages.Package
	ByPath  map[string]*packages.Package
	SSA     *ssa.Program
	Fset    *token.FileSet
	Whole   bool // whole module loaded with all syntax (thorough tier)

	cg      *callgraph.Graph
	allFns  map[*ssa.Function]bool
	srcFns  []*ssa.Function
	Loaded  []string // import paths with syntax
	LoadErr []string
}

// Load loads the given packages of the repository (paths relative to the module root, e.g.
// "data/trie"; "./..." for everything). With whole=true every package of the module is loaded
// with syntax (LoadAllSyntax); otherwise only the named ones carry syntax and SSA bodies.
func Load(repoDir string, rel []string, whole bool, overlay map[string][]byte) (*Prog, error) {
	os.Unsetenv("GOWORK")
	mode := packages.NeedName | packages.NeedFiles | packages.NeedCompiledGoFiles | packages.NeedImports |
		packages.NeedTypes | packages.NeedTypesSizes | packages.NeedSyntax | packages.NeedTypesInfo | packages.NeedModule
	var patterns []string
	if whole {
		mode |= packages.NeedDeps
		patterns = []string{"./..."}
	} else {
		for _, r := range rel {
			patterns = append(patterns, "./"+strings.TrimPrefix(r, "./"))
		}
	}
	cfg := &packages.Config{
		Mode:    mode,
		Dir:     repoDir,
		Tests:   false,
		Overlay: overlay,
		Env: append(os.Environ(), "GOFLAGS=-mod=mod", "GOPROXY=off", "GOSUMDB=off", "GOTOOLCHAIN=local",
			"GOWORK=off"),
	}
	pkgs, err := packages.Load(cfg, patterns...)
	if err != nil {
		return nil, err
	}
	if len(pkgs) == 0 {
		return nil, fmt.Errorf("no packages loaded for %v", patterns)
	}
	p := &Prog{RepoDir: repoDir, Pkgs: pkgs, ByPath: map[string]*packages.Package{}, Whole: whole}
	packages.Visit(pkgs, nil, func(pk *packages.Package) {
		p.ByPath[pk.PkgPath] = pk
		if strings.HasPrefix(pk.PkgPath, Mod) {
			for _, e := range pk.Errors {
				p.LoadErr = append(p.LoadErr, e.Error())
			}
		}
	})
	for _, pk := range pkgs {
		p.Loaded = append(p.Loaded, pk.PkgPath)
		if whole && len(pk.GoFiles) == 0 && len(pk.Errors) == 0 {
			continue // a directory with test files only
		}
		if pk.Types == nil || len(pk.Syntax) == 0 {
			p.LoadErr = append(p.LoadErr, "package without types/syntax: "+pk.PkgPath)
		}
	}
	sort.Strings(p.Loaded)
	if len(p.LoadErr) > 0 {
		return p, fmt.Errorf("load errors: %s", strings.Join(p.LoadErr, "; "))
	}
	p.Fset = pkgs[0].Fset
	var prog *ssa.Program
	if whole {
		prog, _ = ssautil.AllPackages(pkgs, ssa.InstantiateGenerics)
	} else {
		prog, _ = ssautil.Packages(pkgs, ssa.InstantiateGenerics)
	}
	prog.Build()
	p.SSA = prog
	return p, nil
}

// PkgPath turns a module-relative path into an import path.
func PkgPath(rel string) string {
	if rel == "" || rel == "." {
		return Mod
	}
	if strings.Contains(rel, ".") && !strings.HasPrefix(rel, "./") && strings.Contains(strings.SplitN(rel, "/", 2)[0], ".") {
		return rel // already a full import path (e.g. github.com/...)
	}
	return Mod + "/" + strings.TrimPrefix(rel, "./")
}

// SSAPkg returns the SSA package for a module-relative path (nil if not loaded).
func (p *Prog) SSAPkg(rel string) *ssa.Package {
	pk := p.ByPath[PkgPath(rel)]
	if pk == nil || pk.Types == nil {
		return nil
	}
	return p.SSA.Package(pk.Types)
}

// TypesPkg returns the types.Package for a module-relative path (or full import path).
func (p *Prog) TypesPkg(rel string) *types.Package {
	pk := p.ByPath[PkgPath(rel)]
	if pk == nil {
		// maybe only known as a dependency through export data
		for _, ip := range p.SSA.AllPackages() {
			if ip.Pkg.Path() == PkgPath(rel) {
				return ip.Pkg
			}
		}
		return nil
	}
	return pk.Types
}

// Func resolves a package-level function.
func (p *Prog) Func(rel, name string) *ssa.Function {
	sp := p.SSAPkg(rel)
	if sp == nil {
		return nil
	}
	return sp.Func(name)
}

// Named resolves a named type.
func (p *Prog) Named(rel, name string) *types.Named {
	tp := p.TypesPkg(rel)
	if tp == nil {
		return nil
	}
	obj := tp.Scope().Lookup(name)
	if obj == nil {
		return nil
	}
	n, _ := obj.Type().(*types.Named)
	return n
}

// Method resolves method `name` of named type `typ` (pointer or value receiver).
func (p *Prog) Method(rel, typ, name string) *ssa.Function {
	n := p.Named(rel, typ)
	if n == nil {
		return nil
	}
	for _, t := range []types.Type{types.NewPointer(n), n} {
		ms := p.SSA.MethodSets.MethodSet(t)
		for i := 0; i < ms.Len(); i++ {
			sel := ms.At(i)
			if sel.Obj().Name() == name && sel.Obj().Pkg() == n.Obj().Pkg() {
				if len(sel.Index()) != 1 {
					continue // promoted through embedding: not this type's own method
				}
				return p.SSA.MethodValue(sel)
			}
		}
	}
	return nil
}

// Field resolves a struct field object.
func (p *Prog) Field(rel, typ, field string) *types.Var {
	n := p.Named(rel, typ)
	if n == nil {
		return nil
	}
	st, ok := n.Underlying().(*types.Struct)
	if !ok {
		return nil
	}
	for i := 0; i < st.NumFields(); i++ {
		if st.Field(i).Name() == field {
			return st.Field(i)
		}
	}
	return nil
}

// Const resolves a package-level constant.
func (p *Prog) Const(rel, name string) *types.Const {
	tp := p.TypesPkg(rel)
	if tp == nil {
		return nil
	}
	c, _ := tp.Scope().Lookup(name).(*types.Const)
	return c
}

// Global resolves a package-level variable in SSA form.
func (p *Prog) Global(rel, name string) *ssa.Global {
	sp := p.SSAPkg(rel)
	if sp == nil {
		return nil
	}
	return sp.Var(name)
}

// Pos renders a position relative to the repository root.
func (p *Prog) Pos(pos token.Pos) string {
	if !pos.IsValid() {
		return "-"
	}
	ps := p.Fset.Position(pos)
	f := strings.TrimPrefix(ps.Filename, p.RepoDir+"/")
	return fmt.Sprintf("%s:%d", f, ps.Line)
}

// InRepo reports whether the function belongs to the analysed module and has a body.
func InRepo(fn *ssa.Function) bool {
	if fn == nil || fn.Blocks == nil {
		return false
	}
	pk := fn.Package()
	if pk == nil {
		if fn.Parent() != nil {
			return InRepo(fn.Parent())
		}
		if o := fn.Origin(); o != nil && o != fn {
			return InRepo(o)
		}
		return false
	}
	return strings.HasPrefix(pk.Pkg.Path(), Mod)
}

// SrcFuncs returns every function with a body that belongs to a package loaded with syntax,
// including methods and anonymous functions.
func (p *Prog) SrcFuncs() []*ssa.Function {
	if p.srcFns != nil {
		return p.srcFns
	}
	loaded := map[string]bool{}
	for _, l := range p.Loaded {
		loaded[l] = true
	}
	if p.Whole {
		for path := range p.ByPath {
			if strings.HasPrefix(path, Mod) {
				loaded[path] = true
			}
		}
	}
	var out []*ssa.Function
	all := map[*ssa.Function]bool{}
	var addFn func(fn *ssa.Function)
	addFn = func(fn *ssa.Function) {
		if fn == nil || all[fn] {
			return
		}
		all[fn] = true
		for _, a := range fn.AnonFuncs {
			addFn(a)
		}
	}
	// every declared function and every method of every named type of the loaded packages
	// (ssautil.AllFunctions only visits methods of types converted to interfaces)
	for _, sp := range p.SSA.AllPackages() {
		if !loaded[sp.Pkg.Path()] {
			continue
		}
		for _, mem := range sp.Members {
			switch m := mem.(type) {
			case *ssa.Function:
				addFn(m)
			case *ssa.Type:
				for _, t := range []types.Type{m.Type(), types.NewPointer(m.Type())} {
					ms := p.SSA.MethodSets.MethodSet(t)
					for i := 0; i < ms.Len(); i++ {
						if mf := p.SSA.MethodValue(ms.At(i)); mf != nil && mf.Synthetic == "" {
							addFn(mf)
						}
					}
				}
			}
		}
	}
	for fn := range all {
		if fn.Blocks == nil {
			continue
		}
		root := fn
		for root.Parent() != nil {
			root = root.Parent()
		}
		pk := root.Package()
		if pk == nil {
			if o := root.Origin(); o != nil {
				pk = o.Package()
			}
		}
		if pk == nil || !loaded[pk.Pkg.Path()] {
			continue
		}
		if fn.Synthetic != "" && !strings.HasPrefix(fn.Synthetic, "instance of") {
			continue
		}
		out = append(out, fn)
	}
	// order by file name and offset (token.Pos values depend on the order in which go/packages
	// happened to parse the files, which differs between runs)
	key := func(f *ssa.Function) string {
		ps := p.Fset.Position(f.Pos())
		return fmt.Sprintf("%s:%09d:%s", ps.Filename, ps.Offset, f.String())
	}
	keys := map[*ssa.Function]string{}
	for _, f := range out {
		keys[f] = key(f)
	}
	sort.Slice(out, func(i, j int) bool { return keys[out[i]] < keys[out[j]] })
	p.srcFns = out
	return out
}

// FuncsOfPkg returns the source functions of one package (module-relative path).
func (p *Prog) FuncsOfPkg(rel string) []*ssa.Function {
	want := PkgPath(rel)
	var out []*ssa.Function
	for _, fn := range p.SrcFuncs() {
		root := fn
		for root.Parent() != nil {
			root = root.Parent()
		}
		if root.Package() != nil && root.Package().Pkg.Path() == want {
			out = append(out, fn)
		}
	}
	return out
}

// CallGraph builds (once) the CHA call graph refined by VTA over all functions.
func (p *Prog) CallGraph() *callgraph.Graph {
	if p.cg != nil {
		return p.cg
	}
	all := ssautil.AllFunctions(p.SSA)
	p.allFns = all
	p.cg = vta.CallGraph(all, cha.CallGraph(p.SSA))
	return p.cg
}

// FuncName renders pkg-relative "Type.method" / "func" names for reports and obligation keys.
func FuncName(fn *ssa.Function) string {
	if fn == nil {
		return "<nil>"
	}
	if fn.Parent() != nil {
		return FuncName(fn.Parent()) + "$" + strings.TrimPrefix(fn.Name(), fn.Parent().Name()+"$")
	}
	if recv := fn.Signature.Recv(); recv != nil {
		t := recv.Type()
		if pt, ok := t.(*types.Pointer); ok {
			t = pt.Elem()
		}
		if n, ok := t.(*types.Named); ok {
			return n.Obj().Name() + "." + fn.Name()
		}
	}
	return fn.Name()
}

// QualName is FuncName prefixed by the module-relative package path.
func QualName(fn *ssa.Function) string {
	root := fn
	for root.Parent() != nil {
		root = root.Parent()
	}
	pk := ""
	if root.Package() != nil {
		pk = strings.TrimPrefix(strings.TrimPrefix(root.Package().Pkg.Path(), Mod), "/")
	}
	return pk + ":" + FuncName(fn)
}
