package core

import (
	"go/token"
	"go/types"

	"golang.org/x/tools/go/ssa"
)

// BackwardReach computes the set of SSA values that may flow into v within its function:
// operands of the defining instructions, transitively; values stored into allocations and
// struct fields that are later loaded; call arguments and receivers flow into call results
// (every callee is treated as possibly propagating any input to any output).
// This is a may-flow over-approximation: if a source is NOT in the set, the flow definitely
// does not exist.
func BackwardReach(v ssa.Value) map[ssa.Value]bool { return backwardReach(v, true) }

// BackwardReachPure is BackwardReach without the "a callee may fill its pointer-like arguments
// from its other inputs" model: only assignments, operators, loads of stored values and call
// results (from all call inputs) propagate. Used where the over-approximation of the mutation
// model would connect everything through a shared receiver.
func BackwardReachPure(v ssa.Value) map[ssa.Value]bool { return backwardReach(v, false) }

func backwardReach(v ssa.Value, mutation bool) map[ssa.Value]bool {
	seen := map[ssa.Value]bool{}
	var fn *ssa.Function
	if in, ok := v.(ssa.Instruction); ok {
		fn = in.Parent()
	}
	// index stores by address root for loads
	var stores []*ssa.Store
	var mapUpdates []*ssa.MapUpdate
	if fn != nil {
		Instrs(fn, func(in ssa.Instruction) {
			switch x := in.(type) {
			case *ssa.Store:
				stores = append(stores, x)
			case *ssa.MapUpdate:
				mapUpdates = append(mapUpdates, x)
			}
		})
	}
	var visit func(x ssa.Value)
	visit = func(x ssa.Value) {
		if x == nil || seen[x] {
			return
		}
		seen[x] = true
		// a callee may store any of its inputs into memory reachable from a pointer-like argument
		// (e.g. f(destMap, src) fills destMap from src): inputs of calls x is passed to flow into x
		if _, isIface := x.Type().Underlying().(*types.Interface); mutation && pointerLike(x.Type()) && !isIface {
			if refs := x.Referrers(); refs != nil {
				for _, r := range *refs {
					cc := CallOf(r)
					if cc == nil {
						continue
					}
					if _, isB := cc.Value.(*ssa.Builtin); isB {
						continue
					}
					if cc.IsInvoke() && cc.Value != x {
						visit(cc.Value)
					}
					for _, a := range cc.Args {
						if a != x {
							visit(a)
						}
					}
				}
			}
		}
		switch t := x.(type) {
		case *ssa.Phi:
			for _, e := range t.Edges {
				visit(e)
			}
		case *ssa.Extract:
			visit(t.Tuple)
		case *ssa.Call:
			if t.Call.IsInvoke() {
				visit(t.Call.Value)
			} else if _, ok := t.Call.Value.(*ssa.Builtin); !ok {
				if _, isFn := t.Call.Value.(*ssa.Function); !isFn {
					visit(t.Call.Value)
				}
			}
			for _, a := range t.Call.Args {
				visit(a)
			}
		case *ssa.UnOp:
			visit(t.X)
			if t.Op == token.MUL {
				// loads: values stored to the same address expression or the same alloc/field
				for _, st := range stores {
					if sameAddr(st.Addr, t.X) {
						visit(st.Val)
					}
				}
			}
		case *ssa.BinOp:
			visit(t.X)
			visit(t.Y)
		case *ssa.Convert:
			visit(t.X)
		case *ssa.ChangeType:
			visit(t.X)
		case *ssa.ChangeInterface:
			visit(t.X)
		case *ssa.MakeInterface:
			visit(t.X)
		case *ssa.TypeAssert:
			visit(t.X)
		case *ssa.Slice:
			visit(t.X)
		case *ssa.SliceToArrayPointer:
			visit(t.X)
		case *ssa.FieldAddr:
			visit(t.X)
		case *ssa.Field:
			visit(t.X)
		case *ssa.IndexAddr:
			visit(t.X)
		case *ssa.Index:
			visit(t.X)
		case *ssa.Lookup:
			visit(t.X)
			for _, mu := range mapUpdates {
				if mu.Map == t.X {
					visit(mu.Value)
				}
			}
		case *ssa.MakeClosure:
			for _, b := range t.Bindings {
				visit(b)
			}
		case *ssa.Alloc:
			for _, st := range stores {
				if rootAddr(st.Addr) == ssa.Value(t) {
					visit(st.Val)
				}
			}
		case *ssa.MakeMap:
			for _, mu := range mapUpdates {
				if mu.Map == ssa.Value(t) {
					visit(mu.Value)
					visit(mu.Key)
				}
			}
		case *ssa.Next:
			visit(t.Iter)
		case *ssa.Range:
			visit(t.X)
		}
	}
	visit(v)
	return seen
}

// rootAddr strips FieldAddr/IndexAddr chains down to the allocation or pointer they start from.
func rootAddr(a ssa.Value) ssa.Value {
	for {
		switch x := a.(type) {
		case *ssa.FieldAddr:
			a = x.X
		case *ssa.IndexAddr:
			a = x.X
		default:
			return a
		}
	}
}

// sameAddr reports whether two address expressions denote the same location syntactically:
// identical value, or the same field of the same base, or same alloc.
func sameAddr(a, b ssa.Value) bool {
	if a == b {
		return true
	}
	fa, ok1 := a.(*ssa.FieldAddr)
	fb, ok2 := b.(*ssa.FieldAddr)
	if ok1 && ok2 {
		return fa.Field == fb.Field && sameAddr(fa.X, fb.X)
	}
	ia, ok1 := a.(*ssa.IndexAddr)
	ib, ok2 := b.(*ssa.IndexAddr)
	if ok1 && ok2 {
		return sameAddr(ia.X, ib.X)
	}
	ua, ok1 := a.(*ssa.UnOp)
	ub, ok2 := b.(*ssa.UnOp)
	if ok1 && ok2 && ua.Op == token.MUL && ub.Op == token.MUL {
		return sameAddr(ua.X, ub.X)
	}
	return false
}

// FlowsFrom reports whether src may flow into v.
func FlowsFrom(v, src ssa.Value) bool { return BackwardReach(v)[src] }

// Unspill looks through a parameter that go/ssa spilled into an allocation because a closure
// captures it: `t0 = new T; *t0 = param; ...; t5 = *t0` yields param for t5.
func Unspill(v ssa.Value) ssa.Value {
	u, ok := v.(*ssa.UnOp)
	if !ok || u.Op != token.MUL {
		return v
	}
	a, ok := u.X.(*ssa.Alloc)
	if !ok {
		return v
	}
	var only ssa.Value
	n := 0
	for _, r := range *a.Referrers() {
		if st, ok := r.(*ssa.Store); ok && st.Addr == ssa.Value(a) {
			n++
			only = st.Val
		}
	}
	if n == 1 {
		if p, ok := only.(*ssa.Parameter); ok {
			return p
		}
	}
	return v
}

// infeasibleEdge reports whether taking the succ-th edge of b contradicts a branch condition on
// the very same SSA value that dominates b (e.g. a second `if removed` after `if !removed {return}`).
func infeasibleEdge(b *ssa.BasicBlock, succ int) bool {
	ifi, ok := b.Instrs[len(b.Instrs)-1].(*ssa.If)
	if !ok || b.Succs[0] == b.Succs[1] {
		return false
	}
	edge := normCond(ifi, ifi.Cond, succ == 0)
	if cv, isConst := ConstBool(edge.V); isConst {
		return cv != edge.Taken // `if false` / `if true`: only one successor can be taken
	}
	for _, k := range CondsAt(b) {
		if k.V == edge.V && k.Taken != edge.Taken {
			return true
		}
	}
	return false
}

// phiDecided reports whether, having entered block b from pred, the succ-th edge of b's If is
// impossible because the condition is a phi of b whose incoming value on that edge is a boolean
// constant (the lowering of && and ||).
func phiDecided(b, pred *ssa.BasicBlock, succ int) bool {
	if pred == nil {
		return false
	}
	ifi, ok := b.Instrs[len(b.Instrs)-1].(*ssa.If)
	if !ok || b.Succs[0] == b.Succs[1] {
		return false
	}
	nc := normCond(ifi, ifi.Cond, true)
	ph, ok := nc.V.(*ssa.Phi)
	if !ok || ph.Block() != b {
		return false
	}
	for i, p := range b.Preds {
		if p != pred {
			continue
		}
		val, isC := ConstBool(ph.Edges[i])
		if !isC {
			return false
		}
		// phi == val on this path; successor 0 is taken when cond true; nc.Taken tells whether cond==phi or cond==!phi
		condVal := val
		if !nc.Taken {
			condVal = !val
		}
		takenSucc := 1
		if condVal {
			takenSucc = 0
		}
		return succ != takenSucc
	}
	return false
}

// Disjuncts resolves the value of `a || b || ...` (lowered by go/ssa to a phi with constant-true
// edges) into its operand values; a plain value is its own single disjunct.
func Disjuncts(v ssa.Value) []ssa.Value { return junctions(v, true, 0) }

// Conjuncts resolves `a && b && ...` (phi with constant-false edges).
func Conjuncts(v ssa.Value) []ssa.Value { return junctions(v, false, 0) }

func junctions(v ssa.Value, or bool, depth int) []ssa.Value {
	ph, ok := v.(*ssa.Phi)
	if !ok || depth > 6 {
		return []ssa.Value{v}
	}
	var out []ssa.Value
	for i, e := range ph.Edges {
		if b, isC := ConstBool(e); isC && b == or {
			pred := ph.Block().Preds[i]
			// walk back through empty forwarding blocks
			for len(pred.Instrs) == 1 && len(pred.Preds) == 1 {
				if _, isJump := pred.Instrs[0].(*ssa.Jump); !isJump {
					break
				}
				pred = pred.Preds[0]
			}
			ifi, isIf := pred.Instrs[len(pred.Instrs)-1].(*ssa.If)
			if !isIf {
				return []ssa.Value{v}
			}
			out = append(out, junctions(ifi.Cond, or, depth+1)...)
			continue
		} else if isC {
			return []ssa.Value{v}
		}
		out = append(out, junctions(e, or, depth+1)...)
	}
	return out
}

// Reachable reports whether the instruction can be reached from the function entry along
// feasible edges (constant conditions and contradicted branch conditions pruned).
func Reachable(in ssa.Instruction) bool {
	q := PathQ{Fn: in.Parent(), Target: func(x ssa.Instruction, _ *ssa.BasicBlock) bool { return x == in }}
	esc, _ := q.Escape()
	return esc != nil
}
