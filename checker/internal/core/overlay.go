package core

import (
	"fmt"
	"os"
	"path/filepath"
	"strconv"
	"strings"
)

// ApplyUnifiedDiff applies a `git diff` to the files under repoDir in memory and returns the
// patched contents keyed by absolute path (for packages.Config.Overlay). Only text hunks of
// existing files are supported, which is all the seeded changes and controls need.
func ApplyUnifiedDiff(repoDir, diff string) (map[string][]byte, error) {
	out := map[string][]byte{}
	lines := strings.Split(diff, "\n")
	var cur string
	var src []string
	var dst []string
	pos := 0
	flush := func() {
		if cur == "" {
			return
		}
		dst = append(dst, src[pos:]...)
		out[cur] = []byte(strings.Join(dst, "\n"))
		cur = ""
	}
	for i := 0; i < len(lines); i++ {
		l := lines[i]
		switch {
		case strings.HasPrefix(l, "+++ "):
			flush()
			p := strings.TrimPrefix(l, "+++ ")
			p = strings.TrimPrefix(p, "b/")
			if p == "/dev/null" {
				return nil, fmt.Errorf("file deletion not supported")
			}
			cur = filepath.Join(repoDir, p)
			b, err := os.ReadFile(cur)
			if err != nil {
				return nil, err
			}
			src = strings.Split(string(b), "\n")
			dst = nil
			pos = 0
		case strings.HasPrefix(l, "@@ ") && cur != "":
			// @@ -a,b +c,d @@
			parts := strings.Fields(l)
			if len(parts) < 3 {
				return nil, fmt.Errorf("bad hunk header %q", l)
			}
			old := strings.TrimPrefix(parts[1], "-")
			start, _ := strconv.Atoi(strings.Split(old, ",")[0])
			if start > 0 {
				start--
			}
			// the old side of the hunk (context and removed lines); like patch(1), look for it near the
			// recorded position when the file has moved on since the diff was taken
			var oldSide []string
			for k := i + 1; k < len(lines); k++ {
				h := lines[k]
				if strings.HasPrefix(h, "@@ ") || strings.HasPrefix(h, "diff ") || strings.HasPrefix(h, "--- ") {
					break
				}
				if strings.HasPrefix(h, " ") || strings.HasPrefix(h, "-") {
					oldSide = append(oldSide, h[1:])
				}
			}
			matchAt := func(at int) bool {
				if at < pos || at+len(oldSide) > len(src) {
					return false
				}
				for k, want := range oldSide {
					if src[at+k] != want {
						return false
					}
				}
				return true
			}
			if !matchAt(start) {
				found := -1
				for d := 1; d < len(src); d++ {
					if matchAt(start + d) {
						found = start + d
						break
					}
					if matchAt(start - d) {
						found = start - d
						break
					}
				}
				if found < 0 {
					return nil, fmt.Errorf("hunk for %s (recorded at line %d) does not match the current source", cur, start+1)
				}
				start = found
			}
			if start < pos {
				return nil, fmt.Errorf("overlapping hunks")
			}
			dst = append(dst, src[pos:start]...)
			pos = start
			for i+1 < len(lines) {
				h := lines[i+1]
				if strings.HasPrefix(h, "@@ ") || strings.HasPrefix(h, "diff ") || strings.HasPrefix(h, "--- ") {
					break
				}
				i++
				switch {
				case strings.HasPrefix(h, "+"):
					dst = append(dst, h[1:])
				case strings.HasPrefix(h, "-"):
					if pos >= len(src) || src[pos] != h[1:] {
						return nil, fmt.Errorf("hunk does not apply at %s:%d", cur, pos+1)
					}
					pos++
				case strings.HasPrefix(h, " "):
					if pos >= len(src) || src[pos] != h[1:] {
						return nil, fmt.Errorf("context mismatch at %s:%d", cur, pos+1)
					}
					dst = append(dst, src[pos])
					pos++
				case h == "":
					// trailing empty line of the diff
				case strings.HasPrefix(h, "\\"):
				}
			}
		}
	}
	flush()
	if len(out) == 0 {
		return nil, fmt.Errorf("no file patched")
	}
	return out, nil
}

// ReplaceOverlay builds an overlay that replaces one exact occurrence of old by new in a file.
func ReplaceOverlay(repoDir, rel, old, new string) (map[string][]byte, error) {
	p := filepath.Join(repoDir, rel)
	b, err := os.ReadFile(p)
	if err != nil {
		return nil, err
	}
	s := string(b)
	if strings.Count(s, old) != 1 {
		return nil, fmt.Errorf("%s: the text to replace occurs %d times (expected once): the control no longer matches the source", rel, strings.Count(s, old))
	}
	return map[string][]byte{p: []byte(strings.Replace(s, old, new, 1))}, nil
}
