package core

import (
	"go/token"

	"golang.org/x/tools/go/ssa"
)

// SortCall is a call to sort.Slice / sort.SliceStable with a closure comparator.
type SortCall struct {
	In    ssa.Instruction
	Slice ssa.Value
	Less  *ssa.Function
	// Foreign lists the slices the comparator indexes with its i/j parameters that are not the
	// slice being sorted (the classic out-of-sync comparator).
	Foreign []string
}

// SortCalls finds sort.Slice/SliceStable calls in fn and checks that the comparator indexes, with
// its own parameters, only the slice that is being sorted.
func SortCalls(fn *ssa.Function) []SortCall {
	var out []SortCall
	Instrs(fn, func(in ssa.Instruction) {
		cc := CallOf(in)
		if cc == nil {
			return
		}
		d := CallDesc(cc)
		if d.Pkg != "sort" || (d.Name != "Slice" && d.Name != "SliceStable") || len(cc.Args) != 2 {
			return
		}
		sc := SortCall{In: in, Slice: Strip(cc.Args[0])}
		mc, ok := cc.Args[1].(*ssa.MakeClosure)
		if !ok {
			out = append(out, sc)
			return
		}
		less, _ := mc.Fn.(*ssa.Function)
		sc.Less = less
		if less == nil || len(less.Params) != 2 {
			out = append(out, sc)
			return
		}
		// what does the sorted slice look like inside the closure? a free variable bound to the same
		// value, or a load of the same captured allocation.
		sameAsSorted := func(v ssa.Value) bool {
			// v is a value inside the closure that is being indexed
			if u, ok := v.(*ssa.UnOp); ok && u.Op == token.MUL {
				if fv, ok := u.X.(*ssa.FreeVar); ok {
					for i, f := range less.FreeVars {
						if f == fv {
							b := mc.Bindings[i]
							// sorted slice is a load of the same alloc
							if su, ok := sc.Slice.(*ssa.UnOp); ok && su.Op == token.MUL && su.X == b {
								return true
							}
						}
					}
				}
			}
			if fv, ok := v.(*ssa.FreeVar); ok {
				for i, f := range less.FreeVars {
					if f == fv && mc.Bindings[i] == sc.Slice {
						return true
					}
				}
			}
			return false
		}
		Instrs(less, func(li ssa.Instruction) {
			ia, ok := li.(*ssa.IndexAddr)
			if !ok {
				return
			}
			if ia.Index != ssa.Value(less.Params[0]) && ia.Index != ssa.Value(less.Params[1]) {
				return
			}
			if !sameAsSorted(ia.X) {
				sc.Foreign = append(sc.Foreign, ExprKey(ia.X))
			}
		})
		out = append(out, sc)
	})
	return out
}
