package core

import (
	"fmt"
	"go/token"
	"strings"

	"golang.org/x/tools/go/ssa"
)

// PathQ is a must-pass-through query on one function's control-flow graph: is there a path from
// From (function entry when nil) to an instruction accepted by Target that passes no instruction
// accepted by Via and no edge accepted by ViaEdge?  The search is path-insensitive except for
// Prune (edges the rule knows to be irrelevant) and for the predecessor passed to Target, which
// lets return classification look through a phi.
type PathQ struct {
	Fn      *ssa.Function
	From    ssa.Instruction
	FromBlk *ssa.BasicBlock // alternative start: the beginning of this block
	Via     func(in ssa.Instruction) bool
	ViaEdge func(b *ssa.BasicBlock, succ int) bool
	Prune   func(b *ssa.BasicBlock, succ int) bool
	Target  func(in ssa.Instruction, pred *ssa.BasicBlock) bool
}

type pstate struct {
	b    *ssa.BasicBlock
	pred *ssa.BasicBlock
}

// Escape returns a target reachable while avoiding every via, with the block path leading to it
// (nil when every path passes a via: the MUST property holds).
func (q PathQ) Escape() (ssa.Instruction, []*ssa.BasicBlock) {
	if q.Fn == nil || len(q.Fn.Blocks) == 0 {
		return nil, nil
	}
	type item struct {
		st    pstate
		start int
		from  int // index in trail of the predecessor item
	}
	var trail []item
	seen := map[pstate]bool{}
	push := func(b, pred *ssa.BasicBlock, start, from int) {
		st := pstate{b, pred}
		if start == 0 {
			if seen[st] {
				return
			}
			seen[st] = true
		}
		trail = append(trail, item{st, start, from})
	}
	if q.From != nil {
		push(q.From.Block(), nil, IndexOf(q.From)+1, -1)
	} else if q.FromBlk != nil {
		trail = append(trail, item{pstate{q.FromBlk, nil}, 0, -1})
	} else {
		push(q.Fn.Blocks[0], nil, 0, -1)
	}
	for qi := 0; qi < len(trail); qi++ {
		it := trail[qi]
		b := it.st.b
		blocked := false
		for i := it.start; i < len(b.Instrs); i++ {
			in := b.Instrs[i]
			if q.Target != nil && q.Target(in, it.st.pred) {
				var path []*ssa.BasicBlock
				for k := qi; k >= 0; k = trail[k].from {
					path = append([]*ssa.BasicBlock{trail[k].st.b}, path...)
				}
				return in, path
			}
			if q.Via != nil && q.Via(in) {
				blocked = true
				break
			}
		}
		if blocked {
			continue
		}
		for si, s := range b.Succs {
			if q.ViaEdge != nil && q.ViaEdge(b, si) {
				continue
			}
			if q.Prune != nil && q.Prune(b, si) {
				continue
			}
			if infeasibleEdge(b, si) {
				continue
			}
			if phiDecided(b, it.st.pred, si) {
				continue
			}
			push(s, b, 0, qi)
		}
	}
	return nil, nil
}

// PathString renders a block path with source lines for reports.
func (p *Prog) PathString(path []*ssa.BasicBlock) string {
	var parts []string
	for _, b := range path {
		line := "-"
		for _, in := range b.Instrs {
			if in.Pos().IsValid() {
				line = fmt.Sprint(p.Fset.Position(in.Pos()).Line)
				break
			}
		}
		parts = append(parts, fmt.Sprintf("b%d(L%s)", b.Index, line))
	}
	return strings.Join(parts, "→")
}

// SuccessReturn is a Target accepting returns whose error operand is not definitely non-nil
// (nil, or a value that may be nil such as a tail-called function's result).
func SuccessReturn(in ssa.Instruction, pred *ssa.BasicBlock) bool {
	r, ok := in.(*ssa.Return)
	if !ok {
		return false
	}
	ev := RetErrOperand(r)
	if ev == nil {
		return true
	}
	var conds []Cond
	if pred != nil {
		conds = CondsOnEdgeTo(pred, r.Block())
	} else {
		conds = CondsAt(r.Block())
	}
	return ClassifyErr(ev, r.Block(), pred, conds) != ErrSet
}

// NilReturn is a Target accepting only returns whose error operand is definitely nil.
func NilReturn(in ssa.Instruction, pred *ssa.BasicBlock) bool {
	r, ok := in.(*ssa.Return)
	if !ok {
		return false
	}
	ev := RetErrOperand(r)
	if ev == nil {
		return true
	}
	var conds []Cond
	if pred != nil {
		conds = CondsOnEdgeTo(pred, r.Block())
	} else {
		conds = CondsAt(r.Block())
	}
	return ClassifyErr(ev, r.Block(), pred, conds) == ErrNil
}

// AnyReturn is a Target accepting every return.
func AnyReturn(in ssa.Instruction, _ *ssa.BasicBlock) bool {
	_, ok := in.(*ssa.Return)
	return ok
}

// ErrNilEdges returns, for a call, the CFG edges on which its error result is known to be nil:
// the nil-successor of every `if err != nil` / `if err == nil` testing that value.
// tail reports whether the error value is also returned directly by a Return instruction.
func ErrNilEdges(call *ssa.Call) (edges map[[2]int]bool, tail bool, handled bool) {
	edges = map[[2]int]bool{}
	ev := ErrResult(call)
	if ev == nil {
		return edges, false, false
	}
	handled = true
	refs := ev.Referrers()
	if refs == nil {
		return edges, false, false
	}
	any := false
	all := append([]ssa.Instruction(nil), *refs...)
	// `err` captured by a closure lives in a cell: `*err = call(); t = *err; if t != nil`. The loads
	// that follow the store in the same block (before the cell is written again) carry the result.
	for _, r := range *refs {
		st, ok := r.(*ssa.Store)
		if !ok || st.Val != ev {
			continue
		}
		if _, isAlloc := st.Addr.(*ssa.Alloc); !isAlloc {
			continue
		}
		b := st.Block()
		for i := IndexOf(st) + 1; i < len(b.Instrs); i++ {
			if st2, ok := b.Instrs[i].(*ssa.Store); ok && st2.Addr == st.Addr {
				break
			}
			if u, ok := b.Instrs[i].(*ssa.UnOp); ok && u.Op == token.MUL && u.X == st.Addr {
				if ur := u.Referrers(); ur != nil {
					all = append(all, *ur...)
				}
			}
		}
	}
	for _, r := range all {
		switch x := r.(type) {
		case *ssa.BinOp:
			_, eq, ok := NilTest(x)
			if !ok {
				continue
			}
			for _, rr := range *x.Referrers() {
				ifi, ok := rr.(*ssa.If)
				if !ok {
					continue
				}
				nc := normCond(ifi, ifi.Cond, true)
				if nc.V != ssa.Value(x) {
					continue
				}
				// successor taken when `x` is true ...
				trueSucc := 0
				if !nc.Taken {
					trueSucc = 1
				}
				nilSucc := trueSucc
				if !eq {
					nilSucc = 1 - trueSucc
				}
				edges[[2]int{ifi.Block().Index, nilSucc}] = true
				any = true
			}
		case *ssa.Return:
			tail = true
			any = true
		case *ssa.Store:
			// result spilled into a local before rundefers: `*t0 = err; rundefers; t1 = *t0; return t1`
			if a, ok := x.Addr.(*ssa.Alloc); ok && x.Val == ev {
				b := x.Block()
				if ret, ok := b.Instrs[len(b.Instrs)-1].(*ssa.Return); ok {
					for _, rv := range ret.Results {
						if u, ok := rv.(*ssa.UnOp); ok && u.X == ssa.Value(a) {
							tail = true
							any = true
						}
					}
				}
			}
		}
	}
	if !any {
		handled = false
	}
	return edges, tail, handled
}

// ErrMergedAndTested recognises the shared error check: `if c { err = a() } else { err = b() }; if
// err != nil { return err }`. The call's error flows into a phi that is tested against nil by the
// If that ends the phi's own block; on a path through the call the test's nil edge is taken only
// when the call succeeded, so the call itself can count as a passed via.
func ErrMergedAndTested(call *ssa.Call) bool {
	ev := ErrResult(call)
	if ev == nil || ev.Referrers() == nil {
		return false
	}
	for _, r := range *ev.Referrers() {
		ph, ok := r.(*ssa.Phi)
		if !ok || ph.Referrers() == nil {
			continue
		}
		for _, pr := range *ph.Referrers() {
			switch x := pr.(type) {
			case *ssa.BinOp:
				if _, _, isNil := NilTest(x); !isNil || x.Referrers() == nil {
					continue
				}
				for _, rr := range *x.Referrers() {
					if ifi, isIf := rr.(*ssa.If); isIf && ifi.Block() == ph.Block() {
						return true
					}
				}
			case *ssa.Return:
				if x.Block() == ph.Block() {
					return true // `return err` of the merged value: the caller sees the failure
				}
			}
		}
	}
	return false
}

// CheckedVia builds Via/ViaEdge/Target adapters for "the call matched by pred happened and its
// error result was nil": the via is satisfied on the err==nil edge after the call, or when the
// call's error value is what the function returns.
type CheckedVia struct {
	edges map[[2]int]bool
	tails map[ssa.Value]bool
	plain map[ssa.Instruction]bool // matching calls without an error result: satisfied at the call
	Calls []ssa.Instruction
	// Unhandled lists matching calls whose error result is neither tested nor returned.
	Unhandled []ssa.Instruction
}

func NewCheckedVia(fn *ssa.Function, pred func(in ssa.Instruction, cc *ssa.CallCommon) bool) *CheckedVia {
	cv := &CheckedVia{edges: map[[2]int]bool{}, tails: map[ssa.Value]bool{}, plain: map[ssa.Instruction]bool{}}
	Instrs(fn, func(in ssa.Instruction) {
		cc := CallOf(in)
		if cc == nil || !pred(in, cc) {
			return
		}
		cv.Calls = append(cv.Calls, in)
		call, ok := in.(*ssa.Call)
		if !ok {
			// deferred: runs at exit; counts as passed from the defer statement on
			cv.plain[in] = true
			return
		}
		if ErrIndex(call.Call.Signature()) < 0 {
			cv.plain[in] = true
			return
		}
		e, tail, handled := ErrNilEdges(call)
		if !handled {
			if ErrMergedAndTested(call) {
				cv.plain[in] = true
				return
			}
			cv.Unhandled = append(cv.Unhandled, in)
			return
		}
		for k := range e {
			cv.edges[k] = true
		}
		if tail {
			cv.tails[ErrResult(call)] = true
		}
	})
	return cv
}

func (cv *CheckedVia) Via(in ssa.Instruction) bool { return cv.plain[in] }

func (cv *CheckedVia) ViaEdge(b *ssa.BasicBlock, succ int) bool {
	return cv.edges[[2]int{b.Index, succ}]
}

// WrapTarget excludes returns that return the via call's own error value (success there means
// the via succeeded).
func (cv *CheckedVia) WrapTarget(t func(in ssa.Instruction, pred *ssa.BasicBlock) bool) func(in ssa.Instruction, pred *ssa.BasicBlock) bool {
	return func(in ssa.Instruction, pred *ssa.BasicBlock) bool {
		if r, ok := in.(*ssa.Return); ok {
			if ev := RetErrOperand(r); ev != nil && cv.tails[ev] {
				return false
			}
		}
		return t(in, pred)
	}
}

// Count is the (min,max) number of event occurrences on paths from entry, saturating at Sat.
type Count struct{ Min, Max int }

const Sat = 3

// CountEvents computes for each Return accepted by target the min and max number of events on
// paths from the function entry (forward dataflow; loops saturate the max).
func CountEvents(fn *ssa.Function, ev func(in ssa.Instruction) int, target func(in ssa.Instruction, pred *ssa.BasicBlock) bool) map[*ssa.Return]Count {
	in := map[*ssa.BasicBlock]*Count{}
	out := map[*ssa.BasicBlock]Count{}
	res := map[*ssa.Return]Count{}
	if len(fn.Blocks) == 0 {
		return res
	}
	in[fn.Blocks[0]] = &Count{0, 0}
	work := []*ssa.BasicBlock{fn.Blocks[0]}
	for len(work) > 0 {
		b := work[0]
		work = work[1:]
		c := *in[b]
		for _, i := range b.Instrs {
			n := ev(i)
			c.Min += n
			c.Max += n
			if c.Min > Sat {
				c.Min = Sat
			}
			if c.Max > Sat {
				c.Max = Sat
			}
		}
		out[b] = c
		for _, s := range b.Succs {
			old := in[s]
			if old == nil {
				nc := c
				in[s] = &nc
				work = append(work, s)
				continue
			}
			nc := *old
			if c.Min < nc.Min {
				nc.Min = c.Min
			}
			if c.Max > nc.Max {
				nc.Max = c.Max
			}
			if nc != *old {
				*old = nc
				work = append(work, s)
			}
		}
	}
	for _, r := range Returns(fn) {
		if _, ok := out[r.Block()]; !ok {
			continue
		}
		acc := Count{Min: Sat + 1, Max: -1}
		matched := false
		preds := r.Block().Preds
		if len(preds) == 0 {
			if target(r, nil) {
				res[r] = out[r.Block()]
			}
			continue
		}
		// evaluate per predecessor so that phi-returned errors are classified per edge
		for _, p := range preds {
			if _, ok := out[p]; !ok {
				continue
			}
			if !target(r, p) {
				continue
			}
			matched = true
			c := out[p]
			for _, i := range r.Block().Instrs {
				n := ev(i)
				c.Min += n
				c.Max += n
			}
			if c.Min < acc.Min {
				acc.Min = c.Min
			}
			if c.Max > acc.Max {
				acc.Max = c.Max
			}
		}
		if matched {
			if acc.Min > Sat {
				acc.Min = Sat
			}
			if acc.Max > Sat {
				acc.Max = Sat
			}
			res[r] = acc
		}
	}
	return res
}

// PruneWhen builds a Prune function that drops the edges on which a condition accepted by pred
// becomes known (e.g. "the node is not dirty").
func PruneWhen(pred func(c Cond) bool) func(b *ssa.BasicBlock, succ int) bool {
	return func(b *ssa.BasicBlock, succ int) bool {
		ifi, ok := b.Instrs[len(b.Instrs)-1].(*ssa.If)
		if !ok || b.Succs[0] == b.Succs[1] {
			return false
		}
		return pred(normCond(ifi, ifi.Cond, succ == 0))
	}
}
