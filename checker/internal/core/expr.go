package core

import (
	"fmt"
	"go/token"
	"sort"
	"strings"

	"golang.org/x/tools/go/ssa"
)

// ExprKey renders an SSA value as a canonical expression over the function's parameters
// ("recv", "p1", ...), receiver/parameter fields, constants and calls. Two values with the same
// key compute the same thing from the same inputs (up to intervening stores, which the rules that
// use it exclude by construction). Opaque values are rendered by their SSA name.
func ExprKey(v ssa.Value) string { return exprKey(v, 0) }

func exprKey(v ssa.Value, depth int) string {
	if depth > 12 {
		return "…"
	}
	switch x := v.(type) {
	case *ssa.Parameter:
		fn := x.Parent()
		for i, p := range fn.Params {
			if p == x {
				if i == 0 && fn.Signature.Recv() != nil {
					return "recv"
				}
				return fmt.Sprintf("p%d", i)
			}
		}
		return x.Name()
	case *ssa.Const:
		if x.Value == nil {
			return "nil"
		}
		return x.Value.ExactString()
	case *ssa.Global:
		return x.Pkg.Pkg.Name() + "." + x.Name()
	case *ssa.Alloc:
		// a by-value struct parameter spilled into a local: name it after the parameter
		var only ssa.Value
		n := 0
		if refs := x.Referrers(); refs != nil {
			for _, r := range *refs {
				if st, ok := r.(*ssa.Store); ok && st.Addr == ssa.Value(x) {
					n++
					only = st.Val
				}
			}
		}
		if n == 1 {
			if p, ok := only.(*ssa.Parameter); ok {
				return exprKey(p, depth+1)
			}
		}
		return x.Name()
	case *ssa.ChangeType:
		return exprKey(x.X, depth+1)
	case *ssa.ChangeInterface:
		return exprKey(x.X, depth+1)
	case *ssa.MakeInterface:
		return exprKey(x.X, depth+1)
	case *ssa.Convert:
		return exprKey(x.X, depth+1)
	case *ssa.UnOp:
		switch x.Op {
		case token.MUL:
			if p := Unspill(x); p != ssa.Value(x) {
				return exprKey(p, depth+1)
			}
			return exprKey(x.X, depth+1)
		case token.NOT:
			return "!" + exprKey(x.X, depth+1)
		}
		return x.Op.String() + exprKey(x.X, depth+1)
	case *ssa.FieldAddr:
		f := FieldOfAddr(x)
		if f != nil && f.Embedded() {
			return exprKey(x.X, depth+1)
		}
		n := "?"
		if f != nil {
			n = f.Name()
		}
		return exprKey(x.X, depth+1) + "." + n
	case *ssa.Field:
		f := FieldOfVal(x)
		if f != nil && f.Embedded() {
			return exprKey(x.X, depth+1)
		}
		n := "?"
		if f != nil {
			n = f.Name()
		}
		return exprKey(x.X, depth+1) + "." + n
	case *ssa.IndexAddr:
		return exprKey(x.X, depth+1) + "[" + exprKey(x.Index, depth+1) + "]"
	case *ssa.Index:
		return exprKey(x.X, depth+1) + "[" + exprKey(x.Index, depth+1) + "]"
	case *ssa.Lookup:
		return exprKey(x.X, depth+1) + "[" + exprKey(x.Index, depth+1) + "]"
	case *ssa.Slice:
		lo, hi := "", ""
		if x.Low != nil {
			lo = exprKey(x.Low, depth+1)
		}
		if x.High != nil {
			hi = exprKey(x.High, depth+1)
		}
		return exprKey(x.X, depth+1) + "[" + lo + ":" + hi + "]"
	case *ssa.BinOp:
		a, b := exprKey(x.X, depth+1), exprKey(x.Y, depth+1)
		switch x.Op {
		case token.ADD, token.MUL, token.AND, token.OR, token.XOR, token.EQL, token.NEQ:
			if b < a {
				a, b = b, a
			}
		}
		return "(" + a + " " + x.Op.String() + " " + b + ")"
	case *ssa.Extract:
		return exprKey(x.Tuple, depth+1) + "#" + fmt.Sprint(x.Index)
	case *ssa.Call:
		d := CallDesc(&x.Call)
		var args []string
		if x.Call.IsInvoke() {
			args = append(args, exprKey(x.Call.Value, depth+1))
		}
		for _, a := range x.Call.Args {
			args = append(args, exprKey(a, depth+1))
		}
		name := d.Name
		if d.Recv != "" {
			name = d.Recv + "." + name
		}
		if d.Pkg != "" && d.Pkg != "builtin" && d.Recv == "" {
			name = d.Pkg[strings.LastIndex(d.Pkg, "/")+1:] + "." + name
		}
		if d.Is("bytes", "", "Equal") || d.Is("strings", "", "EqualFold") {
			sort.Strings(args)
		}
		return name + "(" + strings.Join(args, ", ") + ")"
	case *ssa.TypeAssert:
		return exprKey(x.X, depth+1)
	}
	return v.Name()
}

// Fact is a canonical relational fact known at a program point: Op ∈ {"<", "<=", "==", "!=", "T"}
// over canonical expression keys; "T" means the boolean expression A holds.
type Fact struct{ Op, A, B string }

func (f Fact) String() string {
	if f.Op == "T" {
		return f.A
	}
	return f.A + " " + f.Op + " " + f.B
}

// FactOf canonicalises a condition: orderings are rewritten to "<" / "<=" with the operands in
// the order that makes the fact true, equalities have sorted operands, negated booleans are
// rendered with a leading "!".
func FactOf(c Cond) Fact {
	if b, ok := c.V.(*ssa.BinOp); ok {
		a, bb := ExprKey(b.X), ExprKey(b.Y)
		op := b.Op
		t := c.Taken
		switch op {
		case token.LSS: // a < b
			if t {
				return Fact{"<", a, bb}
			}
			return Fact{"<=", bb, a}
		case token.LEQ:
			if t {
				return Fact{"<=", a, bb}
			}
			return Fact{"<", bb, a}
		case token.GTR: // a > b
			if t {
				return Fact{"<", bb, a}
			}
			return Fact{"<=", a, bb}
		case token.GEQ:
			if t {
				return Fact{"<=", bb, a}
			}
			return Fact{"<", a, bb}
		case token.EQL, token.NEQ:
			if bb < a {
				a, bb = bb, a
			}
			if (op == token.EQL) == t {
				return Fact{"==", a, bb}
			}
			return Fact{"!=", a, bb}
		}
	}
	k := ExprKey(c.V)
	if !c.Taken {
		k = "!" + k
	}
	return Fact{"T", k, ""}
}

// FactsAt returns the canonical facts holding at the block.
func FactsAt(b *ssa.BasicBlock) []Fact {
	var out []Fact
	for _, c := range CondsAt(b) {
		out = append(out, FactOf(c))
		if f, ok := predicateFact(c); ok {
			out = append(out, f)
		}
		out = append(out, guardFacts(c)...)
	}
	return out
}

// guardFacts: the condition says that the error answered by a function of the same package is nil
// (`err := check(x); if err != nil { return err }` on the fall-through side). Whatever holds at EVERY
// nil-error return of that function then holds here, with its parameters replaced by the arguments: an
// extracted validation step (`func check(b []byte) error { if len(b) == 0 { return errEmpty }; ... }`)
// establishes in its caller what the inlined tests established.
func guardFacts(c Cond) []Fact {
	bo, ok := c.V.(*ssa.BinOp)
	if !ok {
		return nil
	}
	var ev ssa.Value
	switch {
	case IsNilConst(bo.Y):
		ev = bo.X
	case IsNilConst(bo.X):
		ev = bo.Y
	default:
		return nil
	}
	if !((bo.Op == token.NEQ && !c.Taken) || (bo.Op == token.EQL && c.Taken)) {
		return nil
	}
	var call *ssa.Call
	idx := 0
	switch t := ev.(type) {
	case *ssa.Call:
		call = t
	case *ssa.Extract:
		call, _ = t.Tuple.(*ssa.Call)
		idx = t.Index
	}
	if call == nil || call.Parent() == nil {
		return nil
	}
	h := call.Call.StaticCallee()
	if h == nil || h.Blocks == nil || h.Pkg != call.Parent().Pkg || h == call.Parent() || ErrIndex(h.Signature) != idx {
		return nil
	}
	var common map[string]Fact
	for _, r := range Returns(h) {
		if !NilReturn(r, nil) {
			continue
		}
		here := map[string]Fact{}
		for _, cd := range CondsAt(r.Block()) {
			f := FactOf(cd)
			here[f.String()] = f
			if pf, ok := predicateFact(cd); ok {
				here[pf.String()] = pf
			}
		}
		if common == nil {
			common = here
			continue
		}
		for k := range common {
			if _, ok := here[k]; !ok {
				delete(common, k)
			}
		}
	}
	if len(common) == 0 {
		return nil
	}
	m := map[string]string{}
	for i, p := range h.Params {
		if i < len(call.Call.Args) {
			m[ExprKey(p)] = ExprKey(call.Call.Args[i])
		}
	}
	var keys []string
	for k := range common {
		keys = append(keys, k)
	}
	sort.Strings(keys)
	var out []Fact
	for _, k := range keys {
		f := common[k]
		f.A, f.B = substTokens(f.A, m), substTokens(f.B, m)
		if (f.Op == "==" || f.Op == "!=") && f.B < f.A {
			f.A, f.B = f.B, f.A
		}
		out = append(out, f)
	}
	return out
}

// predicateFact: the condition is a call of a boolean function of the same package whose body is a single
// `return a <op> b` (an extracted test such as `func (x *T) hasLen(b []byte) bool { return len(b) == x.n }`).
// The fact it establishes is that comparison with the function's parameters replaced by the arguments, in
// the caller's vocabulary - a rule that looks for the comparison among the facts finds it either way.
func predicateFact(c Cond) (Fact, bool) {
	call, ok := c.V.(*ssa.Call)
	if !ok || call.Parent() == nil {
		return Fact{}, false
	}
	h := call.Call.StaticCallee()
	if h == nil || h.Blocks == nil || h.Pkg != call.Parent().Pkg || len(h.Blocks) != 1 {
		return Fact{}, false
	}
	ret, ok := h.Blocks[0].Instrs[len(h.Blocks[0].Instrs)-1].(*ssa.Return)
	if !ok || len(ret.Results) != 1 {
		return Fact{}, false
	}
	bo, ok := ret.Results[0].(*ssa.BinOp)
	if !ok {
		return Fact{}, false
	}
	switch bo.Op {
	case token.EQL, token.NEQ, token.LSS, token.LEQ, token.GTR, token.GEQ:
	default:
		return Fact{}, false
	}
	f := FactOf(Cond{V: bo, Taken: c.Taken})
	if f.Op == "T" {
		return Fact{}, false
	}
	m := map[string]string{}
	for i, p := range h.Params {
		if i < len(call.Call.Args) {
			m[ExprKey(p)] = ExprKey(call.Call.Args[i])
		}
	}
	f.A, f.B = substTokens(f.A, m), substTokens(f.B, m)
	if (f.Op == "==" || f.Op == "!=") && f.B < f.A {
		f.A, f.B = f.B, f.A
	}
	return f, true
}

// substTokens replaces whole identifier tokens of s by their image under m (one pass, no re-scanning).
func substTokens(s string, m map[string]string) string {
	var out strings.Builder
	for i := 0; i < len(s); {
		if isIdentChar(s[i]) {
			j := i
			for j < len(s) && isIdentChar(s[j]) {
				j++
			}
			tok := s[i:j]
			if r, ok := m[tok]; ok {
				out.WriteString(r)
			} else {
				out.WriteString(tok)
			}
			i = j
			continue
		}
		out.WriteByte(s[i])
		i++
	}
	return out.String()
}

// Mentions reports whether a fact's text mentions the expression key (as a whole token).
func (f Fact) Mentions(key string) bool {
	return containsToken(f.A, key) || containsToken(f.B, key)
}

func containsToken(s, tok string) bool {
	for i := 0; ; {
		j := strings.Index(s[i:], tok)
		if j < 0 {
			return false
		}
		j += i
		before := j == 0 || !isIdentChar(s[j-1])
		after := j+len(tok) >= len(s) || !isIdentChar(s[j+len(tok)])
		if before && after {
			return true
		}
		i = j + 1
	}
}

func isIdentChar(c byte) bool {
	return c == '_' || c >= '0' && c <= '9' || c >= 'a' && c <= 'z' || c >= 'A' && c <= 'Z'
}

// LowerBound returns the integer lower bound that the fact establishes for the expression key:
// "c < e" gives c+1, "c <= e" gives c, "e == c" gives c. ok=false when the fact says nothing.
func (f Fact) LowerBound(key string) (int64, bool) {
	var n int64
	parse := func(s string) bool { _, err := fmt.Sscan(s, &n); return err == nil && fmt.Sprint(n) == s }
	switch f.Op {
	case "<":
		if f.B == key && parse(f.A) {
			return n + 1, true
		}
	case "<=":
		if f.B == key && parse(f.A) {
			return n, true
		}
	case "==":
		if f.B == key && parse(f.A) {
			return n, true
		}
		if f.A == key && parse(f.B) {
			return n, true
		}
	case "!=":
		// unsigned e != 0 gives e >= 1 (caller must know e is unsigned)
		if f.B == key && parse(f.A) && n == 0 {
			return 1, true
		}
		if f.A == key && parse(f.B) && n == 0 {
			return 1, true
		}
	}
	return 0, false
}

// UpperBound returns the integer upper bound that the fact establishes for the expression key:
// "e < c" gives c-1, "e <= c" gives c, "e == c" gives c.
func (f Fact) UpperBound(key string) (int64, bool) {
	var n int64
	parse := func(s string) bool { _, err := fmt.Sscan(s, &n); return err == nil && fmt.Sprint(n) == s }
	switch f.Op {
	case "<":
		if f.A == key && parse(f.B) {
			return n - 1, true
		}
	case "<=":
		if f.A == key && parse(f.B) {
			return n, true
		}
	case "==":
		if f.B == key && parse(f.A) {
			return n, true
		}
		if f.A == key && parse(f.B) {
			return n, true
		}
	}
	return 0, false
}
