package core

import (
	"go/token"
	"go/types"
	"math"

	"golang.org/x/tools/go/ssa"
)

// Interval is an unsigned integer interval.
type Interval struct{ Lo, Hi uint64 }

// EvalInterval evaluates an unsigned expression over intervals given for leaf expressions
// (keyed by ExprKey). Unknown leaves get [0, max].
func EvalInterval(v ssa.Value, leaves map[string]Interval, max uint64) Interval {
	return evalInterval(v, leaves, max, 0)
}

func evalInterval(v ssa.Value, leaves map[string]Interval, max uint64, depth int) Interval {
	top := Interval{0, max}
	if depth > 12 {
		return top
	}
	if iv, ok := leaves[ExprKey(v)]; ok {
		return iv
	}
	switch x := v.(type) {
	case *ssa.Const:
		if n, ok := ConstInt(x); ok && n >= 0 {
			return Interval{uint64(n), uint64(n)}
		}
	case *ssa.Convert:
		return evalInterval(x.X, leaves, max, depth+1)
	case *ssa.ChangeType:
		return evalInterval(x.X, leaves, max, depth+1)
	case *ssa.BinOp:
		a := evalInterval(x.X, leaves, max, depth+1)
		b := evalInterval(x.Y, leaves, max, depth+1)
		switch x.Op {
		case token.QUO:
			if b.Lo == 0 {
				return top
			}
			return Interval{a.Lo / b.Hi, a.Hi / b.Lo}
		case token.ADD:
			hi := a.Hi + b.Hi
			if hi < a.Hi || hi > max {
				return top // may wrap
			}
			return Interval{a.Lo + b.Lo, hi}
		case token.MUL:
			if a.Hi != 0 && b.Hi > math.MaxUint64/a.Hi || a.Hi*b.Hi > max {
				return top
			}
			return Interval{a.Lo * b.Lo, a.Hi * b.Hi}
		case token.SUB:
			if a.Lo >= b.Hi {
				return Interval{a.Lo - b.Hi, a.Hi - b.Lo}
			}
			return top
		}
	case *ssa.Call:
		d := CallDesc(&x.Call)
		if len(x.Call.Args) == 2 && (d.Name == "MaxUint32" || d.Name == "MaxUint64" || d.Name == "MaxInt") {
			a := evalInterval(x.Call.Args[0], leaves, max, depth+1)
			b := evalInterval(x.Call.Args[1], leaves, max, depth+1)
			return Interval{maxU(a.Lo, b.Lo), maxU(a.Hi, b.Hi)}
		}
		if len(x.Call.Args) == 2 && (d.Name == "MinUint32" || d.Name == "MinUint64" || d.Name == "MinInt") {
			a := evalInterval(x.Call.Args[0], leaves, max, depth+1)
			b := evalInterval(x.Call.Args[1], leaves, max, depth+1)
			return Interval{minU(a.Lo, b.Lo), minU(a.Hi, b.Hi)}
		}
		// a function with a body: the join of what its returns can give, its parameters bound to the arguments'
		// intervals and each return refined by the conditions that dominate it (`if v < 1 { return 1 }; return v`)
		if h := x.Call.StaticCallee(); h != nil && h.Blocks != nil && h.Signature.Results().Len() == 1 && depth < 8 {
			inner := map[string]Interval{}
			for i, p := range h.Params {
				if i < len(x.Call.Args) {
					if b, ok := p.Type().Underlying().(*types.Basic); ok && b.Info()&types.IsInteger != 0 {
						inner[ExprKey(p)] = evalInterval(x.Call.Args[i], leaves, max, depth+1)
					}
				}
			}
			out := Interval{max, 0}
			n := 0
			for _, r := range Returns(h) {
				rv := RetOperand(r, 0)
				if rv == nil {
					return top
				}
				n++
				iv := evalInterval(rv, inner, max, depth+4)
				key := ExprKey(rv)
				for _, cd := range CondsAt(r.Block()) {
					f := FactOf(cd)
					if lb, ok := f.LowerBound(key); ok && lb >= 0 && uint64(lb) > iv.Lo {
						iv.Lo = uint64(lb)
					}
				}
				out.Lo = minU(out.Lo, iv.Lo)
				out.Hi = maxU(out.Hi, iv.Hi)
			}
			if n > 0 {
				return out
			}
		}
	case *ssa.Phi:
		out := Interval{max, 0}
		for i, e := range x.Edges {
			iv := evalInterval(e, leaves, max, depth+1)
			// what the branch taken on this edge says about the incoming value (`if v == 0 { v = 1 }`)
			if i < len(x.Block().Preds) {
				key := ExprKey(e)
				for _, cd := range CondsOnEdgeTo(x.Block().Preds[i], x.Block()) {
					f := FactOf(cd)
					if lb, ok := f.LowerBound(key); ok && lb >= 0 && uint64(lb) > iv.Lo {
						iv.Lo = uint64(lb)
					}
				}
			}
			out.Lo = minU(out.Lo, iv.Lo)
			out.Hi = maxU(out.Hi, iv.Hi)
		}
		return out
	}
	return top
}

func maxU(a, b uint64) uint64 {
	if a > b {
		return a
	}
	return b
}
func minU(a, b uint64) uint64 {
	if a < b {
		return a
	}
	return b
}
