package core

import (
	"encoding/json"
	"fmt"
	"go/token"
	"os"
	"path/filepath"
	"sort"
	"strings"
	"time"
)

// Status of an obligation.
type Status string

const (
	OK        Status = "discharged"
	Violation Status = "violation"
	Undecided Status = "undecided"
	Known     Status = "known-finding"
)

// Obl is one proof obligation: a rule applied to one construct of the analysed program.
type Obl struct {
	Rule      string `json:"rule"`
	Construct string `json:"construct"`
	Where     string `json:"where"`
	Status    Status `json:"status"`
	Detail    string `json:"detail,omitempty"`
}

// Key identifies an obligation independently of line numbers.
func (o *Obl) Key() string { return o.Rule + "@" + o.Construct }

// Ctx accumulates what one check run analysed and decided.
type Ctx struct {
	Prop          string
	Tier          string
	P             *Prog
	Obls          []*Obl
	floors        map[string]int
	floorsApplied bool
	Funcs         map[string]bool // functions analysed
	Sites         int             // call sites / instructions inspected
	Notes         []string
	Assume        []string
	Trusted       []string
	Explain       string
	XRef          []string // cross-reference output (never a verdict)
}

func NewCtx(prop, tier string, p *Prog) *Ctx {
	return &Ctx{Prop: prop, Tier: tier, P: p, floors: map[string]int{}, Funcs: map[string]bool{}}
}

func (c *Ctx) add(rule, construct string, pos token.Pos, st Status, detail string) *Obl {
	where := "-"
	if c.P != nil && c.P.Fset != nil {
		where = c.P.Pos(pos)
	}
	o := &Obl{Rule: rule, Construct: construct, Where: where, Status: st, Detail: detail}
	c.Obls = append(c.Obls, o)
	return o
}

// Pass records a discharged obligation.
func (c *Ctx) Pass(rule, construct string, pos token.Pos, detail string) {
	c.add(rule, construct, pos, OK, detail)
}

// Fail records a violated obligation.
func (c *Ctx) Fail(rule, construct string, pos token.Pos, detail string) {
	c.add(rule, construct, pos, Violation, detail)
}

// Undecided records an obligation the rule could not decide (counts as failure).
func (c *Ctx) Undecided(rule, construct string, pos token.Pos, detail string) {
	c.add(rule, construct, pos, Undecided, detail)
}

// Check records pass/fail from a boolean.
func (c *Ctx) Check(ok bool, rule, construct string, pos token.Pos, okDetail, failDetail string) bool {
	if ok {
		c.Pass(rule, construct, pos, okDetail)
	} else {
		c.Fail(rule, construct, pos, failDetail)
	}
	return ok
}

// Floor demands at least n obligations (of any status) for the rule: a rule that matches fewer
// instances than were confirmed by hand has lost its anchors and must not pass vacuously.
func (c *Ctx) Floor(rule string, n int) { c.floors[rule] = n }

// Analysed notes that a function body was inspected.
func (c *Ctx) Analysed(name string) { c.Funcs[name] = true }

func (c *Ctx) Note(format string, a ...interface{}) {
	c.Notes = append(c.Notes, fmt.Sprintf(format, a...))
}

// KnownFinding is an entry of /verif/known-findings.json.
type KnownFinding struct {
	Property  string `json:"property"`
	Rule      string `json:"rule"`
	Construct string `json:"construct"`
	WhatFails string `json:"what_fails"`
	Witness   string `json:"witness,omitempty"`
	Status    string `json:"status"` // "open" or "fixed: property=<id> <commit> <what failed>"
}

type knownFile struct {
	Findings []KnownFinding `json:"findings"`
}

func loadKnown(verifDir string) ([]KnownFinding, error) {
	b, err := os.ReadFile(filepath.Join(verifDir, "known-findings.json"))
	if err != nil {
		if os.IsNotExist(err) {
			return nil, nil
		}
		return nil, err
	}
	var kf knownFile
	if err := json.Unmarshal(b, &kf); err != nil {
		return nil, err
	}
	return kf.Findings, nil
}

// Finish applies floors and known findings, writes evidence and replay files, prints the
// VIOLATION / KNOWN-FINDING lines and returns the process exit code.
func (c *Ctx) Finish(verifDir string, start time.Time, level string) int {
	knownDir := verifDir
	if os.Getenv("VERIF_NOEVIDENCE") != "" {
		// trial runs against scratch trees (seeded changes, controls) must not overwrite the
		// evidence of the real tree
		verifDir = filepath.Join(os.TempDir(), "verif-scratch")
		os.MkdirAll(verifDir, 0o755)
	}
	c.ApplyFloors()
	return c.finish(verifDir, knownDir, start, level)
}

// ApplyFloors turns unmet instance floors into undecided obligations (idempotent).
func (c *Ctx) ApplyFloors() {
	if c.floorsApplied {
		return
	}
	c.floorsApplied = true
	counts := map[string]int{}
	for _, o := range c.Obls {
		counts[o.Rule]++
	}
	var floorRules []string
	for r := range c.floors {
		floorRules = append(floorRules, r)
	}
	sort.Strings(floorRules)
	for _, r := range floorRules {
		// The number confirmed by hand is recorded; the alarm threshold is half of it (at least one):
		// a clean-up that merges two sites into one helper lowers the count by one without anything
		// having drifted, whereas a rule whose anchors moved away loses most or all of its instances.
		confirmed := c.floors[r]
		need := (confirmed + 1) / 2
		if need < 1 {
			need = 1
		}
		if counts[r] < need {
			c.add("anchor-floor", r, token.NoPos, Undecided,
				fmt.Sprintf("rule %s matched %d instance(s), fewer than half of the %d confirmed by hand: anchors drifted, the rule would pass vacuously", r, counts[r], confirmed))
		} else if counts[r] < confirmed {
			c.Note("rule %s matched %d instance(s); %d were confirmed by hand when the rule was written (sites merged or removed since)", r, counts[r], confirmed)
		}
	}
	if len(c.Obls) == 0 {
		c.add("anchor-floor", "no-obligations", token.NoPos, Undecided, "the check produced no obligation at all")
	}
}

func (c *Ctx) finish(verifDir, knownDir string, start time.Time, level string) int {
	known, err := loadKnown(knownDir)
	if err != nil {
		c.add("known-findings", "known-findings.json", token.NoPos, Undecided, "cannot read known-findings.json: "+err.Error())
	}
	openKnown := map[string]KnownFinding{}
	for _, k := range known {
		if k.Property == c.Prop && k.Status == "open" {
			openKnown[k.Rule+"@"+k.Construct] = k
		}
	}
	var lines []string
	nViol := 0
	discharged := 0
	seenKnown := map[string]bool{}
	replayDir := filepath.Join(verifDir, "evidence", "replay")
	os.MkdirAll(replayDir, 0o755)
	// remove stale replay files of this property
	if old, _ := filepath.Glob(filepath.Join(replayDir, c.Prop+"-*.json")); old != nil {
		for _, f := range old {
			os.Remove(f)
		}
	}
	for _, o := range c.Obls {
		switch o.Status {
		case OK:
			discharged++
		case Violation, Undecided:
			if k, ok := openKnown[o.Key()]; ok && o.Status == Violation {
				o.Status = Known
				if !seenKnown[o.Key()] {
					lines = append(lines, fmt.Sprintf("KNOWN-FINDING: property=%s %s [%s at %s]", c.Prop, k.WhatFails, o.Key(), o.Where))
					seenKnown[o.Key()] = true
				}
				continue
			}
			nViol++
			rp := filepath.Join(replayDir, fmt.Sprintf("%s-%d.json", c.Prop, nViol))
			rb, _ := json.MarshalIndent(map[string]interface{}{
				"property": c.Prop, "rule": o.Rule, "construct": o.Construct, "where": o.Where,
				"status": o.Status, "detail": o.Detail, "tier": c.Tier,
			}, "", " ")
			os.WriteFile(rp, rb, 0o644)
			lines = append(lines, fmt.Sprintf("%s: %s %s: %s", o.Where, strings.ToUpper(string(o.Status)), o.Key(), o.Detail))
			lines = append(lines, fmt.Sprintf("VIOLATION property=%s replay=%s", c.Prop, rp))
		}
	}
	// a listed open finding that no longer reproduces is reported (informational; it does not fail)
	var stale []string
	for k := range openKnown {
		if !seenKnown[k] {
			stale = append(stale, k)
		}
	}
	sort.Strings(stale)
	for _, k := range stale {
		lines = append(lines, fmt.Sprintf("note: listed known finding %s did not reproduce on this tree", k))
	}

	// evidence
	samples := []interface{}{}
	max := 60
	if c.Tier == "thorough" {
		max = 400
	}
	for i, o := range c.Obls {
		if i >= max {
			break
		}
		samples = append(samples, o)
	}
	var fns []string
	for f := range c.Funcs {
		fns = append(fns, f)
	}
	sort.Strings(fns)
	ruleCounts := map[string]map[string]int{}
	for _, o := range c.Obls {
		if ruleCounts[o.Rule] == nil {
			ruleCounts[o.Rule] = map[string]int{}
		}
		ruleCounts[o.Rule][string(o.Status)]++
	}
	distinct := map[string]bool{}
	for _, o := range c.Obls {
		distinct[o.Key()] = true
	}
	seed := 0
	fmt.Sscanf(os.Getenv("VERIF_SEED"), "%d", &seed)
	var loaded []string
	if c.P != nil {
		loaded = c.P.Loaded
		if c.P.Whole {
			loaded = []string{fmt.Sprintf("whole module: %d packages with syntax", len(c.P.ByPath))}
		}
	}
	ev := map[string]interface{}{
		"property_id": c.Prop,
		"tier":        c.Tier,
		"seed":        seed,
		"level":       level,
		"coverage": map[string]interface{}{
			"explanation":                     c.Explain,
			"obligations":                     len(c.Obls),
			"discharged":                      discharged,
			"evaluations":                     len(c.Obls),
			"distinct_nontrivial":             len(distinct),
			"rule":                            "one obligation per (rule, construct) pair resolved in the type-checked SSA program of /repo's working tree; distinct = distinct rule@construct keys; every obligation is non-trivial in that its rule inspected a resolved construct",
			"samples":                         samples,
			"per_rule":                        ruleCounts,
			"instance_floors":                 c.floors,
			"functions_analysed":              fns,
			"instructions_or_sites_inspected": c.Sites,
			"packages_loaded":                 loaded,
			"checker_cmd":                     "bin/check " + c.Prop + " --tier " + c.Tier,
			"trusted_base":                    append([]string{"go/types, go/ssa (golang.org/x/tools v0.29.0)", "the rule tables in /verif/checker/internal/rules"}, c.Trusted...),
			"notes":                           c.Notes,
			"cross_reference":                 c.XRef,
			"exhaustive":                      false,
		},
		"assumptions": c.Assume,
		"wall_s":      time.Since(start).Seconds(),
		"violations":  nViol,
	}
	if len(c.Assume) == 0 {
		ev["assumptions"] = []string{"the analysed sources type-check and contain no reflection/unsafe access to the anchored state (asserted by the loader)"}
	}
	eb, _ := json.MarshalIndent(ev, "", " ")
	os.MkdirAll(filepath.Join(verifDir, "evidence"), 0o755)
	if err := os.WriteFile(filepath.Join(verifDir, "evidence", c.Prop+".json"), eb, 0o644); err != nil {
		fmt.Println("cannot write evidence:", err)
		return 2
	}
	for _, l := range lines {
		fmt.Println(l)
	}
	fmt.Printf("%s %s: %d obligations, %d discharged, %d known finding(s), %d violation(s)/undecided; %d functions analysed; %.1fs\n",
		c.Prop, c.Tier, len(c.Obls), discharged, len(seenKnown), nViol, len(c.Funcs), time.Since(start).Seconds())
	if nViol > 0 {
		return 1
	}
	return 0
}
