package core

import (
	"go/token"

	"golang.org/x/tools/go/ssa"
)

// Loop is a natural loop of a function's CFG.
type Loop struct {
	Header *ssa.BasicBlock
	Body   map[*ssa.BasicBlock]bool // includes the header
}

// Loops returns the natural loops of fn (loops sharing a header are merged).
var loopCache = map[*ssa.Function][]*Loop{}

// Loops returns the natural loops of fn (loops sharing a header are merged). The result is
// cached, so *Loop pointers are stable per function.
func Loops(fn *ssa.Function) []*Loop {
	if l, ok := loopCache[fn]; ok {
		return l
	}
	l := computeLoops(fn)
	loopCache[fn] = l
	return l
}

func computeLoops(fn *ssa.Function) []*Loop {
	byHeader := map[*ssa.BasicBlock]*Loop{}
	var order []*ssa.BasicBlock
	for _, b := range fn.Blocks {
		for _, s := range b.Succs {
			if s.Dominates(b) { // back edge b -> s
				l := byHeader[s]
				if l == nil {
					l = &Loop{Header: s, Body: map[*ssa.BasicBlock]bool{s: true}}
					byHeader[s] = l
					order = append(order, s)
				}
				// nodes that reach b without passing s
				stack := []*ssa.BasicBlock{b}
				for len(stack) > 0 {
					x := stack[len(stack)-1]
					stack = stack[:len(stack)-1]
					if l.Body[x] {
						continue
					}
					l.Body[x] = true
					stack = append(stack, x.Preds...)
				}
			}
		}
	}
	var out []*Loop
	for _, h := range order {
		out = append(out, byHeader[h])
	}
	return out
}

// InnermostLoop returns the smallest loop containing the block (nil if none).
func InnermostLoop(fn *ssa.Function, b *ssa.BasicBlock) *Loop {
	var best *Loop
	for _, l := range Loops(fn) {
		if l.Body[b] && (best == nil || len(l.Body) < len(best.Body)) {
			best = l
		}
	}
	return best
}

// Exit is a CFG edge leaving a loop.
type Exit struct {
	From *ssa.BasicBlock
	Succ int
}

// Exits lists the edges leaving the loop.
func (l *Loop) Exits() []Exit {
	var out []Exit
	for b := range l.Body {
		for i, s := range b.Succs {
			if !l.Body[s] {
				out = append(out, Exit{b, i})
			}
		}
	}
	return out
}

// OnlyErrorReturnsFrom reports whether every path starting at block b ends in a return whose
// error operand is definitely non-nil (or in a panic), without re-entering the loop.
func OnlyErrorReturnsFrom(b *ssa.BasicBlock, pred *ssa.BasicBlock, l *Loop) bool {
	seen := map[*ssa.BasicBlock]bool{}
	var walk func(x, p *ssa.BasicBlock) bool
	walk = func(x, p *ssa.BasicBlock) bool {
		if l != nil && l.Body[x] {
			return false
		}
		if seen[x] {
			return true
		}
		seen[x] = true
		last := x.Instrs[len(x.Instrs)-1]
		switch t := last.(type) {
		case *ssa.Return:
			ev := RetErrOperand(t)
			if ev == nil {
				return false
			}
			return ClassifyErr(ev, x, p, CondsOnEdgeTo(p, x)) == ErrSet
		case *ssa.Panic:
			return true
		}
		for _, s := range x.Succs {
			if !walk(s, x) {
				return false
			}
		}
		return len(x.Succs) > 0
	}
	return walk(b, pred)
}

// RangeSource tries to identify the collection a loop ranges over: for slice/array ranges the
// value indexed by the loop's induction variable, for map/string ranges the operand of Range.
func (l *Loop) RangeSource() ssa.Value {
	// map/chan/string: header contains `next`
	for _, in := range l.Header.Instrs {
		if n, ok := in.(*ssa.Next); ok {
			if r, ok := n.Iter.(*ssa.Range); ok {
				return r.X
			}
		}
	}
	// slice: header has phi idx; idx+1 < len(x)
	for _, in := range l.Header.Instrs {
		b, ok := in.(*ssa.BinOp)
		if !ok || b.Op != token.LSS {
			continue
		}
		if c, ok := b.Y.(*ssa.Call); ok {
			if bi, ok := c.Call.Value.(*ssa.Builtin); ok && bi.Name() == "len" {
				return c.Call.Args[0]
			}
		}
	}
	return nil
}

// MaxPerIteration returns the largest total weight of the instructions on one pass through the
// loop body (header to the next entry of the header or to a loop exit). An inner loop that
// contains a weighted instruction makes the count unbounded (Sat*1000 is returned).
func (l *Loop) MaxPerIteration(fn *ssa.Function, w func(in ssa.Instruction) int) int {
	const unbounded = Sat * 1000
	for _, inner := range Loops(fn) {
		if inner == l || !l.Body[inner.Header] || inner.Header == l.Header {
			continue
		}
		for b := range inner.Body {
			for _, in := range b.Instrs {
				if w(in) > 0 {
					return unbounded
				}
			}
		}
	}
	memo := map[*ssa.BasicBlock]int{}
	on := map[*ssa.BasicBlock]bool{}
	var dfs func(b *ssa.BasicBlock) int
	dfs = func(b *ssa.BasicBlock) int {
		if v, ok := memo[b]; ok {
			return v
		}
		if on[b] {
			return 0
		}
		on[b] = true
		own := 0
		for _, in := range b.Instrs {
			own += w(in)
		}
		best := 0
		for _, s := range b.Succs {
			if s == l.Header || !l.Body[s] {
				continue
			}
			if v := dfs(s); v > best {
				best = v
			}
		}
		on[b] = false
		memo[b] = own + best
		return own + best
	}
	return dfs(l.Header)
}
