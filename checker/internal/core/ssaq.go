package core

import (
	"go/constant"
	"go/token"
	"go/types"
	"strings"

	"golang.org/x/tools/go/ssa"
)

// CallOf returns the call descriptor of a Call, Defer or Go instruction (nil otherwise).
func CallOf(in ssa.Instruction) *ssa.CallCommon {
	switch x := in.(type) {
	case *ssa.Call:
		return &x.Call
	case *ssa.Defer:
		return &x.Call
	case *ssa.Go:
		return &x.Call
	}
	return nil
}

// CalleeFunc returns the types.Func a call resolves to: the static callee's object, or the
// interface method for dynamic dispatch. nil for closures / function values.
func CalleeFunc(cc *ssa.CallCommon) *types.Func {
	if cc == nil {
		return nil
	}
	if cc.IsInvoke() {
		return cc.Method
	}
	if f := cc.StaticCallee(); f != nil {
		if o, ok := f.Object().(*types.Func); ok {
			return o
		}
		if f.Origin() != nil {
			if o, ok := f.Origin().Object().(*types.Func); ok {
				return o
			}
		}
	}
	if b, ok := cc.Value.(*ssa.Builtin); ok {
		_ = b
	}
	return nil
}

// Desc describes a callee by resolved type information: package path, receiver type name (the
// static type of the receiver expression for interface calls) and function name.
type Desc struct{ Pkg, Recv, Name string }

func namedOf(t types.Type) *types.Named {
	for {
		switch x := t.(type) {
		case *types.Pointer:
			t = x.Elem()
		case *types.Named:
			return x
		case *types.Alias:
			t = types.Unalias(x)
		default:
			return nil
		}
	}
}

// CallDesc resolves the description of a call's callee ("" fields when unknown).
func CallDesc(cc *ssa.CallCommon) Desc {
	if cc == nil {
		return Desc{}
	}
	if cc.IsInvoke() {
		d := Desc{Name: cc.Method.Name()}
		if n := namedOf(cc.Value.Type()); n != nil {
			d.Recv = n.Obj().Name()
			if n.Obj().Pkg() != nil {
				d.Pkg = n.Obj().Pkg().Path()
			}
		} else if cc.Method.Pkg() != nil {
			d.Pkg = cc.Method.Pkg().Path()
		}
		return d
	}
	if b, ok := cc.Value.(*ssa.Builtin); ok {
		return Desc{Pkg: "builtin", Name: b.Name()}
	}
	f := cc.StaticCallee()
	if f == nil {
		return Desc{}
	}
	if f.Origin() != nil {
		f = f.Origin()
	}
	d := Desc{Name: f.Name()}
	if f.Pkg != nil {
		d.Pkg = f.Pkg.Pkg.Path()
	} else if o := f.Object(); o != nil && o.Pkg() != nil {
		d.Pkg = o.Pkg().Path()
	}
	if recv := f.Signature.Recv(); recv != nil {
		if n := namedOf(recv.Type()); n != nil {
			d.Recv = n.Obj().Name()
			if n.Obj().Pkg() != nil {
				d.Pkg = n.Obj().Pkg().Path()
			}
		}
	}
	return d
}

// Is reports whether the description matches (module-relative or full pkg path; "" matches any).
func (d Desc) Is(pkg, recv, name string) bool {
	if name != "" && d.Name != name {
		return false
	}
	if recv != "*" && d.Recv != recv {
		return false
	}
	if pkg != "" && d.Pkg != PkgPath(pkg) && d.Pkg != pkg {
		return false
	}
	return true
}

func (d Desc) String() string {
	p := strings.TrimPrefix(strings.TrimPrefix(d.Pkg, Mod), "/")
	if d.Recv != "" {
		return p + "." + d.Recv + "." + d.Name
	}
	return p + "." + d.Name
}

// IsCall reports whether the instruction is a call (Call/Defer/Go) matching pkg/recv/name.
func IsCall(in ssa.Instruction, pkg, recv, name string) bool {
	cc := CallOf(in)
	if cc == nil {
		return false
	}
	return CallDesc(cc).Is(pkg, recv, name)
}

// Strip removes representation-only wrappers (interface/type changes, conversions between
// identical underlying types) to reach the value that carries the data.
func Strip(v ssa.Value) ssa.Value {
	for {
		switch x := v.(type) {
		case *ssa.ChangeType:
			v = x.X
		case *ssa.ChangeInterface:
			v = x.X
		case *ssa.MakeInterface:
			v = x.X
		default:
			return v
		}
	}
}

// FieldOfAddr returns the field object selected by a FieldAddr.
func FieldOfAddr(fa *ssa.FieldAddr) *types.Var {
	t := fa.X.Type()
	if p, ok := t.Underlying().(*types.Pointer); ok {
		t = p.Elem()
	}
	st, ok := t.Underlying().(*types.Struct)
	if !ok {
		return nil
	}
	return st.Field(fa.Field)
}

// FieldOfVal returns the field object selected by a Field (value struct) instruction.
func FieldOfVal(f *ssa.Field) *types.Var {
	st, ok := f.X.Type().Underlying().(*types.Struct)
	if !ok {
		return nil
	}
	return st.Field(f.Field)
}

// FieldLoad recognises a read of a struct field: *(&x.f) or x.f; returns base and field.
func FieldLoad(v ssa.Value) (ssa.Value, *types.Var) {
	switch x := v.(type) {
	case *ssa.UnOp:
		if x.Op == token.MUL {
			if fa, ok := x.X.(*ssa.FieldAddr); ok {
				return fa.X, FieldOfAddr(fa)
			}
		}
	case *ssa.Field:
		return x.X, FieldOfVal(x)
	}
	return nil, nil
}

// IsNilConst reports whether v is the nil constant.
func IsNilConst(v ssa.Value) bool {
	c, ok := v.(*ssa.Const)
	return ok && c.Value == nil
}

// ConstInt returns the integer value of a constant.
func ConstInt(v ssa.Value) (int64, bool) {
	c, ok := v.(*ssa.Const)
	if !ok || c.Value == nil || c.Value.Kind() != constant.Int {
		return 0, false
	}
	i, ok := constant.Int64Val(c.Value)
	return i, ok
}

// ConstBool returns the value of a boolean constant.
func ConstBool(v ssa.Value) (bool, bool) {
	c, ok := v.(*ssa.Const)
	if !ok || c.Value == nil || c.Value.Kind() != constant.Bool {
		return false, false
	}
	return constant.BoolVal(c.Value), true
}

// Cond is a branch condition known to hold (Taken) or not hold (!Taken) at a program point.
type Cond struct {
	If    *ssa.If
	V     ssa.Value
	Taken bool
}

func normCond(i *ssa.If, v ssa.Value, taken bool) Cond {
	for {
		u, ok := v.(*ssa.UnOp)
		if !ok || u.Op != token.NOT {
			break
		}
		v = u.X
		taken = !taken
	}
	return Cond{If: i, V: v, Taken: taken}
}

// edgeControls reports whether edge (b -> b.Succs[i]) must be traversed to reach blk.
func edgeControls(b *ssa.BasicBlock, i int, blk *ssa.BasicBlock) bool {
	s := b.Succs[i]
	if len(s.Preds) != 1 {
		return false
	}
	if b.Succs[0] == b.Succs[1] {
		return false
	}
	return s.Dominates(blk)
}

// CondsAt returns the branch conditions that hold on every path reaching the block.
func CondsAt(blk *ssa.BasicBlock) []Cond {
	var out []Cond
	for d := blk; d != nil; d = d.Idom() {
		if len(d.Instrs) == 0 {
			continue
		}
		ifi, ok := d.Instrs[len(d.Instrs)-1].(*ssa.If)
		if !ok {
			continue
		}
		if d == blk {
			continue
		}
		if edgeControls(d, 0, blk) {
			out = append(out, normCond(ifi, ifi.Cond, true))
		} else if edgeControls(d, 1, blk) {
			out = append(out, normCond(ifi, ifi.Cond, false))
		}
	}
	return out
}

// CondsOnEdge returns the conditions known when control goes from b to its i-th successor.
func CondsOnEdge(b *ssa.BasicBlock, i int) []Cond {
	out := CondsAt(b)
	if ifi, ok := b.Instrs[len(b.Instrs)-1].(*ssa.If); ok && b.Succs[0] != b.Succs[1] {
		out = append(out, normCond(ifi, ifi.Cond, i == 0))
	}
	return out
}

// ErrIndex returns the index of the last result of type error in the signature (-1 if none).
func ErrIndex(sig *types.Signature) int {
	r := sig.Results()
	for i := r.Len() - 1; i >= 0; i-- {
		if isErrorType(r.At(i).Type()) {
			return i
		}
	}
	return -1
}

func isErrorType(t types.Type) bool {
	n, ok := t.(*types.Named)
	return ok && n.Obj().Pkg() == nil && n.Obj().Name() == "error"
}

// ResultOf returns the SSA value of the idx-th result of a call instruction (the call itself for
// single-result calls, the Extract for tuples). nil if that result is never extracted.
func ResultOf(call *ssa.Call, idx int) ssa.Value {
	sig := call.Call.Signature()
	if sig.Results().Len() == 1 {
		if idx == 0 {
			return call
		}
		return nil
	}
	for _, r := range *call.Referrers() {
		if e, ok := r.(*ssa.Extract); ok && e.Index == idx {
			return e
		}
	}
	return nil
}

// ErrResult returns the error result value of a call (nil if none / unused).
func ErrResult(call *ssa.Call) ssa.Value {
	i := ErrIndex(call.Call.Signature())
	if i < 0 {
		return nil
	}
	return ResultOf(call, i)
}

// NilTest recognises `v == nil` / `v != nil`; returns the tested value and whether the
// comparison is "== nil".
func NilTest(c ssa.Value) (ssa.Value, bool, bool) {
	b, ok := c.(*ssa.BinOp)
	if !ok || (b.Op != token.EQL && b.Op != token.NEQ) {
		return nil, false, false
	}
	if IsNilConst(b.Y) {
		return b.X, b.Op == token.EQL, true
	}
	if IsNilConst(b.X) {
		return b.Y, b.Op == token.EQL, true
	}
	return nil, false, false
}

// KnownNonNil reports whether the conditions establish v != nil.
func KnownNonNil(v ssa.Value, conds []Cond) bool {
	for _, c := range conds {
		if tv, eq, ok := NilTest(c.V); ok && tv == v {
			if (eq && !c.Taken) || (!eq && c.Taken) {
				return true
			}
		}
	}
	return false
}

// KnownNil reports whether the conditions establish v == nil.
func KnownNil(v ssa.Value, conds []Cond) bool {
	for _, c := range conds {
		if tv, eq, ok := NilTest(c.V); ok && tv == v {
			if (eq && c.Taken) || (!eq && !c.Taken) {
				return true
			}
		}
	}
	return false
}

// ErrKind classifies the error operand of a return reached through a given predecessor.
type ErrKind int

const (
	ErrNil   ErrKind = iota // definitely nil: a success exit
	ErrSet                  // definitely non-nil: an error exit
	ErrMaybe                // value of a call or similar: may be either
)

// ClassifyErr classifies an error-typed value at a block (entered from pred, may be nil).
func ClassifyErr(v ssa.Value, at *ssa.BasicBlock, pred *ssa.BasicBlock, conds []Cond) ErrKind {
	return classifyErr(v, at, pred, conds, 0)
}

func classifyErr(v ssa.Value, at, pred *ssa.BasicBlock, conds []Cond, depth int) ErrKind {
	if depth > 6 {
		return ErrMaybe
	}
	if IsNilConst(v) {
		return ErrNil
	}
	if KnownNonNil(v, conds) {
		return ErrSet
	}
	if KnownNil(v, conds) {
		return ErrNil
	}
	switch x := v.(type) {
	case *ssa.MakeInterface:
		return ErrSet
	case *ssa.UnOp:
		if x.Op == token.MUL {
			if g, ok := x.X.(*ssa.Global); ok && strings.HasPrefix(g.Name(), "Err") || ok && strings.HasPrefix(g.Name(), "err") {
				return ErrSet
			}
			// a variable captured by a closure lives in a cell: another load of the cell that was
			// tested, with no store in between, carries the same value
			if a, ok := x.X.(*ssa.Alloc); ok && a.Referrers() != nil {
				for _, r := range *a.Referrers() {
					l1, ok := r.(*ssa.UnOp)
					if !ok || l1 == x || l1.Op != token.MUL || !sameCellValue(l1, x) {
						continue
					}
					if KnownNonNil(l1, conds) {
						return ErrSet
					}
					if KnownNil(l1, conds) {
						return ErrNil
					}
				}
			}
		}
	case *ssa.Call:
		d := CallDesc(&x.Call)
		if d.Is("errors", "", "New") || d.Is("fmt", "", "Errorf") {
			return ErrSet
		}
		if strings.HasPrefix(d.Name, "newErr") || strings.HasPrefix(d.Name, "NewErr") {
			return ErrSet
		}
	case *ssa.Phi:
		if pred != nil && x.Block() == at {
			for i, p := range at.Preds {
				if p == pred {
					return classifyErr(x.Edges[i], p, nil, CondsOnEdgeTo(p, at), depth+1)
				}
			}
		}
		all := ErrKind(-1)
		for i, e := range x.Edges {
			var pc []Cond
			if i < len(x.Block().Preds) {
				pc = CondsOnEdgeTo(x.Block().Preds[i], x.Block())
			}
			k := classifyErr(e, x.Block(), nil, pc, depth+1)
			if all == -1 {
				all = k
			} else if all != k {
				return ErrMaybe
			}
		}
		if all >= 0 {
			return all
		}
	}
	return ErrMaybe
}

// CondsOnEdgeTo returns conditions known on the edge from p to s.
func CondsOnEdgeTo(p, s *ssa.BasicBlock) []Cond {
	for i, x := range p.Succs {
		if x == s {
			return CondsOnEdge(p, i)
		}
	}
	return CondsAt(p)
}

// Returns lists the Return instructions of a function.
func Returns(fn *ssa.Function) []*ssa.Return {
	var out []*ssa.Return
	for _, b := range fn.Blocks {
		if len(b.Instrs) == 0 || b == fn.Recover {
			continue // the recover block is entered only after a recovered panic
		}
		if r, ok := b.Instrs[len(b.Instrs)-1].(*ssa.Return); ok {
			out = append(out, r)
		}
	}
	return out
}

// RetErrOperand returns the error operand of a return (nil if the function returns no error).
func RetErrOperand(r *ssa.Return) ssa.Value {
	i := ErrIndex(r.Parent().Signature)
	if i < 0 || i >= len(r.Results) {
		return nil
	}
	return throughLocal(r.Results[i], r)
}

// throughLocal looks through the spill of a result into a local that go/ssa introduces when the
// function has defers: `*t0 = v; rundefers; t1 = *t0; return t1` yields v.
func throughLocal(v ssa.Value, at ssa.Instruction) ssa.Value {
	u, ok := v.(*ssa.UnOp)
	if !ok || u.Op != token.MUL {
		return v
	}
	a, ok := u.X.(*ssa.Alloc)
	if !ok {
		return v
	}
	b := at.Block()
	for i := IndexOf(at) - 1; i >= 0; i-- {
		if st, ok := b.Instrs[i].(*ssa.Store); ok && st.Addr == ssa.Value(a) {
			return st.Val
		}
	}
	return v
}

// RetOperand returns the i-th operand of a return, looking through defer spills.
func RetOperand(r *ssa.Return, i int) ssa.Value {
	if i < 0 || i >= len(r.Results) {
		return nil
	}
	return throughLocal(r.Results[i], r)
}

// Instrs iterates over all instructions of a function.
func Instrs(fn *ssa.Function, f func(in ssa.Instruction)) {
	for _, b := range fn.Blocks {
		for _, in := range b.Instrs {
			f(in)
		}
	}
}

// CallsIn lists the call instructions (Call/Defer/Go) of fn matching pred.
func CallsIn(fn *ssa.Function, pred func(in ssa.Instruction, cc *ssa.CallCommon) bool) []ssa.Instruction {
	var out []ssa.Instruction
	Instrs(fn, func(in ssa.Instruction) {
		if cc := CallOf(in); cc != nil && pred(in, cc) {
			out = append(out, in)
		}
	})
	return out
}

// WithAnon returns fn and, recursively, the anonymous functions defined in it.
func WithAnon(fn *ssa.Function) []*ssa.Function {
	out := []*ssa.Function{fn}
	for _, a := range fn.AnonFuncs {
		out = append(out, WithAnon(a)...)
	}
	return out
}

// IndexOf returns the index of an instruction in its block.
func IndexOf(in ssa.Instruction) int {
	for i, x := range in.Block().Instrs {
		if x == in {
			return i
		}
	}
	return -1
}

// DominatesInstr reports whether a executes before b on every path reaching b.
func DominatesInstr(a, b ssa.Instruction) bool {
	if a.Block() == b.Block() {
		return IndexOf(a) < IndexOf(b)
	}
	return a.Block().Dominates(b.Block())
}

// sameCellValue reports whether two loads of the same local cell (l1 dominating l2) must read
// the same value: no store to the cell can execute between them and no closure writes it.
func sameCellValue(l1, l2 *ssa.UnOp) bool {
	a, ok := l1.X.(*ssa.Alloc)
	if !ok || l2.X != l1.X || !DominatesInstr(l1, l2) {
		return false
	}
	reach := func(from *ssa.BasicBlock) map[*ssa.BasicBlock]bool {
		seen := map[*ssa.BasicBlock]bool{}
		stack := append([]*ssa.BasicBlock(nil), from.Succs...)
		for len(stack) > 0 {
			b := stack[len(stack)-1]
			stack = stack[:len(stack)-1]
			if seen[b] {
				continue
			}
			seen[b] = true
			stack = append(stack, b.Succs...)
		}
		return seen
	}
	after1 := reach(l1.Block())
	for _, r := range *a.Referrers() {
		switch x := r.(type) {
		case *ssa.Store:
			if x.Addr != ssa.Value(a) {
				return false // the cell's address escapes
			}
			sb := x.Block()
			afterL1 := after1[sb] || (sb == l1.Block() && IndexOf(x) > IndexOf(l1))
			beforeL2 := reach(sb)[l2.Block()] || (sb == l2.Block() && IndexOf(x) < IndexOf(l2))
			if sb == l1.Block() && sb == l2.Block() {
				afterL1 = IndexOf(x) > IndexOf(l1)
				beforeL2 = IndexOf(x) < IndexOf(l2)
			}
			if afterL1 && beforeL2 {
				return false
			}
		case *ssa.MakeClosure:
			fn, _ := x.Fn.(*ssa.Function)
			if fn == nil {
				return false
			}
			for i, bnd := range x.Bindings {
				if bnd != ssa.Value(a) || i >= len(fn.FreeVars) {
					continue
				}
				fv := fn.FreeVars[i]
				if fv.Referrers() == nil {
					continue
				}
				for _, fr := range *fv.Referrers() {
					if st, ok := fr.(*ssa.Store); ok && st.Addr == ssa.Value(fv) {
						return false
					}
					if _, isLoad := fr.(*ssa.UnOp); !isLoad {
						if _, isSt := fr.(*ssa.Store); !isSt {
							return false // address passed on
						}
					}
				}
			}
		case *ssa.UnOp:
		default:
			return false
		}
	}
	return true
}
