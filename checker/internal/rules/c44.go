package rules

import (
	"fmt"
	"go/token"
	"go/types"
	"sort"
	"strings"

	"golang.org/x/tools/go/ssa"

	"verif/checker/internal/core"
)

func init() {
	register(&Rule{
		ID:    "C44",
		Title: "Peer eviction keeps connections within quotas",
		Pkgs:  []string{"p2p/libp2p/networksharding"},
		Explain: "Decides the structural clauses 'only peers from the given list, never a preferred peer, each at most once'. (S1) in listsSharder.splitPeerIds every insertion of a peer into a category list that " +
			"ComputeEvictionList may evict from is on the `preferredPeersHolder.Contains(pid) == false` branch for that peer (whatever the category: seeder, unknown, validator, observer, full history). " +
			"(S2) a peer is put in at most one category per pass (at most one insertion on any path through the loop body) and each category is passed to evict exactly once, so no peer is proposed twice. " +
			"(S3) the proposed list is built only from evict(category list, quota) results, the category lists come from splitPeerIds of the given peer list, and the given list is used for nothing else. " +
			"Every pass of splitPeerIds for a non-preferred peer inserts it in a category (paths excluding every declared constant of an enumerated type are pruned). " +
			"The constructor gives unknown peers the rest: maxUnknown = target - S with the source of every other installed max* quota among the terms of S. " +
			"Not decided (value-level): the quota cascade arithmetic (computeUsedAndSpare), which peers are kept by distance.",
		Run: runC44,
	})
}

func runC44(c *core.Ctx) {
	const pkg = "p2p/libp2p/networksharding"
	sp := anchorM(c, pkg, "listsSharder", "splitPeerIds")
	ce := anchorM(c, pkg, "listsSharder", "ComputeEvictionList")
	if sp == nil || ce == nil {
		return
	}
	// the loop over the given peers
	var loop *core.Loop
	for _, l := range core.Loops(sp) {
		if src := l.RangeSource(); src != nil && src == ssa.Value(sp.Params[1]) {
			loop = l
		}
	}
	if loop == nil {
		c.Fail("C44/evictable-only-if-not-preferred", "listsSharder.splitPeerIds", sp.Pos(), "the loop over the given peers was not found")
		return
	}
	var ins []*ssa.MapUpdate
	core.Instrs(sp, func(in ssa.Instruction) {
		if mu, ok := in.(*ssa.MapUpdate); ok && loop.Body[mu.Block()] {
			ins = append(ins, mu)
		}
	})
	catName := func(v ssa.Value) string {
		if n, ok := core.ConstInt(v); ok {
			// resolve the constant's name
			for _, nm := range []string{"intraShardValidators", "intraShardObservers", "crossShardValidators", "crossShardObservers", "seeders", "unknown", "fullHistoryObservers"} {
				if k := c.P.Const(pkg, nm); k != nil {
					if kv, ok := constInt64(k); ok && kv == n {
						return nm
					}
				}
			}
			return fmt.Sprint(n)
		}
		return core.ExprKey(v)
	}
	for _, mu := range ins {
		c.Sites++
		name := "listsSharder.splitPeerIds/" + catName(mu.Key)
		ok := false
		for _, cd := range core.CondsAt(mu.Block()) {
			if call, isC := cd.V.(*ssa.Call); isC && isInvoke(&call.Call, "Contains") && isRecvField(sp, call.Call.Value, "preferredPeersHolder") && !cd.Taken {
				ok = true
			}
		}
		c.Check(ok, "C44/evictable-only-if-not-preferred", name, mu.Pos(), "inserted in an evictable category only when the peer is not preferred",
			"a peer is put in the evictable category "+catName(mu.Key)+" without a dominating `preferredPeersHolder.Contains(pid) == false` test: a preferred peer can be proposed for eviction")
	}
	c.Floor("C44/evictable-only-if-not-preferred", 7)
	// S2a at most one insertion per iteration
	var body *ssa.BasicBlock
	for _, s := range loop.Header.Succs {
		if loop.Body[s] {
			body = s
		}
	}
	set := map[ssa.Instruction]bool{}
	for _, mu := range ins {
		set[mu] = true
	}
	twice := false
	for _, mu := range ins {
		q := core.PathQ{Fn: sp, From: mu, ViaEdge: func(b *ssa.BasicBlock, s int) bool { return b.Succs[s] == loop.Header },
			Target: func(in ssa.Instruction, _ *ssa.BasicBlock) bool { return set[in] }}
		if esc, _ := q.Escape(); esc != nil {
			twice = true
		}
	}
	_ = body
	c.Check(!twice, "C44/each-peer-at-most-once", "listsSharder.splitPeerIds/one-category-per-peer", sp.Pos(), "no path through the loop body inserts a peer in two categories", "a peer can be inserted in two categories in one pass and be proposed for eviction twice")
	// S2a' at least one: a peer that is not preferred lands in some category (a peer in no category is
	// never proposed for eviction and the connection count exceeds its quota)
	{
		isPreferredEdge := func(b *ssa.BasicBlock, si int) bool {
			ifi, ok := b.Instrs[len(b.Instrs)-1].(*ssa.If)
			if !ok {
				return false
			}
			cond, on := ifi.Cond, 0
			if u, isU := cond.(*ssa.UnOp); isU && u.Op == token.NOT {
				cond, on = u.X, 1
			}
			call, isC := cond.(*ssa.Call)
			return isC && isInvoke(&call.Call, "Contains") && isRecvField(sp, call.Call.Value, "preferredPeersHolder") && si == on
		}
		esc, path := core.PathQ{Fn: sp, FromBlk: body, Via: func(in ssa.Instruction) bool { return set[in] },
			ViaEdge: isPreferredEdge, Prune: enumExhausted,
			Target: func(in ssa.Instruction, _ *ssa.BasicBlock) bool { return in == loop.Header.Instrs[0] }}.Escape()
		c.Check(esc == nil, "C44/each-peer-at-most-once", "listsSharder.splitPeerIds/every-candidate-categorised", sp.Pos(),
			"every pass for a peer that is not preferred inserts it in a category (branches that exclude every declared value of an enumerated type are not paths)",
			"a pass of the loop for a non-preferred peer ends without putting it in any category ("+c.P.PathString(path)+"): that connection is never proposed for eviction, so the kept connections exceed the quotas")
	}
	// S2b/S3 ComputeEvictionList
	var split ssa.Value
	for _, in := range callsMatching(ce, pkg, "listsSharder", "splitPeerIds") {
		split = in.(ssa.Value)
		if core.CallOf(in).Args[1] != ssa.Value(ce.Params[1]) {
			c.Fail("C44/eviction-from-given-list-only", "ComputeEvictionList/split-input", in.Pos(), "splitPeerIds is not applied to the given peer list")
		}
	}
	if split == nil {
		c.Fail("C44/eviction-from-given-list-only", "ComputeEvictionList", ce.Pos(), "splitPeerIds is not called")
		return
	}
	why := onlyUsedAs(ce.Params[1], func(in ssa.Instruction) bool {
		cc := core.CallOf(in)
		return cc != nil && core.CallDesc(cc).Name == "splitPeerIds"
	})
	c.Check(why == "", "C44/eviction-from-given-list-only", "ComputeEvictionList/given-list-only-split", ce.Pos(), "the given list is only handed to splitPeerIds", "the given peer list is also used directly: "+why)
	// an eviction: evict(list, keep), or a function of the package that hands two of its parameters to its one evict call
	type evictSite struct {
		in         ssa.Instruction
		list, keep ssa.Value
	}
	var evictSites []evictSite
	core.Instrs(ce, func(in ssa.Instruction) {
		cc := core.CallOf(in)
		if cc == nil || cc.StaticCallee() == nil || cc.StaticCallee().Pkg != ce.Pkg {
			return
		}
		h := cc.StaticCallee()
		if h.Name() == "evict" && len(cc.Args) == 2 {
			evictSites = append(evictSites, evictSite{in, cc.Args[0], cc.Args[1]})
			return
		}
		if h.Blocks == nil {
			return
		}
		inner := callsMatching(h, pkg, "", "evict")
		if len(inner) != 1 {
			return
		}
		ic := core.CallOf(inner[0])
		var list, keep ssa.Value
		for i, p := range h.Params {
			if i >= len(cc.Args) {
				continue
			}
			if ic.Args[0] == ssa.Value(p) {
				list = cc.Args[i]
			}
			if ic.Args[1] == ssa.Value(p) {
				keep = cc.Args[i]
			}
		}
		if list != nil && keep != nil {
			c.Analysed(fname(h))
			evictSites = append(evictSites, evictSite{in, list, keep})
		}
	})
	var cats []string
	for _, es := range evictSites {
		in := es.in
		lk, ok := es.list.(*ssa.Lookup)
		if !ok || lk.X != split {
			c.Fail("C44/eviction-from-given-list-only", "ComputeEvictionList/evict-input", in.Pos(), "evict is applied to a list that is not a category of the split of the given peers")
			continue
		}
		cats = append(cats, catName(lk.Index))
	}
	sort.Strings(cats)
	dup := false
	for i := 1; i < len(cats); i++ {
		if cats[i] == cats[i-1] {
			dup = true
		}
	}
	c.Check(!dup && len(cats) == 7, "C44/each-peer-at-most-once", "ComputeEvictionList/each-category-once", ce.Pos(), fmt.Sprintf("evict is applied once to each of the %d categories", len(cats)),
		fmt.Sprintf("categories passed to evict: %v (each of the 7 categories must be evicted from exactly once)", cats))
	// quota cascade wiring: each category is measured against ITS OWN limit (plus spare slots handed down),
	// the number kept for a category is what evict is given for that category, and a spare-slot count is handed on at most once
	wantMax := map[string]string{"intraShardValidators": "maxIntraShardValidators", "crossShardValidators": "maxCrossShardValidators", "intraShardObservers": "maxIntraShardObservers",
		"crossShardObservers": "maxCrossShardObservers", "seeders": "maxSeeders", "fullHistoryObservers": "maxFullHistoryObservers", "unknown": "maxUnknown"}
	keepOf := map[string]ssa.Value{}
	spareUses := map[ssa.Value]int{}
	for _, in := range callsMatching(ce, pkg, "", "computeUsedAndSpare") {
		call := in.(*ssa.Call)
		// category measured: len(peerDistances[cat])
		cat := ""
		for v := range core.BackwardReachPure(call.Call.Args[0]) {
			if lk, ok := v.(*ssa.Lookup); ok && lk.X == split {
				cat = catName(lk.Index)
			}
		}
		var maxFields []string
		for _, v := range arithOperands(call.Call.Args[1]) {
			if _, f := core.FieldLoad(v); f != nil && len(f.Name()) > 3 && f.Name()[:3] == "max" && f.Name() != "maxPeerCount" {
				maxFields = append(maxFields, f.Name())
			}
			if ex, ok := v.(*ssa.Extract); ok && ex.Index == 1 {
				if c2, ok := ex.Tuple.(*ssa.Call); ok && core.CallDesc(&c2.Call).Name == "computeUsedAndSpare" {
					spareUses[ex]++
				}
			}
		}
		sort.Strings(maxFields)
		okMax := len(maxFields) == 1 && maxFields[0] == wantMax[cat]
		c.Check(okMax, "C44/quota-wiring", "ComputeEvictionList/limit-of-"+cat, in.Pos(), "the "+cat+" list is measured against "+wantMax[cat],
			fmt.Sprintf("the %s list is measured against %v instead of its own limit %s: that category can exceed its limit", cat, maxFields, wantMax[cat]))
		keepOf[cat] = core.ResultOf(call, 0)
	}
	for sp, n := range spareUses {
		c.Check(n <= 1, "C44/quota-wiring", "ComputeEvictionList/spare-handed-on-once@"+sp.Name(), sp.Pos(), "a spare-slot count is consumed by at most one later category",
			"the same spare-slot count is added to the limits of more than one category: the kept connections can exceed the target peer count")
	}
	for _, es := range evictSites {
		in := es.in
		if lk, ok := es.list.(*ssa.Lookup); ok {
			cat := catName(lk.Index)
			c.Check(keepOf[cat] != nil && es.keep == keepOf[cat], "C44/quota-wiring", "ComputeEvictionList/evict-"+cat, in.Pos(), "evict keeps the number computed for this category",
				"evict("+cat+", …) is not given the number of peers computed for that category")
		}
	}
	c.Floor("C44/quota-wiring", 14)
	// the result is built only from evict results
	okRes := true
	for _, r := range core.Returns(ce) {
		for v := range core.BackwardReach(core.RetOperand(r, 0)) {
			if v == ssa.Value(ce.Params[1]) {
				// reached only through splitPeerIds → evict: acceptable if every path goes through an evict call; check direct append of the param
			}
			if call, ok := v.(*ssa.Call); ok {
				if bi, isB := call.Call.Value.(*ssa.Builtin); isB && bi.Name() == "append" {
					for _, a := range call.Call.Args[1:] {
						src := a
						if _, isEv := src.(*ssa.Call); isEv && core.CallDesc(&src.(*ssa.Call).Call).Name == "evict" {
							continue
						}
						if ph, isPhi := src.(*ssa.Phi); isPhi {
							_ = ph
							continue
						}
						okRes = false
					}
				}
			}
		}
	}
	c.Check(okRes, "C44/eviction-from-given-list-only", "ComputeEvictionList/result-from-evict", ce.Pos(), "the proposed list is assembled from evict(...) results only", "something other than an evict(...) result is appended to the proposed eviction list")
	c44UnknownIsTheRest(c)
}

// c44UnknownIsTheRest: the constructor gives unknown peers what is left of the target peer count
// after EVERY category quota it installs: maxUnknown = target - S where the terms of S include the
// source of each other max* field. A quota missing from S is handed out twice (to its category and
// to the unknown peers) and the connections kept exceed the target.
func c44UnknownIsTheRest(c *core.Ctx) {
	const pkg = "p2p/libp2p/networksharding"
	fn := anchorF(c, pkg, "NewListsSharder")
	if fn == nil {
		return
	}
	src := func(v ssa.Value) string { return core.ExprKey(stripConv(v)) }
	quota := map[string]string{} // field -> source key
	var unknown, target ssa.Value
	core.Instrs(fn, func(in ssa.Instruction) {
		st, ok := in.(*ssa.Store)
		if !ok {
			return
		}
		fa, ok := st.Addr.(*ssa.FieldAddr)
		if !ok {
			return
		}
		f := core.FieldOfAddr(fa)
		if f == nil || !strings.HasPrefix(f.Name(), "max") {
			return
		}
		switch f.Name() {
		case "maxUnknown":
			unknown = st.Val
		case "maxPeerCount":
			target = st.Val
		default:
			quota[f.Name()] = src(st.Val)
		}
	})
	if unknown == nil || target == nil || len(quota) < 6 {
		c.Undecided("C44/unknown-quota-is-the-rest", "NewListsSharder", fn.Pos(), fmt.Sprintf("stores to maxUnknown/maxPeerCount or the category quotas not found (%d quotas)", len(quota)))
		return
	}
	sub, ok := stripConv(unknown).(*ssa.BinOp)
	if !ok || sub.Op != token.SUB {
		c.Fail("C44/unknown-quota-is-the-rest", "NewListsSharder/maxUnknown", fn.Pos(), "maxUnknown is not computed as a difference (target - provided)")
		return
	}
	terms := map[string]bool{}
	var split func(v ssa.Value)
	split = func(v ssa.Value) {
		v = stripConv(v)
		if bo, isBo := v.(*ssa.BinOp); isBo && bo.Op == token.ADD {
			split(bo.X)
			split(bo.Y)
			return
		}
		terms[core.ExprKey(v)] = true
	}
	split(sub.Y)
	c.Check(src(sub.X) == src(target), "C44/unknown-quota-is-the-rest", "NewListsSharder/minuend", sub.Pos(),
		"the rest is taken from the value installed as the target peer count",
		"maxUnknown is not computed from the value installed as maxPeerCount")
	var names []string
	for f := range quota {
		names = append(names, f)
	}
	sort.Strings(names)
	for _, f := range names {
		c.Check(terms[quota[f]], "C44/unknown-quota-is-the-rest", "NewListsSharder/"+f, sub.Pos(),
			"the quota of this category is subtracted before the rest goes to unknown peers",
			"the quota installed as "+f+" ("+quota[f]+") is not among the terms subtracted from the target when maxUnknown is computed: those slots are given both to their category and to unknown peers, ComputeEvictionList keeps more connections than the target peer count")
	}
}

// arithOperands returns the leaves of an arithmetic expression (through +,-,*,/ and conversions only).
func arithOperands(v ssa.Value) []ssa.Value {
	switch x := v.(type) {
	case *ssa.BinOp:
		return append(arithOperands(x.X), arithOperands(x.Y)...)
	case *ssa.Convert:
		return arithOperands(x.X)
	case *ssa.ChangeType:
		return arithOperands(x.X)
	}
	return []ssa.Value{v}
}

// enumExhausted prunes a CFG edge on which the conditions known so far exclude every declared
// constant of the tested expression's named type (a `switch` over an enumerated type with all
// values handled has no fall-through path).
func enumExhausted(b *ssa.BasicBlock, si int) bool {
	excluded := map[string]map[string]bool{}
	typeOf := map[string]*types.Named{}
	for _, cd := range core.CondsOnEdge(b, si) {
		bo, ok := cd.V.(*ssa.BinOp)
		if !ok || bo.Op != token.EQL && bo.Op != token.NEQ {
			continue
		}
		ne := bo.Op == token.NEQ && cd.Taken || bo.Op == token.EQL && !cd.Taken
		if !ne {
			continue
		}
		x, k := bo.X, bo.Y
		if _, isC := x.(*ssa.Const); isC {
			x, k = k, x
		}
		kc, isC := k.(*ssa.Const)
		if !isC || kc.Value == nil {
			continue
		}
		named, isNamed := x.Type().(*types.Named)
		if !isNamed {
			continue
		}
		key := core.ExprKey(x)
		if excluded[key] == nil {
			excluded[key] = map[string]bool{}
		}
		excluded[key][kc.Value.ExactString()] = true
		typeOf[key] = named
	}
	for key, ex := range excluded {
		named := typeOf[key]
		pkg := named.Obj().Pkg()
		if pkg == nil {
			continue
		}
		total, hit := 0, 0
		for _, nm := range pkg.Scope().Names() {
			cst, ok := pkg.Scope().Lookup(nm).(*types.Const)
			if !ok || !types.Identical(cst.Type(), named) {
				continue
			}
			total++
			if ex[cst.Val().ExactString()] {
				hit++
			}
		}
		if total > 0 && hit == total {
			return true
		}
	}
	return false
}
