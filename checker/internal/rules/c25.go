package rules

import (
	"fmt"
	"go/token"
	"sort"
	"strings"

	"golang.org/x/tools/go/ssa"

	"verif/checker/internal/core"
)

func init() {
	register(&Rule{
		ID:    "C25",
		Title: "Transaction pool indexes stay consistent",
		Pkgs:  []string{"storage/txcache"},
		Explain: "Decides structural conditions of index consistency. (S1 typestate of container/list elements) after (*list.List).Remove(e), e.Next()/e.Prev() is not called on the same element before " +
			"the variable is redefined: container/list clears the removed element's links, so the traversal silently stops after one removal and the per-sender size constraint is not enforced " +
			"(whole module in the thorough tier). (S2 co-update) txByHashMap: a successful SetIfAbsent is accompanied by counter.Increment and numBytes.Add, a successful Remove by Decrement and Subtract; " +
			"txListForSender: every list insertion is accompanied by onAddedTransaction(tx) and every list removal by onRemovedListElement(e) on the same element. " +
			"(S3) both indexes are updated together in AddTx, RemoveTxByHash and doEvictItems, and transactions evicted from a sender's list are removed from the by-hash index. " +
			"The removal's search gives up early only under facts that are the mirror image of a placement condition of findInsertionPlace (the order of the list is read from the insertion, not listed). " +
			"Not decided (value-level): ordering by nonce/gas price, score arithmetic; lock discipline is not part of this property. Added in the second seeding round: every method of txByHashMap that changes the map's population or one counter updates both counters (clear included - a genuine defect, repaired); every return of txListForSender.AddTx after an insertion lies behind applySizeConstraints and reports its evictions; sweepSweepable resets the collected senders after evicting them.",
		Run: runC25,
	})
}

// listRemoveTypestate checks S1 in one function.
func listRemoveTypestate(c *core.Ctx, rule string, fn *ssa.Function) int {
	n := 0
	for i, rm := range core.CallsIn(fn, func(in ssa.Instruction, cc *ssa.CallCommon) bool {
		return core.CallDesc(cc).Is("container/list", "List", "Remove")
	}) {
		n++
		cc := core.CallOf(rm)
		e := cc.Args[1]
		name := fmt.Sprintf("%s/Remove#%d", fname(fn), i)
		q := core.PathQ{Fn: fn, From: rm,
			Target: func(in ssa.Instruction, _ *ssa.BasicBlock) bool {
				c2 := core.CallOf(in)
				if c2 == nil {
					return false
				}
				d := core.CallDesc(c2)
				return d.Pkg == "container/list" && d.Recv == "Element" && (d.Name == "Next" || d.Name == "Prev") && c2.Args[0] == e
			}}
		if ph, ok := e.(*ssa.Phi); ok {
			// entering the phi's block redefines the variable
			blk := ph.Block()
			q.ViaEdge = func(b *ssa.BasicBlock, s int) bool { return b.Succs[s] == blk }
		}
		esc, path := q.Escape()
		c.Check(esc == nil, rule, name, rm.Pos(), "no navigation from the removed element",
			func() string {
				if esc == nil {
					return ""
				}
				return fmt.Sprintf("%s() is called at %s on the element removed here: container/list has cleared its links, so it returns nil and the traversal stops (%s)",
					core.CallDesc(core.CallOf(esc)).Name, c.P.Pos(esc.Pos()), c.P.PathString(path))
			}())
	}
	return n
}

func runC25(c *core.Ctx) {
	const pkg = "storage/txcache"
	// ---- S1
	var scope []*ssa.Function
	if c.P.Whole {
		scope = c.P.SrcFuncs()
	} else {
		scope = c.P.FuncsOfPkg(pkg)
	}
	n := 0
	for _, fn := range scope {
		k := listRemoveTypestate(c, "C25/no-navigation-from-removed-element", fn)
		if k > 0 {
			c.Analysed(core.QualName(fn))
		}
		n += k
	}
	c.Sites += n
	c.Floor("C25/no-navigation-from-removed-element", 2)

	// ---- S2 txByHashMap
	counterOp := func(field, method string) func(fn *ssa.Function) func(ssa.Instruction) bool {
		return func(fn *ssa.Function) func(ssa.Instruction) bool {
			return func(in ssa.Instruction) bool {
				cc := core.CallOf(in)
				if cc == nil || core.CallDesc(cc).Name != method || len(cc.Args) == 0 {
					return false
				}
				fa, ok := cc.Args[0].(*ssa.FieldAddr)
				return ok && core.FieldOfAddr(fa).Name() == field && rootBase(fa.X) == ssa.Value(receiverOf(fn))
			}
		}
	}
	if fn := anchorM(c, pkg, "txByHashMap", "addTx"); fn != nil {
		// the edge on which SetIfAbsent reported true
		var added ssa.Value
		for _, in := range core.CallsIn(fn, func(in ssa.Instruction, cc *ssa.CallCommon) bool { return core.CallDesc(cc).Name == "SetIfAbsent" }) {
			added = in.(ssa.Value)
		}
		if added == nil {
			c.Fail("C25/by-hash-counters-co-updated", "txByHashMap.addTx", fn.Pos(), "SetIfAbsent not found")
		} else {
			for _, op := range [][2]string{{"counter", "Increment"}, {"numBytes", "Add"}} {
				ev := counterOp(op[0], op[1])(fn)
				// every path on which `added` is true passes the counter update
				q := core.PathQ{Fn: fn, Via: ev, Prune: core.PruneWhen(func(cd core.Cond) bool { return cd.V == added && !cd.Taken }), Target: core.AnyReturn}
				esc, path := q.Escape()
				has := len(core.CallsIn(fn, func(in ssa.Instruction, _ *ssa.CallCommon) bool { return ev(in) })) > 0
				c.Check(esc == nil && has, "C25/by-hash-counters-co-updated", "txByHashMap.addTx/"+op[0]+"."+op[1], fn.Pos(), "an insertion is accompanied by "+op[0]+"."+op[1],
					"a transaction can be inserted in the by-hash map without "+op[0]+"."+op[1]+": "+c.P.PathString(path))
				// and not without insertion
				for _, in := range core.CallsIn(fn, func(in ssa.Instruction, _ *ssa.CallCommon) bool { return ev(in) }) {
					g := false
					for _, cd := range core.CondsAt(in.Block()) {
						if cd.V == added && cd.Taken {
							g = true
						}
					}
					c.Check(g, "C25/by-hash-counters-co-updated", "txByHashMap.addTx/"+op[0]+"."+op[1]+"/only-if-added", in.Pos(), "only when SetIfAbsent inserted", op[0]+" is updated although nothing was inserted (duplicate)")
				}
			}
		}
	}
	if fn := anchorM(c, pkg, "txByHashMap", "removeTx"); fn != nil {
		for _, op := range [][2]string{{"counter", "Decrement"}, {"numBytes", "Subtract"}} {
			ev := counterOp(op[0], op[1])(fn)
			q := core.PathQ{Fn: fn, Via: ev, Target: func(in ssa.Instruction, _ *ssa.BasicBlock) bool {
				r, ok := in.(*ssa.Return)
				if !ok {
					return false
				}
				b, isB := core.ConstBool(core.RetOperand(r, 1))
				return isB && b
			}}
			esc, path := q.Escape()
			has := len(core.CallsIn(fn, func(in ssa.Instruction, _ *ssa.CallCommon) bool { return ev(in) })) > 0
			c.Check(esc == nil && has, "C25/by-hash-counters-co-updated", "txByHashMap.removeTx/"+op[0]+"."+op[1], fn.Pos(), "a reported removal is accompanied by "+op[0]+"."+op[1],
				"removeTx can report a removal without "+op[0]+"."+op[1]+": "+c.P.PathString(path))
		}
	}
	// pairing: any method of txByHashMap that changes the map's population (Set*/Remove/Clear on
	// the backing map) or one of the two counters changes both counters
	for _, fn := range c.P.FuncsOfPkg(pkg) {
		if fn.Signature.Recv() == nil || !strings.HasSuffix(fn.Signature.Recv().Type().String(), "txByHashMap") {
			continue
		}
		touched := map[string]bool{}
		population := false
		core.Instrs(fn, func(in ssa.Instruction) {
			cc := core.CallOf(in)
			if cc == nil || len(cc.Args) == 0 {
				return
			}
			d := core.CallDesc(cc)
			if fa, ok := cc.Args[0].(*ssa.FieldAddr); ok {
				f := core.FieldOfAddr(fa).Name()
				if (f == "counter" || f == "numBytes") && d.Name != "Get" && d.Name != "GetUint64" {
					touched[f] = true
				}
			}
			if v, f := core.FieldLoad(cc.Args[0]); f != nil && f.Name() == "backingMap" && v != nil {
				switch d.Name {
				case "Set", "SetIfAbsent", "Remove", "Clear":
					population = true
				}
			}
		})
		if !population && len(touched) == 0 {
			continue
		}
		c.Analysed(fname(fn))
		c.Check(touched["counter"] && touched["numBytes"], "C25/by-hash-counters-co-updated", fname(fn)+"/both-counters", fn.Pos(),
			"changes the population of the by-hash map and updates both the transaction counter and the byte counter",
			fmt.Sprintf("changes the population of the by-hash map but updates counter=%v numBytes=%v: CountTx()/NumBytes() no longer match the contents", touched["counter"], touched["numBytes"]))
	}
	c.Floor("C25/by-hash-counters-co-updated", 9)
	// the sender counter moves by what happened, not by what was asked: every update of
	// txListBySenderMap.counter is a unit step (or a reset) taken where the backing map reported the
	// insertion/removal, or an amount derived from such reports - never the size of a request
	for _, fn := range c.P.FuncsOfPkg(pkg) {
		if fn.Signature.Recv() == nil || !strings.HasSuffix(fn.Signature.Recv().Type().String(), "txListBySenderMap") {
			continue
		}
		k := 0
		core.Instrs(fn, func(in ssa.Instruction) {
			cc := core.CallOf(in)
			if cc == nil || len(cc.Args) == 0 {
				return
			}
			fa, ok := cc.Args[0].(*ssa.FieldAddr)
			if !ok || core.FieldOfAddr(fa).Name() != "counter" {
				return
			}
			d := core.CallDesc(cc)
			switch d.Name {
			case "Get", "GetUint64":
				return
			}
			k++
			c.Analysed(fname(fn))
			good, why := true, ""
			if len(cc.Args) > 1 {
				if _, isC := cc.Args[1].(*ssa.Const); !isC {
					for x := range core.BackwardReachPure(cc.Args[1]) {
						if call, isCall := x.(*ssa.Call); isCall {
							if b, isB := call.Call.Value.(*ssa.Builtin); isB && b.Name() == "len" {
								for y := range core.BackwardReachPure(call.Call.Args[0]) {
									if _, isP := y.(*ssa.Parameter); isP {
										good, why = false, "the counter is changed by the length of a parameter (the number of senders asked for)"
									}
								}
							}
						}
					}
				}
			}
			c.Check(good, "C25/sender-counter-follows-the-map", fmt.Sprintf("%s/counter.%s#%d", fname(fn), d.Name, k), in.Pos(),
				"the sender counter is not changed by the size of a request", why+": senders that were already absent are subtracted too, CountSenders() drifts below the real number (and wraps when negative)")
		})
	}
	c.Floor("C25/sender-counter-follows-the-map", 3)

	// txListForSender: list insert/remove paired with the totals callbacks
	for _, fn := range c.P.FuncsOfPkg(pkg) {
		if r := fn.Signature.Recv(); r == nil || namedElem(r.Type()) == nil || namedElem(r.Type()).Obj().Name() != "txListForSender" {
			continue
		}
		for i, in := range core.CallsIn(fn, func(in ssa.Instruction, cc *ssa.CallCommon) bool {
			d := core.CallDesc(cc)
			return d.Pkg == "container/list" && d.Recv == "List" && (d.Name == "Remove" || d.Name == "PushFront" || d.Name == "InsertAfter" || d.Name == "PushBack" || d.Name == "InsertBefore")
		}) {
			cc := core.CallOf(in)
			d := core.CallDesc(cc)
			c.Analysed(core.QualName(fn))
			c.Sites++
			if d.Name == "Remove" {
				e := cc.Args[1]
				mustPass(c, fn, "C25/sender-list-totals-co-updated", fmt.Sprintf("%s/Remove#%d", fname(fn), i), in, func(x ssa.Instruction) bool {
					c2 := core.CallOf(x)
					return c2 != nil && core.CallDesc(c2).Name == "onRemovedListElement" && c2.Args[1] == e
				}, core.AnyReturn, nil, "the removed element is subtracted from the sender's totals (onRemovedListElement)")
			} else {
				v := core.Strip(cc.Args[1])
				added := func(v ssa.Value) func(x ssa.Instruction) bool {
					return func(x ssa.Instruction) bool {
						c2 := core.CallOf(x)
						return c2 != nil && core.CallDesc(c2).Name == "onAddedTransaction" && ssa.Value(c2.Args[1]) == v
					}
				}
				// a method that only links its parameter into the list leaves the totals to its callers: the
				// obligation is then each caller's, for the argument it hands over
				if esc, _ := (core.PathQ{Fn: fn, From: in, Via: added(v), Target: core.AnyReturn}).Escape(); esc != nil {
					pi := -1
					for k, p := range fn.Params {
						if ssa.Value(p) == v {
							pi = k
						}
					}
					type site struct {
						in     ssa.Instruction
						caller *ssa.Function
					}
					var sites []site
					if pi >= 0 {
						for _, g := range c.P.FuncsOfPkg(pkg) {
							for _, ci := range core.CallsIn(g, func(_ ssa.Instruction, c2 *ssa.CallCommon) bool { return c2.StaticCallee() == fn }) {
								sites = append(sites, site{ci, g})
							}
						}
					}
					if len(sites) > 0 {
						for k, st := range sites {
							av := core.Strip(core.CallOf(st.in).Args[pi])
							mustPass(c, st.caller, "C25/sender-list-totals-co-updated", fmt.Sprintf("%s/%s#%d/via-%s#%d", fname(fn), d.Name, i, fname(st.caller), k), st.in, added(av),
								core.AnyReturn, nil, "the transaction handed to the linking helper is added to the sender's totals (onAddedTransaction)")
						}
						continue
					}
				}
				mustPass(c, fn, "C25/sender-list-totals-co-updated", fmt.Sprintf("%s/%s#%d", fname(fn), d.Name, i), in, added(v),
					core.AnyReturn, nil, "the inserted transaction is added to the sender's totals (onAddedTransaction)")
			}
		}
	}
	c.Floor("C25/sender-list-totals-co-updated", 4)

	// ---- S3
	c25LimitsAndSweep(c)
	if fn := anchorM(c, pkg, "TxCache", "AddTx"); fn != nil {
		tx := fn.Params[1]
		okRet := func(in ssa.Instruction, _ *ssa.BasicBlock) bool {
			r, ok := in.(*ssa.Return)
			if !ok {
				return false
			}
			b, isB := core.ConstBool(core.RetOperand(r, 0))
			return !isB || b
		}
		for _, idx := range []string{"txByHash", "txListBySender"} {
			idx := idx
			mustPass(c, fn, "C25/both-indexes-updated", "TxCache.AddTx/"+idx, nil, func(in ssa.Instruction) bool {
				cc := core.CallOf(in)
				return cc != nil && core.CallDesc(cc).Name == "addTx" && len(cc.Args) == 2 && isRecvField(fn, cc.Args[0], idx) && cc.Args[1] == ssa.Value(tx)
			}, okRet, nil, "an accepted transaction is added to "+idx)
		}
		// evicted hashes are removed from the by-hash index
		ok := false
		for _, in := range core.CallsIn(fn, func(in ssa.Instruction, cc *ssa.CallCommon) bool { return core.CallDesc(cc).Name == "RemoveTxsBulk" }) {
			cc := core.CallOf(in)
			if ex, isEx := cc.Args[1].(*ssa.Extract); isEx && ex.Index == 1 && isRecvField(fn, cc.Args[0], "txByHash") {
				if call, isC := ex.Tuple.(*ssa.Call); isC && core.CallDesc(&call.Call).Name == "addTx" && isRecvField(fn, call.Call.Args[0], "txListBySender") {
					ok = true
				}
			}
		}
		// ... or by a method of the cache handed the evicted hashes, which removes its parameter from txByHash on
		// every path that does not find the list empty
		if !ok {
			for _, in := range core.CallsIn(fn, func(in ssa.Instruction, cc *ssa.CallCommon) bool {
				h := cc.StaticCallee()
				return h != nil && h.Blocks != nil && h.Pkg == fn.Pkg && h != fn
			}) {
				cc := core.CallOf(in)
				h := cc.StaticCallee()
				for pi, p := range h.Params {
					if pi >= len(cc.Args) {
						continue
					}
					ex, isEx := cc.Args[pi].(*ssa.Extract)
					if !isEx || ex.Index != 1 {
						continue
					}
					call, isC := ex.Tuple.(*ssa.Call)
					if !isC || core.CallDesc(&call.Call).Name != "addTx" || !isRecvField(fn, call.Call.Args[0], "txListBySender") {
						continue
					}
					removes := func(x ssa.Instruction) bool {
						c2 := core.CallOf(x)
						return c2 != nil && core.CallDesc(c2).Name == "RemoveTxsBulk" && len(c2.Args) == 2 && c2.Args[1] == ssa.Value(p) && isRecvField(h, c2.Args[0], "txByHash")
					}
					emptyEdge := edgeFact(func(f core.Fact, _ core.Cond) bool {
						key := "len(" + core.ExprKey(p) + ")"
						if ub, has := f.UpperBound(key); has && ub <= 0 {
							return true
						}
						return false
					})
					esc, _ := core.PathQ{Fn: h, Via: removes, ViaEdge: emptyEdge, Target: core.AnyReturn}.Escape()
					if esc == nil && len(core.CallsIn(h, func(x ssa.Instruction, _ *ssa.CallCommon) bool { return removes(x) })) > 0 {
						ok = true
						c.Analysed(fname(h))
					}
				}
			}
		}
		c.Check(ok, "C25/both-indexes-updated", "TxCache.AddTx/evicted-removed-from-by-hash", fn.Pos(), "transactions evicted from the sender's list are removed from the by-hash index",
			"the hashes evicted by the per-sender constraint are not removed from txByHash: the by-hash index keeps transactions no sender list holds")
	}
	if fn := anchorM(c, pkg, "TxCache", "RemoveTxByHash"); fn != nil {
		trueRet := func(in ssa.Instruction, _ *ssa.BasicBlock) bool {
			r, ok := in.(*ssa.Return)
			if !ok {
				return false
			}
			b, isB := core.ConstBool(core.RetOperand(r, 0))
			return isB && b
		}
		for _, idx := range []string{"txByHash", "txListBySender"} {
			idx := idx
			mustPass(c, fn, "C25/both-indexes-updated", "TxCache.RemoveTxByHash/"+idx, nil, func(in ssa.Instruction) bool {
				cc := core.CallOf(in)
				return cc != nil && core.CallDesc(cc).Name == "removeTx" && isRecvField(fn, cc.Args[0], idx)
			}, trueRet, nil, "a reported removal removed the transaction from "+idx)
		}
	}
	if fn := anchorM(c, pkg, "TxCache", "doEvictItems"); fn != nil {
		for _, m := range [][2]string{{"txByHash", "RemoveTxsBulk"}, {"txListBySender", "RemoveSendersBulk"}} {
			m := m
			mustPass(c, fn, "C25/both-indexes-updated", "TxCache.doEvictItems/"+m[0], nil, func(in ssa.Instruction) bool {
				cc := core.CallOf(in)
				return cc != nil && core.CallDesc(cc).Name == m[1] && isRecvField(fn, cc.Args[0], m[0])
			}, core.AnyReturn, nil, "eviction removes from "+m[0])
		}
	}
	// creating a sender's list is check-then-act under the map mutex: the lookup that found nothing and the
	// insertion happen in one critical section, otherwise two goroutines both create a list and one overwrites the other
	if fn := anchorM(c, pkg, "txListBySenderMap", "getOrAddListForSender"); fn != nil {
		mu := c.P.Field(pkg, "txListBySenderMap", "mutex")
		modes := core.LockModes(fn, mu, core.ModeNone)
		for i, add := range callsMatching(fn, pkg, "txListBySenderMap", "addSender") {
			ok := modes[add] == core.ModeW
			lookedUpLocked := false
			for _, cd := range core.CondsAt(add.Block()) {
				if ex, isEx := cd.V.(*ssa.Extract); isEx && ex.Index == 1 && !cd.Taken {
					if call, isC := ex.Tuple.(*ssa.Call); isC && core.CallDesc(&call.Call).Name == "getListForSender" && modes[call] == core.ModeW {
						lookedUpLocked = true
					}
				}
			}
			c.Check(ok && lookedUpLocked, "C25/both-indexes-updated", fmt.Sprintf("txListBySenderMap.getOrAddListForSender/addSender#%d", i), add.Pos(),
				"the sender's list is created under the mutex, after a lookup under the same mutex found none",
				"a sender's list is created without re-checking, under the mutex, that it does not exist yet: concurrent first transactions of a sender create two lists, one overwrites the other and its transactions stay only in the by-hash index")
		}
	}
	c.Floor("C25/both-indexes-updated", 7)
	c25SearchAgreesWithInsertion(c)
}

// c25LimitsAndSweep: (a) every insertion into a sender's list is followed by the size
// constraints, and what they evicted is what AddTx reports (the caller removes exactly those from
// the by-hash index); (b) a sweep forgets the senders it evicted.
func c25LimitsAndSweep(c *core.Ctx) {
	const pkg = "storage/txcache"
	if fn := anchorM(c, pkg, "txListForSender", "AddTx"); fn != nil {
		c.Analysed(fname(fn))
		isInsert := func(in ssa.Instruction) bool {
			cc := core.CallOf(in)
			if cc == nil || cc.StaticCallee() == nil {
				return false
			}
			isListInsert := func(g *ssa.Function) bool {
				n := g.Name()
				return (n == "PushFront" || n == "PushBack" || n == "InsertAfter" || n == "InsertBefore") && g.Pkg != nil && g.Pkg.Pkg.Path() == "container/list"
			}
			if isListInsert(cc.StaticCallee()) {
				return true
			}
			// a method of the list that links its argument in
			if h := cc.StaticCallee(); h.Blocks != nil && h.Pkg == fn.Pkg && h != fn {
				return len(core.CallsIn(h, func(_ ssa.Instruction, hc *ssa.CallCommon) bool {
					return hc.StaticCallee() != nil && isListInsert(hc.StaticCallee())
				})) > 0
			}
			return false
		}
		var apply *ssa.Call
		isApply := func(in ssa.Instruction) bool {
			cc := core.CallOf(in)
			return cc != nil && cc.StaticCallee() != nil && cc.StaticCallee().Name() == "applySizeConstraints"
		}
		core.Instrs(fn, func(in ssa.Instruction) {
			if isApply(in) {
				apply, _ = in.(*ssa.Call)
			}
		})
		k := 0
		core.Instrs(fn, func(in ssa.Instruction) {
			if !isInsert(in) {
				return
			}
			k++
			esc, path := core.PathQ{Fn: fn, From: in, Via: isApply, Target: core.AnyReturn}.Escape()
			c.Check(esc == nil, "C25/limits-applied-after-every-insertion", fmt.Sprintf("txListForSender.AddTx/insert#%d", k), in.Pos(),
				"every return after the insertion lies behind applySizeConstraints",
				"AddTx can return after inserting without applying the per-sender limits ("+c.P.PathString(path)+"): the sender's list grows beyond its count/byte limits")
		})
		// the reported evictions are the ones applySizeConstraints made
		okEv := true
		for _, r := range core.Returns(fn) {
			if b, isB := core.ConstBool(core.RetOperand(r, 0)); isB && !b {
				continue
			}
			v := core.RetOperand(r, 1)
			if apply == nil || !core.BackwardReachPure(v)[apply] {
				okEv = false
			}
		}
		c.Check(okEv, "C25/limits-applied-after-every-insertion", "txListForSender.AddTx/evicted-reported", fn.Pos(),
			"an accepted AddTx returns the hashes applySizeConstraints evicted",
			"an accepted AddTx does not return the hashes evicted by applySizeConstraints: the caller cannot remove them from the by-hash index, which keeps transactions no sender list holds")
		c.Floor("C25/limits-applied-after-every-insertion", 3)
	}
	if fn := anchorM(c, pkg, "TxCache", "sweepSweepable"); fn != nil {
		c.Analysed(fname(fn))
		lst := c.P.Field(pkg, "TxCache", "sweepingListOfSenders")
		var evict ssa.Instruction
		for _, in := range core.CallsIn(fn, func(in ssa.Instruction, cc *ssa.CallCommon) bool {
			return cc.StaticCallee() != nil && cc.StaticCallee().Name() == "evictSendersAndTheirTxs"
		}) {
			evict = in
		}
		if evict == nil || lst == nil {
			c.Undecided("C25/swept-senders-forgotten", "TxCache.sweepSweepable", fn.Pos(), "the eviction call or the sweeping list field was not found")
		} else {
			// the value stored is an empty list: make(.., 0, ..), nil, an empty literal or x[:0]
			emptyList := func(v ssa.Value) bool {
				if isEmptyBytes(v) {
					return true
				}
				if sl, ok := v.(*ssa.Slice); ok && sl.High != nil {
					if n, isC := core.ConstInt(sl.High); isC && n == 0 {
						return true
					}
				}
				return false
			}
			resets := func(in ssa.Instruction) bool {
				if st, ok := in.(*ssa.Store); ok {
					if fa, ok := st.Addr.(*ssa.FieldAddr); ok && core.FieldOfAddr(fa) == lst {
						return emptyList(st.Val)
					}
				}
				cc := core.CallOf(in)
				if cc == nil || cc.StaticCallee() == nil {
					return false
				}
				// a callee of the package that assigns the field
				hit := false
				core.Instrs(cc.StaticCallee(), func(in2 ssa.Instruction) {
					if st, ok := in2.(*ssa.Store); ok {
						if fa, ok := st.Addr.(*ssa.FieldAddr); ok && core.FieldOfAddr(fa) == lst && emptyList(st.Val) {
							hit = true
						}
					}
				})
				return hit && in != evict
			}
			esc, path := core.PathQ{Fn: fn, From: evict, Via: resets, Target: core.AnyReturn}.Escape()
			c.Check(esc == nil, "C25/swept-senders-forgotten", "TxCache.sweepSweepable", evict.Pos(),
				"after the collected senders were evicted the collection is reset before the function returns",
				"the collected senders are evicted but the collection is not reset ("+c.P.PathString(path)+"): the next sweep evicts the same sender keys and hashes again, removing lists and transactions added since (the by-hash index and the sender index diverge)")
		}
	}
}

// c25SearchAgreesWithInsertion: the per-sender list is kept in an order that only findInsertionPlace
// defines (it returns the element the incoming transaction goes AFTER, under comparisons of the two
// transactions' nonce / gas price). findListElementWithTx, used by the removal, may give up early
// only where that order says the sought transaction cannot come later: the facts under which it
// leaves the loop without a match are the mirror image of one of the insertion's placement
// conditions. An early stop on any other comparison abandons transactions that are in the list:
// the by-hash index has already forgotten them, the sender's list keeps them for ever.
func c25SearchAgreesWithInsertion(c *core.Ctx) {
	const pkg = "storage/txcache"
	ins := anchorM(c, pkg, "txListForSender", "findInsertionPlace")
	find := anchorM(c, pkg, "txListForSender", "findListElementWithTx")
	if ins == nil || find == nil || len(ins.Params) < 2 || len(find.Params) < 2 {
		return
	}
	// side: "p" when the accessor is called on the function's transaction parameter, "c" on a list element
	accessor := func(fn *ssa.Function, v ssa.Value) (side, name string) {
		call, ok := v.(*ssa.Call)
		if !ok || !call.Call.IsInvoke() || len(call.Call.Args) != 0 {
			return "", ""
		}
		name = call.Call.Method.Name()
		for x := range core.BackwardReachPure(call.Call.Value) {
			if x == ssa.Value(fn.Params[1]) {
				return "p", name
			}
		}
		for x := range core.BackwardReachPure(call.Call.Value) {
			if _, isTA := x.(*ssa.TypeAssert); isTA {
				return "c", name
			}
		}
		return "", ""
	}
	// rel: the comparison as rel(current element, parameter transaction) on one accessor
	type rel struct{ acc, op string }
	relOf := func(fn *ssa.Function, v ssa.Value, taken bool) (rel, bool) {
		bo, ok := v.(*ssa.BinOp)
		if !ok {
			return rel{}, false
		}
		sx, nx := accessor(fn, bo.X)
		sy, ny := accessor(fn, bo.Y)
		if nx == "" || nx != ny || sx == sy || sx == "" || sy == "" {
			return rel{}, false
		}
		op := bo.Op
		if !taken {
			op = map[token.Token]token.Token{token.EQL: token.NEQ, token.NEQ: token.EQL, token.LSS: token.GEQ, token.GEQ: token.LSS, token.GTR: token.LEQ, token.LEQ: token.GTR}[op]
		}
		if sx == "p" { // normalise to (current, parameter)
			op = map[token.Token]token.Token{token.EQL: token.EQL, token.NEQ: token.NEQ, token.LSS: token.GTR, token.GTR: token.LSS, token.LEQ: token.GEQ, token.GEQ: token.LEQ}[op]
		}
		return rel{nx, op.String()}, true
	}
	factsOf := func(fn *ssa.Function, conds []core.Cond) map[rel]bool {
		out := map[rel]bool{}
		for _, cd := range conds {
			vs := []ssa.Value{cd.V}
			if cd.Taken {
				vs = core.Conjuncts(cd.V)
			}
			for _, v := range vs {
				if len(vs) > 1 || cd.Taken {
					if r, ok := relOf(fn, v, true); ok && (cd.Taken) {
						out[r] = true
						continue
					}
				}
			}
			if !cd.Taken {
				if r, ok := relOf(fn, cd.V, false); ok {
					out[r] = true
				}
			}
		}
		return out
	}
	strict := func(m map[rel]bool) map[rel]bool { // keep what defines an order: ==, <, >
		out := map[rel]bool{}
		for r := range m {
			if r.op == "==" || r.op == "<" || r.op == ">" {
				out[r] = true
			}
		}
		return out
	}
	key := func(m map[rel]bool) string {
		var ks []string
		for r := range m {
			ks = append(ks, r.acc+r.op)
		}
		sort.Strings(ks)
		return strings.Join(ks, " && ")
	}
	mirror := func(m map[rel]bool) map[rel]bool {
		out := map[rel]bool{}
		for r := range m {
			out[rel{r.acc, map[string]string{"==": "==", "<": ">", ">": "<"}[r.op]}] = true
		}
		return out
	}
	// placement conditions of the insertion: returns of (element, nil)
	allowed := map[string]bool{}
	for _, r := range core.Returns(ins) {
		if core.IsNilConst(core.RetOperand(r, 0)) || !core.NilReturn(r, nil) {
			continue
		}
		if f := strict(factsOf(ins, core.CondsAt(r.Block()))); len(f) > 0 {
			allowed[key(mirror(f))] = true
		}
	}
	c.Check(len(allowed) >= 1, "C25/search-agrees-with-insertion", "txListForSender.findInsertionPlace/order", ins.Pos(),
		fmt.Sprintf("placement conditions read from the insertion; the search may stop under: %v", keysOf(allowed)),
		"no placement condition (comparison of the two transactions' nonce / gas price at a `return element, nil`) was found in findInsertionPlace: the order of the list is not defined where this rule expects it")
	var loop *core.Loop
	for _, l := range core.Loops(find) {
		loop = l
	}
	if loop == nil {
		c.Undecided("C25/search-agrees-with-insertion", "txListForSender.findListElementWithTx", find.Pos(), "no search loop")
		return
	}
	n := 0
	for _, e := range loop.Exits() {
		if e.From == loop.Header {
			continue // exhaustion
		}
		to := e.From.Succs[e.Succ]
		if r, ok := to.Instrs[len(to.Instrs)-1].(*ssa.Return); ok && !core.IsNilConst(core.RetOperand(r, 0)) {
			continue // found
		}
		n++
		f := strict(factsOf(find, core.CondsOnEdge(e.From, e.Succ)))
		c.Check(allowed[key(f)], "C25/search-agrees-with-insertion", fmt.Sprintf("txListForSender.findListElementWithTx/early-stop#%d", n), firstPos(to),
			"the search gives up under "+key(f)+", the mirror of a placement condition of the insertion",
			fmt.Sprintf("the search for the transaction to remove gives up under [%s] (current element vs sought transaction), which is not the mirror of a placement condition of findInsertionPlace (%v): transactions that are in the list are reported as not found, removal by hash forgets them in the index while the sender's list keeps them", key(f), keysOf(allowed)))
	}
}

func keysOf(m map[string]bool) []string {
	var ks []string
	for k := range m {
		ks = append(ks, k)
	}
	sort.Strings(ks)
	return ks
}
