package rules

import (
	"fmt"
	"sort"
	"strings"

	"golang.org/x/tools/go/ssa"

	"verif/checker/internal/core"
)

func init() {
	register(&Rule{
		ID:    "C23",
		Title: "Move-balance transactions conserve value and advance the nonce once",
		Pkgs:  []string{"process/transaction", "process/smartContract"},
		Explain: "Decides the structural bookkeeping of a charged transfer. (S1) on every success path of processMoveBalance with a local sender, and on every charging exit of executingFailedTransaction " +
			"(the ErrFailedTransaction sentinel), the sender's IncreaseNonce(1) happens exactly once (event count on the CFG, min = max = 1) and never on the path taken when the sender is not in this shard. " +
			"(S2) every account mutated (SubFromBalance / AddToBalance / IncreaseNonce, or handed to processTxFee which debits it) is passed to accounts.SaveAccount with the error checked before such an exit - " +
			"an unsaved mutation is silently lost, so value disappears or the nonce does not advance. (S3) the fee debited from the sender is the very value handed to txFeeHandler.ProcessTransactionFee " +
			"(same SSA value in executingFailedTransaction; processTxFee returns as first result a value it also debits). " +
			"Every debit of processTxFee that a refusal-after-the-charge can follow is computed by the fee function the failure handler books to the collector; such refusals come only after the sender was saved. " +
			"Not decided (value-level): amounts, the insufficient-funds classification, balance arithmetic inside the account.",
		Run: runC23,
	})
}

func runC23(c *core.Ctx) {
	c23HandlerBooksWhatWasCharged(c)
	c23SoftFailuresAfterDebit(c)
	const pkg = "process/transaction"
	isMut := func(cc *ssa.CallCommon, acc ssa.Value) bool {
		if !cc.IsInvoke() || cc.Value != acc {
			return false
		}
		switch cc.Method.Name() {
		case "SubFromBalance", "AddToBalance", "IncreaseNonce":
			return true
		}
		return false
	}
	nilAcc := func(acc ssa.Value) pruneFn {
		return core.PruneWhen(func(cd core.Cond) bool {
			call, ok := cd.V.(*ssa.Call)
			return ok && core.CallDesc(&call.Call).Is("core/check", "", "IfNil") && core.Strip(call.Call.Args[0]) == acc && cd.Taken
		})
	}
	nonceEv := func(acc ssa.Value) func(in ssa.Instruction) int {
		return func(in ssa.Instruction) int {
			cc := core.CallOf(in)
			if cc != nil && cc.IsInvoke() && cc.Value == acc && cc.Method.Name() == "IncreaseNonce" {
				return 1
			}
			return 0
		}
	}
	// helperArg: the call hands the account to a function of the package; the function and the parameter that
	// stands for the account there. The rules below follow the account one or two levels into such helpers:
	// what is demanded of a path of the caller is demanded of the helper's own paths.
	helperArg := func(cc *ssa.CallCommon, acc ssa.Value, in *ssa.Function) (*ssa.Function, ssa.Value) {
		h := cc.StaticCallee()
		if h == nil || h.Blocks == nil || h.Pkg != in.Pkg || h == in {
			return nil, nil
		}
		for i, a := range cc.Args {
			if core.Strip(a) == acc && i < len(h.Params) {
				return h, h.Params[i]
			}
		}
		return nil, nil
	}
	// nonceCount: how often the instruction increases the account's nonce (a helper: the most any of its success paths does)
	var nonceCount func(fn *ssa.Function, acc ssa.Value, depth int) func(in ssa.Instruction) int
	nonceCount = func(fn *ssa.Function, acc ssa.Value, depth int) func(in ssa.Instruction) int {
		direct := nonceEv(acc)
		return func(in ssa.Instruction) int {
			if direct(in) == 1 {
				return 1
			}
			cc := core.CallOf(in)
			if cc == nil || depth >= 2 {
				return 0
			}
			h, p := helperArg(cc, acc, fn)
			if h == nil {
				return 0
			}
			max := 0
			for _, cnt := range core.CountEvents(h, nonceCount(h, p, depth+1), core.SuccessReturn) {
				if cnt.Max > max {
					max = cnt.Max
				}
			}
			return max
		}
	}
	// nonceMust: the instruction increases the nonce of a non-nil account whenever control goes on to success
	var nonceMust func(fn *ssa.Function, acc ssa.Value, depth int) func(in ssa.Instruction) bool
	nonceMust = func(fn *ssa.Function, acc ssa.Value, depth int) func(in ssa.Instruction) bool {
		direct := nonceEv(acc)
		return func(in ssa.Instruction) bool {
			if direct(in) == 1 {
				return true
			}
			cc := core.CallOf(in)
			if cc == nil || depth >= 2 {
				return false
			}
			h, p := helperArg(cc, acc, fn)
			if h == nil || nonceCount(fn, acc, depth)(in) == 0 {
				return false
			}
			esc, _ := core.PathQ{Fn: h, Via: nonceMust(h, p, depth+1), Prune: nilAcc(p), Target: core.SuccessReturn}.Escape()
			if esc == nil {
				c.Analysed(fname(h))
			}
			return esc == nil
		}
	}
	// nonceSites: the IncreaseNonce calls on the account, in the function and in the helpers it hands the account to
	var nonceSites func(fn *ssa.Function, acc ssa.Value, depth int) []ssa.Instruction
	nonceSites = func(fn *ssa.Function, acc ssa.Value, depth int) (out []ssa.Instruction) {
		core.Instrs(fn, func(in ssa.Instruction) {
			if nonceEv(acc)(in) == 1 {
				out = append(out, in)
			} else if cc := core.CallOf(in); cc != nil && depth < 2 {
				if h, p := helperArg(cc, acc, fn); h != nil {
					out = append(out, nonceSites(h, p, depth+1)...)
				}
			}
		})
		return out
	}
	var saveVia func(fn *ssa.Function, acc ssa.Value) viaPred
	var mutates func(fn *ssa.Function, cc *ssa.CallCommon, acc ssa.Value, depth int) bool
	mutates = func(fn *ssa.Function, cc *ssa.CallCommon, acc ssa.Value, depth int) bool {
		if isMut(cc, acc) {
			return true
		}
		if depth >= 2 {
			return false
		}
		h, p := helperArg(cc, acc, fn)
		if h == nil {
			return false
		}
		return len(core.CallsIn(h, func(in ssa.Instruction, hc *ssa.CallCommon) bool { return mutates(h, hc, p, depth+1) })) > 0
	}
	// savesSummary: every success path of the helper with a non-nil account passes a checked SaveAccount of it
	savesSummary := map[*ssa.Function]map[ssa.Value]int{}
	saves := func(h *ssa.Function, p ssa.Value) bool {
		if savesSummary[h] == nil {
			savesSummary[h] = map[ssa.Value]int{}
		}
		if v := savesSummary[h][p]; v != 0 {
			return v == 1
		}
		savesSummary[h][p] = 2 // recursion guard: assume not
		cv := core.NewCheckedVia(h, saveVia(h, p))
		ok := len(cv.Calls) > 0 && len(cv.Unhandled) == 0
		if ok {
			esc, _ := core.PathQ{Fn: h, Via: cv.Via, ViaEdge: cv.ViaEdge, Prune: nilAcc(p), Target: cv.WrapTarget(core.NilReturn)}.Escape()
			ok = esc == nil
		}
		if ok {
			savesSummary[h][p] = 1
			c.Analysed(fname(h))
		}
		return ok
	}
	saveVia = func(fn *ssa.Function, acc ssa.Value) viaPred {
		return func(in ssa.Instruction, cc *ssa.CallCommon) bool {
			if cc.IsInvoke() && cc.Method.Name() == "SaveAccount" && isRecvField(fn, cc.Value, "accounts") && core.Strip(cc.Args[0]) == acc {
				return true
			}
			if h, p := helperArg(cc, acc, fn); h != nil && core.ErrIndex(h.Signature) >= 0 {
				return saves(h, p)
			}
			return false
		}
	}

	// ---- processMoveBalance
	if fn := anchorM(c, pkg, "txProcessor", "processMoveBalance"); fn != nil {
		src, dst := ssa.Value(fn.Params[2]), ssa.Value(fn.Params[3])
		// S1: exactly one IncreaseNonce(1) on src on success paths with a local sender; none without
		counts := core.CountEvents(fn, nonceCount(fn, src, 0), core.NilReturn)
		// min over all paths includes the "sender not local" path (0); so evaluate the two cases by pruning in a path query
		qNone := core.PathQ{Fn: fn, Via: nonceMust(fn, src, 0), Prune: nilAcc(src), Target: core.NilReturn}
		esc, path := qNone.Escape()
		c.Check(esc == nil, "C23/nonce-exactly-once", "processMoveBalance/at-least-once", fn.Pos(), "with a local sender every success path increases the sender nonce",
			"a success path with a local sender does not increase the nonce: "+c.P.PathString(path))
		okMax := true
		for _, cnt := range counts {
			if cnt.Max > 1 {
				okMax = false
			}
		}
		c.Check(okMax && len(counts) > 0, "C23/nonce-exactly-once", "processMoveBalance/at-most-once", fn.Pos(), "no success path increases the sender nonce twice", "a success path increases the sender nonce more than once")
		// constant 1
		for _, in := range nonceSites(fn, src, 0) {
			n, ok := core.ConstInt(core.CallOf(in).Args[0])
			c.Check(ok && n == 1, "C23/nonce-exactly-once", "processMoveBalance/step", in.Pos(), "IncreaseNonce(1)", "the nonce is not increased by the constant 1")
		}
		// S2: mutated accounts are saved
		for _, acc := range []struct {
			name string
			v    ssa.Value
		}{{"sender", src}, {"receiver", dst}} {
			muts := core.CallsIn(fn, func(in ssa.Instruction, cc *ssa.CallCommon) bool {
				if mutates(fn, cc, acc.v, 0) {
					return true
				}
				// processTxFee debits the sender it is given
				return acc.name == "sender" && core.CallDesc(cc).Name == "processTxFee" && len(cc.Args) > 2 && cc.Args[2] == acc.v
			})
			for i, m := range muts {
				mustPassChecked(c, fn, "C23/mutated-account-saved", fmt.Sprintf("processMoveBalance/%s-mutation#%d(%s)", acc.name, i, core.CallDesc(core.CallOf(m)).Name), m,
					saveVia(fn, acc.v), core.NilReturn, nilAcc(acc.v), "the mutated "+acc.name+" account is saved (error checked) before success")
				// a helper that is taken as the save must save after its own mutations
				if h, p := helperArg(core.CallOf(m), acc.v, fn); h != nil && core.ErrIndex(h.Signature) >= 0 && saves(h, p) {
					for j, mi := range core.CallsIn(h, func(in ssa.Instruction, hc *ssa.CallCommon) bool { return mutates(h, hc, p, 1) }) {
						mustPassChecked(c, h, "C23/mutated-account-saved", fmt.Sprintf("processMoveBalance/%s-mutation#%d(%s)/inner#%d(%s)", acc.name, i, h.Name(), j, core.CallDesc(core.CallOf(mi)).Name), mi,
							saveVia(h, p), core.NilReturn, nilAcc(p), "the "+acc.name+" account mutated in the helper is saved (error checked) before the helper reports success")
					}
				}
			}
			if len(muts) == 0 {
				c.Fail("C23/mutated-account-saved", "processMoveBalance/"+acc.name, fn.Pos(), "no mutation of the "+acc.name+" account found: anchor drift")
			}
		}
		// S3: fee handed to the collector is result 0 of processTxFee
		okFee := false
		for _, in := range core.CallsIn(fn, func(in ssa.Instruction, cc *ssa.CallCommon) bool { return isInvoke(cc, "ProcessTransactionFee") }) {
			if ex, ok := core.CallOf(in).Args[0].(*ssa.Extract); ok && ex.Index == 0 {
				if call, ok := ex.Tuple.(*ssa.Call); ok && core.CallDesc(&call.Call).Name == "processTxFee" {
					okFee = true
				}
			}
		}
		c.Check(okFee, "C23/fee-debited-is-fee-collected", "processMoveBalance", fn.Pos(), "the collected fee is the move-balance cost returned by processTxFee", "ProcessTransactionFee is not given the cost returned by processTxFee")
		mustPass(c, fn, "C23/fee-debited-is-fee-collected", "processMoveBalance/collected", nil, func(in ssa.Instruction) bool {
			cc := core.CallOf(in)
			return cc != nil && isInvoke(cc, "ProcessTransactionFee")
		}, core.NilReturn, nil, "the fee is accounted to the fee collector before success")
	}
	// ---- processTxFee: result 0 is a value that is debited
	if fn := anchorM(c, pkg, "txProcessor", "processTxFee"); fn != nil {
		snd := ssa.Value(fn.Params[2])
		debited := map[ssa.Value]bool{}
		for _, in := range core.CallsIn(fn, func(in ssa.Instruction, cc *ssa.CallCommon) bool {
			return cc.IsInvoke() && cc.Value == snd && cc.Method.Name() == "SubFromBalance"
		}) {
			debited[core.CallOf(in).Args[0]] = true
			// one debit of an amount chosen before it (`fee := a; if cond { fee = b }`): either may be what was debited
			if ph, isPhi := core.CallOf(in).Args[0].(*ssa.Phi); isPhi {
				for _, e := range ph.Edges {
					debited[e] = true
				}
			}
		}
		n, ok := 0, true
		why := ""
		for _, r := range core.Returns(fn) {
			if !core.NilReturn(r, nil) {
				continue
			}
			r0 := core.RetOperand(r, 0)
			// the nil-sender exit returns a fresh zero
			nilSender := false
			for _, cd := range core.CondsAt(r.Block()) {
				if call, isC := cd.V.(*ssa.Call); isC && core.CallDesc(&call.Call).Name == "IfNil" && cd.Taken {
					nilSender = true
				}
			}
			if nilSender {
				continue
			}
			n++
			// the move-balance exits: result 0 must be among the debited values, unless the exit is on a non-move-balance branch
			nonMove := false
			for _, f := range core.FactsAt(r.Block()) {
				if f.Op == "!=" && strings.Contains(f.String(), "MoveBalance") || f.Op == "!=" && strings.Contains(f.String(), "p4") {
					nonMove = true
				}
			}
			if !debited[r0] && !nonMove {
				ok, why = false, "the exit at "+c.P.Pos(r.Pos())+" returns a move-balance cost that was not debited from the sender"
			}
		}
		c.Check(ok && n > 0 && len(debited) > 0, "C23/fee-debited-is-fee-collected", "processTxFee", fn.Pos(), "the cost reported for a move-balance is a value debited from the sender", why)
	}
	// ---- executingFailedTransaction
	if fn := anchorM(c, pkg, "txProcessor", "executingFailedTransaction"); fn != nil {
		snd := ssa.Value(fn.Params[2])
		charging := func(in ssa.Instruction, pred *ssa.BasicBlock) bool {
			r, ok := in.(*ssa.Return)
			if !ok {
				return false
			}
			return strings.HasSuffix(core.ExprKey(core.RetErrOperand(r)), "ErrFailedTransaction")
		}
		cnt := core.CountEvents(fn, nonceEv(snd), charging)
		ok := len(cnt) > 0
		for _, k := range cnt {
			if k.Min != 1 || k.Max != 1 {
				ok = false
			}
		}
		c.Check(ok, "C23/nonce-exactly-once", "executingFailedTransaction", fn.Pos(), "a charged failure increases the sender nonce exactly once", "the charging exit does not pass exactly one IncreaseNonce on the sender")
		muts := core.CallsIn(fn, func(in ssa.Instruction, cc *ssa.CallCommon) bool { return isMut(cc, snd) })
		for i, m := range muts {
			mustPassChecked(c, fn, "C23/mutated-account-saved", fmt.Sprintf("executingFailedTransaction/sender-mutation#%d(%s)", i, core.CallDesc(core.CallOf(m)).Name), m,
				saveVia(fn, snd), charging, nil, "the charged sender account is saved (error checked) before the charging exit")
		}
		// nothing is mutated when the sender is not local
		q := core.PathQ{Fn: fn, Via: nil, Target: func(in ssa.Instruction, _ *ssa.BasicBlock) bool {
			cc := core.CallOf(in)
			return cc != nil && isMut(cc, snd)
		}, Prune: func(b *ssa.BasicBlock, s int) bool { return !nilAcc(snd)(b, s) && isIfNilBranch(b, snd) }}
		_ = q
		// S3 same fee value
		var debit, collected ssa.Value
		for _, in := range core.CallsIn(fn, func(in ssa.Instruction, cc *ssa.CallCommon) bool {
			return cc.IsInvoke() && cc.Value == snd && cc.Method.Name() == "SubFromBalance"
		}) {
			debit = core.CallOf(in).Args[0]
		}
		for _, in := range core.CallsIn(fn, func(in ssa.Instruction, cc *ssa.CallCommon) bool { return isInvoke(cc, "ProcessTransactionFee") }) {
			collected = core.CallOf(in).Args[0]
		}
		c.Check(debit != nil && debit == collected, "C23/fee-debited-is-fee-collected", "executingFailedTransaction", fn.Pos(), "the fee debited is the fee collected (same value)", "the value debited from the sender differs from the value handed to the fee collector")
	}
	// a transfer to oneself works on ONE account object: with two separately loaded copies the later save
	// overwrites the earlier one (the debit, the fee and the nonce increase are lost)
	if fn := anchorM(c, pkg, "baseTxProcessor", "getAccounts"); fn != nil {
		ok := false
		for _, r := range core.Returns(fn) {
			if !core.NilReturn(r, nil) {
				continue
			}
			same := core.RetOperand(r, 0) == core.RetOperand(r, 1) && !core.IsNilConst(core.RetOperand(r, 0))
			eq := false
			for _, f := range core.FactsAt(r.Block()) {
				if f.Op == "T" && f.A == "bytes.Equal(p1, p2)" {
					eq = true
				}
			}
			if same && eq {
				ok = true
			}
		}
		c.Check(ok, "C23/self-transfer-single-object", "baseTxProcessor.getAccounts", fn.Pos(), "when sender and receiver addresses are equal the same account object is returned for both",
			"getAccounts has no `bytes.Equal(src, dst)` branch returning one account object for both roles: a self-transfer mutates two copies and the receiver copy, saved last, undoes the debit, the fee and the nonce increase")
	}
	c.Floor("C23/nonce-exactly-once", 4)
	c.Floor("C23/mutated-account-saved", 5)
	c.Floor("C23/fee-debited-is-fee-collected", 4)
}

func isIfNilBranch(b *ssa.BasicBlock, acc ssa.Value) bool {
	ifi, ok := b.Instrs[len(b.Instrs)-1].(*ssa.If)
	if !ok {
		return false
	}
	call, ok := ifi.Cond.(*ssa.Call)
	return ok && core.CallDesc(&call.Call).Name == "IfNil" && core.Strip(call.Call.Args[0]) == acc
}

// c23SoftFailuresAfterDebit: executeAfterFailedMoveBalanceTransaction turns some errors of
// processMoveBalance into a failed-but-executed transaction: it refunds the value and books the fee,
// assuming the sender was already charged. Those errors may therefore be returned only after the
// charge: every return of processMoveBalance whose error can be one of them lies behind the
// error-checked processTxFee call (the set of such errors is read from the errors.Is tests of
// the handler, not listed).
func c23SoftFailuresAfterDebit(c *core.Ctx) {
	const pkg = "process/transaction"
	handler := anchorM(c, pkg, "txProcessor", "executeAfterFailedMoveBalanceTransaction")
	pmb := anchorM(c, pkg, "txProcessor", "processMoveBalance")
	if handler == nil || pmb == nil {
		return
	}
	c.Analysed(fname(handler))
	c.Analysed(fname(pmb))
	soft := map[string]bool{}
	core.Instrs(handler, func(in ssa.Instruction) {
		cc := core.CallOf(in)
		if cc == nil || cc.StaticCallee() == nil || cc.StaticCallee().Name() != "Is" || len(cc.Args) != 2 {
			return
		}
		if u, ok := cc.Args[1].(*ssa.UnOp); ok {
			if g, ok := u.X.(*ssa.Global); ok {
				soft[g.Name()] = true
			}
		}
	})
	if len(soft) == 0 {
		c.Undecided("C23/soft-failures-only-after-the-charge", "executeAfterFailedMoveBalanceTransaction", handler.Pos(), "no errors.Is test found in the failure handler")
		return
	}
	mayReturn := func(fn *ssa.Function) bool {
		hit := false
		for _, r := range core.Returns(fn) {
			ev := core.RetErrOperand(r)
			if u, ok := ev.(*ssa.UnOp); ok {
				if g, ok := u.X.(*ssa.Global); ok && soft[g.Name()] {
					hit = true
				}
			}
		}
		return hit
	}
	n := 0
	for _, r := range core.Returns(pmb) {
		ev := core.RetErrOperand(r)
		if ev == nil {
			continue
		}
		isSoft := ""
		for x := range core.BackwardReachPure(ev) {
			if u, ok := x.(*ssa.UnOp); ok {
				if g, ok := u.X.(*ssa.Global); ok && soft[g.Name()] {
					isSoft = g.Name()
				}
			}
			if call, ok := x.(*ssa.Call); ok && call.Call.StaticCallee() != nil && len(call.Call.StaticCallee().Blocks) > 0 && call.Call.StaticCallee().Name() != "processTxFee" {
				if mayReturn(call.Call.StaticCallee()) {
					isSoft = "the error of " + call.Call.StaticCallee().Name()
				}
			}
		}
		if isSoft == "" {
			continue
		}
		n++
		r := r
		cv := core.NewCheckedVia(pmb, func(in ssa.Instruction, cc *ssa.CallCommon) bool {
			return cc.StaticCallee() != nil && cc.StaticCallee().Name() == "processTxFee"
		})
		esc, path := core.PathQ{Fn: pmb, Via: cv.Via, ViaEdge: cv.ViaEdge, Target: func(in ssa.Instruction, _ *ssa.BasicBlock) bool { return in == ssa.Instruction(r) }}.Escape()
		// ... and after the debited sender (value out, nonce advanced) was saved - or the sender is not
		// in this shard: the handler reloads the sender from the accounts adapter
		if esc == nil && len(pmb.Params) > 2 {
			snd := ssa.Value(pmb.Params[2])
			sv := core.NewCheckedVia(pmb, func(in ssa.Instruction, cc *ssa.CallCommon) bool {
				if !cc.IsInvoke() || cc.Method.Name() != "SaveAccount" || len(cc.Args) == 0 {
					return false
				}
				return core.Strip(cc.Args[0]) == snd
			})
			noSender := func(b *ssa.BasicBlock, si int) bool { return isIfNilBranch(b, snd) && si == 0 }
			if notNil := func(b *ssa.BasicBlock, si int) bool { return sv.ViaEdge != nil && sv.ViaEdge(b, si) }; len(sv.Calls) > 0 {
				esc, path = core.PathQ{Fn: pmb, Via: sv.Via, ViaEdge: func(b *ssa.BasicBlock, si int) bool { return notNil(b, si) || noSender(b, si) },
					Target: func(in ssa.Instruction, _ *ssa.BasicBlock) bool { return in == ssa.Instruction(r) }}.Escape()
			}
		}
		c.Check(esc == nil && len(cv.Calls) > 0, "C23/soft-failures-only-after-the-charge", fmt.Sprintf("processMoveBalance/return#%d(%s)", n, isSoft), r.Pos(),
			"this error, which the caller turns into a refunded failed transaction, is returned only after the sender was charged",
			isSoft+" can be returned before the sender is charged ("+c.P.PathString(path)+"): the failure handler refunds the value and books the fee of a transaction that never debited the sender - value is created, the nonce does not advance and the transaction can be replayed")
	}
	c.Floor("C23/soft-failures-only-after-the-charge", 2)
}

// c23HandlerBooksWhatWasCharged: when a transfer is refused after the charge (destination not
// payable, invalid metachain transaction) the failure handler hands the transaction to
// scProcessor.ProcessIfError, which books a fee of its own computation to the collector. Value is
// conserved only if that is the fee the sender was debited: every debit of processTxFee that such a
// refusal can follow is computed by the same fee function as the amount ProcessIfError books.
func c23HandlerBooksWhatWasCharged(c *core.Ctx) {
	fee := anchorM(c, "process/transaction", "txProcessor", "processTxFee")
	booked := anchorM(c, "process/smartContract", "scProcessor", "createSCRsWhenError")
	if fee == nil || booked == nil {
		return
	}
	econ := func(v ssa.Value) map[string]bool {
		out := map[string]bool{}
		for x := range core.BackwardReachPure(v) {
			call, ok := x.(*ssa.Call)
			if !ok {
				continue
			}
			if call.Call.IsInvoke() && strings.HasPrefix(call.Call.Method.Name(), "Compute") {
				out[call.Call.Method.Name()] = true
			}
		}
		return out
	}
	// what the handler books: the fee functions reaching the second result of createSCRsWhenError,
	// the ones that are only subtracted from it left out
	bookedBy := map[string]bool{}
	for _, r := range core.Returns(booked) {
		if len(r.Results) < 2 {
			continue
		}
		for k := range econ(r.Results[1]) {
			bookedBy[k] = true
		}
	}
	core.Instrs(booked, func(in ssa.Instruction) {
		call, ok := in.(*ssa.Call)
		if !ok || !core.CallDesc(&call.Call).Is("math/big", "Int", "Sub") || len(call.Call.Args) < 3 {
			return
		}
		for k := range econ(call.Call.Args[2]) {
			delete(bookedBy, k)
		}
	})
	var bl []string
	for k := range bookedBy {
		bl = append(bl, k)
	}
	sort.Strings(bl)
	if len(bl) == 0 {
		c.Undecided("C23/failure-handler-books-what-was-charged", "scProcessor.createSCRsWhenError", booked.Pos(), "no fee function reaches the booked fee")
		return
	}
	relayed := ssa.Value(nil)
	if len(fee.Params) > 5 {
		relayed = fee.Params[5]
	}
	n := 0
	core.Instrs(fee, func(in ssa.Instruction) {
		cc := core.CallOf(in)
		if cc == nil || !cc.IsInvoke() || cc.Method.Name() != "SubFromBalance" || len(cc.Args) != 1 {
			return
		}
		for _, cd := range core.CondsAt(in.Block()) {
			if cd.V == relayed && cd.Taken {
				return // the relayed inner transaction has its own failure path
			}
		}
		n++
		by := econ(cc.Args[0])
		same := false
		var dl []string
		for k := range by {
			dl = append(dl, k)
			if bookedBy[k] {
				same = true
			}
		}
		sort.Strings(dl)
		c.Check(same, "C23/failure-handler-books-what-was-charged", fmt.Sprintf("txProcessor.processTxFee/debit(%s)", strings.Join(dl, ",")), in.Pos(),
			"the debit is computed by the fee function the failure handler books ("+strings.Join(bl, ",")+")",
			fmt.Sprintf("the sender is debited a fee computed by %v while a refusal after the charge makes ProcessIfError book a fee computed by %v to the collector: for a transfer with more gas than the move-balance minimum the collector is credited more than the sender paid - value is created", dl, bl))
	})
	c.Floor("C23/failure-handler-books-what-was-charged", 2)
}
