package rules

import (
	"fmt"
	"go/token"
	"strings"

	"golang.org/x/tools/go/ssa"

	"verif/checker/internal/core"
)

func init() {
	register(&Rule{
		ID:    "C34",
		Title: "Metachain epochs respect the minimum and maximum length",
		Pkgs:  []string{"epochStart/metachain"},
		Explain: "Decides structural conditions of the epoch-start trigger. (S1) no unsigned subtraction in the methods of the metachain trigger can wrap around (a forced round before the current epoch's start " +
			"round made `next - curr` huge, skipped the minimum-rounds clamp and started an epoch immediately). (S2) ForceEpochStart clamps: the requested round is compared with " +
			"currEpochStartRound+minRoundsBetweenEpochs and, on the 'too early' side, replaced by exactly that sum. (S3) in Update the epoch counter is incremented by the constant 1, at most once per call, " +
			"only on the branch where no epoch start is pending (!isEpochStart) and the start condition - which depends on the normal (strict `>` against currEpochStartRound+roundsPerEpoch) and the forced trigger - " +
			"holds; on the same branch isEpochStart is set and currEpochStartRound becomes the current round. " +
			"After every assignment of the forced round in ForceEpochStart every exit lies behind the minimum test, the clamp or the disabling store; the forced round is cleared on every path from the epoch increment to the return of Update. " +
			"trigger.revert restores the epoch from the reverted header, not from the trigger's own epoch field. " +
			"Not decided (value-level): the arithmetic relation between consecutive start rounds over round sequences with gaps.",
		Run: runC34,
	})
}

func runC34(c *core.Ctx) {
	c34RevertRestoresFromTheRevertedBlock(c)
	const pkg = "epochStart/metachain"
	// ---- S1
	nf := 0
	for _, fn := range c.P.FuncsOfPkg(pkg) {
		r := fn.Signature.Recv()
		if r == nil {
			if fn.Parent() == nil {
				continue
			}
		} else if nt := namedElem(r.Type()); nt == nil || nt.Obj().Name() != "trigger" {
			continue
		}
		if fn.Parent() != nil {
			continue
		}
		nf++
		c.Analysed(core.QualName(fn))
		subs := core.UnsignedSubs(fn)
		bad := ""
		for _, s := range subs {
			if !s.Guarded {
				bad = fmt.Sprintf("%s at %s: %s", core.ExprKey(s.Op), c.P.Pos(s.Op.Pos()), s.Why)
			}
		}
		// the property's mechanism: the start condition and the forced-start clamp
		if fn.Name() != "ForceEpochStart" && fn.Name() != "Update" {
			continue
		}
		c.Check(bad == "", "C34/unsigned-sub-guarded", fname(fn), fn.Pos(), fmt.Sprintf("%d unsigned subtraction(s), all guarded", len(subs)), "unsigned subtraction can wrap around: "+bad)
	}
	c.Floor("C34/unsigned-sub-guarded", 2)

	// ---- S2
	if fn := anchorM(c, pkg, "trigger", "ForceEpochStart"); fn != nil {
		sumKey := "(recv.currEpochStartRound + recv.minRoundsBetweenEpochs)"
		ok := false
		core.Instrs(fn, func(in ssa.Instruction) {
			st, isSt := in.(*ssa.Store)
			if !isSt || !isRecvFieldAddr(fn, st.Addr, "nextEpochStartRound") {
				return
			}
			if core.ExprKey(st.Val) != sumKey {
				return
			}
			for _, f := range core.FactsAt(st.Block()) {
				if f.Op == "<" && f.A == "recv.nextEpochStartRound" && f.B == sumKey {
					ok = true
				}
				// equivalent difference form (its subtraction is decided by S1)
				if f.Op == "<" && f.A == "(recv.nextEpochStartRound - recv.currEpochStartRound)" && f.B == "recv.minRoundsBetweenEpochs" {
					ok = true
				}
			}
		})
		// valueOK: the stored value is known not to be below the minimum where it is stored: it is the sum, the
		// disabling constant, a value the dominating test found not below the sum, or a local chosen between
		// such values (`forced := round; if sum > forced { forced = sum }`: each incoming edge is one case)
		disabledKey := ""
		if k := c.P.Const(pkg, "disabledRoundForForceEpochStart"); k != nil {
			disabledKey = k.Val().ExactString()
		}
		notBelowSum := func(v ssa.Value, conds []core.Cond) bool {
			key := core.ExprKey(v)
			if key == sumKey || (disabledKey != "" && key == disabledKey) {
				return true
			}
			for _, cd := range conds {
				f := core.FactOf(cd)
				if (f.Op == "<=" || f.Op == "<") && f.A == sumKey && f.B == key {
					return true
				}
			}
			return false
		}
		valueOK := func(st *ssa.Store) (good, clamps bool) {
			if notBelowSum(st.Val, core.CondsAt(st.Block())) {
				return true, false
			}
			ph, isPhi := st.Val.(*ssa.Phi)
			if !isPhi {
				return false, false
			}
			good = true
			for i, pred := range ph.Block().Preds {
				var conds []core.Cond
				for si, sb := range pred.Succs {
					if sb == ph.Block() {
						conds = core.CondsOnEdge(pred, si)
						break
					}
				}
				if !notBelowSum(ph.Edges[i], conds) {
					good = false
				}
				if core.ExprKey(ph.Edges[i]) == sumKey {
					for _, cd := range conds {
						if f := core.FactOf(cd); f.Op == "<" && f.B == sumKey {
							for j, o := range ph.Edges {
								if j != i && core.ExprKey(o) == f.A {
									clamps = true
								}
							}
						}
					}
				}
			}
			return good, good && clamps
		}
		core.Instrs(fn, func(in ssa.Instruction) {
			if st, isSt := in.(*ssa.Store); isSt && isRecvFieldAddr(fn, st.Addr, "nextEpochStartRound") {
				if _, clamps := valueOK(st); clamps {
					ok = true
				}
			}
		})
		// the clamp compares with the CURRENT epoch's start round: the start round it reads and the forced round
		// it stores belong to one critical section (a start round read before the lock was released is stale when
		// the forced round is stored: Update may have started an epoch in between)
		{
			reaches := func(from ssa.Instruction, to ssa.Instruction) bool {
				esc, _ := core.PathQ{Fn: fn, From: from, Target: func(x ssa.Instruction, _ *ssa.BasicBlock) bool { return x == to }}.Escape()
				return esc != nil
			}
			var loads, unlocks, stores []ssa.Instruction
			core.Instrs(fn, func(in ssa.Instruction) {
				switch x := in.(type) {
				case *ssa.UnOp:
					if fa, isFa := x.X.(*ssa.FieldAddr); isFa && x.Op == token.MUL && isRecvFieldAddr(fn, fa, "currEpochStartRound") {
						loads = append(loads, in)
					}
				case *ssa.Call:
					if d := core.CallDesc(&x.Call); d.Pkg == "sync" && (d.Name == "Unlock" || d.Name == "RUnlock") {
						unlocks = append(unlocks, in)
					}
				case *ssa.Store:
					if isRecvFieldAddr(fn, x.Addr, "nextEpochStartRound") {
						stores = append(stores, in)
					}
				}
			})
			stale := ""
			for _, l := range loads {
				for _, u := range unlocks {
					for _, st := range stores {
						if reaches(l, u) && reaches(u, st) {
							stale = fmt.Sprintf("currEpochStartRound read at %s, lock released at %s, forced round stored at %s", c.P.Pos(l.Pos()), c.P.Pos(u.Pos()), c.P.Pos(st.Pos()))
						}
					}
				}
			}
			c.Check(stale == "" && len(loads) > 0 && len(stores) > 0, "C34/forced-start-clamped", "trigger.ForceEpochStart/one-critical-section", fn.Pos(),
				"the start round the clamp reads and the forced round it stores are not separated by a release of the lock",
				"the forced round is clamped against a start round read before the lock was released ("+stale+"): an epoch started in between makes the stored round earlier than the new epoch's start + minRoundsBetweenEpochs")
		}
		c.Check(ok, "C34/forced-start-clamped", "trigger.ForceEpochStart", fn.Pos(), "a too-early forced round is replaced by currEpochStartRound+minRoundsBetweenEpochs",
			"no branch `nextEpochStartRound < currEpochStartRound+minRoundsBetweenEpochs` that clamps the forced round to that sum: an epoch can be forced to start before the minimum number of rounds")
		// whatever value is stored as the forced round, every way out of the function passes the clamp
		// store, the disabling store, or the branch on which the value is known not to be below the minimum
		disabled := ""
		if k := c.P.Const(pkg, "disabledRoundForForceEpochStart"); k != nil {
			disabled = k.Val().ExactString()
		}
		isFinal := func(in ssa.Instruction) bool {
			st, isSt := in.(*ssa.Store)
			if !isSt || !isRecvFieldAddr(fn, st.Addr, "nextEpochStartRound") {
				return false
			}
			k := core.ExprKey(st.Val)
			return k == sumKey || disabled != "" && k == disabled
		}
		notBelow := edgeFact(func(f core.Fact, _ core.Cond) bool {
			if (f.Op == "<=" || f.Op == "<") && f.A == sumKey && f.B == "recv.nextEpochStartRound" {
				return true
			}
			// equivalent difference form (its subtraction is decided by S1)
			return (f.Op == "<=" || f.Op == "<") && f.A == "recv.minRoundsBetweenEpochs" && f.B == "(recv.nextEpochStartRound - recv.currEpochStartRound)"
		})
		k := 0
		core.Instrs(fn, func(in ssa.Instruction) {
			st, isSt := in.(*ssa.Store)
			if !isSt || !isRecvFieldAddr(fn, st.Addr, "nextEpochStartRound") || isFinal(in) {
				return
			}
			k++
			if good, _ := valueOK(st); good {
				c.Pass("C34/forced-start-clamped", fmt.Sprintf("trigger.ForceEpochStart/store#%d-reaches-exit-clamped", k), st.Pos(), "the value assigned is known not to be below the minimum where it is stored")
				return
			}
			esc, path := core.PathQ{Fn: fn, From: in, Via: isFinal, ViaEdge: notBelow, Target: core.AnyReturn}.Escape()
			c.Check(esc == nil, "C34/forced-start-clamped", fmt.Sprintf("trigger.ForceEpochStart/store#%d-reaches-exit-clamped", k), st.Pos(),
				"after this assignment of the forced round every exit lies behind the minimum test, the clamp or the disabling store",
				"a forced round assigned here ("+core.ExprKey(st.Val)+") reaches the end of ForceEpochStart without passing the minimum-length test, the clamp or the disabling store ("+c.P.PathString(path)+"): the epoch can be ended before minRoundsBetweenEpochs")
		})
	}
	// ---- S3
	if fn := anchorM(c, pkg, "trigger", "Update"); fn != nil {
		var incs []*ssa.Store
		// site: where in Update the increment takes place - the store itself, or the call of a method of the
		// trigger (on the same receiver) that performs the one store on each of its paths, outside any loop
		sites := map[*ssa.Store]ssa.Instruction{}
		core.Instrs(fn, func(in ssa.Instruction) {
			if st, ok := in.(*ssa.Store); ok && isRecvFieldAddr(fn, st.Addr, "epoch") {
				incs = append(incs, st)
				sites[st] = in
				return
			}
			cc := core.CallOf(in)
			if cc == nil || cc.StaticCallee() == nil || cc.StaticCallee().Blocks == nil || cc.StaticCallee().Pkg != fn.Pkg || cc.StaticCallee() == fn ||
				cc.StaticCallee().Signature.Recv() == nil || len(cc.Args) == 0 || cc.Args[0] != ssa.Value(fn.Params[0]) {
				return
			}
			if _, isCall := in.(*ssa.Call); !isCall {
				return
			}
			h := cc.StaticCallee()
			var hs []*ssa.Store
			core.Instrs(h, func(hin ssa.Instruction) {
				if st, ok := hin.(*ssa.Store); ok && isRecvFieldAddr(h, st.Addr, "epoch") {
					hs = append(hs, st)
				}
			})
			if len(hs) == 0 {
				return
			}
			for _, st := range hs {
				everyPath := core.InnermostLoop(h, st.Block()) == nil
				for _, hr := range core.Returns(h) {
					if !st.Block().Dominates(hr.Block()) {
						everyPath = false
					}
				}
				if !everyPath || len(hs) != 1 {
					// not a plain "do the transition" helper: counted as is, which fails the exactly-one test below
					incs = append(incs, hs...)
					return
				}
				incs = append(incs, st)
				sites[st] = in
				c.Analysed(fname(h))
			}
		})

		if len(incs) != 1 {
			c.Fail("C34/epoch-increment-once", "trigger.Update", fn.Pos(), fmt.Sprintf("%d stores to the epoch counter (expected exactly one)", len(incs)))
		} else {
			st := incs[0]
			site := sites[st]
			step := false
			if b, ok := st.Val.(*ssa.BinOp); ok && b.Op == token.ADD {
				if n, isC := core.ConstInt(b.Y); isC && n == 1 && core.ExprKey(b.X) == "recv.epoch" {
					step = true
				}
			}
			c.Check(step, "C34/epoch-increment-once", "trigger.Update/step", st.Pos(), "epoch = epoch + 1", "the epoch counter is not incremented by exactly the constant 1")
			if l := core.InnermostLoop(fn, site.Block()); l != nil {
				c.Fail("C34/epoch-increment-once", "trigger.Update/no-loop", st.Pos(), "the increment is inside a loop")
			} else {
				c.Pass("C34/epoch-increment-once", "trigger.Update/no-loop", st.Pos(), "straight-line: at most one increment per call")
			}
			notPending, cond := false, ssa.Value(nil)
			for _, cd := range core.CondsAt(site.Block()) {
				f := core.FactOf(cd)
				if f.Op == "T" && f.A == "!recv.isEpochStart" {
					notPending = true
				} else {
					cond = cd.V
				}
			}
			c.Check(notPending, "C34/epoch-increment-once", "trigger.Update/not-pending", st.Pos(), "only when no epoch start is pending (!isEpochStart)",
				"the increment is not guarded by !isEpochStart: repeated Update calls in the same round increase the epoch more than once")
			// start condition depends on both triggers, normal one strict
			normal, forced, strict := false, false, false
			_ = cond
			// every branch condition on a path to the increment (control dependence through &&/|| included)
			reachSt := map[*ssa.BasicBlock]bool{}
			var back func(b *ssa.BasicBlock)
			back = func(b *ssa.BasicBlock) {
				if reachSt[b] {
					return
				}
				reachSt[b] = true
				for _, p := range b.Preds {
					back(p)
				}
			}
			back(site.Block())
			var condVals []ssa.Value
			for b := range reachSt {
				if ifi, ok := b.Instrs[len(b.Instrs)-1].(*ssa.If); ok && b != site.Block() {
					condVals = append(condVals, ifi.Cond)
				}
			}
			// a condition decided by a method of the trigger (`if !t.shouldStart(nonce) { return }`): what that
			// method branches on and answers is part of the condition
			for _, cv := range append([]ssa.Value(nil), condVals...) {
				for v := range core.BackwardReach(cv) {
					call, isCall := v.(*ssa.Call)
					if !isCall || call.Call.StaticCallee() == nil || call.Call.StaticCallee().Blocks == nil || call.Call.StaticCallee().Pkg != fn.Pkg || call.Call.StaticCallee().Signature.Recv() == nil {
						continue
					}
					h := call.Call.StaticCallee()
					if len(call.Call.Args) == 0 || call.Call.Args[0] != ssa.Value(fn.Params[0]) {
						continue
					}
					c.Analysed(fname(h))
					for _, hb := range h.Blocks {
						switch last := hb.Instrs[len(hb.Instrs)-1].(type) {
						case *ssa.If:
							condVals = append(condVals, last.Cond)
						case *ssa.Return:
							if len(last.Results) == 1 {
								condVals = append(condVals, last.Results[0])
							}
						}
					}
				}
			}
			for _, cv := range condVals {
				for v := range core.BackwardReach(cv) {
					k := core.ExprKey(v)
					if strings.Contains(k, "recv.roundsPerEpoch") && strings.Contains(k, "recv.currEpochStartRound") {
						normal = true
						if b, ok := v.(*ssa.BinOp); ok && (b.Op == token.GTR || b.Op == token.LSS) {
							strict = true
						}
					}
					if strings.Contains(k, "recv.nextEpochStartRound") {
						forced = true
					}
				}
			}
			c.Check(normal && forced && strict, "C34/start-condition", "trigger.Update", st.Pos(), "start condition: currentRound > currEpochStartRound+roundsPerEpoch (strict) or the forced round was reached",
				"the start condition no longer combines the strict rounds-per-epoch test with the forced-start test")
			// same-branch bookkeeping, judged in the function that holds the store (Update, or the transition helper)
			sf := st.Parent()
			flag, start := false, false
			cleared := false
			for _, b2 := range sf.Blocks {
				if !st.Block().Dominates(b2) {
					continue
				}
				for _, in := range b2.Instrs {
					if s3, ok := in.(*ssa.Store); ok && isRecvFieldAddr(sf, s3.Addr, "nextEpochStartRound") {
						if k := c.P.Const(pkg, "disabledRoundForForceEpochStart"); k != nil && core.ExprKey(s3.Val) == k.Val().ExactString() {
							cleared = true
						}
					}
				}
			}
			if cleared {
				// ... and on every path from the epoch increment to the return
				isClear := func(in ssa.Instruction) bool {
					s3, ok := in.(*ssa.Store)
					if !ok || !isRecvFieldAddr(sf, s3.Addr, "nextEpochStartRound") {
						return false
					}
					k := c.P.Const(pkg, "disabledRoundForForceEpochStart")
					return k != nil && core.ExprKey(s3.Val) == k.Val().ExactString()
				}
				if esc, _ := (core.PathQ{Fn: sf, From: st, Via: isClear, Target: core.AnyReturn}).Escape(); esc != nil {
					cleared = false
				}
			}
			c.Check(cleared, "C34/epoch-increment-once", "trigger.Update/forced-round-cleared", st.Pos(), "a (possibly forced) start round is consumed: nextEpochStartRound is reset to the disabled value when the epoch starts",
				"the forced start round is not cleared on every path when the epoch starts: a stale forced round stays armed (after SetProcessed, or after a revert that moves the epoch start back) and ends a later epoch before its minimum length")
			for _, in := range st.Block().Instrs {
				if s2, ok := in.(*ssa.Store); ok {
					if isRecvFieldAddr(sf, s2.Addr, "isEpochStart") {
						if b, ok := core.ConstBool(s2.Val); ok && b {
							flag = true
						}
					}
					if isRecvFieldAddr(sf, s2.Addr, "currEpochStartRound") && (core.ExprKey(s2.Val) == "recv.currentRound" || core.ExprKey(s2.Val) == "p1") {
						start = true
					}
				}
			}
			c.Check(flag && start, "C34/epoch-increment-once", "trigger.Update/bookkeeping", st.Pos(), "isEpochStart = true and currEpochStartRound = current round on the same branch",
				"the branch that increments the epoch does not also set isEpochStart and record the current round as the epoch's start round")
		}
	}
}

// isRecvFieldAddr: addr is &recv.<name>.
func isRecvFieldAddr(fn *ssa.Function, addr ssa.Value, name string) bool {
	fa, ok := addr.(*ssa.FieldAddr)
	if !ok {
		return false
	}
	f := core.FieldOfAddr(fa)
	r := receiverOf(fn)
	return f != nil && f.Name() == name && r != nil && rootBase(fa.X) == ssa.Value(r)
}

// c34RevertRestoresFromTheRevertedBlock: rolling back an epoch-start block puts the trigger back
// into the epoch before THAT block: the epoch stored by trigger.revert is computed from the reverted
// header's epoch, never from the trigger's own epoch field - which has already moved on when the
// trigger fired for the next epoch without that block being committed; the epoch would then advance
// by two relative to the last committed epoch start.
func c34RevertRestoresFromTheRevertedBlock(c *core.Ctx) {
	fn := anchorM(c, "epochStart/metachain", "trigger", "revert")
	if fn == nil {
		return
	}
	n := 0
	core.Instrs(fn, func(in ssa.Instruction) {
		st, ok := in.(*ssa.Store)
		if !ok {
			return
		}
		fa, ok := st.Addr.(*ssa.FieldAddr)
		if !ok || core.FieldOfAddr(fa).Name() != "epoch" || fa.X != ssa.Value(fn.Params[0]) {
			return
		}
		n++
		fromHeader, fromSelf := false, false
		seen := map[ssa.Value]bool{}
		var walk func(v ssa.Value, d int)
		walk = func(v ssa.Value, d int) {
			if v == nil || seen[v] || d > 8 {
				return
			}
			seen[v] = true
			if base, f := core.FieldLoad(v); f != nil {
				if f.Name() == "epoch" && base == ssa.Value(fn.Params[0]) {
					fromSelf = true
				}
				if f.Name() == "Epoch" {
					fromHeader = true
				}
			}
			if call, isCall := v.(*ssa.Call); isCall && call.Call.IsInvoke() && call.Call.Method.Name() == "GetEpoch" {
				fromHeader = true
			}
			if vi, isI := v.(ssa.Instruction); isI {
				for _, op := range vi.Operands(nil) {
					if op != nil {
						walk(*op, d+1)
					}
				}
			}
		}
		walk(st.Val, 0)
		c.Check(fromHeader && !fromSelf, "C34/revert-restores-from-the-reverted-block", fmt.Sprintf("trigger.revert/epoch#%d", n), st.Pos(),
			"the restored epoch is computed from the reverted header's epoch",
			"trigger.revert restores the epoch from the trigger's own epoch field instead of the reverted header's: after the trigger fired for the next epoch without a commit, a rollback leaves it one epoch ahead of the chain and the next start advances the epoch by two")
	})
	c.Floor("C34/revert-restores-from-the-reverted-block", 1)
}
