package rules

import (
	"fmt"
	"strings"

	"golang.org/x/tools/go/ssa"

	"verif/checker/internal/core"
)

func init() {
	register(&Rule{
		ID:    "C32",
		Title: "Data packing for network transfer is lossless",
		Pkgs:  []string{"core/partitioning"},
		Explain: "Decides the conservation half of losslessness for the three chunk builders (SizeDataPacker.PackDataInChunks, SimpleDataPacker.PackDataInChunks, DataSplit.SplitDataInChunks), each an " +
			"accumulate-and-flush loop over the input: (S1) on every pass through the loop body, what is emitted into the output list followed by what stays pending equals what was pending at the loop head followed by the " +
			"current element - as sequences over the two symbols H and e, with the emitted chunks resolved to the list they were marshalled from (Marshal(&Batch{Data: list})) or to the list itself; branches on len() of a " +
			"tracked list are decided or used to learn whether H is empty; an emitted buffer that represents no element is a violation. (S2) an auxiliary buffer carried around the loop (SizeDataPacker's lastMarshalized) " +
			"represents the pending list at the end of every pass that leaves it non-empty (the inductive invariant that makes flushing that buffer equivalent to flushing the pending list). (S3) after the loop the pending " +
			"list is emitted on every success path, and the loop is not left early on a success path. The abstract domain is finite and the loop body acyclic: no execution, no solver. " +
			"The list PackDataInChunks returns is the accumulator of its measuring loop. " +
			"Not decided (value-level): that each chunk stays below the size limit; that unmarshalling inverts marshalling (trusted: the marshalizer, see C45); the error of Marshal ignored by SimpleDataPacker.",
		Run: runC32,
	})
}

func runC32(c *core.Ctx) {
	c32OutputIsTheMeasuredAccumulator(c)
	const pkg = "core/partitioning"
	for _, a := range [][2]string{{"SizeDataPacker", "PackDataInChunks"}, {"SimpleDataPacker", "PackDataInChunks"}, {"DataSplit", "SplitDataInChunks"}} {
		fn := anchorM(c, pkg, a[0], a[1])
		if fn == nil {
			continue
		}
		c.Analysed(fname(fn))
		name := a[0] + "." + a[1]
		if len(fn.Params) < 2 {
			c.Undecided("C32/no-element-dropped", name, fn.Pos(), "unexpected signature")
			continue
		}
		af, why := core.NewAccFlush(fn, fn.Params[1])
		if af == nil {
			c.Undecided("C32/no-element-dropped", name, fn.Pos(), "not recognised as an accumulate-and-flush loop over the input: "+why)
			continue
		}
		issues, nPaths := af.Check()
		c.Sites += nPaths
		byKind := map[string][]core.AFIssue{}
		for _, is := range issues {
			byKind[is.Kind] = append(byKind[is.Kind], is)
		}
		report := func(rule, construct string, kinds []string, okDetail string) {
			for _, k := range kinds {
				for _, is := range byKind[k] {
					if k == "undecided" {
						c.Undecided(rule, construct, is.Pos, is.Detail)
					} else {
						c.Fail(rule, construct, is.Pos, is.Detail)
					}
					return
				}
			}
			c.Pass(rule, construct, fn.Pos(), okDetail)
		}
		report("C32/no-element-dropped", name+"/each-pass", []string{"iteration", "early-exit", "undecided"},
			fmt.Sprintf("emitted ++ pending' == pending ++ [element] on each of the evaluated passes (%d paths incl. epilogue; pending list %s, output %s)", nPaths, af.Acc.Comment, af.Out.Comment))
		report("C32/no-element-dropped", name+"/final-flush", []string{"final"}, "after the loop the pending list is emitted before every success return")
		if len(af.Aux) > 0 {
			report("C32/flush-buffer-represents-pending", name, []string{"aux"}, "the carried buffer represents the pending list at the end of every pass that leaves it non-empty")
		}
	}
	c.Floor("C32/no-element-dropped", 6)
	c.Floor("C32/flush-buffer-represents-pending", 1)
}

// c32OutputIsTheMeasuredAccumulator: what SizeDataPacker.PackDataInChunks hands back is the list
// its loop built chunk by chunk, each chunk flushed behind a comparison of the ENCODED size with
// the limit. A successful return of anything else - e.g. one Marshal of the whole input behind a
// test of the raw sizes - emits a multi-element chunk nobody measured (the encoding adds per-element
// overhead, so raw < limit does not give encoded < limit).
func c32OutputIsTheMeasuredAccumulator(c *core.Ctx) {
	fn := anchorM(c, "core/partitioning", "SizeDataPacker", "PackDataInChunks")
	if fn == nil {
		return
	}
	// the accumulator: the list the flushes append to inside the loop
	var accRoot ssa.Value
	core.Instrs(fn, func(in ssa.Instruction) {
		call, ok := in.(*ssa.Call)
		if !ok || core.InnermostLoop(fn, in.Block()) == nil {
			return
		}
		if b, isB := call.Call.Value.(*ssa.Builtin); !isB || b.Name() != "append" {
			return
		}
		if !strings.HasSuffix(call.Type().String(), "[][]byte") {
			return
		}
		// follow the destination back to its allocation outside the loop
		v := call.Call.Args[0]
		seen := map[ssa.Value]bool{}
		for v != nil && !seen[v] {
			seen[v] = true
			switch x := v.(type) {
			case *ssa.Phi:
				v = nil
				for _, e := range x.Edges {
					if _, isMk := e.(*ssa.MakeSlice); isMk {
						accRoot = e
					} else if sl, isSl := e.(*ssa.Slice); isSl {
						accRoot = sl
					}
				}
			case *ssa.Call:
				v = x.Call.Args[0]
			default:
				v = nil
			}
		}
	})
	n := 0
	for _, r := range core.Returns(fn) {
		if !core.NilReturn(r, nil) {
			continue
		}
		n++
		// the returned list roots at the accumulator through appends and phis only
		ok := false
		seen := map[ssa.Value]bool{}
		var walk func(v ssa.Value) bool
		walk = func(v ssa.Value) bool {
			if v == nil || seen[v] {
				return true
			}
			seen[v] = true
			if accRoot != nil && v == accRoot {
				ok = true
				return true
			}
			switch x := v.(type) {
			case *ssa.Phi:
				for _, e := range x.Edges {
					if !walk(e) {
						return false
					}
				}
				return true
			case *ssa.Call:
				if b, isB := x.Call.Value.(*ssa.Builtin); isB && b.Name() == "append" {
					return walk(x.Call.Args[0])
				}
			}
			return false
		}
		good := walk(core.RetOperand(r, 0)) && ok
		c.Check(good, "C32/output-is-the-measured-accumulator", fmt.Sprintf("SizeDataPacker.PackDataInChunks/success#%d", n), r.Pos(),
			"the list returned is the one the measuring loop appended to",
			"PackDataInChunks returns "+core.ExprKey(core.RetOperand(r, 0))+", a list that was not built by the loop that compares each encoded chunk with the limit: a multi-element chunk whose encoded size nobody measured can reach or exceed the limit")
	}
	c.Floor("C32/output-is-the-measured-accumulator", 1)
}
