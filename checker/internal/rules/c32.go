package rules

import (
	"fmt"

	"verif/checker/internal/core"
)

func init() {
	register(&Rule{
		ID:    "C32",
		Title: "Data packing for network transfer is lossless",
		Pkgs:  []string{"core/partitioning"},
		Explain: "Decides the conservation half of losslessness for the three chunk builders (SizeDataPacker.PackDataInChunks, SimpleDataPacker.PackDataInChunks, DataSplit.SplitDataInChunks), each an " +
			"accumulate-and-flush loop over the input: (S1) on every pass through the loop body, what is emitted into the output list followed by what stays pending equals what was pending at the loop head followed by the " +
			"current element - as sequences over the two symbols H and e, with the emitted chunks resolved to the list they were marshalled from (Marshal(&Batch{Data: list})) or to the list itself; branches on len() of a " +
			"tracked list are decided or used to learn whether H is empty; an emitted buffer that represents no element is a violation. (S2) an auxiliary buffer carried around the loop (SizeDataPacker's lastMarshalized) " +
			"represents the pending list at the end of every pass that leaves it non-empty (the inductive invariant that makes flushing that buffer equivalent to flushing the pending list). (S3) after the loop the pending " +
			"list is emitted on every success path, and the loop is not left early on a success path. The abstract domain is finite and the loop body acyclic: no execution, no solver. " +
			"Not decided (value-level): that each chunk stays below the size limit; that unmarshalling inverts marshalling (trusted: the marshalizer, see C45); the error of Marshal ignored by SimpleDataPacker.",
		Run: runC32,
	})
}

func runC32(c *core.Ctx) {
	const pkg = "core/partitioning"
	for _, a := range [][2]string{{"SizeDataPacker", "PackDataInChunks"}, {"SimpleDataPacker", "PackDataInChunks"}, {"DataSplit", "SplitDataInChunks"}} {
		fn := anchorM(c, pkg, a[0], a[1])
		if fn == nil {
			continue
		}
		c.Analysed(fname(fn))
		name := a[0] + "." + a[1]
		if len(fn.Params) < 2 {
			c.Undecided("C32/no-element-dropped", name, fn.Pos(), "unexpected signature")
			continue
		}
		af, why := core.NewAccFlush(fn, fn.Params[1])
		if af == nil {
			c.Undecided("C32/no-element-dropped", name, fn.Pos(), "not recognised as an accumulate-and-flush loop over the input: "+why)
			continue
		}
		issues, nPaths := af.Check()
		c.Sites += nPaths
		byKind := map[string][]core.AFIssue{}
		for _, is := range issues {
			byKind[is.Kind] = append(byKind[is.Kind], is)
		}
		report := func(rule, construct string, kinds []string, okDetail string) {
			for _, k := range kinds {
				for _, is := range byKind[k] {
					if k == "undecided" {
						c.Undecided(rule, construct, is.Pos, is.Detail)
					} else {
						c.Fail(rule, construct, is.Pos, is.Detail)
					}
					return
				}
			}
			c.Pass(rule, construct, fn.Pos(), okDetail)
		}
		report("C32/no-element-dropped", name+"/each-pass", []string{"iteration", "early-exit", "undecided"},
			fmt.Sprintf("emitted ++ pending' == pending ++ [element] on each of the evaluated passes (%d paths incl. epilogue; pending list %s, output %s)", nPaths, af.Acc.Comment, af.Out.Comment))
		report("C32/no-element-dropped", name+"/final-flush", []string{"final"}, "after the loop the pending list is emitted before every success return")
		if len(af.Aux) > 0 {
			report("C32/flush-buffer-represents-pending", name, []string{"aux"}, "the carried buffer represents the pending list at the end of every pass that leaves it non-empty")
		}
	}
	c.Floor("C32/no-element-dropped", 6)
	c.Floor("C32/flush-buffer-represents-pending", 1)
}
