package rules

import (
	"fmt"
	"go/token"
	"go/types"
	"sort"
	"strings"

	"golang.org/x/tools/go/ssa"

	"verif/checker/internal/core"
)

func init() {
	register(&Rule{
		ID:    "C18",
		Title: "Block and transaction hashes cannot be changed without changing signed content",
		Pkgs: []string{"process/block/interceptedBlocks", "process/transaction", "process/unsigned", "process/rewardTransaction", "marshal",
			"process/factory/interceptorscontainer", "update/factory", "dataRetriever/factory/resolverscontainer"},
		Explain: "Decides where an intercepted object's identity hash comes from. (S1) for every type implementing the intercepted-data interface (Hash/CheckValidity) in the interceptor packages, the value stored in the " +
			"field returned by Hash() must derive from a canonical re-encoding of the decoded object (a Marshal call, core.CalculateHash, or a node's own content hash); a hash computed directly from the received " +
			"buffer lets two encodings of the same decoded content (reordered fields, unknown fields within the size-check tolerance) carry different hashes while the signature, checked over the re-encoded content, " +
			"stays valid. (S2) the interceptor/resolver container factories wrap the marshalizer with NewSizeCheckUnmarshalizer (5 reviewed sites). (S3) sizeCheckUnmarshalizer.Unmarshal returns nil only " +
			"past the inner Unmarshal (error checked) and the size comparison. " +
			"The size-check wrapper created by each container factory must also be used: stored, passed on or returned, not merely nil-checked. " +
			"CheckValidity of both intercepted header kinds accepts only through error-checked VerifyRandSeedAndLeaderSignature and VerifySignature, on every path. " +
			"Not decided (value-level): that the size tolerance leaves no room for a second encoding; protobuf decoding leniency itself.",
		Run: runC18,
	})
}

func runC18(c *core.Ctx) {
	c18SignaturesVerifiedUnconditionally(c)
	// ---- S1
	type cand struct {
		named *types.Named
		hash  *ssa.Function
	}
	var cands []cand
	seenT := map[*types.Named]bool{}
	for _, fn := range c.P.SrcFuncs() {
		if fn.Name() != "Hash" || fn.Signature.Recv() == nil || fn.Signature.Params().Len() != 0 || fn.Signature.Results().Len() != 1 {
			continue
		}
		nt := namedElem(fn.Signature.Recv().Type())
		if nt == nil || seenT[nt] {
			continue
		}
		if pp := nt.Obj().Pkg().Path(); strings.Contains(pp, "/mock") || strings.Contains(pp, "testscommon") || strings.Contains(pp, "integrationTests") {
			continue // test doubles are not reachable from the interceptor factories
		}
		// must also have CheckValidity
		hasCV := false
		ms := c.P.SSA.MethodSets.MethodSet(types.NewPointer(nt))
		for i := 0; i < ms.Len(); i++ {
			if ms.At(i).Obj().Name() == "CheckValidity" {
				hasCV = true
			}
		}
		if !hasCV {
			continue
		}
		seenT[nt] = true
		cands = append(cands, cand{nt, fn})
	}
	sort.Slice(cands, func(i, j int) bool { return cands[i].named.Obj().Name() < cands[j].named.Obj().Name() })
	for _, cd := range cands {
		tn := cd.named.Obj().Name()
		c.Analysed(core.QualName(cd.hash))
		// field returned by Hash()
		var hashField *types.Var
		for _, r := range core.Returns(cd.hash) {
			if _, f := core.FieldLoad(core.RetOperand(r, 0)); f != nil {
				hashField = f
			}
		}
		if hashField == nil {
			c.Undecided("C18/hash-from-canonical-encoding", tn, cd.hash.Pos(), "Hash() does not return a field of the receiver")
			continue
		}
		// stores to that field anywhere in the type's package
		pkgPath := cd.named.Obj().Pkg().Path()
		stores := 0
		for _, fn := range c.P.SrcFuncs() {
			if fn.Package() == nil && fn.Parent() == nil {
				continue
			}
			root := fn
			for root.Parent() != nil {
				root = root.Parent()
			}
			if root.Package() == nil || root.Package().Pkg.Path() != pkgPath {
				continue
			}
			core.Instrs(fn, func(in ssa.Instruction) {
				st, ok := in.(*ssa.Store)
				if !ok {
					return
				}
				fa, ok := st.Addr.(*ssa.FieldAddr)
				if !ok || core.FieldOfAddr(fa) != hashField {
					return
				}
				stores++
				c.Sites++
				c.Analysed(core.QualName(fn))
				canonical, raw := false, ""
				for v := range core.BackwardReach(st.Val) {
					call, ok := v.(*ssa.Call)
					if !ok {
						continue
					}
					d := core.CallDesc(&call.Call)
					switch {
					case d.Name == "Marshal" || d.Name == "CalculateHash" || d.Name == "getHash" || d.Name == "GetDataForSigning":
						canonical = true
					case d.Name == "Compute":
						// what is hashed?
						for a := range core.BackwardReach(call.Call.Args[len(call.Call.Args)-1]) {
							if p, isP := a.(*ssa.Parameter); isP && isByteSlice(p.Type()) {
								raw = p.Name()
							}
						}
					}
				}
				name := tn
				if canonical && raw == "" {
					c.Pass("C18/hash-from-canonical-encoding", name, st.Pos(), "the identity hash derives from a re-encoding of the decoded object")
				} else if raw != "" && !canonical {
					c.Fail("C18/hash-from-canonical-encoding", name, st.Pos(),
						fmt.Sprintf("%s.%s = hasher.Compute(string(%s)): the identity hash is computed from the received bytes, not from a canonical re-encoding of the decoded object", tn, hashField.Name(), raw))
				} else if canonical {
					c.Pass("C18/hash-from-canonical-encoding", name, st.Pos(), "the identity hash derives from a re-encoding of the decoded object")
				} else {
					c.Undecided("C18/hash-from-canonical-encoding", name, st.Pos(), "origin of the identity hash not recognised")
				}
			})
		}
		if stores == 0 {
			c.Undecided("C18/hash-from-canonical-encoding", tn, cd.hash.Pos(), "no assignment of the hash field found in its package")
		}
	}
	c.Floor("C18/hash-from-canonical-encoding", 6)

	// ---- S2
	sites := map[string]int{"process/factory/interceptorscontainer": 2, "update/factory": 1, "dataRetriever/factory/resolverscontainer": 2}
	for pkg, want := range sites {
		n := 0
		for _, fn := range c.P.FuncsOfPkg(pkg) {
			for _, in := range callsMatching(fn, "marshal", "", "NewSizeCheckUnmarshalizer") {
				n++
				c.Analysed(core.QualName(fn))
				// guarded by SizeCheckDelta > 0 and given that delta
				cc := core.CallOf(in)
				c.Check(strings.Contains(core.ExprKey(cc.Args[1]), "SizeCheckDelta"), "C18/size-check-installed", fmt.Sprintf("%s/%s#%d", pkg, fname(fn), n), in.Pos(),
					"the marshalizer handed to interceptors/resolvers is wrapped with the configured SizeCheckDelta", "the size-check wrapper is not given the configured SizeCheckDelta")
				if v, isV := in.(ssa.Value); isV {
					c.Check(flowsToSink(v), "C18/size-check-installed", fmt.Sprintf("%s/%s#%d/wrapper-used", pkg, fname(fn), n), in.Pos(),
						"the wrapper is stored, passed on or returned (not merely nil-checked)",
						"the size-check wrapper is created but never stored, passed to a component or returned (at most nil-checked): the interceptors keep decoding with the unchecked marshalizer and accept padded encodings under new hashes")
				}
			}
		}
		if n < want {
			c.Fail("C18/size-check-installed", pkg, 0, fmt.Sprintf("%d NewSizeCheckUnmarshalizer call(s) found, %d reviewed: a container factory no longer installs the size check", n, want))
		}
	}
	c.Floor("C18/size-check-installed", 5)

	// the wrapper delegates to exactly the marshalizer it was given: wrapping an already checked
	// marshalizer keeps the inner (possibly stricter) check; unwrapping it replaces a configured limit
	// by the outer, possibly unlimited, one
	if ctor := anchorF(c, "marshal", "NewSizeCheckUnmarshalizer"); ctor != nil {
		ok, why := false, "the constructor does not store a marshalizer"
		core.Instrs(ctor, func(in ssa.Instruction) {
			st, isSt := in.(*ssa.Store)
			if !isSt {
				return
			}
			fa, isFA := st.Addr.(*ssa.FieldAddr)
			if !isFA || core.FieldOfAddr(fa).Name() != "Marshalizer" {
				return
			}
			v := st.Val
			for {
				switch x := v.(type) {
				case *ssa.ChangeInterface:
					v = x.X
					continue
				case *ssa.MakeInterface:
					v = x.X
					continue
				}
				break
			}
			if v == ssa.Value(ctor.Params[0]) {
				ok = true
			} else {
				ok, why = false, "the inner marshalizer stored is "+core.ExprKey(v)+", not the argument itself"
			}
		})
		c.Check(ok, "C18/size-check-effective", "NewSizeCheckUnmarshalizer/wraps-its-argument", ctor.Pos(),
			"the wrapper delegates to the marshalizer it was given, whatever that is", why+": a size check already installed on the shared marshalizer is discarded when it is wrapped again (e.g. with an unlimited delta), and padded encodings are accepted under new hashes")
	}
	// ---- S3
	if fn := anchorM(c, "marshal", "sizeCheckUnmarshalizer", "Unmarshal"); fn != nil {
		mustPassChecked(c, fn, "C18/size-check-effective", "sizeCheckUnmarshalizer.Unmarshal/inner", nil,
			func(in ssa.Instruction, cc *ssa.CallCommon) bool { return isInvoke(cc, "Unmarshal") },
			core.SuccessReturn, nil, "the wrapped Unmarshal succeeds before nil is returned")
		ok := true
		n := 0
		for _, r := range core.Returns(fn) {
			if !core.NilReturn(r, nil) {
				continue
			}
			n++
			has := false
			for _, f := range core.FactsAt(r.Block()) {
				if f.Op == "<=" && f.A == "len(p2)" {
					has = true
				}
			}
			if !has {
				ok = false
			}
		}
		c.Check(ok && n > 0, "C18/size-check-effective", "sizeCheckUnmarshalizer.Unmarshal/size", fn.Pos(), "nil only when len(buff) ≤ maxSize", "nil is returned without the buffer length having been compared with the maximum size")
		// the bound must be a function of the re-encoded object's size and the tolerance only: a bound that grows with the received buffer lets padding widen its own acceptance window
		indep := true
		core.Instrs(fn, func(in ssa.Instruction) {
			b, isB := in.(*ssa.BinOp)
			if !isB || (b.Op != token.GTR && b.Op != token.LSS && b.Op != token.GEQ && b.Op != token.LEQ) {
				return
			}
			for _, pair := range [][2]ssa.Value{{b.X, b.Y}, {b.Y, b.X}} {
				if core.ExprKey(pair[0]) == "len(p2)" {
					for v := range core.BackwardReach(pair[1]) {
						if core.ExprKey(v) == "len(p2)" {
							indep = false // the bound is computed from the received length (the decoded object legitimately depends on the bytes)
						}
					}
				}
			}
		})
		c.Check(indep, "C18/size-check-effective", "sizeCheckUnmarshalizer.Unmarshal/bound-independent-of-input", fn.Pos(), "the size bound derives from the re-encoded object and the configured delta, not from the received buffer",
			"the maximum accepted size is computed from the received buffer itself: padded encodings widen their own acceptance window")
	}
}

func isByteSlice(t types.Type) bool {
	s, ok := t.Underlying().(*types.Slice)
	if !ok {
		return false
	}
	b, ok := s.Elem().Underlying().(*types.Basic)
	return ok && b.Kind() == types.Uint8
}

// flowsToSink reports whether a value (through phis and interface conversions) is stored,
// returned, or passed to a call other than a nil check.
func flowsToSink(v ssa.Value) bool {
	seen := map[ssa.Value]bool{}
	var walk func(x ssa.Value) bool
	walk = func(x ssa.Value) bool {
		if seen[x] || x.Referrers() == nil {
			return false
		}
		seen[x] = true
		for _, r := range *x.Referrers() {
			switch t := r.(type) {
			case *ssa.Store:
				if t.Val == x {
					// a store into a local that is only read back is followed through its loads
					if al, ok := t.Addr.(*ssa.Alloc); ok && !al.Heap {
						if al.Referrers() != nil {
							for _, ar := range *al.Referrers() {
								if u, ok := ar.(*ssa.UnOp); ok && walk(u) {
									return true
								}
							}
						}
						continue
					}
					return true
				}
			case *ssa.Return:
				return true
			case *ssa.Phi:
				if walk(t) {
					return true
				}
			case *ssa.ChangeInterface:
				if walk(t) {
					return true
				}
			case *ssa.MakeInterface:
				if walk(t) {
					return true
				}
			case *ssa.MakeClosure:
				return true
			case ssa.CallInstruction:
				cc := t.Common()
				d := core.CallDesc(cc)
				if d.Name == "IfNil" || d.Name == "IsInterfaceNil" {
					continue
				}
				for _, a := range cc.Args {
					if a == x {
						return true
					}
				}
				if cc.IsInvoke() && cc.Value == x {
					if cc.Method.Name() != "IsInterfaceNil" {
						return true
					}
				}
			}
		}
		return false
	}
	return walk(v)
}

// c18SignaturesVerifiedUnconditionally: the hash of an intercepted header is bound to its signed
// content only through the signatures: the aggregated signature does not cover Signature,
// PubKeysBitmap and LeaderSignature, the leader's signature does. CheckValidity of both intercepted
// header kinds therefore reaches a nil result only through VerifyRandSeedAndLeaderSignature AND
// VerifySignature, each error-checked - on every path, white-listed or not.
func c18SignaturesVerifiedUnconditionally(c *core.Ctx) {
	const pkg = "process/block/interceptedBlocks"
	for _, typ := range []string{"InterceptedMetaHeader", "InterceptedHeader"} {
		fn := anchorM(c, pkg, typ, "CheckValidity")
		if fn == nil {
			continue
		}
		for _, m := range []string{"VerifyRandSeedAndLeaderSignature", "VerifySignature"} {
			m := m
			mustPassChecked(c, fn, "C18/signatures-verified-unconditionally", typ+".CheckValidity/"+m, nil,
				func(in ssa.Instruction, cc *ssa.CallCommon) bool { return cc.IsInvoke() && cc.Method.Name() == m },
				func(in ssa.Instruction, pred *ssa.BasicBlock) bool {
					// a return that can be nil; the tail call `return verifier.X(hdr)` is such a return, but the
					// call it returns is itself the last verification, so it counts as passed for that verifier
					r, ok := in.(*ssa.Return)
					if !ok || !core.SuccessReturn(in, pred) {
						return false
					}
					if call, isCall := r.Results[0].(*ssa.Call); isCall && call.Call.IsInvoke() && call.Call.Method.Name() == m {
						return false
					}
					return true
				}, nil,
				"CheckValidity accepts only after "+m)
		}
	}
	c.Floor("C18/signatures-verified-unconditionally", 4)
}
