package rules

import (
	"fmt"
	"strings"

	"golang.org/x/tools/go/ssa"

	"verif/checker/internal/core"
)

func init() {
	register(&Rule{
		ID:    "C46",
		Title: "Transaction lookup reports the canonical block",
		Pkgs:  []string{"core/dblookupext"},
		Explain: "Decides memo-key completeness of the de-duplication cache that may skip the write of a miniblock's metadata: the stored metadata is a function of (containing block hash and header, miniblock, epoch), " +
			"so the key that decides 'already recorded, skip' must depend on the block header hash, the miniblock hash and the epoch (the header itself is covered by its hash). Checked by value flow: in " +
			"recordMiniblock the arguments of hasRecentlyInsertedMiniblockMetadata derive from all three, markMiniblockMetadataAsRecentlyInserted is called with the same arguments, and the key builder's result " +
			"derives from every one of its parameters. The skip decision depends on the block hash, the miniblock hash and the epoch; the cache holds ONE entry per (epoch, miniblock) whose value is the block of the latest record (the block hash is the cached value, not part of the key), so a competing record replaces it and returning to an earlier block (B1, B2, B1) is recorded again. " +
			"Also: a nil result is either a cache hit or follows a checked putMiniblockMetadata, and the entry is marked only after that write. " +
			"The pending-notification maps are written with the overwriting Set only. " +
			"Not decided (schedules/value-level): ordering of pending notarization notifications.",
		Run: runC46,
	})
}

func runC46(c *core.Ctx) {
	c46LatestNotificationWins(c)
	const pkg = "core/dblookupext"
	rec := anchorM(c, pkg, "historyRepository", "recordMiniblock")
	if rec == nil {
		return
	}
	has := callsMatching(rec, pkg, "historyRepository", "hasRecentlyInsertedMiniblockMetadata")
	mark := callsMatching(rec, pkg, "historyRepository", "markMiniblockMetadataAsRecentlyInserted")
	if len(has) != 1 || len(mark) != 1 {
		c.Fail("C46/dedup-key-complete", "historyRepository.recordMiniblock", rec.Pos(), "expected exactly one cache test and one cache mark")
		return
	}
	hc, mc := core.CallOf(has[0]), core.CallOf(mark[0])
	reach := map[ssa.Value]bool{}
	for _, a := range hc.Args[1:] {
		for v := range core.BackwardReachPure(a) {
			reach[v] = true
		}
	}
	mbHash := false
	for v := range reach {
		if call, ok := v.(*ssa.Call); ok && core.CallDesc(&call.Call).Name == "computeMiniblockHash" {
			mbHash = true
		}
	}
	inputs := []struct {
		name string
		ok   bool
	}{
		{"block-header-hash", reach[rec.Params[1]]},
		{"miniblock-hash", mbHash},
		{"epoch", reach[rec.Params[4]]},
	}
	for _, in := range inputs {
		c.Check(in.ok, "C46/dedup-key-complete", "historyRepository.recordMiniblock/"+in.name, has[0].Pos(), "the de-duplication test depends on the "+in.name,
			"the de-duplication test that may skip writing the metadata does not depend on the "+in.name+": a record that differs only in it is skipped and lookups keep the stale metadata")
	}
	same := len(hc.Args) == len(mc.Args)
	if same {
		for i := range hc.Args {
			if core.ExprKey(hc.Args[i]) != core.ExprKey(mc.Args[i]) {
				same = false
			}
		}
	}
	c.Check(same, "C46/dedup-key-complete", "historyRepository.recordMiniblock/test-and-mark-same-key", mark[0].Pos(), "the entry is marked under the key it is tested under", "the cache is tested and marked with different arguments")
	// helper chain: which inputs the skip decision and the cache entry depend on (followed into
	// same-package callees precisely: only arguments the callee's result depends on count)
	hasFn := anchorM(c, pkg, "historyRepository", "hasRecentlyInsertedMiniblockMetadata")
	markFn := anchorM(c, pkg, "historyRepository", "markMiniblockMetadataAsRecentlyInserted")
	if hasFn != nil && len(hasFn.Params) == 4 {
		dep := map[*ssa.Parameter]bool{}
		for _, r := range core.Returns(hasFn) {
			for p := range paramDeps(core.RetOperand(r, 0), 0) {
				dep[p] = true
			}
		}
		for i, nm := range []string{"block-header-hash", "miniblock-hash", "epoch"} {
			c.Check(dep[hasFn.Params[i+1]], "C46/dedup-key-complete", "hasRecentlyInserted/depends-on-"+nm, hasFn.Pos(), "the skip decision depends on the "+nm,
				"the skip decision does not depend on the "+nm+": a record that differs only in it is skipped and lookups keep the stale metadata")
		}
	}
	if markFn != nil && len(markFn.Params) == 4 {
		var put *ssa.CallCommon
		core.Instrs(markFn, func(in ssa.Instruction) {
			if cc := core.CallOf(in); cc != nil && cc.IsInvoke() && cc.Method.Name() == "Put" {
				put = cc
			}
		})
		if put == nil || len(put.Args) < 2 {
			c.Undecided("C46/dedup-key-complete", "markRecentlyInserted/cache-put", markFn.Pos(), "no Put on the de-duplication cache")
		} else {
			kd, vd := paramDeps(put.Args[0], 0), paramDeps(put.Args[1], 0)
			hdr, mb, ep := markFn.Params[1], markFn.Params[2], markFn.Params[3]
			c.Check(kd[mb] && kd[ep], "C46/dedup-key-complete", "markRecentlyInserted/key-covers-miniblock-and-epoch", markFn.Pos(), "the cache key derives from the miniblock hash and the epoch",
				"the cache key does not derive from both the miniblock hash and the epoch")
			// one entry per (epoch, miniblock) holding the block of the LATEST record: an entry per block
			// would survive a competing record, and going back to that block would be skipped
			c.Check(!kd[hdr] && vd[hdr], "C46/latest-record-wins", "markRecentlyInserted/entry-replaced-by-competing-record", markFn.Pos(),
				"the recording block is the VALUE of the (epoch, miniblock) entry, so a record in a competing block replaces it",
				fmt.Sprintf("the recording block is part of the cache key (%v) / not the cached value (%v): entries of earlier blocks survive a competing record, so when the chain returns to an earlier block (B1, B2, B1) the third record is skipped and lookups keep reporting B2", kd[hdr], !vd[hdr]))
		}
	}
	// has and mark address the same entry
	if hasFn != nil && markFn != nil {
		bkH := callsMatching(hasFn, pkg, "historyRepository", "buildKeyOfDeduplicationCacheForInsertMiniblockMetadata")
		bkM := callsMatching(markFn, pkg, "historyRepository", "buildKeyOfDeduplicationCacheForInsertMiniblockMetadata")
		okSame := len(bkH) == 1 && len(bkM) == 1
		if okSame {
			ah, am := core.CallOf(bkH[0]).Args, core.CallOf(bkM[0]).Args
			okSame = len(ah) == len(am)
			for i := 0; okSame && i < len(ah); i++ {
				if core.ExprKey(ah[i]) != core.ExprKey(am[i]) {
					okSame = false
				}
			}
		}
		c.Check(okSame, "C46/dedup-key-complete", "has-and-mark/same-key-builder", hasFn.Pos(), "test and mark build the key from the same inputs with the same builder", "the test and the mark do not build the cache key the same way")
	}
	c.Floor("C46/dedup-key-complete", 9)
	c.Floor("C46/latest-record-wins", 1)
	// write before mark, nil only after hit or write
	hit := core.PruneWhen(func(cd core.Cond) bool { return cd.V == has[0].(ssa.Value) && cd.Taken })
	mustPassChecked(c, rec, "C46/metadata-written", "historyRepository.recordMiniblock/put", nil,
		func(in ssa.Instruction, cc *ssa.CallCommon) bool {
			return core.CallDesc(cc).Name == "putMiniblockMetadata"
		},
		core.NilReturn, hit, "without a cache hit, nil is returned only after a checked putMiniblockMetadata")
	q := core.PathQ{Fn: rec, Via: func(in ssa.Instruction) bool {
		return core.IsCall(in, pkg, "historyRepository", "putMiniblockMetadata")
	},
		Target: func(in ssa.Instruction, _ *ssa.BasicBlock) bool { return in == mark[0] }}
	esc, _ := q.Escape()
	c.Check(esc == nil, "C46/metadata-written", "historyRepository.recordMiniblock/mark-after-put", mark[0].Pos(), "the entry is marked as recorded only after the metadata was written", "the entry can be marked as recorded before/without the metadata write")
	// the epoch index of the miniblock is written before its metadata: the notification consumer (another mutex) reads
	// index-then-metadata, so with the opposite order it can patch the record of a previous epoch and drop the notification
	qo := core.PathQ{Fn: rec, Via: func(in ssa.Instruction) bool {
		cc := core.CallOf(in)
		return cc != nil && core.CallDesc(cc).Name == "saveEpochByHash"
	}, Target: func(in ssa.Instruction, _ *ssa.BasicBlock) bool {
		return core.IsCall(in, pkg, "historyRepository", "putMiniblockMetadata")
	}}
	escO, _ := qo.Escape()
	c.Check(escO == nil, "C46/metadata-written", "historyRepository.recordMiniblock/index-before-metadata", rec.Pos(), "saveEpochByHash(miniblock) precedes putMiniblockMetadata",
		"the miniblock metadata can be written before its epoch index entry: a concurrent notarization notification looks the miniblock up in the old epoch, patches the orphaned record and is then discarded")
	// every transaction of the miniblock is (re)pointed at this miniblock: the loop over TxHashes puts each one unconditionally
	var txLoop *core.Loop
	for _, l := range core.Loops(rec) {
		if src := l.RangeSource(); src != nil && strings.HasSuffix(core.ExprKey(src), ".TxHashes") {
			txLoop = l
		}
	}
	if txLoop == nil {
		c.Fail("C46/metadata-written", "historyRepository.recordMiniblock/tx-index", rec.Pos(), "no loop over the miniblock's TxHashes")
	} else {
		var body *ssa.BasicBlock
		for _, s2 := range txLoop.Header.Succs {
			if txLoop.Body[s2] {
				body = s2
			}
		}
		qt := core.PathQ{Fn: rec, FromBlk: body, Via: func(in ssa.Instruction) bool {
			cc := core.CallOf(in)
			return cc != nil && isInvoke(cc, "Put") && isRecvField(rec, cc.Value, "miniblockHashByTxHashIndex")
		}, Target: func(in ssa.Instruction, _ *ssa.BasicBlock) bool { return in == txLoop.Header.Instrs[0] }}
		escT, pt := qt.Escape()
		c.Check(escT == nil, "C46/metadata-written", "historyRepository.recordMiniblock/tx-index", rec.Pos(), "every transaction hash of the miniblock is stored in the tx→miniblock index",
			"a transaction of the recorded miniblock can be left pointing at another (earlier) miniblock ("+c.P.PathString(pt)+"): lookups by tx hash report the dropped block")
	}
	// the metadata records the containing block's hash
	okHH := false
	core.Instrs(rec, func(in ssa.Instruction) {
		if st, ok := in.(*ssa.Store); ok {
			if fa, ok := st.Addr.(*ssa.FieldAddr); ok && core.FieldOfAddr(fa).Name() == "HeaderHash" && st.Val == ssa.Value(rec.Params[1]) {
				okHH = true
			}
		}
	})
	c.Check(okHH, "C46/metadata-written", "historyRepository.recordMiniblock/header-hash-recorded", rec.Pos(), "MiniblockMetadata.HeaderHash is the containing block's hash", "the stored metadata does not record the containing block's hash")
}

// paramDeps returns the parameters of v's function that v may depend on, following calls to
// functions with bodies only through the arguments their result depends on.
func paramDeps(v ssa.Value, depth int) map[*ssa.Parameter]bool {
	out := map[*ssa.Parameter]bool{}
	if v == nil || depth > 4 {
		return out
	}
	seen := map[ssa.Value]bool{}
	var walk func(x ssa.Value)
	walk = func(x ssa.Value) {
		if x == nil || seen[x] {
			return
		}
		seen[x] = true
		switch t := x.(type) {
		case *ssa.Parameter:
			out[t] = true
		case *ssa.Call:
			callee := t.Call.StaticCallee()
			if callee != nil && len(callee.Blocks) > 0 && core.InRepo(callee) {
				used := map[*ssa.Parameter]bool{}
				for _, r := range core.Returns(callee) {
					for _, res := range r.Results {
						for p := range paramDeps(res, depth+1) {
							used[p] = true
						}
					}
				}
				for i, a := range t.Call.Args {
					if i < len(callee.Params) && used[callee.Params[i]] {
						walk(a)
					}
				}
				return
			}
			if t.Call.IsInvoke() {
				walk(t.Call.Value)
			}
			for _, a := range t.Call.Args {
				walk(a)
			}
		default:
			if in, ok := x.(ssa.Instruction); ok {
				for _, op := range in.Operands(nil) {
					if op != nil && *op != nil {
						walk(*op)
					}
				}
			}
			// values stored into a local array/alloc that x slices (varargs)
			if al, ok := x.(*ssa.Alloc); ok && al.Referrers() != nil {
				for _, r := range *al.Referrers() {
					switch rr := r.(type) {
					case *ssa.Store:
						walk(rr.Val)
					case *ssa.IndexAddr:
						if rr.Referrers() != nil {
							for _, r2 := range *rr.Referrers() {
								if st, ok := r2.(*ssa.Store); ok {
									walk(st.Val)
								}
							}
						}
					}
				}
			}
		}
	}
	walk(v)
	return out
}

// c46LatestNotificationWins: a notarization notification for a miniblock that is not recorded yet
// is parked until the record arrives; when a newer metablock notarizes the same miniblock the newer
// notification replaces the parked one, so that the lookup reports the canonical (latest)
// metablock whatever the arrival order. The pending maps are written with the overwriting Set, never
// with the add-if-absent Insert - directly or through a helper they are handed to.
func c46LatestNotificationWins(c *core.Ctx) {
	const pkg = "core/dblookupext"
	funcs := c.P.FuncsOfPkg(pkg)
	isPending := func(v ssa.Value) bool {
		_, f := core.FieldLoad(v)
		return f != nil && strings.HasPrefix(f.Name(), "pendingNotarized")
	}
	// parameters that receive a pending map at some call site
	pendingParam := map[*ssa.Parameter]bool{}
	for _, fn := range funcs {
		core.Instrs(fn, func(in ssa.Instruction) {
			cc := core.CallOf(in)
			if cc == nil || cc.StaticCallee() == nil {
				return
			}
			g := cc.StaticCallee()
			for i, a := range cc.Args {
				if isPending(a) && i < len(g.Params) {
					pendingParam[g.Params[i]] = true
				}
			}
		})
	}
	sets, bad := 0, ""
	for _, fn := range funcs {
		core.Instrs(fn, func(in ssa.Instruction) {
			cc := core.CallOf(in)
			if cc == nil || cc.StaticCallee() == nil || len(cc.Args) == 0 {
				return
			}
			recv := cc.Args[0]
			p, isP := recv.(*ssa.Parameter)
			if !isPending(recv) && !(isP && pendingParam[p]) {
				return
			}
			switch cc.StaticCallee().Name() {
			case "Set":
				sets++
			case "Insert":
				bad = fname(fn) + " at " + c.P.Pos(in.Pos())
			}
		})
	}
	c.Check(sets >= 3 && bad == "", "C46/latest-notification-wins", "historyRepository/pending-maps", 0,
		fmt.Sprintf("the pending maps are written with Set (%d sites)", sets),
		"a pending-notifications map is written with the add-if-absent Insert ("+bad+"): while a notification for a not-yet-recorded miniblock is parked a newer one is dropped, and the lookup reports the first metablock seen instead of the latest - depending on arrival order")
}
