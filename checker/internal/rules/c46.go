package rules

import (
	"fmt"
	"strings"

	"golang.org/x/tools/go/ssa"

	"verif/checker/internal/core"
)

func init() {
	register(&Rule{
		ID:    "C46",
		Title: "Transaction lookup reports the canonical block",
		Pkgs:  []string{"core/dblookupext"},
		Explain: "Decides memo-key completeness of the de-duplication cache that may skip the write of a miniblock's metadata: the stored metadata is a function of (containing block hash and header, miniblock, epoch), " +
			"so the key that decides 'already recorded, skip' must depend on the block header hash, the miniblock hash and the epoch (the header itself is covered by its hash). Checked by value flow: in " +
			"recordMiniblock the arguments of hasRecentlyInsertedMiniblockMetadata derive from all three, markMiniblockMetadataAsRecentlyInserted is called with the same arguments, and the key builder's result " +
			"derives from every one of its parameters (has/mark pass all of theirs to it). A key that omits the block hash keeps reporting a dropped block when the same miniblock is re-recorded in a competing block. " +
			"Also: a nil result is either a cache hit or follows a checked putMiniblockMetadata, and the entry is marked only after that write. " +
			"Not decided (schedules/value-level): ordering of pending notarization notifications.",
		Run: runC46,
	})
}

func runC46(c *core.Ctx) {
	const pkg = "core/dblookupext"
	rec := anchorM(c, pkg, "historyRepository", "recordMiniblock")
	if rec == nil {
		return
	}
	has := callsMatching(rec, pkg, "historyRepository", "hasRecentlyInsertedMiniblockMetadata")
	mark := callsMatching(rec, pkg, "historyRepository", "markMiniblockMetadataAsRecentlyInserted")
	if len(has) != 1 || len(mark) != 1 {
		c.Fail("C46/dedup-key-complete", "historyRepository.recordMiniblock", rec.Pos(), "expected exactly one cache test and one cache mark")
		return
	}
	hc, mc := core.CallOf(has[0]), core.CallOf(mark[0])
	reach := map[ssa.Value]bool{}
	for _, a := range hc.Args[1:] {
		for v := range core.BackwardReachPure(a) {
			reach[v] = true
		}
	}
	mbHash := false
	for v := range reach {
		if call, ok := v.(*ssa.Call); ok && core.CallDesc(&call.Call).Name == "computeMiniblockHash" {
			mbHash = true
		}
	}
	inputs := []struct {
		name string
		ok   bool
	}{
		{"block-header-hash", reach[rec.Params[1]]},
		{"miniblock-hash", mbHash},
		{"epoch", reach[rec.Params[4]]},
	}
	for _, in := range inputs {
		c.Check(in.ok, "C46/dedup-key-complete", "historyRepository.recordMiniblock/"+in.name, has[0].Pos(), "the de-duplication test depends on the "+in.name,
			"the de-duplication test that may skip writing the metadata does not depend on the "+in.name+": a record that differs only in it is skipped and lookups keep the stale metadata")
	}
	same := len(hc.Args) == len(mc.Args)
	if same {
		for i := range hc.Args {
			if core.ExprKey(hc.Args[i]) != core.ExprKey(mc.Args[i]) {
				same = false
			}
		}
	}
	c.Check(same, "C46/dedup-key-complete", "historyRepository.recordMiniblock/test-and-mark-same-key", mark[0].Pos(), "the entry is marked under the key it is tested under", "the cache is tested and marked with different arguments")
	// helper chain
	for _, hn := range []string{"hasRecentlyInsertedMiniblockMetadata", "markMiniblockMetadataAsRecentlyInserted"} {
		fn := anchorM(c, pkg, "historyRepository", hn)
		if fn == nil {
			continue
		}
		bk := callsMatching(fn, pkg, "historyRepository", "buildKeyOfDeduplicationCacheForInsertMiniblockMetadata")
		ok := len(bk) == 1
		if ok {
			args := core.CallOf(bk[0]).Args
			for _, p := range fn.Params[1:] {
				found := false
				for _, a := range args {
					if a == ssa.Value(p) {
						found = true
					}
				}
				if !found {
					ok = false
				}
			}
		}
		c.Check(ok, "C46/dedup-key-complete", hn+"/passes-all-inputs", fn.Pos(), "passes every one of its inputs to the key builder", "does not pass all of its inputs to the key builder")
	}
	if fn := anchorM(c, pkg, "historyRepository", "buildKeyOfDeduplicationCacheForInsertMiniblockMetadata"); fn != nil {
		for _, r := range core.Returns(fn) {
			reachK := core.BackwardReachPure(core.RetOperand(r, 0))
			for i, p := range fn.Params[1:] {
				c.Check(reachK[p], "C46/dedup-key-complete", fmt.Sprintf("buildKey/param#%d(%s)", i+1, p.Name()), fn.Pos(), "the key derives from "+p.Name(), "the key does not depend on "+p.Name())
			}
		}
	}
	c.Floor("C46/dedup-key-complete", 9)
	// write before mark, nil only after hit or write
	hit := core.PruneWhen(func(cd core.Cond) bool { return cd.V == has[0].(ssa.Value) && cd.Taken })
	mustPassChecked(c, rec, "C46/metadata-written", "historyRepository.recordMiniblock/put", nil,
		func(in ssa.Instruction, cc *ssa.CallCommon) bool {
			return core.CallDesc(cc).Name == "putMiniblockMetadata"
		},
		core.NilReturn, hit, "without a cache hit, nil is returned only after a checked putMiniblockMetadata")
	q := core.PathQ{Fn: rec, Via: func(in ssa.Instruction) bool {
		return core.IsCall(in, pkg, "historyRepository", "putMiniblockMetadata")
	},
		Target: func(in ssa.Instruction, _ *ssa.BasicBlock) bool { return in == mark[0] }}
	esc, _ := q.Escape()
	c.Check(esc == nil, "C46/metadata-written", "historyRepository.recordMiniblock/mark-after-put", mark[0].Pos(), "the entry is marked as recorded only after the metadata was written", "the entry can be marked as recorded before/without the metadata write")
	// the epoch index of the miniblock is written before its metadata: the notification consumer (another mutex) reads
	// index-then-metadata, so with the opposite order it can patch the record of a previous epoch and drop the notification
	qo := core.PathQ{Fn: rec, Via: func(in ssa.Instruction) bool {
		cc := core.CallOf(in)
		return cc != nil && core.CallDesc(cc).Name == "saveEpochByHash"
	}, Target: func(in ssa.Instruction, _ *ssa.BasicBlock) bool {
		return core.IsCall(in, pkg, "historyRepository", "putMiniblockMetadata")
	}}
	escO, _ := qo.Escape()
	c.Check(escO == nil, "C46/metadata-written", "historyRepository.recordMiniblock/index-before-metadata", rec.Pos(), "saveEpochByHash(miniblock) precedes putMiniblockMetadata",
		"the miniblock metadata can be written before its epoch index entry: a concurrent notarization notification looks the miniblock up in the old epoch, patches the orphaned record and is then discarded")
	// every transaction of the miniblock is (re)pointed at this miniblock: the loop over TxHashes puts each one unconditionally
	var txLoop *core.Loop
	for _, l := range core.Loops(rec) {
		if src := l.RangeSource(); src != nil && strings.HasSuffix(core.ExprKey(src), ".TxHashes") {
			txLoop = l
		}
	}
	if txLoop == nil {
		c.Fail("C46/metadata-written", "historyRepository.recordMiniblock/tx-index", rec.Pos(), "no loop over the miniblock's TxHashes")
	} else {
		var body *ssa.BasicBlock
		for _, s2 := range txLoop.Header.Succs {
			if txLoop.Body[s2] {
				body = s2
			}
		}
		qt := core.PathQ{Fn: rec, FromBlk: body, Via: func(in ssa.Instruction) bool {
			cc := core.CallOf(in)
			return cc != nil && isInvoke(cc, "Put") && isRecvField(rec, cc.Value, "miniblockHashByTxHashIndex")
		}, Target: func(in ssa.Instruction, _ *ssa.BasicBlock) bool { return in == txLoop.Header.Instrs[0] }}
		escT, pt := qt.Escape()
		c.Check(escT == nil, "C46/metadata-written", "historyRepository.recordMiniblock/tx-index", rec.Pos(), "every transaction hash of the miniblock is stored in the tx→miniblock index",
			"a transaction of the recorded miniblock can be left pointing at another (earlier) miniblock ("+c.P.PathString(pt)+"): lookups by tx hash report the dropped block")
	}
	// the metadata records the containing block's hash
	okHH := false
	core.Instrs(rec, func(in ssa.Instruction) {
		if st, ok := in.(*ssa.Store); ok {
			if fa, ok := st.Addr.(*ssa.FieldAddr); ok && core.FieldOfAddr(fa).Name() == "HeaderHash" && st.Val == ssa.Value(rec.Params[1]) {
				okHH = true
			}
		}
	})
	c.Check(okHH, "C46/metadata-written", "historyRepository.recordMiniblock/header-hash-recorded", rec.Pos(), "MiniblockMetadata.HeaderHash is the containing block's hash", "the stored metadata does not record the containing block's hash")
}
