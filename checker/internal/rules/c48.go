package rules

import (
	"strings"

	"golang.org/x/tools/go/ssa"

	"verif/checker/internal/core"
)

func init() {
	register(&Rule{
		ID:    "C48",
		Title: "Address text encoding round-trips",
		Pkgs:  []string{"core/pubkeyConverter"},
		Explain: "Decides the rejection structure and the mirror shape of the converters. bech32PubkeyConverter.Decode returns bytes only past: a successful bech32.Decode of the input (bad checksum / bad characters " +
			"rejected there), the test that the decoded prefix equals the configured prefix, a successful ConvertBits with the bit widths in the decoding direction (toBits → fromBits), and the test that the decoded " +
			"length equals the configured length; the returned bytes are that ConvertBits result. Encode returns a non-empty string only as bech32.Encode(configured prefix, ConvertBits(input, fromBits → toBits)) " +
			"of an input of the configured length, with both errors checked - the same prefix and the mirrored bit widths Decode uses. hexPubkeyConverter.Decode returns only the hex.DecodeString result of the " +
			"No refusal of Decode is decided by the length of the text. " +
			"configured length. Not decided (value-level): the round-trip equality itself (bech32 library arithmetic).",
		Run: runC48,
	})
}

func runC48(c *core.Ctx) {
	c48RefusalsHaveADecodingReason(c)
	const pkg = "core/pubkeyConverter"
	if fn := anchorM(c, pkg, "bech32PubkeyConverter", "Decode"); fn != nil {
		var dec, conv *ssa.Call
		for _, in := range core.CallsIn(fn, func(in ssa.Instruction, cc *ssa.CallCommon) bool {
			d := core.CallDesc(cc)
			return strings.HasSuffix(d.Pkg, "bech32") && (d.Name == "Decode" || d.Name == "ConvertBits")
		}) {
			call := in.(*ssa.Call)
			if core.CallDesc(&call.Call).Name == "Decode" {
				dec = call
			} else {
				conv = call
			}
		}
		// the bit conversion may be wrapped by a function of the package: it converts the parameter it is handed,
		// answers the converted bytes, and succeeds only after ConvertBits did. convSite is where the conversion
		// takes place in Decode, convData what it is applied to, convFrag how its result is named in facts.
		convSite, convFrag := conv, "ConvertBits("
		var convData ssa.Value
		if conv != nil {
			convData = conv.Call.Args[0]
		} else {
			for _, in := range core.CallsIn(fn, func(in ssa.Instruction, cc *ssa.CallCommon) bool {
				h := cc.StaticCallee()
				return h != nil && h.Blocks != nil && h.Pkg == fn.Pkg && h != fn
			}) {
				site, isCall := in.(*ssa.Call)
				if !isCall {
					continue
				}
				h := site.Call.StaticCallee()
				isConv := func(_ ssa.Instruction, cc *ssa.CallCommon) bool {
					d := core.CallDesc(cc)
					return strings.HasSuffix(d.Pkg, "bech32") && d.Name == "ConvertBits"
				}
				inner := core.CallsIn(h, isConv)
				if len(inner) != 1 || !succeedsOnlyAfter(h, isConv) {
					continue
				}
				ic := inner[0].(*ssa.Call)
				good := true
				for _, hr := range core.Returns(h) {
					if !core.NilReturn(hr, nil) {
						continue
					}
					if ex, ok := core.RetOperand(hr, 0).(*ssa.Extract); !ok || ex.Tuple != ssa.Value(ic) || ex.Index != 0 {
						good = false
					}
				}
				var data ssa.Value
				for i, p := range h.Params {
					if ssa.Value(p) == ic.Call.Args[0] && i < len(site.Call.Args) {
						data = site.Call.Args[i]
					}
				}
				if good && data != nil {
					conv, convSite, convData, convFrag = ic, site, data, h.Name()+"("
					c.Analysed(fname(h))
				}
			}
		}
		if dec == nil || conv == nil {
			c.Fail("C48/decode-rejects", "bech32PubkeyConverter.Decode", fn.Pos(), "bech32.Decode / ConvertBits not found")
		} else {
			c.Check(dec.Call.Args[0] == ssa.Value(fn.Params[1]), "C48/decode-rejects", "bech32.Decode/input", dec.Pos(), "decodes the given text", "bech32.Decode is not applied to the given text")
			for _, nm := range []struct {
				name string
				call *ssa.Call
			}{{"bech32-decode-checked", dec}, {"convert-bits-checked", convSite}} {
				call := nm.call
				mustPassChecked(c, fn, "C48/decode-rejects", "bech32PubkeyConverter.Decode/"+nm.name, nil,
					func(in ssa.Instruction, _ *ssa.CallCommon) bool { return in == ssa.Instruction(call) }, core.NilReturn, nil, "succeeds (error checked) before bytes are returned")
			}
			prefixOK, lenOK, resOK, dirOK := true, true, true, false
			n := 0
			for _, r := range core.Returns(fn) {
				if !core.NilReturn(r, nil) {
					continue
				}
				n++
				p, l := false, false
				for _, f := range core.FactsAt(r.Block()) {
					if f.Op == "==" && strings.Contains(f.String(), "bech32Config.prefix") && strings.Contains(f.String(), "Decode(p1)#0") {
						p = true
					}
					if f.Op == "==" && strings.Contains(f.String(), "recv.len") && strings.Contains(f.String(), "len(") && strings.Contains(f.String(), convFrag) {
						l = true
					}
				}
				prefixOK, lenOK = prefixOK && p, lenOK && l
				if ex, ok := core.RetOperand(r, 0).(*ssa.Extract); !ok || ex.Tuple != ssa.Value(convSite) || ex.Index != 0 {
					resOK = false
				}
			}
			// direction: ConvertBits(buff, toBits, fromBits, ...)
			a1, a2 := core.ExprKey(conv.Call.Args[1]), core.ExprKey(conv.Call.Args[2])
			dirOK = strings.HasSuffix(a1, "toBits") && strings.HasSuffix(a2, "fromBits")
			dataOK := false
			if ex, ok := convData.(*ssa.Extract); ok && ex.Tuple == ssa.Value(dec) && ex.Index == 1 {
				dataOK = true
			}
			c.Check(prefixOK && n > 0, "C48/decode-rejects", "bech32PubkeyConverter.Decode/prefix", fn.Pos(), "bytes only when the decoded prefix equals the configured prefix", "text with another prefix is not rejected")
			c.Check(lenOK && n > 0, "C48/decode-rejects", "bech32PubkeyConverter.Decode/length", fn.Pos(), "bytes only when the decoded length equals the configured length", "a different decoded length is not rejected")
			c.Check(resOK && dataOK && dirOK, "C48/decode-rejects", "bech32PubkeyConverter.Decode/result", fn.Pos(), "returns ConvertBits(decoded data, toBits→fromBits)", "the returned bytes are not the bit-converted payload of the decoded text (or the bit widths are not in the decoding direction)")
		}
	}
	if fn := anchorM(c, pkg, "bech32PubkeyConverter", "Encode"); fn != nil {
		var enc, conv *ssa.Call
		for _, in := range core.CallsIn(fn, func(in ssa.Instruction, cc *ssa.CallCommon) bool {
			d := core.CallDesc(cc)
			return strings.HasSuffix(d.Pkg, "bech32") && (d.Name == "Encode" || d.Name == "ConvertBits")
		}) {
			call := in.(*ssa.Call)
			if core.CallDesc(&call.Call).Name == "Encode" {
				enc = call
			} else {
				conv = call
			}
		}
		ok, why := enc != nil && conv != nil, "bech32.Encode / ConvertBits not found"
		if ok {
			a1, a2 := core.ExprKey(conv.Call.Args[1]), core.ExprKey(conv.Call.Args[2])
			if !(strings.HasSuffix(a1, "fromBits") && strings.HasSuffix(a2, "toBits")) {
				ok, why = false, "ConvertBits is not called in the encoding direction (fromBits → toBits)"
			}
			if conv.Call.Args[0] != ssa.Value(fn.Params[1]) {
				ok, why = false, "ConvertBits is not applied to the given bytes"
			}
			if !strings.HasSuffix(core.ExprKey(enc.Call.Args[0]), "bech32Config.prefix") {
				ok, why = false, "bech32.Encode does not use the configured prefix"
			}
			if ex, isEx := enc.Call.Args[1].(*ssa.Extract); !isEx || ex.Tuple != ssa.Value(conv) {
				ok, why = false, "bech32.Encode is not given the converted bits"
			}
			// non-empty result only as the Encode result, with facts: len ok, both errors nil
			for _, r := range core.Returns(fn) {
				v := core.RetOperand(r, 0)
				if cst, isC := v.(*ssa.Const); isC && cst.Value != nil && cst.Value.ExactString() == `""` {
					continue
				}
				ex, isEx := v.(*ssa.Extract)
				if !isEx || ex.Tuple != ssa.Value(enc) {
					ok, why = false, "a non-empty result that is not the bech32.Encode output is returned"
					continue
				}
				lenFact := false
				for _, f := range core.FactsAt(r.Block()) {
					if f.Op == "==" && strings.Contains(f.String(), "len(p1)") && strings.Contains(f.String(), "recv.len") {
						lenFact = true
					}
				}
				conds := core.CondsAt(r.Block())
				if !lenFact {
					ok, why = false, "an input of another length than the configured one is encoded"
				}
				if e := core.ErrResult(enc); e == nil || !core.KnownNil(e, conds) {
					ok, why = false, "the error of bech32.Encode is not checked"
				}
				if e := core.ErrResult(conv); e == nil || !core.KnownNil(e, conds) {
					ok, why = false, "the error of ConvertBits is not checked"
				}
			}
		}
		c.Check(ok, "C48/encode-mirrors-decode", "bech32PubkeyConverter.Encode", fn.Pos(), "Encode = bech32.Encode(configured prefix, ConvertBits(input of configured length, fromBits→toBits)), errors checked", why)
	}
	if fn := anchorM(c, pkg, "hexPubkeyConverter", "Decode"); fn != nil {
		ok := true
		n := 0
		for _, r := range core.Returns(fn) {
			if !core.NilReturn(r, nil) {
				continue
			}
			n++
			l := false
			for _, f := range core.FactsAt(r.Block()) {
				if f.Op == "==" && strings.Contains(f.String(), "recv.len") && strings.Contains(f.String(), "DecodeString(p1)") {
					l = true
				}
			}
			ex, isEx := core.RetOperand(r, 0).(*ssa.Extract)
			if !l || !isEx || !strings.Contains(core.ExprKey(ex), "DecodeString(p1)") {
				ok = false
			}
		}
		c.Check(ok && n > 0, "C48/decode-rejects", "hexPubkeyConverter.Decode", fn.Pos(), "returns hex.DecodeString(text) only when it has the configured length", "hex Decode can return bytes of another length or from another source")
		mustPassChecked(c, fn, "C48/decode-rejects", "hexPubkeyConverter.Decode/hex-checked", nil,
			func(in ssa.Instruction, cc *ssa.CallCommon) bool {
				return core.CallDesc(cc).Is("encoding/hex", "", "DecodeString")
			}, core.NilReturn, nil, "hex decoding succeeds (error checked) before bytes are returned")
	}
	c.Floor("C48/decode-rejects", 8)
}

// c48RefusalsHaveADecodingReason: Decode must accept every text Encode produces. It refuses for
// what the bech32 library reports, for a foreign prefix, or for a payload of the wrong byte length -
// never on the length of the TEXT, which would have to be precomputed from the address length by an
// arithmetic of its own (ceil(8n/5) is not 8n/5+1 when 5 divides n: found independently twice).
func c48RefusalsHaveADecodingReason(c *core.Ctx) {
	fn := anchorM(c, "core/pubkeyConverter", "bech32PubkeyConverter", "Decode")
	if fn == nil || len(fn.Params) < 2 {
		return
	}
	text := ssa.Value(fn.Params[1])
	n, bad := 0, ""
	for _, r := range core.Returns(fn) {
		if core.NilReturn(r, nil) {
			continue
		}
		n++
		for _, cd := range core.CondsAt(r.Block()) {
			bo, ok := cd.V.(*ssa.BinOp)
			if !ok {
				continue
			}
			for _, side := range []ssa.Value{bo.X, bo.Y} {
				if call, isCall := side.(*ssa.Call); isCall {
					if b, isB := call.Call.Value.(*ssa.Builtin); isB && b.Name() == "len" && call.Call.Args[0] == text {
						bad = "a comparison of len(text) at " + c.P.Pos(bo.Pos())
					}
				}
			}
		}
	}
	c.Check(n >= 2 && bad == "", "C48/refusals-have-a-decoding-reason", "bech32PubkeyConverter.Decode", fn.Pos(),
		"no refusal is decided by the length of the text",
		"bech32PubkeyConverter.Decode refuses a text because of "+bad+": the expected text length is a separate arithmetic over the address length, and where it disagrees with the encoder (address lengths that are multiples of 5) every encoded address is refused - decode(encode(b)) fails")
}
