package rules

import (
	"fmt"
	"go/types"
	"sort"
	"strings"

	"golang.org/x/tools/go/ssa"

	"verif/checker/internal/core"
)

func init() {
	register(&Rule{
		ID:    "C43",
		Title: "Goroutine throttler bounds concurrent work",
		Pkgs:  []string{"core/throttler", "process/interceptors", "dataRetriever/resolvers", "p2p/libp2p", "data/syncer", "api/middleware"},
		Explain: "Decides two structural conditions. (S1 atomic admission) at every site that starts throttled work, the admission test and the increment must be one atomic step: either the throttler's " +
			"StartProcessing itself decides admission atomically (compare-and-swap against the maximum, returning the verdict) or the site holds one mutex across CanProcess and StartProcessing. " +
			"With a separate load (CanProcess) and add (StartProcessing), N concurrent requests can all pass the test before any of them increments, so more than the maximum run at once. " +
			"(S2 pairing) every StartProcessing (directly, or through a wrapper that starts on its success path) is followed by exactly one EndProcessing on every path - counting deferred calls and the body of the " +
			"goroutine the work is handed to - and EndProcessing is never reached without a preceding start: a missing end leaks a slot forever, a second end lets one more task in than allowed. " +
			"Sites are enumerated from the SSA of the loaded packages (whole module in the thorough tier). A goroutine started after StartProcessing ends the processing itself exactly once (the slot is held while the work runs); NumGoRoutinesThrottler.StartProcessing/EndProcessing change the counter on every return. Not decided: that the configured maximum is the intended one.",
		Run: runC43,
	})
}

func isThrottlerMethod(cc *ssa.CallCommon, name string) bool {
	d := core.CallDesc(cc)
	if d.Name != name {
		return false
	}
	// receiver type (interface or concrete) has the three methods of the protocol
	var t types.Type
	if cc.IsInvoke() {
		t = cc.Value.Type()
	} else if len(cc.Args) > 0 && cc.StaticCallee() != nil && cc.StaticCallee().Signature.Recv() != nil {
		t = cc.Args[0].Type()
	} else {
		return false
	}
	ms := types.NewMethodSet(t)
	has := func(n string) bool { return ms.Lookup(nil, n) != nil }
	return has("CanProcess") && has("StartProcessing") && has("EndProcessing")
}

func runC43(c *core.Ctx) {
	var scope []*ssa.Function
	if c.P.Whole {
		scope = c.P.SrcFuncs()
	} else {
		for _, p := range []string{"core/throttler", "process/interceptors", "dataRetriever/resolvers", "p2p/libp2p", "data/syncer", "api/middleware"} {
			scope = append(scope, c.P.FuncsOfPkg(p)...)
		}
	}
	// implementations of StartProcessing: admission-atomic?
	atomicImpl := true
	nImpl := 0
	for _, fn := range scope {
		if fn.Name() != "StartProcessing" || fn.Signature.Recv() == nil {
			continue
		}
		if strings.Contains(core.QualName(fn), "mock") || strings.Contains(core.QualName(fn), "testscommon") {
			continue
		}
		nImpl++
		c.Analysed(core.QualName(fn))
		cas := len(core.CallsIn(fn, func(in ssa.Instruction, cc *ssa.CallCommon) bool {
			return strings.HasPrefix(core.CallDesc(cc).Name, "CompareAndSwap")
		})) > 0
		returnsVerdict := fn.Signature.Results().Len() > 0
		if !(cas && returnsVerdict) {
			atomicImpl = false
		}
	}
	if nImpl == 0 {
		atomicImpl = false
	}

	// wrappers: functions that start on their success path
	wrappers := map[*ssa.Function]bool{}
	for _, fn := range scope {
		starts := core.CallsIn(fn, func(in ssa.Instruction, cc *ssa.CallCommon) bool { return isThrottlerMethod(cc, "StartProcessing") })
		ends := core.CallsIn(fn, func(in ssa.Instruction, cc *ssa.CallCommon) bool { return isThrottlerMethod(cc, "EndProcessing") })
		if len(starts) == 0 || len(ends) > 0 || core.ErrIndex(fn.Signature) < 0 {
			continue
		}
		// no error exit after a start, every nil exit passed a start
		q1 := core.PathQ{Fn: fn, From: starts[0], Target: func(in ssa.Instruction, p *ssa.BasicBlock) bool {
			_, isR := in.(*ssa.Return)
			return isR && !core.NilReturn(in, p)
		}}
		e1, _ := q1.Escape()
		startSet := map[ssa.Instruction]bool{}
		for _, s := range starts {
			startSet[s] = true
		}
		q2 := core.PathQ{Fn: fn, Via: func(in ssa.Instruction) bool { return startSet[in] }, Target: core.NilReturn}
		e2, _ := q2.Escape()
		if e1 == nil && e2 == nil {
			wrappers[fn] = true
			c.Analysed(core.QualName(fn))
		}
	}

	type site struct {
		fn    *ssa.Function
		start ssa.Instruction // StartProcessing call or call of a wrapper
		wrap  bool
	}
	var sites []site
	for _, fn := range scope {
		if strings.Contains(core.QualName(fn), "mock") {
			continue
		}
		if fn.Name() == "StartProcessing" {
			continue
		}
		core.Instrs(fn, func(in ssa.Instruction) {
			cc := core.CallOf(in)
			if cc == nil {
				return
			}
			if isThrottlerMethod(cc, "StartProcessing") && !wrappers[fn] {
				sites = append(sites, site{fn, in, false})
			} else if g := cc.StaticCallee(); g != nil && wrappers[g] {
				sites = append(sites, site{fn, in, true})
			}
		})
		if wrappers[fn] {
			for _, s := range core.CallsIn(fn, func(in ssa.Instruction, cc *ssa.CallCommon) bool { return isThrottlerMethod(cc, "StartProcessing") }) {
				sites = append(sites, site{fn, s, false})
			}
		}
	}
	sort.Slice(sites, func(i, j int) bool { return core.QualName(sites[i].fn) < core.QualName(sites[j].fn) })

	// ---- S1
	seenS1 := map[string]bool{}
	for _, s := range sites {
		if s.wrap {
			continue // admission happens inside the wrapper, which is a site of its own
		}
		name := fname(s.fn)
		if seenS1[name] {
			continue
		}
		seenS1[name] = true
		c.Analysed(core.QualName(s.fn))
		c.Sites++
		ok := atomicImpl
		if !ok {
			ok = sameMutexAcross(s.fn, s.start)
		}
		c.Check(ok, "C43/admission-atomic", name, s.start.Pos(), "admission test and increment form one atomic step",
			"the admission test (CanProcess: an atomic load compared with max) and the increment (StartProcessing: an unconditional atomic add) are separate steps with no common critical section: concurrent callers can all pass the test before any increments, so more than max tasks run at once")
	}
	c.Floor("C43/admission-atomic", 7)

	// ---- S2
	isEnd := func(in ssa.Instruction) int {
		cc := core.CallOf(in)
		if cc == nil {
			return 0
		}
		if isThrottlerMethod(cc, "EndProcessing") {
			return 1
		}
		// a helper that may end the processing itself counts as an end at its call site
		if _, isGo := in.(*ssa.Go); !isGo {
			if g := cc.StaticCallee(); g != nil && g.Blocks != nil && core.InRepo(g) && !wrappers[g] {
				if len(core.CallsIn(g, func(i2 ssa.Instruction, c2 *ssa.CallCommon) bool { return isThrottlerMethod(c2, "EndProcessing") })) > 0 {
					return 1
				}
			}
		}
		if g, ok := in.(*ssa.Go); ok {
			// the goroutine's body: a function literal, or a named function of the repository (`go x.work(a, b)`)
			var body *ssa.Function
			if mc, ok := g.Call.Value.(*ssa.MakeClosure); ok {
				body, _ = mc.Fn.(*ssa.Function)
			} else if sc := g.Call.StaticCallee(); sc != nil && sc.Blocks != nil && core.InRepo(sc) {
				body = sc
			}
			if body != nil {
				{
					cnt := core.CountEvents(body, func(i2 ssa.Instruction) int {
						if c2 := core.CallOf(i2); c2 != nil && isThrottlerMethod(c2, "EndProcessing") {
							return 1
						}
						return 0
					}, core.AnyReturn)
					all1 := len(cnt) > 0
					any := false
					for _, k := range cnt {
						if k.Max > 0 {
							any = true
						}
						if k.Min != 1 || k.Max != 1 {
							all1 = false
						}
					}
					if all1 {
						return 1
					}
					if any {
						return 2 // an inconsistent goroutine body: counts as a violation of exactly-once
					}
				}
			}
		}
		return 0
	}
	for i, s := range sites {
		if wrappers[s.fn] && !s.wrap {
			continue // the wrapper's own start is paired by its callers
		}
		name := fmt.Sprintf("%s#%d", fname(s.fn), i)
		// at least once after the start
		q := core.PathQ{Fn: s.fn, Via: func(in ssa.Instruction) bool { return isEnd(in) > 0 }, Target: core.AnyReturn}
		if s.wrap {
			call, _ := s.start.(*ssa.Call)
			edges, _, handled := core.ErrNilEdges(call)
			if !handled || len(edges) == 0 {
				c.Undecided("C43/start-end-paired", name, s.start.Pos(), "the error of the starting wrapper is not tested")
				continue
			}
			bad := ""
			for e := range edges {
				q.FromBlk = s.fn.Blocks[e[0]].Succs[e[1]]
				if esc, p := q.Escape(); esc != nil {
					bad = c.P.PathString(p)
				}
			}
			c.Check(bad == "", "C43/start-end-paired", name+"/at-least-once", s.start.Pos(), "every path after a successful start ends the processing", "a path after the successful start reaches a return without EndProcessing (slot leaked): "+bad)
		} else {
			q.From = s.start
			esc, p := q.Escape()
			c.Check(esc == nil, "C43/start-end-paired", name+"/at-least-once", s.start.Pos(), "every path after the start ends the processing", "a path after StartProcessing reaches a return without EndProcessing (slot leaked): "+c.P.PathString(p))
		}
		// at most once
		okMax := true
		for _, k := range core.CountEvents(s.fn, isEnd, core.AnyReturn) {
			if k.Max > 1 {
				okMax = false
			}
		}
		c.Check(okMax, "C43/start-end-paired", name+"/at-most-once", s.start.Pos(), "no path ends the processing twice", "a path calls EndProcessing more than once for one start: the counter drops below the number of running tasks")
	}
	c.Floor("C43/start-end-paired", 14)
	// the slot is held while the work runs: work handed to a goroutine after the start must end the
	// processing itself (exactly once); an EndProcessing in the spawner (deferred or not) releases
	// the slot while the task is still running
	nGo := 0
	for i, s := range sites {
		if wrappers[s.fn] && !s.wrap {
			continue
		}
		k := 0
		core.Instrs(s.fn, func(in ssa.Instruction) {
			g, isGo := in.(*ssa.Go)
			if !isGo {
				return
			}
			// reachable after the start?
			esc, _ := core.PathQ{Fn: s.fn, From: s.start, Target: func(x ssa.Instruction, _ *ssa.BasicBlock) bool { return x == ssa.Instruction(g) }}.Escape()
			if esc == nil {
				return
			}
			k++
			nGo++
			c.Check(isEnd(g) == 1, "C43/spawned-work-holds-the-slot", fmt.Sprintf("%s#%d/go#%d", fname(s.fn), i, k), g.Pos(),
				"the goroutine started after StartProcessing ends the processing itself, exactly once",
				"work is handed to a goroutine that does not end the processing itself: the spawner's EndProcessing (deferred or on its own return) frees the slot while the task is still running, so more than max tasks run concurrently")
		})
	}
	c.Note("goroutines started after a StartProcessing: %d", nGo)
	// every StartProcessing is counted and every EndProcessing uncounts: a start that may skip the
	// increment paired with an end that always decrements lets the counter drift below the number of running tasks
	for _, mname := range []string{"StartProcessing", "EndProcessing"} {
		fn := anchorM(c, "core/throttler", "NumGoRoutinesThrottler", mname)
		if fn == nil {
			continue
		}
		c.Analysed(fname(fn))
		isAdd := func(in ssa.Instruction) bool {
			cc := core.CallOf(in)
			if cc == nil || cc.StaticCallee() == nil || cc.StaticCallee().Pkg == nil || cc.StaticCallee().Pkg.Pkg.Path() != "sync/atomic" {
				return false
			}
			return strings.HasPrefix(cc.StaticCallee().Name(), "Add")
		}
		casEdge := func(b *ssa.BasicBlock, succ int) bool {
			ifi, ok := b.Instrs[len(b.Instrs)-1].(*ssa.If)
			if !ok {
				return false
			}
			call, ok := ifi.Cond.(*ssa.Call)
			if !ok || call.Call.StaticCallee() == nil || !strings.HasPrefix(call.Call.StaticCallee().Name(), "CompareAndSwap") {
				return false
			}
			return succ == 0
		}
		// ... or a method of the throttler every return of which has
		via := func(in ssa.Instruction) bool {
			if isAdd(in) {
				return true
			}
			cc := core.CallOf(in)
			if cc == nil || cc.StaticCallee() == nil || cc.StaticCallee().Blocks == nil || cc.StaticCallee().Pkg != fn.Pkg || cc.StaticCallee() == fn {
				return false
			}
			h := cc.StaticCallee()
			if len(core.CallsIn(h, func(x ssa.Instruction, _ *ssa.CallCommon) bool { return isAdd(x) })) == 0 {
				return false
			}
			esc, _ := core.PathQ{Fn: h, Via: isAdd, ViaEdge: casEdge, Target: core.AnyReturn}.Escape()
			if esc == nil {
				c.Analysed(fname(h))
			}
			return esc == nil
		}
		esc, path := core.PathQ{Fn: fn, Via: via, ViaEdge: casEdge, Target: core.AnyReturn}.Escape()
		c.Check(esc == nil, "C43/counter-atomic", "NumGoRoutinesThrottler."+mname+"/always-counts", fn.Pos(),
			"every return has changed the counter by one (atomic add or successful compare-and-swap)",
			mname+" can return without changing the counter ("+c.P.PathString(path)+"): starts and ends no longer cancel out, the counter drifts away from the number of running tasks and admission goes wrong")
	}
	// the counter itself: every access is a single atomic read-modify-write or load (a load followed by a store loses concurrent updates)
	cnt := c.P.Field("core/throttler", "NumGoRoutinesThrottler", "counter")
	if cnt == nil {
		c.Undecided("anchor", "NumGoRoutinesThrottler.counter", 0, "field not found")
		return
	}
	for _, fn := range c.P.FuncsOfPkg("core/throttler") {
		core.Instrs(fn, func(in ssa.Instruction) {
			fa, ok := in.(*ssa.FieldAddr)
			if !ok || core.FieldOfAddr(fa) != cnt {
				return
			}
			if _, fresh := fa.X.(*ssa.Alloc); fresh {
				return
			}
			for _, r := range *fa.Referrers() {
				okUse, what := false, fmt.Sprintf("%T", r)
				if cc := core.CallOf(r); cc != nil {
					d := core.CallDesc(cc)
					what = d.String()
					if d.Pkg == "sync/atomic" && (strings.HasPrefix(d.Name, "Add") || strings.HasPrefix(d.Name, "Load") || strings.HasPrefix(d.Name, "CompareAndSwap")) {
						okUse = true
					}
				}
				c.Check(okUse, "C43/counter-atomic", fname(fn)+"/"+what, r.Pos(), "atomic add / load / compare-and-swap", "the running-task counter is accessed by "+what+": a separate load and store (or a plain access) loses concurrent increments, so the counter under-counts running tasks")
			}
		})
	}
	c.Floor("C43/counter-atomic", 5)
}

// sameMutexAcross: a mutex is write-held at the start call and was acquired before the dominating CanProcess call.
func sameMutexAcross(fn *ssa.Function, start ssa.Instruction) bool {
	var can ssa.Instruction
	for _, in := range core.CallsIn(fn, func(in ssa.Instruction, cc *ssa.CallCommon) bool { return isThrottlerMethod(cc, "CanProcess") }) {
		if core.DominatesInstr(in, start) {
			can = in
		}
	}
	if can == nil {
		return false
	}
	// any mutex field of the receiver held in W mode at both points
	recv := receiverOf(fn)
	if recv == nil {
		return false
	}
	nt := namedElem(recv.Type())
	if nt == nil {
		return false
	}
	st, ok := nt.Underlying().(*types.Struct)
	if !ok {
		return false
	}
	for i := 0; i < st.NumFields(); i++ {
		f := st.Field(i)
		if !strings.Contains(f.Type().String(), "sync.") {
			continue
		}
		modes := core.LockModes(fn, f, core.ModeNone)
		if modes[can] == core.ModeW && modes[start] == core.ModeW {
			return true
		}
	}
	return false
}
