package rules

import (
	"fmt"
	"go/token"

	"golang.org/x/tools/go/ssa"

	"verif/checker/internal/core"
)

func init() {
	register(&Rule{
		ID:    "C01",
		Title: "State trie behaves as a key-value map",
		Pkgs:  []string{"data/trie"},
		Explain: "Decides the leaf-level contract of the map - structural necessary conditions; the nibble arithmetic of insert/delete/reduceNode along branch and extension nodes, which carries most of the property, is NOT decided " +
			"(cache invalidation, durability and proofs are decided under C02-C04). " +
			"(S1) patriciaMerkleTrie.Update routes by the value: the root's insert is reached, and a first leaf created, only where len(value) != 0 is known, the root's delete only where it is 0 - an empty value stored as a leaf would be enumerated as a live pair. " +
			"(S2) a leaf answers only for its own key: leafNode.tryGet returns the leaf's Value, and leafNode.delete reports 'deleted' (true, no node), only on the branch where bytes.Equal(key, ln.Key) holds; otherwise no value / the leaf itself. " +
			"(S3) inserting an equal key replaces the value: leafNode.insert reaches insertInSameLn only under equality of the two keys, and every non-nil node insertInSameLn returns passed the store ln.Value = n.Value. " +
			"(S4) inserting a different key keeps both pairs, each with its own key suffix, value and slot: in insertInNewBn the child stored at children[X.Key[m]] is newLeafNode(X.Key[m+1:], X.Value) for the same X, once for the old leaf and once for the new one. " +
			"(S5) leaf enumeration emits the leaf's own pair: leafNode.getAllLeavesOnChannel sends NewKeyValStorage(hexToKeyBytes(append(path, ln.Key...)), ln.Value). " +
			"(S6) enumeration walks a private copy: the trie whose root GetAllLeavesOnChannel walks in its goroutine (outside the lock, dropping child pointers behind itself) is the result of a call that can never hand back its own receiver - never the live trie. " +
			"Not decided (value-level): keyBytesToHex/hexToKeyBytes as inverses, prefix and position arithmetic in branch and extension nodes, node reduction after deletes, histories.",
		Run: runC01,
	})
}

func runC01(c *core.Ctx) {
	const pkg = "data/trie"
	// owner: the parameter a value is read from (through field addresses, loads, slices and index addresses)
	var owner func(v ssa.Value, d int) ssa.Value
	owner = func(v ssa.Value, d int) ssa.Value {
		if d > 12 || v == nil {
			return nil
		}
		switch x := v.(type) {
		case *ssa.Parameter:
			return x
		case *ssa.UnOp:
			return owner(x.X, d+1)
		case *ssa.FieldAddr:
			return owner(x.X, d+1)
		case *ssa.Field:
			return owner(x.X, d+1)
		case *ssa.IndexAddr:
			return owner(x.X, d+1)
		case *ssa.Slice:
			return owner(x.X, d+1)
		case *ssa.Convert:
			return owner(x.X, d+1)
		}
		return nil
	}
	fieldName := func(v ssa.Value) string {
		if _, f := core.FieldLoad(v); f != nil {
			return f.Name()
		}
		return ""
	}
	// lenState: what the dominating conditions say about len(v): +1 non-empty, -1 empty, 0 unknown
	lenState := func(b *ssa.BasicBlock, v ssa.Value) int {
		for _, cd := range core.CondsAt(b) {
			bo, ok := cd.V.(*ssa.BinOp)
			if !ok {
				continue
			}
			isLen := func(x ssa.Value) bool {
				call, ok := x.(*ssa.Call)
				if !ok {
					return false
				}
				bi, isB := call.Call.Value.(*ssa.Builtin)
				return isB && bi.Name() == "len" && call.Call.Args[0] == v
			}
			zero := func(x ssa.Value) bool { n, ok := core.ConstInt(x); return ok && n == 0 }
			var op token.Token
			switch {
			case isLen(bo.X) && zero(bo.Y):
				op = bo.Op
			case isLen(bo.Y) && zero(bo.X):
				op = map[token.Token]token.Token{token.EQL: token.EQL, token.NEQ: token.NEQ, token.LSS: token.GTR, token.GTR: token.LSS, token.LEQ: token.GEQ, token.GEQ: token.LEQ}[bo.Op]
			default:
				continue
			}
			switch op { // len(v) op 0
			case token.NEQ, token.GTR:
				if cd.Taken {
					return 1
				}
				return -1
			case token.EQL, token.LEQ:
				if cd.Taken {
					return -1
				}
				return 1
			}
		}
		return 0
	}
	// S1
	if fn := anchorM(c, pkg, "patriciaMerkleTrie", "Update"); fn != nil && len(fn.Params) == 3 {
		value := ssa.Value(fn.Params[2])
		n := 0
		core.Instrs(fn, func(in ssa.Instruction) {
			cc := core.CallOf(in)
			if cc == nil {
				return
			}
			want, what := 0, ""
			switch {
			case cc.IsInvoke() && cc.Method.Name() == "insert":
				want, what = 1, "root.insert"
			case cc.IsInvoke() && cc.Method.Name() == "delete":
				want, what = -1, "root.delete"
			default:
				return
			}
			n++
			got := lenState(in.Block(), value)
			c.Check(got == want, "C01/empty-value-is-a-delete", fmt.Sprintf("patriciaMerkleTrie.Update/%s#%d", what, n), in.Pos(),
				what+" is reached with the matching emptiness of the value",
				fmt.Sprintf("%s is reached where len(value) %s is not established: an update with an empty value must delete and one with a non-empty value must insert, otherwise empty leaves are enumerated as live pairs (or a written value is dropped)", what, map[int]string{1: "!= 0", -1: "== 0"}[want]))
		})
		// the first leaf (stored as the root) is created only for a non-empty value
		core.Instrs(fn, func(in ssa.Instruction) {
			st, ok := in.(*ssa.Store)
			if !ok || !func() bool {
				fa, isFa := st.Addr.(*ssa.FieldAddr)
				return isFa && core.FieldOfAddr(fa).Name() == "root"
			}() {
				return
			}
			mi, isMi := st.Val.(*ssa.MakeInterface)
			if !isMi {
				return
			}
			if ex, isEx := mi.X.(*ssa.Extract); isEx {
				if call, isCall := ex.Tuple.(*ssa.Call); isCall && call.Call.StaticCallee() != nil && call.Call.StaticCallee().Name() == "newLeafNode" {
					n++
					c.Check(lenState(st.Block(), value) == 1, "C01/empty-value-is-a-delete", fmt.Sprintf("patriciaMerkleTrie.Update/first-leaf#%d", n), st.Pos(),
						"a first leaf becomes the root only for a non-empty value", "a leaf with a possibly empty value is installed as the root of an empty trie")
				}
			}
		})
		c.Floor("C01/empty-value-is-a-delete", 3)
	}
	// S2
	eqOwnKey := func(fn *ssa.Function, b *ssa.BasicBlock) int { // +1: bytes.Equal(param1, recv.Key) known true, -1 known false
		for _, cd := range core.CondsAt(b) {
			call, ok := cd.V.(*ssa.Call)
			if !ok || !core.CallDesc(&call.Call).Is("bytes", "", "Equal") {
				continue
			}
			a, bb := call.Call.Args[0], call.Call.Args[1]
			if a != ssa.Value(fn.Params[1]) {
				a, bb = bb, a
			}
			if a == ssa.Value(fn.Params[1]) && fieldName(bb) == "Key" && owner(bb, 0) == ssa.Value(fn.Params[0]) {
				if cd.Taken {
					return 1
				}
				return -1
			}
		}
		return 0
	}
	if fn := anchorM(c, pkg, "leafNode", "tryGet"); fn != nil {
		for i, r := range core.Returns(fn) {
			v := core.RetOperand(r, 0)
			if core.IsNilConst(v) {
				continue
			}
			ok := fieldName(v) == "Value" && owner(v, 0) == ssa.Value(fn.Params[0]) && eqOwnKey(fn, r.Block()) == 1
			c.Check(ok, "C01/leaf-answers-only-for-its-own-key", fmt.Sprintf("leafNode.tryGet/return#%d", i+1), r.Pos(),
				"a value is returned only as ln.Value under bytes.Equal(key, ln.Key)",
				"leafNode.tryGet returns a value that is not the leaf's Value behind the test bytes.Equal(key, ln.Key): a read of one key returns another key's value")
		}
	}
	if fn := anchorM(c, pkg, "leafNode", "delete"); fn != nil {
		for i, r := range core.Returns(fn) {
			deleted, isC := core.ConstBool(core.RetOperand(r, 0))
			st := eqOwnKey(fn, r.Block())
			ok := isC && ((deleted && st == 1 && core.IsNilConst(core.RetOperand(r, 1))) || (!deleted && st == -1 && !core.IsNilConst(core.RetOperand(r, 1))))
			c.Check(ok, "C01/leaf-answers-only-for-its-own-key", fmt.Sprintf("leafNode.delete/return#%d", i+1), r.Pos(),
				"(true, no node) exactly under bytes.Equal(key, ln.Key), (false, the leaf) otherwise",
				"leafNode.delete reports the leaf as deleted (or keeps it) without the matching outcome of bytes.Equal(key, ln.Key): deleting one key removes another key's pair, or leaves the deleted pair in place")
		}
	}
	c.Floor("C01/leaf-answers-only-for-its-own-key", 3)
	// S3
	if fn := anchorM(c, pkg, "leafNode", "insert"); fn != nil {
		n := 0
		core.Instrs(fn, func(in ssa.Instruction) {
			cc := core.CallOf(in)
			if cc == nil || cc.StaticCallee() == nil {
				return
			}
			nm := cc.StaticCallee().Name()
			if nm != "insertInSameLn" && nm != "insertInNewBn" {
				return
			}
			n++
			st := 0
			for _, cd := range core.CondsAt(in.Block()) {
				call, ok := cd.V.(*ssa.Call)
				if !ok || !core.CallDesc(&call.Call).Is("bytes", "", "Equal") {
					continue
				}
				a, b := call.Call.Args[0], call.Call.Args[1]
				if fieldName(a) == "Key" && fieldName(b) == "Key" && owner(a, 0) != nil && owner(b, 0) != nil && owner(a, 0) != owner(b, 0) {
					st = -1
					if cd.Taken {
						st = 1
					}
				}
			}
			want := map[string]int{"insertInSameLn": 1, "insertInNewBn": -1}[nm]
			c.Check(st == want, "C01/same-key-insert-replaces-the-value", "leafNode.insert/"+nm, in.Pos(),
				nm+" behind the matching outcome of bytes.Equal(inserted key, leaf key)",
				"leafNode.insert reaches "+nm+" without the matching outcome of the comparison of the two keys: a different key overwrites this leaf's value, or an equal key is stored a second time")
		})
	}
	if fn := anchorM(c, pkg, "leafNode", "insertInSameLn"); fn != nil {
		repl := func(in ssa.Instruction) bool {
			st, ok := in.(*ssa.Store)
			if !ok {
				return false
			}
			fa, ok := st.Addr.(*ssa.FieldAddr)
			return ok && core.FieldOfAddr(fa).Name() == "Value" && owner(fa, 0) == ssa.Value(fn.Params[0]) &&
				fieldName(st.Val) == "Value" && owner(st.Val, 0) == ssa.Value(fn.Params[1])
		}
		esc, path := core.PathQ{Fn: fn, Via: repl, Target: func(in ssa.Instruction, _ *ssa.BasicBlock) bool {
			r, ok := in.(*ssa.Return)
			return ok && !core.IsNilConst(core.RetOperand(r, 0))
		}}.Escape()
		c.Check(esc == nil, "C01/same-key-insert-replaces-the-value", "leafNode.insertInSameLn", fn.Pos(),
			"every changed node returned has taken over the inserted value",
			"leafNode.insertInSameLn can return the leaf as changed without ln.Value = n.Value ("+c.P.PathString(path)+"): the read after the write returns the old value")
	}
	c.Floor("C01/same-key-insert-replaces-the-value", 3)
	// S4
	if fn := anchorM(c, pkg, "leafNode", "insertInNewBn"); fn != nil {
		owners := map[ssa.Value]bool{}
		n := 0
		core.Instrs(fn, func(in ssa.Instruction) {
			st, ok := in.(*ssa.Store)
			if !ok {
				return
			}
			slot, ok := st.Addr.(*ssa.IndexAddr)
			if !ok {
				return
			}
			if fa, isFa := slot.X.(*ssa.FieldAddr); !isFa || core.FieldOfAddr(fa).Name() != "children" {
				return
			}
			n++
			good, why := false, "the child is not a newLeafNode(...) result"
			if mi, isMi := st.Val.(*ssa.MakeInterface); isMi {
				if ex, isEx := mi.X.(*ssa.Extract); isEx {
					if call, isCall := ex.Tuple.(*ssa.Call); isCall && call.Call.StaticCallee() != nil && call.Call.StaticCallee().Name() == "newLeafNode" {
						key, val := call.Call.Args[0], call.Call.Args[1]
						pos := stripConv(slot.Index)
						x := owner(pos, 0)
						// pos = X.Key[m]; key = X.Key[m+1:]; val = X.Value
						var m ssa.Value
						if ld, isLd := pos.(*ssa.UnOp); isLd {
							if ia, isIa := ld.X.(*ssa.IndexAddr); isIa && fieldName(ia.X) == "Key" {
								m = ia.Index
							}
						}
						ks, isS := key.(*ssa.Slice)
						switch {
						case x == nil || m == nil:
							why = "the slot is not X.Key[m] of one of the two leaves"
						case owner(key, 0) != x || owner(val, 0) != x || fieldName(val) != "Value":
							why = "slot, key suffix and value do not come from the same leaf"
						case !isS || fieldName(ks.X) != "Key" || ks.High != nil || !func() bool {
							add, ok := ks.Low.(*ssa.BinOp)
							if !ok || add.Op != token.ADD {
								return false
							}
							if one, isC := core.ConstInt(add.Y); add.X == m && isC && one == 1 {
								return true
							}
							one, isC := core.ConstInt(add.X)
							return add.Y == m && isC && one == 1
						}():
							why = "the key suffix is not X.Key[m+1:] for the m that selects the slot"
						default:
							good = true
							owners[x] = true
						}
					}
				}
			}
			c.Check(good, "C01/different-key-insert-keeps-both", fmt.Sprintf("leafNode.insertInNewBn/child#%d", n), st.Pos(),
				"children[X.Key[m]] = newLeafNode(X.Key[m+1:], X.Value) for one X",
				"leafNode.insertInNewBn: "+why+": after inserting a key that differs from the leaf's, one of the two pairs is stored under the other's key or value")
		})
		c.Check(n == 2 && len(owners) == 2, "C01/different-key-insert-keeps-both", "leafNode.insertInNewBn/both", fn.Pos(),
			"one child for the old leaf and one for the inserted leaf",
			fmt.Sprintf("leafNode.insertInNewBn fills %d slot(s) from %d distinct leaves: the old pair or the new pair is lost", n, len(owners)))
	}
	// S6: enumeration walks a private copy. The walk runs in a goroutine after the lock is released
	// and drops child pointers behind itself; on the live trie it would show uncommitted writes and
	// make the trie fall back to stale hashes. The trie whose root is walked is the result of a call
	// that never hands back its own receiver.
	if fn := anchorM(c, pkg, "patriciaMerkleTrie", "GetAllLeavesOnChannel"); fn != nil {
		var returnsReceiver func(g *ssa.Function, d int) bool
		returnsReceiver = func(g *ssa.Function, d int) bool {
			if d > 4 || len(g.Blocks) == 0 || g.Signature.Recv() == nil {
				return false
			}
			var isRecv func(v ssa.Value, seen map[ssa.Value]bool) bool
			isRecv = func(v ssa.Value, seen map[ssa.Value]bool) bool {
				if v == nil || seen[v] {
					return false
				}
				seen[v] = true
				switch x := v.(type) {
				case *ssa.Parameter:
					return x == g.Params[0]
				case *ssa.Phi:
					for _, e := range x.Edges {
						if isRecv(e, seen) {
							return true
						}
					}
				case *ssa.Extract:
					return isRecv(x.Tuple, seen)
				case *ssa.Call:
					if h := x.Call.StaticCallee(); h != nil && len(x.Call.Args) > 0 && isRecv(x.Call.Args[0], seen) {
						return returnsReceiver(h, d+1)
					}
				}
				return false
			}
			for _, r := range core.Returns(g) {
				if isRecv(core.RetOperand(r, 0), map[ssa.Value]bool{}) {
					return true
				}
			}
			return false
		}
		n := 0
		for _, f := range append([]*ssa.Function{fn}, fn.AnonFuncs...) {
			core.Instrs(f, func(in ssa.Instruction) {
				cc := core.CallOf(in)
				if cc == nil || !cc.IsInvoke() || cc.Method.Name() != "getAllLeavesOnChannel" {
					return
				}
				n++
				// the trie whose root is walked
				base, fld := core.FieldLoad(cc.Value)
				good, why := false, "the walked node is not the root of a trie value"
				if fld != nil && fld.Name() == "root" {
					t := base
					binding := func(fv *ssa.FreeVar) ssa.Value {
						for i, x := range f.FreeVars {
							if x != fv {
								continue
							}
							for _, blk := range fn.Blocks {
								for _, y := range blk.Instrs {
									if mc, isMC := y.(*ssa.MakeClosure); isMC && mc.Fn == ssa.Value(f) {
										return mc.Bindings[i]
									}
								}
							}
						}
						return nil
					}
					cellValue := func(cell ssa.Value) ssa.Value { // the single store into a local cell
						al, isAl := cell.(*ssa.Alloc)
						if !isAl || al.Referrers() == nil {
							return nil
						}
						var val ssa.Value
						k := 0
						for _, r := range *al.Referrers() {
							if st, isSt := r.(*ssa.Store); isSt && st.Addr == ssa.Value(al) {
								val = st.Val
								k++
							}
						}
						if k != 1 {
							return nil
						}
						return val
					}
					for step := 0; step < 4; step++ {
						if fv, isFV := t.(*ssa.FreeVar); isFV {
							if bnd := binding(fv); bnd != nil {
								t = bnd
								continue
							}
						}
						if u, isU := t.(*ssa.UnOp); isU {
							cell := u.X
							if fv, isFV := cell.(*ssa.FreeVar); isFV {
								cell = binding(fv)
							}
							if cell != nil {
								if v := cellValue(cell); v != nil {
									t = v
									continue
								}
							}
						}
						break
					}
					why = "the trie walked is " + core.ExprKey(t) + ", not the result of a call"
					if ex, isEx := t.(*ssa.Extract); isEx {
						if call, isCall := ex.Tuple.(*ssa.Call); isCall && call.Call.StaticCallee() != nil {
							if returnsReceiver(call.Call.StaticCallee(), 0) {
								why = call.Call.StaticCallee().Name() + " can hand back the live trie itself"
							} else {
								good = true
							}
						}
					}
					if t == ssa.Value(fn.Params[0]) {
						why = "the live trie itself is walked"
					}
				}
				c.Check(good, "C01/enumeration-walks-a-private-copy", fmt.Sprintf("patriciaMerkleTrie.GetAllLeavesOnChannel/walk#%d", n), in.Pos(),
					"the trie walked comes from a call that never returns its receiver",
					"GetAllLeavesOnChannel: "+why+": the walk runs outside the lock and drops child pointers behind itself, so enumerating a committed root shows uncommitted writes, and the live trie falls back to stale hashes (a deleted key comes back, a new key vanishes)")
			})
		}
		if n == 0 {
			c.Undecided("C01/enumeration-walks-a-private-copy", "patriciaMerkleTrie.GetAllLeavesOnChannel", fn.Pos(), "no walk found")
		}
	}
	// S5
	if fn := anchorM(c, pkg, "leafNode", "getAllLeavesOnChannel"); fn != nil {
		n := 0
		core.Instrs(fn, func(in ssa.Instruction) {
			cc := core.CallOf(in)
			if cc == nil || cc.StaticCallee() == nil || cc.StaticCallee().Name() != "NewKeyValStorage" {
				return
			}
			n++
			val := cc.Args[1]
			okV := fieldName(val) == "Value" && owner(val, 0) == ssa.Value(fn.Params[0])
			okK := false
			for x := range core.BackwardReachPure(cc.Args[0]) {
				if call, isC := x.(*ssa.Call); isC && call.Call.StaticCallee() != nil && call.Call.StaticCallee().Name() == "hexToKeyBytes" {
					for y := range core.BackwardReachPure(call.Call.Args[0]) {
						if fieldName(y) == "Key" && owner(y, 0) == ssa.Value(fn.Params[0]) {
							okK = true
						}
					}
				}
			}
			c.Check(okV && okK, "C01/enumeration-emits-the-leafs-own-pair", "leafNode.getAllLeavesOnChannel", in.Pos(),
				"the emitted pair is (hexToKeyBytes(path + ln.Key), ln.Value)",
				fmt.Sprintf("leafNode.getAllLeavesOnChannel emits a pair whose key is not decoded from the path plus the leaf's own Key (ok: %v) or whose value is not the leaf's Value (ok: %v): enumeration does not yield the live pairs with their original keys", okK, okV))
		})
		if n == 0 {
			c.Undecided("C01/enumeration-emits-the-leafs-own-pair", "leafNode.getAllLeavesOnChannel", fn.Pos(), "no NewKeyValStorage call")
		}
	}
}
