package rules

import (
	"fmt"

	"golang.org/x/tools/go/ssa"

	"verif/checker/internal/core"
)

func init() {
	register(&Rule{
		ID:    "C36",
		Title: "Percentage splits of amounts are exact and bounded",
		Pkgs:  []string{"core", "vm/systemSmartContracts"},
		Explain: "Decides two structural necessary conditions of 'the split hands out exactly the amount'. (S1, ownership) the percentage helpers core.GetIntTrimmedPercentageOfValue and GetApproximatePercentageOfValue never " +
			"modify the amount they are given: every in-place math/big operation (Mul, Div, Add, ... - the receiver is overwritten) in them has a receiver allocated in the helper, never the `value` parameter or something " +
			"reachable from it; the result is such a fresh object too (the caller may modify it). An in-place operation on the argument would change the caller's amount - the very total the complementary share is then " +
			"computed from. (S2, complement by subtraction) in delegation.computeAndUpdateRewards the delegators' share is Sub(total, ownerShare) of the SAME total the owner's percentage was taken from, and the in-place " +
			"scaling of that share is applied to the fresh difference, not to the stored total: owner share + delegators' share = total by construction, whatever the rounding of the percentage. " +
			"Not decided (value-level): that the percentage is amount x p rounded down (decimal string scaling of the float), 0 <= result <= amount.",
		Run: runC36,
	})
}

func runC36(c *core.Ctx) {
	freshBig := func(v ssa.Value) bool {
		seen := map[ssa.Value]bool{}
		var walk func(x ssa.Value) bool
		walk = func(x ssa.Value) bool {
			if seen[x] {
				return true
			}
			seen[x] = true
			switch t := x.(type) {
			case *ssa.Alloc:
				return true
			case *ssa.Phi:
				for _, e := range t.Edges {
					if !walk(e) {
						return false
					}
				}
				return true
			case *ssa.Extract:
				return walk(t.Tuple)
			case *ssa.Call:
				g := t.Call.StaticCallee()
				if g == nil || g.Pkg == nil || g.Pkg.Pkg.Path() != "math/big" {
					return false
				}
				if g.Signature.Recv() == nil {
					return true // NewInt, NewFloat
				}
				// methods return their receiver
				return len(t.Call.Args) > 0 && walk(t.Call.Args[0])
			}
			return false
		}
		return walk(v)
	}
	n := 0
	for _, name := range []string{"GetIntTrimmedPercentageOfValue", "GetApproximatePercentageOfValue"} {
		fn := anchorF(c, "core", name)
		if fn == nil {
			continue
		}
		c.Analysed(fname(fn))
		k := 0
		core.Instrs(fn, func(in ssa.Instruction) {
			cc := core.CallOf(in)
			if cc == nil || cc.StaticCallee() == nil || cc.StaticCallee().Pkg == nil || cc.StaticCallee().Pkg.Pkg.Path() != "math/big" || cc.StaticCallee().Signature.Recv() == nil || len(cc.Args) == 0 {
				return
			}
			switch cc.StaticCallee().Name() {
			case "Cmp", "CmpAbs", "Sign", "BitLen", "Bytes", "String", "Text", "Uint64", "Int64", "IsInt64", "IsUint64", "Float64", "IsInt", "Int":
				if cc.StaticCallee().Name() != "Int" {
					return
				}
			}
			k++
			n++
			c.Check(freshBig(cc.Args[0]), "C36/helper-leaves-amount-untouched", fmt.Sprintf("%s/%s#%d", name, cc.StaticCallee().Name(), k), in.Pos(),
				"the receiver overwritten by this operation is allocated inside the helper",
				"the receiver of the in-place operation "+cc.StaticCallee().Name()+" is not allocated in the helper (it is, or may be, the caller's amount): taking a percentage changes the amount it is taken from")
		})
		for i, r := range core.Returns(fn) {
			c.Check(freshBig(core.RetOperand(r, 0)), "C36/helper-leaves-amount-untouched", fmt.Sprintf("%s/result#%d", name, i+1), r.Pos(),
				"the result is a fresh object", "the result may be the caller's amount itself: a caller that updates the share in place updates the amount")
		}
	}
	c.Floor("C36/helper-leaves-amount-untouched", 8)

	if fn := anchorM(c, "vm/systemSmartContracts", "delegation", "computeAndUpdateRewards"); fn != nil {
		c.Analysed(fname(fn))
		var owner []*ssa.Call
		core.Instrs(fn, func(in ssa.Instruction) {
			if call, ok := in.(*ssa.Call); ok && call.Call.StaticCallee() != nil {
				if nm := call.Call.StaticCallee().Name(); nm == "GetIntTrimmedPercentageOfValue" || nm == "GetApproximatePercentageOfValue" {
					owner = append(owner, call)
				}
			}
		})
		// the Sub that computes the complement
		okSub, why := false, "no Sub(total, ownerShare) found"
		core.Instrs(fn, func(in ssa.Instruction) {
			call, ok := in.(*ssa.Call)
			if !ok || call.Call.StaticCallee() == nil || call.Call.StaticCallee().Name() != "Sub" || call.Call.StaticCallee().Pkg == nil || call.Call.StaticCallee().Pkg.Pkg.Path() != "math/big" || len(call.Call.Args) != 3 {
				return
			}
			sub := call.Call.Args[2]
			fromOwner := false
			for x := range core.BackwardReachPure(sub) {
				for _, o := range owner {
					if x == ssa.Value(o) {
						fromOwner = true
					}
				}
			}
			if !fromOwner {
				return
			}
			// minuend: the same total the percentages were taken from
			same := len(owner) > 0
			for _, o := range owner {
				if core.ExprKey(o.Call.Args[0]) != core.ExprKey(call.Call.Args[1]) {
					same = false
				}
			}
			if !same {
				why = "the complement is subtracted from a different amount than the one the owner's percentage was taken from"
				return
			}
			if !freshBig(call.Call.Args[0]) {
				why = "the difference overwrites a stored amount instead of a fresh object"
				return
			}
			// every later in-place scaling of the delegators' share works on that fresh difference
			okSub = true
		})
		c.Check(okSub && len(owner) >= 1, "C36/complement-by-subtraction", "delegation.computeAndUpdateRewards", fn.Pos(),
			"delegators' share = Sub(fresh, total, ownerShare) of the same total the owner's percentage was taken from",
			why+": owner share and delegators' share no longer add up to the rewards to distribute")
		// no in-place operation overwrites the stored per-epoch reward data
		bad := ""
		core.Instrs(fn, func(in ssa.Instruction) {
			cc := core.CallOf(in)
			if cc == nil || cc.StaticCallee() == nil || cc.StaticCallee().Pkg == nil || cc.StaticCallee().Pkg.Pkg.Path() != "math/big" || cc.StaticCallee().Signature.Recv() == nil || len(cc.Args) == 0 {
				return
			}
			switch cc.StaticCallee().Name() {
			case "Add", "Sub", "Mul", "Div", "Quo", "Mod", "Set", "Neg", "SetUint64", "SetInt64":
			default:
				return
			}
			for x := range core.BackwardReachPure(cc.Args[0]) {
				if _, f := core.FieldLoad(x); f != nil && (f.Name() == "RewardsToDistribute" || f.Name() == "TotalActive") {
					if cc.Args[0] == x {
						bad = cc.StaticCallee().Name() + " at " + c.P.Pos(in.Pos())
					}
				}
			}
		})
		c.Check(bad == "", "C36/complement-by-subtraction", "delegation.computeAndUpdateRewards/epoch-data-read-only", fn.Pos(),
			"no in-place operation has RewardsToDistribute or TotalActive of the epoch's reward data as its receiver",
			"an in-place operation overwrites the epoch's reward data ("+bad+"): the next delegator's share is computed from a changed total")
	}
	c.Floor("C36/complement-by-subtraction", 2)
}
