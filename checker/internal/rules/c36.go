package rules

import (
	"fmt"
	"go/token"
	"go/types"

	"golang.org/x/tools/go/ssa"

	"verif/checker/internal/core"
)

func init() {
	register(&Rule{
		ID:    "C36",
		Title: "Percentage splits of amounts are exact and bounded",
		Pkgs:  []string{"core", "vm/systemSmartContracts"},
		Explain: "Decides two structural necessary conditions of 'the split hands out exactly the amount'. (S1, ownership) the percentage helpers core.GetIntTrimmedPercentageOfValue and GetApproximatePercentageOfValue never " +
			"modify the amount they are given: every in-place math/big operation (Mul, Div, Add, ... - the receiver is overwritten) in them has a receiver allocated in the helper, never the `value` parameter or something " +
			"reachable from it; the result is such a fresh object too (the caller may modify it). An in-place operation on the argument would change the caller's amount - the very total the complementary share is then " +
			"computed from. (S2, complement by subtraction) in delegation.computeAndUpdateRewards the delegators' share is Sub(total, ownerShare) of the SAME total the owner's percentage was taken from, and the in-place " +
			"scaling of that share is applied to the fresh difference, not to the stored total: owner share + delegators' share = total by construction, whatever the rounding of the percentage. " +
			"Not decided (value-level): that the percentage is amount x p rounded down (decimal string scaling of the float), 0 <= result <= amount.",
		Run: runC36,
	})
}

func runC36(c *core.Ctx) {
	freshBig := func(v ssa.Value) bool {
		seen := map[ssa.Value]bool{}
		var walk func(x ssa.Value) bool
		walk = func(x ssa.Value) bool {
			if seen[x] {
				return true
			}
			seen[x] = true
			switch t := x.(type) {
			case *ssa.Alloc:
				return true
			case *ssa.Phi:
				for _, e := range t.Edges {
					if !walk(e) {
						return false
					}
				}
				return true
			case *ssa.Extract:
				return walk(t.Tuple)
			case *ssa.Call:
				g := t.Call.StaticCallee()
				if g == nil || g.Pkg == nil || g.Pkg.Pkg.Path() != "math/big" {
					return false
				}
				if g.Signature.Recv() == nil {
					return true // NewInt, NewFloat
				}
				// methods return their receiver
				return len(t.Call.Args) > 0 && walk(t.Call.Args[0])
			}
			return false
		}
		return walk(v)
	}
	n := 0
	for _, name := range []string{"GetIntTrimmedPercentageOfValue", "GetApproximatePercentageOfValue"} {
		fn := anchorF(c, "core", name)
		if fn == nil {
			continue
		}
		c.Analysed(fname(fn))
		k := 0
		core.Instrs(fn, func(in ssa.Instruction) {
			cc := core.CallOf(in)
			if cc == nil || cc.StaticCallee() == nil || cc.StaticCallee().Pkg == nil || cc.StaticCallee().Pkg.Pkg.Path() != "math/big" || cc.StaticCallee().Signature.Recv() == nil || len(cc.Args) == 0 {
				return
			}
			switch cc.StaticCallee().Name() {
			case "Cmp", "CmpAbs", "Sign", "BitLen", "Bytes", "String", "Text", "Uint64", "Int64", "IsInt64", "IsUint64", "Float64", "IsInt", "Int":
				if cc.StaticCallee().Name() != "Int" {
					return
				}
			}
			k++
			n++
			c.Check(freshBig(cc.Args[0]), "C36/helper-leaves-amount-untouched", fmt.Sprintf("%s/%s#%d", name, cc.StaticCallee().Name(), k), in.Pos(),
				"the receiver overwritten by this operation is allocated inside the helper",
				"the receiver of the in-place operation "+cc.StaticCallee().Name()+" is not allocated in the helper (it is, or may be, the caller's amount): taking a percentage changes the amount it is taken from")
		})
		for i, r := range core.Returns(fn) {
			c.Check(freshBig(core.RetOperand(r, 0)), "C36/helper-leaves-amount-untouched", fmt.Sprintf("%s/result#%d", name, i+1), r.Pos(),
				"the result is a fresh object", "the result may be the caller's amount itself: a caller that updates the share in place updates the amount")
		}
	}
	c.Floor("C36/helper-leaves-amount-untouched", 8)
	// the exact helper stays in integer arithmetic: the amount is never turned into a float (a float64
	// holds the amount exactly below 2^53, but not the percentage: the truncated product is off by one)
	if fn := anchorF(c, "core", "GetIntTrimmedPercentageOfValue"); fn != nil {
		bad := ""
		core.Instrs(fn, func(in ssa.Instruction) {
			switch x := in.(type) {
			case *ssa.Convert:
				bt, ok := x.Type().Underlying().(*types.Basic)
				bs, ok2 := x.X.Type().Underlying().(*types.Basic)
				if ok && ok2 && bt.Info()&types.IsFloat != 0 && bs.Info()&types.IsInteger != 0 {
					for y := range core.BackwardReachPure(x.X) {
						if y == ssa.Value(fn.Params[0]) {
							bad = "the amount is converted to " + bt.Name() + " at " + c.P.Pos(x.Pos())
						}
					}
				}
			case *ssa.BinOp:
				if bt, ok := x.Type().Underlying().(*types.Basic); ok && bt.Info()&types.IsFloat != 0 && (x.Op == token.MUL || x.Op == token.QUO) {
					bad = "floating-point " + x.Op.String() + " at " + c.P.Pos(x.Pos())
				}
				// ... and no machine-integer product of two runtime values (it wraps modulo 2^64)
				if bt, ok := x.Type().Underlying().(*types.Basic); ok && bt.Info()&types.IsInteger != 0 && x.Op == token.MUL {
					_, cx := x.X.(*ssa.Const)
					_, cy := x.Y.(*ssa.Const)
					if !cx && !cy {
						bad = "machine-integer product " + core.ExprKey(x) + " at " + c.P.Pos(x.Pos())
					}
				}
			}
		})
		c.Check(bad == "", "C36/exact-helper-stays-in-integers", "GetIntTrimmedPercentageOfValue", fn.Pos(),
			"no conversion of the amount to a float and no floating-point multiplication or division",
			bad+": the result is no longer the amount times the decimal expansion of p rounded down (the binary float nearest to p is not p)")
	}

	if fn := anchorM(c, "vm/systemSmartContracts", "delegation", "computeAndUpdateRewards"); fn != nil {
		c.Analysed(fname(fn))
		isBig := func(call *ssa.Call, name string) bool {
			g := call.Call.StaticCallee()
			return g != nil && g.Pkg != nil && g.Pkg.Pkg.Path() == "math/big" && g.Name() == name
		}
		isPct := func(call *ssa.Call) bool {
			if call.Call.StaticCallee() == nil {
				return false
			}
			nm := call.Call.StaticCallee().Name()
			return nm == "GetIntTrimmedPercentageOfValue" || nm == "GetApproximatePercentageOfValue"
		}
		// the scope: the function, and the methods of the contract it hands the epoch's data to (the per-epoch
		// arithmetic may be a helper of its own)
		scope := []*ssa.Function{fn}
		core.Instrs(fn, func(in ssa.Instruction) {
			if cc := core.CallOf(in); cc != nil && cc.StaticCallee() != nil && cc.StaticCallee().Blocks != nil && cc.StaticCallee().Pkg == fn.Pkg && cc.StaticCallee() != fn {
				for _, g := range scope {
					if g == cc.StaticCallee() {
						return
					}
				}
				scope = append(scope, cc.StaticCallee())
			}
		})
		// an owner's share: a percentage call, or a helper every answer of which is one. total: the record and
		// field the percentage is taken of (through the helper: of the argument that stands for its parameter)
		type ownerShare struct {
			call  *ssa.Call
			base  ssa.Value
			field *types.Var
		}
		ownersIn := func(g *ssa.Function) (out []ownerShare) {
			core.Instrs(g, func(in ssa.Instruction) {
				call, ok := in.(*ssa.Call)
				if !ok || call.Call.StaticCallee() == nil {
					return
				}
				if isPct(call) {
					base, f := core.FieldLoad(call.Call.Args[0])
					out = append(out, ownerShare{call, base, f})
					return
				}
				h := call.Call.StaticCallee()
				if h.Blocks == nil || h.Pkg != g.Pkg {
					return
				}
				rets := core.Returns(h)
				if len(rets) == 0 {
					return
				}
				var shares []ownerShare
				for _, r := range rets {
					pc, isCall := core.RetOperand(r, 0).(*ssa.Call)
					if !isCall || !isPct(pc) {
						return
					}
					base, f := core.FieldLoad(pc.Call.Args[0])
					var arg ssa.Value
					for i, p := range h.Params {
						if ssa.Value(p) == base && i < len(call.Call.Args) {
							arg = call.Call.Args[i]
						}
					}
					shares = append(shares, ownerShare{call, arg, f})
				}
				c.Analysed(fname(h))
				out = append(out, shares...)
			})
			return out
		}
		// the delegators' share: the object that is scaled by stake / TotalActive. On EVERY path it must be
		// the fresh difference Sub(total, ownerShare) of the total the owner's percentage was taken from.
		okSub, why := false, "no share scaled by the delegator's stake over TotalActive was found"
		nOwner := 0
		for _, g := range scope {
			owner := ownersIn(g)
			var checkOrigin func(v ssa.Value, depth int) (bool, string)
			checkOrigin = func(v ssa.Value, depth int) (bool, string) {
				if depth > 8 {
					return false, "the origin of the delegators' share could not be followed"
				}
				switch x := v.(type) {
				case *ssa.Phi:
					for _, e := range x.Edges {
						if ok, w := checkOrigin(e, depth+1); !ok {
							return false, w
						}
					}
					return len(x.Edges) > 0, ""
				case *ssa.Call:
					if isBig(x, "Mul") || isBig(x, "Div") || isBig(x, "Quo") || isBig(x, "Set") {
						// the value is that of the operand; with an in-place receiver the two are one object
						if freshBig(x.Call.Args[0]) && len(x.Call.Args) > 1 {
							if ok, w := checkOrigin(x.Call.Args[1], depth+1); ok || !isBig(x, "Mul") || len(x.Call.Args) < 3 {
								return ok, w
							}
							return checkOrigin(x.Call.Args[2], depth+1)
						}
						return checkOrigin(x.Call.Args[0], depth+1)
					}
					if isBig(x, "Sub") && len(x.Call.Args) == 3 {
						fromOwner := false
						for y := range core.BackwardReachPure(x.Call.Args[2]) {
							for _, o := range owner {
								if y == ssa.Value(o.call) {
									fromOwner = true
								}
							}
						}
						if !fromOwner {
							return false, "the share is a difference, but not total minus the owner's share"
						}
						mb, mf := core.FieldLoad(x.Call.Args[1])
						for _, o := range owner {
							if o.field == nil || mf != o.field || mb != o.base {
								return false, "the complement is subtracted from a different amount than the one the owner's percentage was taken from"
							}
						}
						if !freshBig(x.Call.Args[0]) {
							return false, "the difference overwrites a stored amount instead of a fresh object"
						}
						return true, ""
					}
					return false, "on some path the delegators' share is not Sub(total, ownerShare) but " + core.ExprKey(x) + " (a second, independently rounded percentage does not add up with the first)"
				}
				return false, "on some path the delegators' share is not Sub(total, ownerShare)"
			}
			core.Instrs(g, func(in ssa.Instruction) {
				call, ok := in.(*ssa.Call)
				if !ok || !(isBig(call, "Div") || isBig(call, "Quo")) || len(call.Call.Args) != 3 {
					return
				}
				byTotalActive := false
				for x := range core.BackwardReachPure(call.Call.Args[2]) {
					if _, f := core.FieldLoad(x); f != nil && f.Name() == "TotalActive" {
						byTotalActive = true
					}
				}
				if !byTotalActive {
					return
				}
				if g != fn {
					c.Analysed(fname(g))
				}
				nOwner = len(owner)
				// the dividend: the receiver when the division is in place, the operand when the receiver is fresh
				if freshBig(call.Call.Args[0]) {
					okSub, why = checkOrigin(call.Call.Args[1], 0)
				} else {
					okSub, why = checkOrigin(call.Call.Args[0], 0)
				}
			})
		}
		c.Check(okSub && nOwner >= 1, "C36/complement-by-subtraction", "delegation.computeAndUpdateRewards", fn.Pos(),
			"delegators' share = Sub(fresh, total, ownerShare) of the same total the owner's percentage was taken from",
			why+": owner share and delegators' share no longer add up to the rewards to distribute")
		// no in-place operation overwrites the stored per-epoch reward data
		bad := ""
		scanReadOnly := func(in ssa.Instruction) {
			cc := core.CallOf(in)
			if cc == nil || cc.StaticCallee() == nil || cc.StaticCallee().Pkg == nil || cc.StaticCallee().Pkg.Pkg.Path() != "math/big" || cc.StaticCallee().Signature.Recv() == nil || len(cc.Args) == 0 {
				return
			}
			switch cc.StaticCallee().Name() {
			case "Add", "Sub", "Mul", "Div", "Quo", "Mod", "Set", "Neg", "SetUint64", "SetInt64":
			default:
				return
			}
			for x := range core.BackwardReachPure(cc.Args[0]) {
				if _, f := core.FieldLoad(x); f != nil && (f.Name() == "RewardsToDistribute" || f.Name() == "TotalActive") {
					if cc.Args[0] == x {
						bad = cc.StaticCallee().Name() + " at " + c.P.Pos(in.Pos())
					}
				}
			}
		}
		for _, g := range scope {
			core.Instrs(g, scanReadOnly)
		}
		c.Check(bad == "", "C36/complement-by-subtraction", "delegation.computeAndUpdateRewards/epoch-data-read-only", fn.Pos(),
			"no in-place operation has RewardsToDistribute or TotalActive of the epoch's reward data as its receiver",
			"an in-place operation overwrites the epoch's reward data ("+bad+"): the next delegator's share is computed from a changed total")
	}
	c.Floor("C36/complement-by-subtraction", 2)
}
