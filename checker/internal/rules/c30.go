package rules

import (
	"fmt"
	"go/token"
	"go/types"
	"sort"
	"strings"

	"golang.org/x/tools/go/ssa"

	"verif/checker/internal/core"
)

func init() {
	register(&Rule{
		ID:    "C30",
		Title: "Epoch-partitioned storage keeps and removes data as promised",
		Pkgs:  []string{"storage/pruning"},
		Explain: "Decides the structural half of 'a removed key is gone': PruningStorer.Remove must attempt the removal in EVERY active persister " +
			"(the loop over activePersisters that calls persister.Remove has no exit other than exhaustion of the range or a definite error return), and must remove the key from the cache on every path. " +
			"A Remove that stops at the first persister leaves the key readable from an older active epoch. " +
			"Every pass of the Remove loop calls Remove on that pass's persister (no persister skipped); the key of every delete from persistersMapByEpoch in closePersisters is computed from the current epoch and numOfEpochsToKeep only. " +
			"A storage.Persister is closed only by persisterData.Close. " +
			"Not decided (value-level): the window arithmetic of changeEpoch/closePersisters, i.e. which epochs are active.",
		Run: runC30,
	})
}

func runC30(c *core.Ctx) {
	c30ClosedThroughTheRecord(c)
	fn := anchorM(c, "storage/pruning", "PruningStorer", "Remove")
	if fn == nil {
		return
	}
	// S1: loop completeness for every persister.Remove call
	// the loop may live in a helper method that Remove calls on every path that reports success
	top := fn
	if len(callsMatching(fn, "storage", "Persister", "Remove")) == 0 {
		for _, in := range core.CallsIn(top, func(_ ssa.Instruction, cc *ssa.CallCommon) bool {
			h := cc.StaticCallee()
			return h != nil && h.Blocks != nil && h.Pkg == top.Pkg && len(callsMatching(h, "storage", "Persister", "Remove")) > 0
		}) {
			hc := in
			esc, _ := core.PathQ{Fn: top, Via: func(x ssa.Instruction) bool { return x == hc }, Target: core.SuccessReturn}.Escape()
			if esc == nil {
				fn = core.CallOf(in).StaticCallee()
				c.Analysed(fname(fn))
			}
		}
	}
	calls := callsMatching(fn, "storage", "Persister", "Remove")
	for i, in := range calls {
		name := fmt.Sprintf("%s/persister.Remove#%d", fname(top), i)
		l := core.InnermostLoop(fn, in.Block())
		if l == nil {
			c.Fail("C30/remove-in-all-active-persisters", name, in.Pos(), "persister.Remove is not called inside a loop over the active persisters")
			continue
		}
		src := l.RangeSource()
		if src == nil || !isFieldOf(src, "activePersisters") {
			c.Fail("C30/remove-in-all-active-persisters", name, in.Pos(), "the loop containing persister.Remove does not range over PruningStorer.activePersisters")
			continue
		}
		bad := ""
		for _, e := range l.Exits() {
			if e.From == l.Header {
				continue
			}
			to := e.From.Succs[e.Succ]
			if core.OnlyErrorReturnsFrom(to, e.From, l) {
				continue
			}
			bad = fmt.Sprintf("early exit from the loop body at block b%d → b%d (%s): the remaining active persisters are not visited", e.From.Index, to.Index, c.P.Pos(firstPos(to)))
		}
		c.Check(bad == "", "C30/remove-in-all-active-persisters", name, in.Pos(),
			"loop over activePersisters leaves only on range exhaustion (or a definite error)", bad)
		// and no persister is skipped: every pass of the loop reaches the Remove call
		var start *ssa.BasicBlock
		for _, s2 := range l.Header.Succs {
			if l.Body[s2] {
				start = s2
			}
		}
		rm := in
		esc, path := core.PathQ{Fn: fn, FromBlk: start, Via: func(x ssa.Instruction) bool { return x == rm },
			Target: func(x ssa.Instruction, _ *ssa.BasicBlock) bool { return x == l.Header.Instrs[0] }}.Escape()
		c.Check(esc == nil, "C30/remove-in-all-active-persisters", name+"/every-pass", in.Pos(),
			"every pass of the loop calls Remove on that pass's persister",
			"a pass of the loop goes on to the next persister without calling Remove ("+c.P.PathString(path)+"): the key survives in the skipped persister and is still returned by Get/Has")
	}
	c30CleanupWindow(c)
	c30OneEpochOnePersister(c)
	c.Floor("C30/remove-in-all-active-persisters", 1)

	// S2: the cache entry is removed on every path to a return
	q := core.PathQ{Fn: top,
		Via:    func(in ssa.Instruction) bool { return core.IsCall(in, "storage", "Cacher", "Remove") },
		Target: core.AnyReturn}
	esc, path := q.Escape()
	c.Check(esc == nil, "C30/cache-entry-removed", fname(top), top.Pos(),
		"every path to a return passes cacher.Remove(key)",
		"a return is reachable without cacher.Remove: "+c.P.PathString(path))
	c.Sites += len(calls) + 1
	// full-history storer: evicting an old-epoch persister from its LRU must never close a persister that is
	// (or has become) active: Close is reached only after the scan over activePersisters found no match
	if ev := optM(c, "storage/pruning", "FullHistoryPruningStorer", "onEvicted"); ev != nil {
		closes := core.CallsIn(ev, func(in ssa.Instruction, cc *ssa.CallCommon) bool { return core.CallDesc(cc).Name == "Close" })
		var scan *core.Loop
		for _, l := range core.Loops(ev) {
			if src := l.RangeSource(); src != nil && isFieldOf(src, "activePersisters") {
				scan = l
			}
		}
		for i, cl := range closes {
			ok := false
			if scan != nil {
				// the only way from entry to Close is through the scan's exhaustion edge, and the scan leaves early (return) on an epoch match
				exh := map[[2]int]bool{}
				for k, s2 := range scan.Header.Succs {
					if !scan.Body[s2] {
						exh[[2]int{scan.Header.Index, k}] = true
					}
				}
				q := core.PathQ{Fn: ev, ViaEdge: func(b *ssa.BasicBlock, s2 int) bool { return exh[[2]int{b.Index, s2}] }, Target: func(in ssa.Instruction, _ *ssa.BasicBlock) bool { return in == cl }}
				esc, _ := q.Escape()
				matchExit := false
				for _, e := range scan.Exits() {
					if e.From == scan.Header {
						continue
					}
					for _, f := range core.FactsAt(e.From.Succs[e.Succ]) {
						if f.Op == "==" && strings.Contains(f.String(), ".epoch") {
							matchExit = true
						}
					}
				}
				ok = esc == nil && matchExit
			}
			c.Check(ok, "C30/active-persister-not-closed", fmt.Sprintf("FullHistoryPruningStorer.onEvicted/Close#%d", i), cl.Pos(),
				"a persister is closed on eviction only after the scan of activePersisters found no persister of the same epoch",
				"an evicted old-epoch persister is closed without checking that its epoch is not active: data put in that (now active) epoch becomes unreadable")
		}
	}
}

func firstPos(b *ssa.BasicBlock) (p tokenPos) {
	for _, in := range b.Instrs {
		if in.Pos().IsValid() {
			return in.Pos()
		}
	}
	return 0
}

// c30CleanupWindow: which epochs closePersisters forgets is decided by the configured number of
// epochs to keep: the key of every delete from persistersMapByEpoch derives from the
// numOfEpochsToKeep field (a window computed from another field drops epochs that were promised).
func c30CleanupWindow(c *core.Ctx) {
	fn := anchorM(c, "storage/pruning", "PruningStorer", "closePersisters")
	if fn == nil {
		return
	}
	c.Analysed(fname(fn))
	keep := c.P.Field("storage/pruning", "PruningStorer", "numOfEpochsToKeep")
	if keep == nil {
		c.Undecided("anchor", "PruningStorer.numOfEpochsToKeep", fn.Pos(), "field not found")
		return
	}
	n := 0
	// the deleting loop may live in a method of the storer that closePersisters hands the first epoch to forget:
	// the key deleted there is made of the method's parameters, which stand for what they were handed
	type delSite struct {
		call *ssa.Call
		bind func(ssa.Value) ssa.Value
	}
	var sites []delSite
	isDel := func(in ssa.Instruction) *ssa.Call {
		call, ok := in.(*ssa.Call)
		if !ok {
			return nil
		}
		b, ok := call.Call.Value.(*ssa.Builtin)
		if !ok || b.Name() != "delete" || !isFieldOf(call.Call.Args[0], "persistersMapByEpoch") {
			return nil
		}
		return call
	}
	core.Instrs(fn, func(in ssa.Instruction) {
		if d := isDel(in); d != nil {
			sites = append(sites, delSite{d, func(v ssa.Value) ssa.Value { return v }})
			return
		}
		hc, ok := in.(*ssa.Call)
		if !ok || hc.Call.StaticCallee() == nil || hc.Call.StaticCallee().Blocks == nil || hc.Call.StaticCallee().Pkg != fn.Pkg || hc.Call.StaticCallee() == fn {
			return
		}
		h := hc.Call.StaticCallee()
		core.Instrs(h, func(hin ssa.Instruction) {
			if d := isDel(hin); d != nil {
				c.Analysed(fname(h))
				sites = append(sites, delSite{d, func(v ssa.Value) ssa.Value {
					for i, p := range h.Params {
						if ssa.Value(p) == v && i < len(hc.Call.Args) {
							return hc.Call.Args[i]
						}
					}
					return v
				}})
			}
		})
	})
	for _, site := range sites {
		call, in := site.call, ssa.Instruction(site.call)
		n++
		fromKeep := false
		var others []string
		reach := map[ssa.Value]bool{}
		for x := range core.BackwardReachPure(call.Call.Args[1]) {
			reach[x] = true
			if y := site.bind(x); y != x {
				for z := range core.BackwardReachPure(y) {
					reach[z] = true
				}
			}
		}
		for x := range reach {
			if _, f := core.FieldLoad(x); f != nil {
				if f == keep {
					fromKeep = true
				} else if bt, isB := f.Type().Underlying().(*types.Basic); isB && bt.Info()&types.IsInteger != 0 {
					others = append(others, f.Name())
				}
			}
		}
		sort.Strings(others)
		c.Check(fromKeep && len(others) == 0, "C30/cleanup-window-from-epochs-to-keep", fmt.Sprintf("PruningStorer.closePersisters/delete#%d", n), in.Pos(),
			"the epoch forgotten is computed from the current epoch and numOfEpochsToKeep only",
			fmt.Sprintf("the epoch forgotten by the cleanup is computed from %v (numOfEpochsToKeep involved: %v): epochs inside the keep window are dropped, GetFromEpoch fails for data that was promised", others, fromKeep))
	}
	c.Floor("C30/cleanup-window-from-epochs-to-keep", 1)
}

// c30OneEpochOnePersister: closePersisters re-registers a persister it closes under an epoch key.
// When that registration sits in a loop with a key that does not change from one iteration to the
// next while the persister does, the last iteration wins and the epoch ends up mapped to another
// epoch's database - unless the loop provably runs at most once (the body truncates the very slice
// whose length bounds the loop to the loop's start index).
func c30OneEpochOnePersister(c *core.Ctx) {
	fn := anchorM(c, "storage/pruning", "PruningStorer", "closePersisters")
	if fn == nil {
		return
	}
	n := 0
	// does v change from one iteration of l to the next: it is computed from a loop-carried value, or
	// read from a field the loop body stores to (operands only - no flow-insensitive memory model)
	variant := func(v ssa.Value, l *core.Loop) bool {
		seen := map[ssa.Value]bool{}
		var walk func(x ssa.Value) bool
		walk = func(x ssa.Value) bool {
			if x == nil || seen[x] {
				return false
			}
			seen[x] = true
			if ph, ok := x.(*ssa.Phi); ok && ph.Block() == l.Header {
				return true
			}
			xi, ok := x.(ssa.Instruction)
			if !ok || !l.Body[xi.Block()] {
				return false
			}
			if _, f := core.FieldLoad(x); f != nil {
				for b := range l.Body {
					for _, bin := range b.Instrs {
						if st, isSt := bin.(*ssa.Store); isSt {
							if fa, isFa := st.Addr.(*ssa.FieldAddr); isFa && core.FieldOfAddr(fa) == f {
								return true
							}
						}
					}
				}
			}
			for _, op := range xi.Operands(nil) {
				if op != nil && walk(*op) {
					return true
				}
			}
			return false
		}
		return walk(v)
	}
	core.Instrs(fn, func(in ssa.Instruction) {
		mu, ok := in.(*ssa.MapUpdate)
		if !ok || !isFieldOf(mu.Map, "persistersMapByEpoch") {
			return
		}
		n++
		l := core.InnermostLoop(fn, in.Block())
		okOnce, why := true, ""
		if l != nil && !variant(mu.Key, l) && variant(mu.Value, l) {
			okOnce, why = false, "the loop is not shown to stop after one iteration"
			// loop test `i < len(ps.F)`; body stores ps.F = ps.F[:start] where start is i's initial value
			if iff, isIf := l.Header.Instrs[len(l.Header.Instrs)-1].(*ssa.If); isIf {
				if bo, isBo := iff.Cond.(*ssa.BinOp); isBo && bo.Op == token.LSS {
					ph, isPh := bo.X.(*ssa.Phi)
					var bound *types.Var
					if call, isC := bo.Y.(*ssa.Call); isC {
						if bi, isB := call.Call.Value.(*ssa.Builtin); isB && bi.Name() == "len" {
							_, bound = core.FieldLoad(call.Call.Args[0])
						}
					}
					if isPh && bound != nil && ph.Block() == l.Header {
						var start ssa.Value
						for i, e := range ph.Edges {
							if !l.Body[l.Header.Preds[i]] {
								start = e
							}
						}
						for b := range l.Body {
							for _, bin := range b.Instrs {
								st, isSt := bin.(*ssa.Store)
								if !isSt {
									continue
								}
								fa, isFa := st.Addr.(*ssa.FieldAddr)
								sl, isSl := st.Val.(*ssa.Slice)
								if isFa && isSl && core.FieldOfAddr(fa) == bound && sl.High != nil && start != nil &&
									core.ExprKey(stripConv(sl.High)) == core.ExprKey(stripConv(start)) && dominatesLatch(l, b) {
									okOnce = true
								}
							}
						}
					}
				}
			}
		}
		c.Check(okOnce, "C30/one-epoch-one-persister", fmt.Sprintf("PruningStorer.closePersisters/register#%d", n), in.Pos(),
			"a persister is registered under an epoch key that moves with it, or the registering loop runs at most once",
			"several persisters are registered under one and the same epoch key ("+core.ExprKey(mu.Key)+") in a loop and "+why+": the epoch ends up mapped to the database of an older epoch, GetFromEpoch for a retained epoch reads the wrong database")
	})
	c.Floor("C30/one-epoch-one-persister", 1)
}

func stripConv(v ssa.Value) ssa.Value {
	for {
		v = core.Strip(v)
		cv, ok := v.(*ssa.Convert)
		if !ok {
			return v
		}
		v = cv.X
	}
}

// dominatesLatch: b is executed on every iteration that goes round the loop again.
func dominatesLatch(l *core.Loop, b *ssa.BasicBlock) bool {
	for _, p := range l.Header.Preds {
		if l.Body[p] && !b.Dominates(p) {
			return false
		}
	}
	return true
}

// c30ClosedThroughTheRecord: whether an epoch's database is open is recorded in its persisterData
// (isClosed); every later access asks the record and re-opens the database when needed. A database
// handle is therefore closed only by persisterData.Close, which sets the flag: closing the handle
// directly leaves a record that says "open" over a dead handle, and every later epoch-specific read
// of that retained epoch fails.
func c30ClosedThroughTheRecord(c *core.Ctx) {
	const pkg = "storage/pruning"
	n, bad := 0, ""
	var all []*ssa.Function
	for _, fn := range c.P.FuncsOfPkg(pkg) {
		all = append(all, fn)
		all = append(all, fn.AnonFuncs...)
	}
	for _, fn := range all {
		core.Instrs(fn, func(in ssa.Instruction) {
			cc := core.CallOf(in)
			if cc == nil || !cc.IsInvoke() || cc.Method.Name() != "Close" {
				return
			}
			if !strings.HasSuffix(cc.Value.Type().String(), "storage.Persister") {
				return
			}
			n++
			if fname(fn) != "persisterData.Close" {
				bad = fname(fn) + " at " + c.P.Pos(in.Pos())
			}
		})
	}
	c.Check(n >= 1 && bad == "", "C30/closed-through-the-record", "storage/pruning", 0,
		"storage.Persister.Close is called by persisterData.Close only",
		"a database handle is closed directly ("+bad+") instead of through persisterData.Close: the record keeps saying the epoch's database is open, later reads of that retained epoch use the dead handle and fail")
}
