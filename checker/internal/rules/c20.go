package rules

import (
	"fmt"
	"go/token"
	"go/types"
	"strings"

	"golang.org/x/tools/go/ssa"

	"verif/checker/internal/core"
)

func init() {
	register(&Rule{
		ID:    "C20",
		Title: "Fork choice is stable and respects finality",
		Pkgs:  []string{"process/sync"},
		Explain: "Decides two structural conditions. (S1 finality) in CheckFork every store that reports a fork (ForkInfo.IsDetected / Nonce) inside the scan over received headers is dominated by " +
			"`nonce > finalCheckpoint().nonce` for the nonce being scanned; the only stores outside the scan are dominated by isConsensusStuck() or by an explicitly requested rollback nonce. " +
			"(S2 order independence) (i) across nonces: every range over the headers map in the fork detector (CheckFork, computeFinalCheckpoint, computeProbableHighestNonce, removePast*, ...) is classified " +
			"order-independent (min/max over the unique nonce key, deletes, idempotent flags; the scratch field maxForkHeaderEpoch is verified to be written before its only reader in each iteration and read nowhere else); " +
			"(ii) within a nonce: computeForkInfo, folded over the arrival-ordered header slice, returns either its accumulator unchanged or values of the current header, and takes the current header only under a strict " +
			"lexicographic comparison (round, then hash) - a strict total order on distinct headers, hence independent of arrival order; a missing hash tie-break is reported. " +
			"The fork record is never replaced by a value without the rollBackNonce sentinel; no in-place deletion at an ascending loop index without re-examining the index. " +
			"Not decided (value-level): that shouldSignalFork compares the right quantities; header states (BHReceivedTooLate) that themselves depend on arrival time.",
		Run: runC20,
	})
}

func runC20(c *core.Ctx) {
	c20NoSkippingInPlaceFilter(c)
	c20RollbackSentinelPreserved(c)
	const pkg = "process/sync"
	fn := anchorM(c, pkg, "baseForkDetector", "CheckFork")
	if fn == nil {
		return
	}
	// ---- S1
	var scan *core.MapLoop
	for _, ml := range core.MapLoops(fn) {
		if isFieldOf(ml.Range.X, "headers") {
			scan = ml
		}
	}
	if scan == nil {
		c.Fail("C20/fork-above-final", "baseForkDetector.CheckFork", fn.Pos(), "the scan over bfd.headers was not found")
		return
	}
	n := 0
	core.Instrs(fn, func(in ssa.Instruction) {
		st, ok := in.(*ssa.Store)
		if !ok {
			return
		}
		fa, ok := st.Addr.(*ssa.FieldAddr)
		if !ok {
			return
		}
		f := core.FieldOfAddr(fa)
		nt := namedElem(fa.X.Type())
		if f == nil || nt == nil || nt.Obj().Name() != "ForkInfo" || (f.Name() != "IsDetected" && f.Name() != "Nonce") {
			return
		}
		if b, isB := core.ConstBool(st.Val); isB && !b {
			return
		}
		n++
		c.Sites++
		name := fmt.Sprintf("CheckFork/store-%s#%d", f.Name(), n)
		facts := core.FactsAt(st.Block())
		if scan.Loop.Body[st.Block()] {
			ok := false
			for _, ft := range facts {
				if ft.Op == "<" && scan.Key != nil && ft.B == core.ExprKey(scan.Key) && strings.Contains(ft.A, "finalCheckpoint(") && strings.HasSuffix(ft.A, ".nonce") {
					ok = true
				}
			}
			c.Check(ok, "C20/fork-above-final", name, st.Pos(), "dominated by nonce > finalCheckpoint().nonce for the scanned nonce",
				"a fork can be reported for a nonce at or below the final checkpoint")
			return
		}
		ok2 := false
		for _, cd := range core.CondsAt(st.Block()) {
			if call, isCall := cd.V.(*ssa.Call); isCall && core.CallDesc(&call.Call).Name == "isConsensusStuck" && cd.Taken {
				ok2 = true
			}
			ft := core.FactOf(cd)
			if ft.Op == "<" && strings.Contains(ft.A, "getRollBackNonce(") {
				ok2 = true
			}
		}
		c.Check(ok2, "C20/fork-above-final", name, st.Pos(), "outside the scan: only when consensus is stuck or a rollback nonce was requested",
			"a fork is reported outside the finality-guarded scan without the stuck-consensus / requested-rollback condition")
	})
	c.Floor("C20/fork-above-final", 4)

	// ---- S2 (i) map loops of the fork detector
	var entries []*ssa.Function
	for _, f := range c.P.FuncsOfPkg(pkg) {
		if r := f.Signature.Recv(); r != nil {
			if nt := namedElem(r.Type()); nt != nil && strings.HasSuffix(nt.Obj().Name(), "ForkDetector") {
				entries = append(entries, f)
			}
		}
	}
	cone := c.P.Cone(entries, onlyPkgs("process/sync"))
	nl := checkMapOrder(c, "C20/map-order-independent", cone, []orderException{
		{fn: "baseForkDetector.CheckFork", kind: "store-outer-memory", detail: "store through recv,",
			reason: "maxForkHeaderEpoch is a scratch field: written at the start of each iteration, read only by computeForkInfo inside the same iteration", verify: verifyScratchMaxEpoch},
		{fn: "baseForkDetector.CheckFork", kind: "callee-writes-outer",
			reason: "computeForkInfo/shouldSignalFork only read detector state", verify: nil},
	})
	c.Note("cone: %d functions, %d map-range loops", len(cone), nl)
	c.Floor("C20/map-order-independent", 5)

	// ---- S2 (ii) the fold within a nonce
	if cf := anchorM(c, pkg, "baseForkDetector", "computeForkInfo"); cf != nil {
		c20Fold(c, cf)
	}
}

// verifyScratchMaxEpoch: the field is stored before the inner fold in the loop body, and its only
// readers are computeForkInfo, itself called only from that loop.
func verifyScratchMaxEpoch(c *core.Ctx, fn *ssa.Function) (bool, string) {
	const pkg = "process/sync"
	fld := c.P.Field(pkg, "baseForkDetector", "maxForkHeaderEpoch")
	if fld == nil {
		return false, "field not found"
	}
	for _, f := range c.P.FuncsOfPkg(pkg) {
		bad := ""
		core.Instrs(f, func(in ssa.Instruction) {
			fa, ok := in.(*ssa.FieldAddr)
			if !ok || core.FieldOfAddr(fa) != fld {
				return
			}
			for _, r := range *fa.Referrers() {
				switch r.(type) {
				case *ssa.Store:
					if fname(f) != "baseForkDetector.CheckFork" {
						bad = "written in " + fname(f)
					}
				case *ssa.UnOp:
					if fname(f) != "baseForkDetector.computeForkInfo" {
						bad = "read in " + fname(f)
					}
				}
			}
		})
		if bad != "" {
			return false, "maxForkHeaderEpoch is " + bad
		}
		// callers of computeForkInfo
		for _, in := range callsMatching(f, pkg, "baseForkDetector", "computeForkInfo") {
			if fname(f) != "baseForkDetector.CheckFork" {
				return false, "computeForkInfo is also called from " + fname(f)
			}
			// the store dominates the call
			dom := false
			core.Instrs(f, func(i2 ssa.Instruction) {
				if st, ok := i2.(*ssa.Store); ok {
					if fa, ok := st.Addr.(*ssa.FieldAddr); ok && core.FieldOfAddr(fa) == fld && core.DominatesInstr(st, in) {
						if l := core.InnermostLoop(f, st.Block()); l != nil && l.Body[in.Block()] {
							dom = true
						}
						// the scratch field is shared state: it may only be written with the headers mutex write-held
						if mu := c.P.Field(pkg, "baseForkDetector", "mutHeaders"); mu != nil {
							if core.LockModes(f, mu, core.ModeNone)[st] != core.ModeW {
								dom = false
							}
						}
					}
				}
			})
			if !dom {
				return false, "the store to maxForkHeaderEpoch does not dominate the call of computeForkInfo inside the scan loop"
			}
		}
	}
	return true, "(verified: single writer before the single reader in each iteration)"
}

// c20Fold checks the selection fold computeForkInfo(elem, accHash, accRound, accEpoch).
func c20Fold(c *core.Ctx, fn *ssa.Function) {
	const rule = "C20/fold-is-strict-total-order"
	if len(fn.Params) != 5 {
		c.Undecided(rule, "computeForkInfo", fn.Pos(), "unexpected signature")
		return
	}
	accKeys := []string{"p2", "p3", "p4"}
	tieBreak, byRound := false, false
	for i, r := range core.Returns(fn) {
		name := fmt.Sprintf("computeForkInfo/return#%d", i)
		unchanged := true
		for k := 0; k < 3; k++ {
			if core.ExprKey(core.RetOperand(r, k)) != accKeys[k] {
				unchanged = false
			}
		}
		if unchanged {
			c.Pass(rule, name, r.Pos(), "returns the accumulator unchanged")
			continue
		}
		// new value: must derive only from the element (p1) and be chosen by a strict comparison
		fromElem := true
		for k := 0; k < 3; k++ {
			key := core.ExprKey(core.RetOperand(r, k))
			if strings.Contains(key, "p2") || strings.Contains(key, "p3") || strings.Contains(key, "p4") {
				fromElem = false
			}
		}
		// what is known on arrival: the dominating conditions, or - when the exit is shared by the two halves
		// of an `a || b` test - the conditions of each incoming edge, every one of which must be a strict comparison
		evalConds := func(conds []core.Cond) (strictRound, tie bool) {
			eqRound, strictHash := false, false
			for _, cd := range conds {
				f := core.FactOf(cd)
				if f.Op == "<" && f.B == "p3" {
					strictRound = true
				}
				if f.Op == "==" && (f.A == "p3" || f.B == "p3") {
					eqRound = true
				}
				if f.Op == "<" && strings.HasPrefix(f.A, "bytes.Compare(") && strings.Contains(f.A, "p1.hash") && strings.Contains(f.A, "p2") && f.B == "0" {
					strictHash = true
				}
			}
			// `a && b` as a value: lowerHashForSameRound is a phi; accept the phi-form as well
			if !strictRound && !(eqRound && strictHash) {
				for _, cd := range conds {
					if ph, ok := cd.V.(*ssa.Phi); ok && cd.Taken {
						e, h := phiConj(ph)
						if e && h {
							eqRound, strictHash = true, true
						}
					}
				}
			}
			return strictRound, eqRound && strictHash
		}
		strictRound, tie := evalConds(core.CondsAt(r.Block()))
		if blk := r.Block(); !strictRound && !tie && len(blk.Preds) > 1 {
			all, anyRound, anyTie := true, false, false
			for _, pred := range blk.Preds {
				for si, sb := range pred.Succs {
					if sb != blk {
						continue
					}
					sr, t := evalConds(core.CondsOnEdge(pred, si))
					all = all && (sr || t)
					anyRound, anyTie = anyRound || sr, anyTie || t
				}
			}
			if all {
				strictRound, tie = anyRound, anyTie
			}
		}
		if !core.Reachable(r) {
			c.Pass(rule, name, r.Pos(), "unreachable exit (constant condition)")
			continue
		}
		good := fromElem && (strictRound || tie)
		if strictRound {
			byRound = true
		}
		if tie {
			tieBreak = true
		}
		c.Check(good, rule, name, r.Pos(), "takes the current header only under a strict (round, hash) comparison",
			"the fold replaces its accumulator without a strict comparison on (round, then hash): the selected fork depends on the order headers arrived in")
	}
	// the filters that leave the accumulator unchanged must not depend on the accumulator (i.e. on what was seen
	// before): the accumulator may appear in branch conditions only in the (round, hash) order comparisons
	for _, b := range fn.Blocks {
		ifi, ok := b.Instrs[len(b.Instrs)-1].(*ssa.If)
		if !ok {
			continue
		}
		for _, cj := range append(core.Conjuncts(ifi.Cond), core.Disjuncts(ifi.Cond)...) {
			k := core.ExprKey(cj)
			usesAcc := strings.Contains(k, "p2") || strings.Contains(k, "p3") || strings.Contains(k, "p4")
			if !usesAcc {
				continue
			}
			okCmp := false
			if bo, isB := cj.(*ssa.BinOp); isB {
				x, y := core.ExprKey(bo.X), core.ExprKey(bo.Y)
				if (x == "p3" && !strings.Contains(y, "p2") && !strings.Contains(y, "p4")) || (y == "p3" && !strings.Contains(x, "p2") && !strings.Contains(x, "p4")) {
					okCmp = true // round comparison
				}
				if strings.HasPrefix(x, "bytes.Compare(") && strings.Contains(x, "p1.hash") && strings.Contains(x, "p2") && !strings.Contains(x, "p3") && !strings.Contains(x, "p4") {
					okCmp = true // hash tie-break
				}
			}
			if _, isPhi := cj.(*ssa.Phi); isPhi {
				okCmp = true // a resolved &&/|| value: its operands are checked on their own
			}
			c.Check(okCmp, rule, "computeForkInfo/filter-independent-of-accumulator@"+k, ifi.Pos(), "the accumulator is used only in the (round, hash) order comparison",
				"a filter of the fold tests the accumulator ("+k+"): whether a header is considered depends on which headers were seen before it, i.e. on arrival order")
		}
	}
	c.Check(byRound, rule, "computeForkInfo/round-order", fn.Pos(), "lower round wins", "no branch selects the header with the strictly lower round")
	c.Check(tieBreak, rule, "computeForkInfo/hash-tie-break", fn.Pos(), "equal rounds are decided by the strictly lower hash",
		"headers with equal rounds are not ordered by hash: the first one received wins, so nodes that received them in different orders choose different forks")
	_ = types.Typ
}

// phiConj recognises the value of `x == p3 && bytes.Compare(p1.hash, p2) < 0` lowered to a phi.
func phiConj(ph *ssa.Phi) (eqRound, strictHash bool) {
	for i, e := range ph.Edges {
		if b, ok := core.ConstBool(e); ok && !b {
			// the false edge comes from the block where the first conjunct failed
			pred := ph.Block().Preds[i]
			if ifi, ok := pred.Instrs[len(pred.Instrs)-1].(*ssa.If); ok {
				f := core.FactOf(core.Cond{If: ifi, V: ifi.Cond, Taken: true})
				if f.Op == "==" && (f.A == "p3" || f.B == "p3") {
					eqRound = true
				}
			}
			continue
		}
		f := core.FactOf(core.Cond{V: e, Taken: true})
		if f.Op == "<" && strings.HasPrefix(f.A, "bytes.Compare(") && strings.Contains(f.A, "p1.hash") && strings.Contains(f.A, "p2") && f.B == "0" {
			strictHash = true
		}
	}
	return
}

// c20RollbackSentinelPreserved: "no roll-back requested" is the value MaxUint64 of
// fork.rollBackNonce, set by the constructors; CheckFork reports a fork at that nonce for any
// smaller value. The fork record is therefore never replaced wholesale by a value that does not
// carry the sentinel (a composite literal listing some fields zeroes the others).
func c20RollbackSentinelPreserved(c *core.Ctx) {
	const pkg = "process/sync"
	n, sentinel := 0, 0
	for _, fn := range c.P.FuncsOfPkg(pkg) {
		core.Instrs(fn, func(in ssa.Instruction) {
			st, ok := in.(*ssa.Store)
			if !ok {
				return
			}
			fa, ok := st.Addr.(*ssa.FieldAddr)
			if !ok {
				return
			}
			switch core.FieldOfAddr(fa).Name() {
			case "rollBackNonce":
				if k, isC := st.Val.(*ssa.Const); isC && k.Value != nil && k.Value.ExactString() == "18446744073709551615" {
					sentinel++
				}
			case "fork":
				n++
				// the whole record is assigned: it must come from a literal that sets the sentinel
				ok2 := false
				if ld, isLd := st.Val.(*ssa.UnOp); isLd {
					if al, isAl := ld.X.(*ssa.Alloc); isAl && al.Referrers() != nil {
						for _, r := range *al.Referrers() {
							if f2, isF := r.(*ssa.FieldAddr); isF && core.FieldOfAddr(f2).Name() == "rollBackNonce" && f2.Referrers() != nil {
								for _, r2 := range *f2.Referrers() {
									if s2, isS := r2.(*ssa.Store); isS {
										if k, isC := s2.Val.(*ssa.Const); isC && k.Value != nil && k.Value.ExactString() == "18446744073709551615" {
											ok2 = true
										}
									}
								}
							}
						}
					}
				}
				c.Check(ok2, "C20/rollback-sentinel-preserved", fmt.Sprintf("%s/fork-record-replaced#%d", fname(fn), n), st.Pos(),
					"a replaced fork record carries rollBackNonce = MaxUint64",
					fname(fn)+" replaces the whole fork record with a value whose rollBackNonce is not the MaxUint64 sentinel: the next CheckFork takes the roll-back branch and reports a fork at nonce 0 although nothing was requested")
			}
		})
	}
	c.Check(sentinel >= 2, "C20/rollback-sentinel-preserved", "constructors", 0,
		"the fork detectors' constructors set the sentinel",
		"the MaxUint64 sentinel of rollBackNonce is no longer set where the fork detectors are built")
}

// c20NoSkippingInPlaceFilter: the per-nonce header lists are filtered when the final checkpoint
// moves. Deleting element i with append(s[:i], s[i+1:]...) inside a loop that then steps to i+1
// never looks at the element that slid into slot i: with two competing invalid headers one of them
// survives, which one depends on arrival order, and CheckFork reports it as a fork. No loop of the
// fork detector deletes in place at its ascending index without re-examining that index.
func c20NoSkippingInPlaceFilter(c *core.Ctx) {
	const pkg = "process/sync"
	bad, scanned := "", 0
	for _, fn := range c.P.FuncsOfPkg(pkg) {
		for _, l := range core.Loops(fn) {
			// ascending induction variables: header phis whose only back-edge value is phi + 1
			for _, in := range l.Header.Instrs {
				ph, ok := in.(*ssa.Phi)
				if !ok {
					break
				}
				asc := true
				back := 0
				for i, e := range ph.Edges {
					if !l.Body[l.Header.Preds[i]] {
						continue
					}
					back++
					bo, isBo := e.(*ssa.BinOp)
					one := int64(0)
					if isBo {
						one, _ = core.ConstInt(bo.Y)
					}
					if !isBo || bo.Op != token.ADD || bo.X != ssa.Value(ph) || one != 1 {
						asc = false
					}
				}
				if !asc || back == 0 {
					continue
				}
				scanned++
				for b := range l.Body {
					for _, x := range b.Instrs {
						call, isCall := x.(*ssa.Call)
						if !isCall || len(call.Call.Args) != 2 {
							continue
						}
						if bi, isB := call.Call.Value.(*ssa.Builtin); !isB || bi.Name() != "append" {
							continue
						}
						head, ok1 := call.Call.Args[0].(*ssa.Slice)
						tail, ok2 := call.Call.Args[1].(*ssa.Slice)
						if !ok1 || !ok2 || head.High != ssa.Value(ph) || tail.Low == nil {
							continue
						}
						if lo, isBo := tail.Low.(*ssa.BinOp); isBo && lo.Op == token.ADD && lo.X == ssa.Value(ph) {
							bad = fname(fn) + " at " + c.P.Pos(call.Pos())
						}
					}
				}
			}
		}
	}
	c.Check(bad == "" && scanned > 0, "C20/no-skipping-in-place-filter", "process/sync", 0,
		fmt.Sprintf("no in-place deletion at an ascending loop index (%d ascending loops examined)", scanned),
		"an element is deleted in place with append(s[:i], s[i+1:]...) in a loop that always steps to i+1 ("+bad+"): the element that slides into slot i is never examined, so which of several invalid competing headers survives depends on arrival order and is then reported as a fork")
}
