package rules

import (
	"fmt"
	"go/token"
	"go/types"
	"math"
	"strings"

	"golang.org/x/tools/go/ssa"

	"verif/checker/internal/core"
)

func init() {
	register(&Rule{
		ID:    "C37",
		Title: "Validator ratings stay in range and move in the right direction",
		Pkgs:  []string{"process/rating"},
		Explain: "Decides the range clause structurally. (S1) every rating handed out by an exported Compute*/Revert* method of BlockSigningRater is the result of computeRating (no other value can be returned). " +
			"(S2) computeRating returns only the minRating field, the maxRating field, or the computed value on a path where both comparisons `value < min` and `value > max` were taken false; the value is a sum computed in a " +
			"64-bit signed type from operands widened BEFORE the addition (a uint32/int32 sum widened afterwards wraps). (S3) NewBlockSigningRater succeeds only behind verifyRatingsData (error checked), whose nil return " +
			"lies behind min >= 1, min <= max and min <= start <= max; the min/max fields are written only by the constructor. (S4) GetChance returns only GetChancePercentage() of an element of ratingChances and skips a band " +
			"exactly when the rating is above its threshold. " +
			"Every conversion of a wider integer to int32 in the rater sits behind dominating comparisons that keep it in range. " +
			"Not decided (value-level): direction and monotonicity of the steps (float arithmetic of the streak penalty, sign of the configured steps), the chance band arithmetic beyond S4.",
		Run: runC37,
	})
}

func runC37(c *core.Ctx) {
	c37NoUnboundedNarrowing(c)
	const pkg = "process/rating"
	cr := anchorM(c, pkg, "BlockSigningRater", "computeRating")
	if cr == nil {
		return
	}
	c.Analysed(fname(cr))
	// ---- S1
	n := 0
	for _, fn := range c.P.FuncsOfPkg(pkg) {
		if fn.Signature.Recv() == nil || !strings.HasSuffix(fn.Signature.Recv().Type().String(), "BlockSigningRater") {
			continue
		}
		if !(strings.HasPrefix(fn.Name(), "Compute") || strings.HasPrefix(fn.Name(), "Revert")) {
			continue
		}
		res := fn.Signature.Results()
		if res.Len() != 1 {
			continue
		}
		if b, ok := res.At(0).Type().Underlying().(*types.Basic); !ok || b.Kind() != types.Uint32 {
			continue
		}
		n++
		c.Analysed(fname(fn))
		ok := true
		for _, r := range core.Returns(fn) {
			call, isCall := core.RetOperand(r, 0).(*ssa.Call)
			if !isCall || call.Call.StaticCallee() != cr {
				ok = false
			}
		}
		c.Check(ok, "C37/rating-goes-through-the-clamp", fname(fn), fn.Pos(), "every return is computeRating(step, currentRating)",
			"a return value is not the result of computeRating: the new rating is not clamped to [minRating, maxRating]")
	}
	c.Floor("C37/rating-goes-through-the-clamp", 5)
	// ---- S2
	minF := c.P.Field(pkg, "BlockSigningRater", "minRating")
	maxF := c.P.Field(pkg, "BlockSigningRater", "maxRating")
	if minF == nil || maxF == nil {
		c.Undecided("anchor", "BlockSigningRater.minRating/maxRating", token.NoPos, "fields not found")
		return
	}
	k := 0
	// clampReturns judges the returns of the function that clamps: computeRating itself, or a helper of the
	// package it hands the value and the two bounds to (isMin/isMax recognise the bounds there, minKey/maxKey
	// name them in facts, outer maps a returned parameter back to the value computeRating computed)
	var clampReturns func(g *ssa.Function, prefix string, isMin, isMax func(ssa.Value) bool, minKey, maxKey string, outer func(ssa.Value) ssa.Value, depth int)
	clampReturns = func(g *ssa.Function, prefix string, isMin, isMax func(ssa.Value) bool, minKey, maxKey string, outer func(ssa.Value) ssa.Value, depth int) {
		for _, r := range core.Returns(g) {
			k++
			v := core.RetOperand(r, 0)
			name := fmt.Sprintf("%s/return#%d", prefix, k)
			if isMin(v) {
				c.Pass("C37/clamp-complete", name, r.Pos(), "returns the minRating bound")
				continue
			}
			if isMax(v) {
				c.Pass("C37/clamp-complete", name, r.Pos(), "returns the maxRating bound")
				continue
			}
			// delegated: `return clamp(value, min, max)`
			if call, isCall := v.(*ssa.Call); isCall && depth == 0 {
				if h := call.Call.StaticCallee(); h != nil && h.Blocks != nil && h.Pkg == g.Pkg {
					var pMin, pMax, pVal *ssa.Parameter
					var argVal ssa.Value
					for i, p := range h.Params {
						if i >= len(call.Call.Args) {
							continue
						}
						switch a := call.Call.Args[i]; {
						case isMin(a):
							pMin = p
						case isMax(a):
							pMax = p
						default:
							if bt, ok := p.Type().Underlying().(*types.Basic); ok && bt.Info()&types.IsInteger != 0 {
								pVal, argVal = p, a
							}
						}
					}
					if pMin != nil && pMax != nil && pVal != nil {
						c.Analysed(fname(h))
						k--
						clampReturns(h, prefix, func(x ssa.Value) bool { return x == ssa.Value(pMin) }, func(x ssa.Value) bool { return x == ssa.Value(pMax) },
							core.ExprKey(pMin), core.ExprKey(pMax), func(x ssa.Value) ssa.Value {
								if x == ssa.Value(pVal) {
									return argVal
								}
								return x
							}, 1)
						continue
					}
				}
			}
			// the computed value: strip conversions
			raw := v
			for {
				if cv, ok := raw.(*ssa.Convert); ok {
					raw = cv.X
					continue
				}
				break
			}
			rk := core.ExprKey(raw)
			lower, upper := false, false
			for _, f := range core.FactsAt(r.Block()) {
				// canonical facts use <, <=, ==, != with constants folded to the left
				mentionsMin := strings.Contains(f.A+f.B, minKey)
				mentionsMax := strings.Contains(f.A+f.B, maxKey)
				switch {
				case mentionsMin && (f.Op == "<=" && f.B == rk || f.Op == "<" && f.B == rk):
					lower = true
				case mentionsMax && (f.Op == "<=" && f.A == rk || f.Op == "<" && f.A == rk):
					upper = true
				}
			}
			c.Check(lower && upper, "C37/clamp-complete", name, r.Pos(), "the value returned is known to be >= minRating and <= maxRating",
				fmt.Sprintf("the computed rating is returned without both bounds established (>= minRating: %v, <= maxRating: %v): the rating leaves its configured range", lower, upper))
			// widened before the addition
			add, isAdd := outer(raw).(*ssa.BinOp)
			wide := false
			if isAdd && add.Op == token.ADD {
				if b, ok := add.Type().Underlying().(*types.Basic); ok && b.Kind() == types.Int64 {
					_, cx := add.X.(*ssa.Convert)
					_, cy := add.Y.(*ssa.Convert)
					wide = cx && cy
				}
			}
			c.Check(wide, "C37/clamp-complete", name+"/sum-widened", r.Pos(), "currentRating and the step are widened to int64 before they are added",
				"the new rating is not an int64 sum of operands widened before the addition: a 32-bit sum wraps around before it can be clamped")
		}
	}
	clampReturns(cr, "computeRating", func(x ssa.Value) bool { _, f := core.FieldLoad(x); return f == minF }, func(x ssa.Value) bool { _, f := core.FieldLoad(x); return f == maxF },
		"recv.minRating", "recv.maxRating", func(x ssa.Value) ssa.Value { return x }, 0)
	c.Floor("C37/clamp-complete", 4)
	// ---- S3
	if ctor := anchorF(c, pkg, "NewBlockSigningRater"); ctor != nil {
		c.Analysed(fname(ctor))
		mustPassChecked(c, ctor, "C37/bounds-validated", "NewBlockSigningRater/verifyRatingsData", nil,
			func(in ssa.Instruction, cc *ssa.CallCommon) bool {
				return cc.StaticCallee() != nil && cc.StaticCallee().Name() == "verifyRatingsData"
			}, core.SuccessReturn, nil, "a rater is created only after verifyRatingsData accepted the configuration")
		// who writes the bounds
		for _, fld := range []*types.Var{minF, maxF} {
			bad := ""
			for _, fn := range c.P.FuncsOfPkg(pkg) {
				core.Instrs(fn, func(in ssa.Instruction) {
					if st, ok := in.(*ssa.Store); ok {
						if fa, ok := st.Addr.(*ssa.FieldAddr); ok && core.FieldOfAddr(fa) == fld && fn != ctor {
							bad = fname(fn)
						}
					}
				})
			}
			c.Check(bad == "", "C37/bounds-validated", "who-writes/"+fld.Name(), ctor.Pos(), "written only by the constructor", "the bound is also written by "+bad+", after validation")
		}
	}
	if ver := anchorF(c, pkg, "verifyRatingsData"); ver != nil {
		c.Analysed(fname(ver))
		want := map[string]bool{"min>=1": false, "min<=max": false, "start<=max": false, "min<=start": false}
		for _, r := range core.Returns(ver) {
			if !core.NilReturn(r, nil) {
				continue
			}
			for _, f := range core.FactsAt(r.Block()) {
				s := f.String()
				isCall := func(x, name string) bool { return strings.Contains(x, name+"(") }
				switch {
				case isCall(f.B, "MinRating") && !strings.Contains(f.B, "Max") && (f.Op == "<=" && f.A == "1" || f.Op == "<" && f.A == "0"):
					want["min>=1"] = true
				case f.Op == "<=" && isCall(f.A, "MinRating") && isCall(f.B, "MaxRating"):
					want["min<=max"] = true
				case f.Op == "<=" && isCall(f.A, "StartRating") && isCall(f.B, "MaxRating"):
					want["start<=max"] = true
				case f.Op == "<=" && isCall(f.A, "MinRating") && isCall(f.B, "StartRating"):
					want["min<=start"] = true
				}
				_ = s
			}
		}
		for _, k := range []string{"min>=1", "min<=max", "min<=start", "start<=max"} {
			c.Check(want[k], "C37/bounds-validated", "verifyRatingsData/"+k, ver.Pos(), "the configuration is accepted only when "+k,
				"verifyRatingsData accepts a configuration without establishing "+k+": the clamp bounds are inconsistent (min above max makes every rating jump between them)")
		}
	}
	c.Floor("C37/bounds-validated", 7)
	// ---- S4
	if gc := anchorM(c, pkg, "BlockSigningRater", "GetChance"); gc != nil {
		c.Analysed(fname(gc))
		ok := true
		why := ""
		for _, r := range core.Returns(gc) {
			v := core.RetOperand(r, 0)
			seen := map[ssa.Value]bool{}
			var leaves func(x ssa.Value)
			leaves = func(x ssa.Value) {
				if seen[x] {
					return
				}
				seen[x] = true
				if ph, isPhi := x.(*ssa.Phi); isPhi {
					for _, e := range ph.Edges {
						leaves(e)
					}
					return
				}
				call, isCall := x.(*ssa.Call)
				if !isCall || !call.Call.IsInvoke() || call.Call.Method.Name() != "GetChancePercentage" {
					ok, why = false, "a returned chance is not GetChancePercentage() of a configured band: "+core.ExprKey(x)
					return
				}
				fromBands := false
				for y := range core.BackwardReachPure(call.Call.Value) {
					if _, f := core.FieldLoad(y); f != nil && f.Name() == "ratingChances" {
						fromBands = true
					}
				}
				if !fromBands {
					ok, why = false, "the band whose chance is returned is not an element of ratingChances"
				}
			}
			leaves(v)
		}
		c.Check(ok, "C37/chance-is-a-configured-band", "GetChance/returns", gc.Pos(), "every returned chance is GetChancePercentage() of an element of ratingChances", why)
		// a band is skipped exactly when rating > its max threshold
		skip := false
		for _, b := range gc.Blocks {
			ifi, isIf := b.Instrs[len(b.Instrs)-1].(*ssa.If)
			if !isIf {
				continue
			}
			bo, isBo := ifi.Cond.(*ssa.BinOp)
			if !isBo {
				continue
			}
			isThr := func(x ssa.Value) bool {
				call, ok := x.(*ssa.Call)
				return ok && call.Call.IsInvoke() && call.Call.Method.Name() == "GetMaxThreshold"
			}
			isRating := func(x ssa.Value) bool { return x == ssa.Value(gc.Params[1]) }
			if bo.Op == token.GTR && isRating(bo.X) && isThr(bo.Y) || bo.Op == token.LSS && isThr(bo.X) && isRating(bo.Y) ||
				bo.Op == token.LEQ && isRating(bo.X) && isThr(bo.Y) || bo.Op == token.GEQ && isThr(bo.X) && isRating(bo.Y) {
				skip = true
			}
		}
		c.Check(skip, "C37/chance-is-a-configured-band", "GetChance/band-test", gc.Pos(), "bands are told apart by comparing the rating with the band's max threshold (rating > threshold skips the band)",
			"no strict comparison `rating > band.GetMaxThreshold()` (or its complement) selects the band: a rating equal to a threshold falls into the wrong band or no comparison is made")
	}
	c.Floor("C37/chance-is-a-configured-band", 2)
	// the bands are looked up in threshold order: the comparator that sorts them indexes the slice being sorted
	checkSortComparators(c, "C37/chance-is-a-configured-band", c.P.FuncsOfPkg(pkg))
	c.Floor("C37/chance-is-a-configured-band", 3)
}

// c37NoUnboundedNarrowing: rating steps travel as int32 while the arithmetic that produces them
// (step x count) is done wider. Every conversion of a wider integer to int32 in the rater happens
// where dominating comparisons keep the value inside the int32 range; an unchecked narrowing wraps,
// and a revert or a decrease turns into a large increase that computeRating then clamps to the
// maximum rating.
func c37NoUnboundedNarrowing(c *core.Ctx) {
	const pkg = "process/rating"
	n := 0
	for _, fn := range c.P.FuncsOfPkg(pkg) {
		if fn.Signature.Recv() == nil || !strings.HasSuffix(fn.Signature.Recv().Type().String(), ".BlockSigningRater") {
			continue
		}
		k := 0
		core.Instrs(fn, func(in ssa.Instruction) {
			cv, ok := in.(*ssa.Convert)
			if !ok {
				return
			}
			dst, isD := cv.Type().Underlying().(*types.Basic)
			src, isS := cv.X.Type().Underlying().(*types.Basic)
			if !isD || !isS || dst.Kind() != types.Int32 {
				return
			}
			if src.Kind() != types.Int64 && src.Kind() != types.Int && src.Kind() != types.Uint64 && src.Kind() != types.Uint32 {
				return
			}
			if _, isC := cv.X.(*ssa.Const); isC {
				return
			}
			k++
			n++
			c.Sites++
			key := core.ExprKey(cv.X)
			lo, hi := false, false
			for _, f := range core.FactsAt(cv.Block()) {
				if lb, has := f.LowerBound(key); has && lb >= math.MinInt32 {
					lo = true
				}
				if ub, has := f.UpperBound(key); has && ub <= math.MaxInt32 {
					hi = true
				}
			}
			if src.Kind() == types.Uint32 || src.Kind() == types.Uint64 {
				lo = true
			}
			c.Check(lo && hi, "C37/no-unbounded-narrowing", fmt.Sprintf("%s/int32#%d", fname(fn), k), cv.Pos(),
				"the value narrowed to int32 is kept inside the int32 range by dominating comparisons",
				fmt.Sprintf("%s is converted to int32 without dominating comparisons that keep it in range (lower bound known: %v, upper bound known: %v): for large ratings or counts the step wraps around, a decrease becomes an increase and the rating jumps to the maximum", key, lo, hi))
		})
	}
	c.Floor("C37/no-unbounded-narrowing", 1)
}
