package rules

import (
	"fmt"
	"go/token"

	"golang.org/x/tools/go/ssa"

	"verif/checker/internal/core"
)

func init() {
	register(&Rule{
		ID:    "C08",
		Title: "Contract storage values read back exactly as written",
		Pkgs:  []string{"data/state"},
		Explain: "Decides an ownership condition that read-back exactness depends on: every slice stored into TrackableDataTrie.dirtyData (in any function of package data/state) is backed by an array " +
			"allocated in that function on every path (make / append onto a fresh base / []byte(string)), never by a caller's key or value buffer. append(value, suffix...) onto a caller buffer with " +
			"spare capacity lets a later write through the same buffer rewrite what was stored. " +
			"Not decided (value-level): suffix/trim arithmetic, read of a dirty deleted key, size limit arithmetic.",
		Run: runC08,
	})
}

func runC08(c *core.Ctx) {
	const pkg = "data/state"
	dirty := c.P.Field(pkg, "TrackableDataTrie", "dirtyData")
	if dirty == nil {
		c.Undecided("anchor", "TrackableDataTrie.dirtyData", token.NoPos, "field not found")
		return
	}
	n := 0
	for _, fn := range c.P.FuncsOfPkg(pkg) {
		core.Instrs(fn, func(in ssa.Instruction) {
			mu, ok := in.(*ssa.MapUpdate)
			if !ok {
				return
			}
			if _, f := core.FieldLoad(mu.Map); f != dirty {
				return
			}
			n++
			c.Sites++
			c.Analysed(core.QualName(fn))
			fresh, why := core.FreshSlice(mu.Value)
			c.Check(fresh, "C08/stored-value-is-fresh", fmt.Sprintf("%s/dirtyData-insert#%d", fname(fn), n), mu.Pos(),
				"the stored slice is allocated in this function on every path",
				"the slice stored in dirtyData may share its backing array with "+why+": a later write through that buffer changes the stored value")
		})
	}
	c.Floor("C08/stored-value-is-fresh", 1)
	if fn := anchorM(c, pkg, "TrackableDataTrie", "SaveKeyValue"); fn != nil {
		has := false
		core.Instrs(fn, func(in ssa.Instruction) {
			if mu, ok := in.(*ssa.MapUpdate); ok {
				if _, f := core.FieldLoad(mu.Map); f == dirty {
					has = true
				}
			}
		})
		c.Check(has, "C08/save-stores-in-dirty-data", "TrackableDataTrie.SaveKeyValue", fn.Pos(), "SaveKeyValue records the value in dirtyData", "SaveKeyValue no longer stores into dirtyData: anchor drift")
	}
}
