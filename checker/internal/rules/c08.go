package rules

import (
	"fmt"
	"go/token"

	"golang.org/x/tools/go/ssa"

	"verif/checker/internal/core"
)

func init() {
	register(&Rule{
		ID:    "C08",
		Title: "Contract storage values read back exactly as written",
		Pkgs:  []string{"data/state"},
		Explain: "Decides an ownership condition that read-back exactness depends on: every slice stored into TrackableDataTrie.dirtyData (in any function of package data/state) is backed by an array " +
			"allocated in that function on every path (make / append onto a fresh base / []byte(string)), never by a caller's key or value buffer. append(value, suffix...) onto a caller buffer with " +
			"spare capacity lets a later write through the same buffer rewrite what was stored. " +
			"Further: every success exit of SaveKeyValue has stored the (possibly empty = deleted) value in dirtyData (the dirty entry is what shadows the older trie value), a key present in dirtyData is never answered from the trie, " +
			"and the caller's key/value slices are never the destination of append/copy/element stores (append(key, ...) writes into the caller's spare capacity, which may be the caller's value). " +
			"A data trie recreated by loadDataTrie is registered in the per-address cache before the load succeeds. " +
			"Not decided (value-level): suffix/trim arithmetic, size limit arithmetic.",
		Run: runC08,
	})
}

func runC08(c *core.Ctx) {
	c08LoadedTrieIsShared(c)
	const pkg = "data/state"
	dirty := c.P.Field(pkg, "TrackableDataTrie", "dirtyData")
	if dirty == nil {
		c.Undecided("anchor", "TrackableDataTrie.dirtyData", token.NoPos, "field not found")
		return
	}
	n := 0
	for _, fn := range c.P.FuncsOfPkg(pkg) {
		k := 0
		core.Instrs(fn, func(in ssa.Instruction) {
			mu, ok := in.(*ssa.MapUpdate)
			if !ok {
				return
			}
			if _, f := core.FieldLoad(mu.Map); f != dirty {
				return
			}
			n++
			k++
			c.Sites++
			c.Analysed(core.QualName(fn))
			fresh, why := core.FreshSlice(mu.Value)
			c.Check(fresh, "C08/stored-value-is-fresh", fmt.Sprintf("%s/dirtyData-insert#%d", fname(fn), k), mu.Pos(),
				"the stored slice is allocated in this function on every path",
				"the slice stored in dirtyData may share its backing array with "+why+": a later write through that buffer changes the stored value")
		})
	}
	c.Floor("C08/stored-value-is-fresh", 1)
	// read-your-writes: a key present in dirtyData (including a pending delete, stored as an empty
	// entry) is answered from dirtyData; the lookup never falls through to the trie, which still
	// holds the value from before the write
	if fn := anchorM(c, pkg, "TrackableDataTrie", "RetrieveValue"); fn != nil {
		var found ssa.Value
		core.Instrs(fn, func(in ssa.Instruction) {
			if lk, ok := in.(*ssa.Lookup); ok && lk.CommaOk {
				if _, f := core.FieldLoad(lk.X); f == dirty {
					for _, r := range *lk.Referrers() {
						if ex, ok := r.(*ssa.Extract); ok && ex.Index == 1 {
							found = ex
						}
					}
				}
			}
		})
		if found == nil {
			c.Fail("C08/dirty-entry-shadows-trie", "TrackableDataTrie.RetrieveValue", fn.Pos(), "RetrieveValue no longer consults dirtyData with a presence test")
		} else {
			// start on the edge where `found` is true; the trie must not be reachable from there
			bad := ""
			for _, b := range fn.Blocks {
				ifi, ok := b.Instrs[len(b.Instrs)-1].(*ssa.If)
				if !ok || ifi.Cond != found {
					continue
				}
				q := core.PathQ{Fn: fn, FromBlk: b.Succs[0], Target: func(in ssa.Instruction, _ *ssa.BasicBlock) bool {
					cc := core.CallOf(in)
					return cc != nil && cc.IsInvoke() && cc.Method.Name() == "Get" && isRecvField(fn, cc.Value, "tr")
				}}
				if esc, p := q.Escape(); esc != nil {
					bad = c.P.PathString(p)
				}
			}
			c.Check(bad == "", "C08/dirty-entry-shadows-trie", "TrackableDataTrie.RetrieveValue", fn.Pos(), "a key found in dirtyData is never looked up in the trie",
				"a key that is present in dirtyData can still be answered from the trie ("+bad+"): a deleted or overwritten key reads back its old value until the account is saved")
		}
	}
	if fn := anchorM(c, pkg, "TrackableDataTrie", "SaveKeyValue"); fn != nil {
		has := false
		core.Instrs(fn, func(in ssa.Instruction) {
			if mu, ok := in.(*ssa.MapUpdate); ok {
				if _, f := core.FieldLoad(mu.Map); f == dirty {
					has = true
				}
			}
		})
		c.Check(has, "C08/save-stores-in-dirty-data", "TrackableDataTrie.SaveKeyValue", fn.Pos(), "SaveKeyValue records the value in dirtyData", "SaveKeyValue no longer stores into dirtyData: anchor drift")
		// every accepted write (an empty value is a delete) leaves a dirty entry: it is what shadows the
		// older value still in the trie until the account is saved
		isDirtyStore := func(in ssa.Instruction) bool {
			if mu, ok := in.(*ssa.MapUpdate); ok {
				_, f := core.FieldLoad(mu.Map)
				return f == dirty
			}
			return false
		}
		esc, path := core.PathQ{Fn: fn, Via: isDirtyStore, Target: core.SuccessReturn}.Escape()
		c.Check(esc == nil, "C08/save-stores-in-dirty-data", "TrackableDataTrie.SaveKeyValue/every-success-exit", fn.Pos(),
			"every success exit has stored the (possibly empty) value under the key in dirtyData",
			"SaveKeyValue can report success without leaving an entry for the key in dirtyData ("+c.P.PathString(path)+"): reads fall through to the trie and return the value from before this write/delete")
		// the caller's buffers are only read: append(param, ...) writes into the spare capacity of the
		// caller's backing array, which may be the caller's value (key = buf[:4], value = buf[4:])
		k := 0
		rootParam := func(v ssa.Value) *ssa.Parameter {
			for i := 0; i < 8; i++ {
				switch x := v.(type) {
				case *ssa.Slice:
					v = x.X
				case *ssa.Parameter:
					return x
				default:
					return nil
				}
			}
			return nil
		}
		// SaveKeyValue and the helpers it hands its buffers to
		scan := []*ssa.Function{fn}
		core.Instrs(fn, func(in ssa.Instruction) {
			cc := core.CallOf(in)
			if cc == nil || cc.StaticCallee() == nil || len(cc.StaticCallee().Blocks) == 0 || cc.StaticCallee().Pkg != fn.Pkg {
				return
			}
			for _, a := range cc.Args {
				if p := rootParam(a); p != nil && p != fn.Params[0] {
					scan = append(scan, cc.StaticCallee())
					return
				}
			}
		})
		for _, sf := range scan {
			core.Instrs(sf, func(in ssa.Instruction) {
				switch x := in.(type) {
				case *ssa.Call:
					bi, ok := x.Call.Value.(*ssa.Builtin)
					if !ok || len(x.Call.Args) == 0 {
						return
					}
					if bi.Name() != "append" && bi.Name() != "copy" {
						return
					}
					k++
					p := rootParam(x.Call.Args[0])
					c.Check(p == nil, "C08/caller-buffers-only-read", fmt.Sprintf("TrackableDataTrie.SaveKeyValue/%s#%d", bi.Name(), k), x.Pos(),
						"the destination is not a caller's buffer",
						"the destination of "+bi.Name()+" is the caller's slice: it writes into the caller's backing array (its spare capacity may be the caller's value buffer), so what is stored differs from what was written")
				case *ssa.Store:
					if ia, ok := x.Addr.(*ssa.IndexAddr); ok {
						if p := rootParam(ia.X); p != nil {
							k++
							c.Fail("C08/caller-buffers-only-read", fmt.Sprintf("TrackableDataTrie.SaveKeyValue/store#%d", k), x.Pos(), "writes an element of the caller's slice "+p.Name())
						}
					}
				}
			})
		}
		c.Floor("C08/caller-buffers-only-read", 1)
	}
}

// c08LoadedTrieIsShared: a data trie recreated from storage for one account handle is registered in
// the per-address cache, so that a second handle of the same account works on the same instance
// and sees what the first one saved.
func c08LoadedTrieIsShared(c *core.Ctx) {
	fn := anchorM(c, "data/state", "AccountsDB", "loadDataTrie")
	if fn == nil {
		return
	}
	var recreate ssa.Instruction
	core.Instrs(fn, func(in ssa.Instruction) {
		if cc := core.CallOf(in); cc != nil && cc.IsInvoke() && cc.Method.Name() == "Recreate" {
			recreate = in
		}
	})
	if recreate == nil {
		c.Undecided("C08/loaded-trie-is-shared", "AccountsDB.loadDataTrie", fn.Pos(), "no Recreate call")
		return
	}
	put := func(in ssa.Instruction) bool {
		cc := core.CallOf(in)
		if cc == nil || !cc.IsInvoke() || cc.Method.Name() != "Put" {
			return false
		}
		_, f := core.FieldLoad(cc.Value)
		return f != nil && f.Name() == "dataTries"
	}
	esc, path := core.PathQ{Fn: fn, From: recreate, Via: put, Target: core.NilReturn}.Escape()
	c.Check(esc == nil, "C08/loaded-trie-is-shared", "AccountsDB.loadDataTrie", recreate.Pos(),
		"a recreated data trie is put in the per-address cache before the load succeeds",
		"loadDataTrie can succeed with a recreated data trie that is not registered in dataTries ("+c.P.PathString(path)+"): two handles of one account work on different trie instances and the value one of them saved is invisible to, then overwritten by, the other")
}
