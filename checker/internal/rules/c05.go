package rules

import (
	"fmt"
	"go/token"
	"go/types"
	"sort"
	"strings"

	"golang.org/x/tools/go/ssa"

	"verif/checker/internal/core"
)

func init() {
	register(&Rule{
		ID:    "C05",
		Title: "Trie synchronisation reconstructs exactly the requested trie",
		Pkgs:  []string{"data/trie"},
		Explain: "Decides the content-addressing discipline that exactness of the synchronised trie depends on. (S1) A node that enters a syncer from the network carries the hash of its own decoded " +
			"content: in NewInterceptedTrieNode, trieNode and getNodeFromStorage every success exit has passed setHash() on the freshly decoded node with the error checked (or returns a node that went " +
			"through one of these), InterceptedTrieNode.hash is the getHash() of that same node, and setGivenHash (which trusts its argument) is called only with the very DB key the node was just " +
			"loaded under (callers are enumerated; the interface method is unexported so the package is the universe). (S2) The syncers persist nodes only through encodeNodeAndCommitToDB, i.e. under the " +
			"content hash (C03/S2): no other function of the package calls Put on a trie DB. A node keyed by the *requested* hash instead of its content hash would let a peer substitute arbitrary subtrees. " +
			"(S3, completeness, structural part) every success exit of trieSyncer.StartSyncing and doubleListTrieSyncer.StartSyncing is decided by the bool result of the completion test called in the sync loop, or by the requested root hash alone (empty trie); the double-list completion test reads both work sets; branchNode/extensionNode.loadChildren report every non-empty child reference as missing or loaded (the syncers learn the frontier only from it). " +
			"Not decided (schedules/value-level): completeness of the frontier under every delivery schedule, termination.",
		Run: runC05,
	})
}

func isInvoke(cc *ssa.CallCommon, name string) bool { return cc.IsInvoke() && cc.Method.Name() == name }

func runC05(c *core.Ctx) {
	const pkg = "data/trie"
	decodedBy := func(v ssa.Value, fnName string) bool {
		ex, ok := v.(*ssa.Extract)
		if !ok || ex.Index != 0 {
			return false
		}
		call, ok := ex.Tuple.(*ssa.Call)
		return ok && core.CallDesc(&call.Call).Is(pkg, "", fnName)
	}
	// S1a NewInterceptedTrieNode
	if fn := anchorF(c, pkg, "NewInterceptedTrieNode"); fn != nil {
		mustPassChecked(c, fn, "C05/received-node-hash-is-content-hash", "NewInterceptedTrieNode", nil,
			func(in ssa.Instruction, cc *ssa.CallCommon) bool {
				return isInvoke(cc, "setHash") && decodedBy(cc.Value, "decodeNode")
			},
			core.SuccessReturn, nil, "setHash() of the node decoded from the received bytes succeeds before the intercepted node is handed out")
		// hash field derives from getHash() of the decoded node; node field is the decoded node
		hashF := c.P.Field(pkg, "InterceptedTrieNode", "hash")
		nodeF := c.P.Field(pkg, "InterceptedTrieNode", "node")
		nH, nN := 0, 0
		core.Instrs(fn, func(in ssa.Instruction) {
			st, ok := in.(*ssa.Store)
			if !ok {
				return
			}
			fa, ok := st.Addr.(*ssa.FieldAddr)
			if !ok {
				return
			}
			switch core.FieldOfAddr(fa) {
			case hashF:
				nH++
				call, ok := st.Val.(*ssa.Call)
				good := ok && isInvoke(&call.Call, "getHash") && decodedBy(call.Call.Value, "decodeNode")
				c.Check(good, "C05/received-node-hash-is-content-hash", "NewInterceptedTrieNode/hash-field", st.Pos(),
					"InterceptedTrieNode.hash = getHash() of the decoded node", "InterceptedTrieNode.hash is not taken from the decoded node's own hash")
			case nodeF:
				nN++
				c.Check(decodedBy(st.Val, "decodeNode"), "C05/received-node-hash-is-content-hash", "NewInterceptedTrieNode/node-field", st.Pos(),
					"InterceptedTrieNode.node is the decoded node", "InterceptedTrieNode.node is not the node decoded from the received bytes")
			}
		})
		if nH == 0 || nN == 0 {
			c.Fail("C05/received-node-hash-is-content-hash", "NewInterceptedTrieNode/fields", fn.Pos(), "the constructor does not set hash and node")
		}
	}
	// S1b trieNode
	if fn := anchorF(c, pkg, "trieNode"); fn != nil {
		nodeF := c.P.Field(pkg, "InterceptedTrieNode", "node")
		// the early exit that returns the intercepted node's own node is fine (it was hashed by the constructor)
		target := func(in ssa.Instruction, pred *ssa.BasicBlock) bool {
			if !core.SuccessReturn(in, pred) {
				return false
			}
			r := in.(*ssa.Return)
			if _, f := core.FieldLoad(core.Strip(core.RetOperand(r, 0))); f != nil && f == nodeF {
				return false
			}
			return true
		}
		mustPassChecked(c, fn, "C05/received-node-hash-is-content-hash", "trieNode", nil,
			func(in ssa.Instruction, cc *ssa.CallCommon) bool {
				return isInvoke(cc, "setHash") && decodedBy(cc.Value, "decodeNode")
			},
			target, nil, "setHash() of the node decoded from the serialized bytes succeeds before it is handed to a syncer")
	}
	// S1c getNodeFromStorage
	if fn := anchorF(c, pkg, "getNodeFromStorage"); fn != nil {
		target := func(in ssa.Instruction, pred *ssa.BasicBlock) bool {
			if !core.SuccessReturn(in, pred) {
				return false
			}
			r := in.(*ssa.Return)
			if ex, ok := core.RetOperand(r, 0).(*ssa.Extract); ok {
				if call, ok := ex.Tuple.(*ssa.Call); ok && core.CallDesc(&call.Call).Is(pkg, "", "trieNode") {
					return false // tail call to trieNode, decided above
				}
			}
			return true
		}
		mustPassChecked(c, fn, "C05/received-node-hash-is-content-hash", "getNodeFromStorage", nil,
			func(in ssa.Instruction, cc *ssa.CallCommon) bool {
				return isInvoke(cc, "setHash") && decodedBy(cc.Value, "getNodeFromDBAndDecode")
			},
			target, nil, "setHash() of the node decoded from the DB succeeds before it is handed to a syncer")
	}
	// S1d setGivenHash callers
	// every caller is held to the same condition (no list of allowed callers: an extracted helper that
	// loads the node and sets the hash it was loaded under is as good as the three places that do so today)
	nGiven := 0
	for _, fn := range c.P.FuncsOfPkg(pkg) {
		for k, in := range core.CallsIn(fn, func(in ssa.Instruction, cc *ssa.CallCommon) bool { return core.CallDesc(cc).Name == "setGivenHash" }) {
			nGiven++
			cc := core.CallOf(in)
			name := fmt.Sprintf("%s/setGivenHash#%d", fname(fn), k)
			c.Analysed(core.QualName(fn))
			// receiver must be the node just loaded with getNodeFromDBAndDecode(key, ...), argument must be that same key
			var recvV ssa.Value
			var arg ssa.Value
			if cc.IsInvoke() {
				recvV, arg = cc.Value, cc.Args[0]
			} else {
				recvV, arg = cc.Args[0], cc.Args[1]
			}
			ok := false
			if ex, isEx := recvV.(*ssa.Extract); isEx && ex.Index == 0 {
				if call, isCall := ex.Tuple.(*ssa.Call); isCall && core.CallDesc(&call.Call).Is(pkg, "", "getNodeFromDBAndDecode") {
					ok = core.ExprKey(call.Call.Args[0]) == core.ExprKey(arg)
				}
			}
			c.Check(ok, "C05/given-hash-is-the-db-key", name, in.Pos(), "the given hash is the key the node was just read under", "setGivenHash is not given the DB key the node was loaded with")
		}
	}
	c.Floor("C05/given-hash-is-the-db-key", 1)

	// S2 who-may-call Put on a DBWriteCacher in data/trie
	nPut := 0
	for _, fn := range c.P.FuncsOfPkg(pkg) {
		for _, in := range core.CallsIn(fn, func(in ssa.Instruction, cc *ssa.CallCommon) bool {
			d := core.CallDesc(cc)
			return d.Name == "Put" && (d.Recv == "DBWriteCacher" || d.Recv == "SnapshotDbHandler" || d.Recv == "Persister")
		}) {
			nPut++
			c.Check(fname(fn) == "encodeNodeAndCommitToDB", "C05/persist-only-under-content-hash", fmt.Sprintf("%s/Put", fname(fn)), in.Pos(),
				"the only trie-DB write in the package is encodeNodeAndCommitToDB", "a trie DB is written outside encodeNodeAndCommitToDB: the key is not tied to the node's content hash")
		}
	}
	// the syncers do persist, and do so through encodeNodeAndCommitToDB
	for _, a := range [][2]string{{"trieSyncer", "checkIfSynced"}, {"doubleListTrieSyncer", "processExistingNodes"}} {
		fn := anchorM(c, pkg, a[0], a[1])
		if fn == nil {
			continue
		}
		calls := callsMatching(fn, pkg, "", "encodeNodeAndCommitToDB")
		c.Check(len(calls) > 0, "C05/persist-only-under-content-hash", a[0]+"."+a[1], fn.Pos(), "persists received nodes through encodeNodeAndCommitToDB", "the syncer no longer persists through encodeNodeAndCommitToDB")
	}
	// frontier: a node leaves the work set only together with the recording of ALL its missing children
	if fn := anchorM(c, pkg, "doubleListTrieSyncer", "processExistingNodes"); fn != nil {
		var del ssa.Instruction
		for _, in := range core.CallsIn(fn, func(in ssa.Instruction, cc *ssa.CallCommon) bool {
			return core.CallDesc(cc).Is("builtin", "", "delete") && isFieldOf(cc.Args[0], "existingNodes")
		}) {
			del = in
		}
		var inner *core.Loop
		for _, l := range core.Loops(fn) {
			if src := l.RangeSource(); src != nil {
				if ex, ok := src.(*ssa.Extract); ok && ex.Index == 0 {
					if call, ok := ex.Tuple.(*ssa.Call); ok && isInvoke(&call.Call, "loadChildren") {
						inner = l
					}
				}
			}
		}
		if del == nil || inner == nil {
			c.Fail("C05/frontier-recorded-before-drop", "doubleListTrieSyncer.processExistingNodes", fn.Pos(), "the removal from existingNodes or the loop recording the missing children hashes was not found")
		} else {
			records := false
			core.Instrs(fn, func(in ssa.Instruction) {
				if mu, ok := in.(*ssa.MapUpdate); ok && inner.Body[mu.Block()] && isFieldOf(mu.Map, "missingHashes") {
					records = true
				}
			})
			exh := map[[2]int]bool{}
			for i, s2 := range inner.Header.Succs {
				if !inner.Body[s2] {
					exh[[2]int{inner.Header.Index, i}] = true
				}
			}
			outer := core.InnermostLoop(fn, del.Block())
			q := core.PathQ{Fn: fn, From: del, ViaEdge: func(b *ssa.BasicBlock, s2 int) bool { return exh[[2]int{b.Index, s2}] },
				Target: func(in ssa.Instruction, _ *ssa.BasicBlock) bool {
					if _, isRet := in.(*ssa.Return); isRet {
						return true
					}
					return outer != nil && in == outer.Header.Instrs[0]
				}}
			esc, pth := q.Escape()
			c.Check(esc == nil && records, "C05/frontier-recorded-before-drop", "doubleListTrieSyncer.processExistingNodes", del.Pos(),
				"once a node is dropped from the work set, all its missing children hashes are recorded before the iteration ends",
				"a node can be removed from existingNodes while the loop that records its missing children is skipped ("+c.P.PathString(pth)+"): those subtrees are never requested and the sync reports success with nodes missing")
		}
	}
	c.Floor("C05/persist-only-under-content-hash", 3)
	c.Floor("C05/received-node-hash-is-content-hash", 5)
	c05Completion(c)
	c05ChildrenReported(c)
	c05OneSyncAtATime(c)
}

// c05OneSyncAtATime: the double-list syncer keeps its frontier (existingNodes, missingHashes,
// rootHash) in the syncer itself; a sync therefore owns the syncer from the reset of the frontier to
// its return: StartSyncing locks mutOperation before the reset and releases it only by the deferred
// unlock. If the lock is dropped while waiting, a second StartSyncing replaces the frontier and the
// first one reports success for a trie it never completed.
func c05OneSyncAtATime(c *core.Ctx) {
	fn := anchorM(c, "data/trie", "doubleListTrieSyncer", "StartSyncing")
	if fn == nil {
		return
	}
	isMut := func(cc *ssa.CallCommon) bool {
		if cc == nil || len(cc.Args) == 0 {
			return false
		}
		fa, ok := cc.Args[0].(*ssa.FieldAddr)
		return ok && core.FieldOfAddr(fa).Name() == "mutOperation"
	}
	var lock ssa.Instruction
	deferred, explicit := 0, 0
	core.Instrs(fn, func(in ssa.Instruction) {
		cc := core.CallOf(in)
		// `defer func() { d.mutOperation.Unlock() }()`
		if df, isDefer := in.(*ssa.Defer); isDefer {
			if mc, ok := df.Call.Value.(*ssa.MakeClosure); ok {
				if body, ok := mc.Fn.(*ssa.Function); ok {
					core.Instrs(body, func(in2 ssa.Instruction) {
						c2 := core.CallOf(in2)
						if c2 != nil && c2.StaticCallee() != nil && c2.StaticCallee().Name() == "Unlock" && len(c2.Args) > 0 {
							if fa, ok := c2.Args[0].(*ssa.FieldAddr); ok && core.FieldOfAddr(fa).Name() == "mutOperation" {
								deferred++
							}
						}
					})
				}
			}
		}
		if !isMut(cc) || cc.StaticCallee() == nil {
			return
		}
		switch cc.StaticCallee().Name() {
		case "Lock":
			if lock == nil {
				lock = in
			}
		case "Unlock":
			if _, isDefer := in.(*ssa.Defer); isDefer {
				deferred++
			} else {
				explicit++
			}
		}
	})
	resetLocked := lock != nil
	core.Instrs(fn, func(in ssa.Instruction) {
		switch st := in.(type) {
		case *ssa.Store:
			if fa, ok := st.Addr.(*ssa.FieldAddr); ok {
				switch core.FieldOfAddr(fa).Name() {
				case "existingNodes", "missingHashes", "rootHash":
					if lock == nil || !core.DominatesInstr(lock, in) {
						resetLocked = false
					}
				}
			}
		}
	})
	c.Check(resetLocked && deferred >= 1 && explicit == 0, "C05/one-sync-owns-the-syncer", "doubleListTrieSyncer.StartSyncing", fn.Pos(),
		"the frontier is reset under mutOperation and the mutex is released only by the deferred unlock",
		fmt.Sprintf("the per-syncer frontier is not protected for the whole sync (reset under the lock: %v, deferred unlocks: %d, explicit unlocks: %d): an overlapping StartSyncing for another root replaces the frontier and the first call reports success without having stored its trie", resetLocked, deferred, explicit))
}

// c05Completion: "completes without error => every reachable node is stored" needs every success
// exit of StartSyncing to be decided by the completion test of the sync loop; the only other
// success exit allowed is the one decided by the requested root hash alone (empty trie).
func c05Completion(c *core.Ctx) {
	const pkg = "data/trie"
	for _, typ := range []string{"trieSyncer", "doubleListTrieSyncer"} {
		fn := anchorM(c, pkg, typ, "StartSyncing")
		if fn == nil {
			continue
		}
		c.Analysed(fname(fn))
		// completion calls: receiver methods called inside a loop, returning (..bool.., error)
		completion := map[*ssa.Call]bool{}
		core.Instrs(fn, func(in ssa.Instruction) {
			call, ok := in.(*ssa.Call)
			if !ok || core.InnermostLoop(fn, call.Block()) == nil {
				return
			}
			callee := call.Call.StaticCallee()
			if callee == nil || callee.Signature.Recv() == nil || len(call.Call.Args) == 0 || core.ExprKey(call.Call.Args[0]) != "recv" {
				return
			}
			res := callee.Signature.Results()
			hasBool, hasErr := false, false
			for i := 0; i < res.Len(); i++ {
				if b, ok := res.At(i).Type().Underlying().(*types.Basic); ok && b.Kind() == types.Bool {
					hasBool = true
				}
				if res.At(i).Type().String() == "error" {
					hasErr = true
				}
			}
			if hasBool && hasErr {
				completion[call] = true
			}
		})
		n := 0
		for i, r := range core.Returns(fn) {
			if !core.SuccessReturn(r, nil) {
				continue
			}
			n++
			name := fmt.Sprintf("%s.StartSyncing/success#%d", typ, n)
			_ = i
			conds := core.CondsAt(r.Block())
			if len(conds) == 0 {
				// `a || b` lowers to several edges into the block: take what each edge establishes
				for _, p := range r.Block().Preds {
					conds = append(conds, core.CondsOnEdgeTo(p, r.Block())...)
				}
			}
			byCompletion := false
			onlyRoot := len(conds) > 0
			impureSet := map[string]bool{}
			for _, cd := range conds {
				for v := range core.BackwardReachPure(cd.V) {
					if ex, ok := v.(*ssa.Extract); ok {
						if call, ok := ex.Tuple.(*ssa.Call); ok && completion[call] {
							if b, isB := ex.Type().Underlying().(*types.Basic); isB && b.Kind() == types.Bool {
								byCompletion = true
							}
						}
					}
					switch x := v.(type) {
					case *ssa.Call:
						d := core.CallDesc(&x.Call)
						if !(d.Is("builtin", "", "len") || d.Is("bytes", "", "Equal")) {
							onlyRoot = false
							impureSet[d.Name+"()"] = true
						}
					case *ssa.UnOp:
						if x.Op == token.MUL {
							if _, isG := x.X.(*ssa.Global); !isG {
								onlyRoot = false
								impureSet[core.ExprKey(x)] = true
							}
						}
					case *ssa.Parameter:
						if x != fn.Params[1] {
							onlyRoot = false
							impureSet[x.Name()] = true
						}
					}
				}
			}
			var impureL []string
			for k := range impureSet {
				impureL = append(impureL, k)
			}
			sort.Strings(impureL)
			impure := strings.Join(impureL, ", ")
			switch {
			case byCompletion:
				c.Pass("C05/success-decided-by-completion-test", name, r.Pos(), "returned only when the completion test of the sync loop said so")
			case onlyRoot:
				c.Pass("C05/success-decided-by-completion-test", name, r.Pos(), "decided by the requested root hash alone (empty trie)")
			default:
				c.Fail("C05/success-decided-by-completion-test", name, r.Pos(),
					"StartSyncing reports success on a path that neither passed the completion test of the sync loop nor is decided by the root hash alone (depends on "+impure+"): storage may lack reachable nodes (e.g. only the root of an interrupted sync is present)")
			}
		}
	}
	c.Floor("C05/success-decided-by-completion-test", 4)
	// the double-list completion test looks at both work sets
	if fn := anchorM(c, pkg, "doubleListTrieSyncer", "checkIsSyncedWhileProcessingMissingAndExisting"); fn != nil {
		c.Analysed(fname(fn))
		n := 0
		for _, r := range core.Returns(fn) {
			v := core.RetOperand(r, 0)
			if v == nil {
				continue
			}
			if b, isC := core.ConstBool(v); isC && !b {
				continue
			}
			n++
			miss, exist := false, false
			for x := range core.BackwardReachPure(v) {
				if isFieldOf(x, "missingHashes") {
					miss = true
				}
				if isFieldOf(x, "existingNodes") {
					exist = true
				}
			}
			// a set already known to be empty on this path (dominating `len(set) == 0`) has been looked at
			for _, cnd := range core.CondsAt(r.Block()) {
				f := core.FactOf(cnd)
				if !(f.Op == "==" && (f.A == "0" || f.B == "0")) && !(f.Op == "<=" && f.B == "0") && !(f.Op == "<" && f.B == "1") {
					continue
				}
				for x := range core.BackwardReachPure(cnd.V) {
					if isFieldOf(x, "missingHashes") {
						miss = true
					}
					if isFieldOf(x, "existingNodes") {
						exist = true
					}
				}
			}
			c.Check(miss && exist, "C05/completion-test-covers-both-work-sets", fmt.Sprintf("checkIsSynced/true-return#%d", n), r.Pos(),
				"`synced` is computed from both missingHashes and existingNodes",
				"`synced` can be reported without looking at both missingHashes and existingNodes: nodes still waiting to be processed or requested are forgotten")
		}
		c.Floor("C05/completion-test-covers-both-work-sets", 1)
	}
}

// c05ChildrenReported: loadChildren is how the syncers learn the frontier: every non-empty child
// reference must come back either as a missing hash or as a loaded node.
func c05ChildrenReported(c *core.Ctx) {
	const pkg = "data/trie"
	if fn := anchorM(c, pkg, "branchNode", "loadChildren"); fn != nil {
		c.Analysed(fname(fn))
		found := false
		for _, l := range core.Loops(fn) {
			src := l.RangeSource()
			if src == nil || !isFieldOf(src, "EncodedChildren") {
				continue
			}
			found = true
			l := l
			appendIn := func(in ssa.Instruction) bool {
				call, ok := in.(*ssa.Call)
				if !ok || !l.Body[in.Block()] {
					return false
				}
				bi, ok := call.Call.Value.(*ssa.Builtin)
				return ok && bi.Name() == "append"
			}
			emptyEdge := edgeFact(func(f core.Fact, cd core.Cond) bool {
				for _, side := range []string{f.A, f.B} {
					if strings.HasPrefix(side, "len(") && strings.Contains(side, "EncodedChildren[") {
						if ub, ok := f.UpperBound(side); ok && ub <= 0 {
							return true
						}
					}
				}
				return false
			})
			var from *ssa.BasicBlock
			for _, s := range l.Header.Succs {
				if l.Body[s] {
					from = s
				}
			}
			esc, path := core.PathQ{Fn: fn, FromBlk: from, Via: appendIn, ViaEdge: emptyEdge,
				Target: func(in ssa.Instruction, _ *ssa.BasicBlock) bool {
					if in == l.Header.Instrs[0] {
						return true // the next iteration
					}
					_, isRet := in.(*ssa.Return)
					return isRet && !l.Body[in.Block()] && core.SuccessReturn(in, nil)
				}}.Escape()
			c.Check(esc == nil, "C05/every-child-reported", "branchNode.loadChildren", fn.Pos(),
				"every iteration over a non-empty child reference appends to the missing or to the loaded list",
				"an iteration over a non-empty child reference ends without reporting the child as missing or loaded ("+c.P.PathString(path)+"): a syncer that discards one result of loadChildren never walks that subtree")
		}
		if !found {
			c.Undecided("C05/every-child-reported", "branchNode.loadChildren", fn.Pos(), "no loop over EncodedChildren found")
		}
	}
	if fn := anchorM(c, pkg, "extensionNode", "loadChildren"); fn != nil {
		c.Analysed(fname(fn))
		n := 0
		for _, r := range core.Returns(fn) {
			if !core.SuccessReturn(r, nil) {
				continue
			}
			n++
			reported := false
			for _, k := range []int{0, 1} {
				v := core.RetOperand(r, k)
				if v == nil {
					continue
				}
				if cst, isC := v.(*ssa.Const); isC && cst.IsNil() {
					continue
				}
				reported = true
			}
			c.Check(reported, "C05/every-child-reported", fmt.Sprintf("extensionNode.loadChildren/success#%d", n), r.Pos(),
				"the child is returned as missing or as loaded", "a success return reports the child neither as missing nor as loaded")
		}
	}
	c.Floor("C05/every-child-reported", 3)
}
