package rules

import (
	"fmt"
	"sort"
	"strings"

	"golang.org/x/tools/go/ssa"

	"verif/checker/internal/core"
)

func init() {
	register(&Rule{
		ID:    "C29",
		Title: "Headers pool indexes stay consistent and are race-free",
		Pkgs:  []string{"dataRetriever/dataPool/headersCache"},
		Explain: "Decides the race-freedom clause and the co-update structure. (S1) every call from a headersPool method into the headersCache object (and every direct access to it) happens under " +
			"mutHeadersPool in a mode that covers the callee's effects: effect summaries (map inserts, deletes, stores reachable from the cache object, followed through package-local callees) say whether a " +
			"cache method writes; writers need the write lock, readers at least the read lock (lock-state dataflow over the SSA CFG, deferred unlocks modelled). headersCache is unexported, created in the pool's " +
			"constructor and never leaves it, so the package is the universe of accesses. (S2) the three indexes change together: addHeader = by-hash insert + nonce-list append + counter increment on every " +
			"path that reports an addition; the removal functions pair list/nonce-map removal, by-hash deletion and counter decrement; clear resets all three; nothing else writes the counter. " +
			"Not decided (value-level): eviction order by timestamp, equality of the counter with the number of headers over histories.",
		Run: runC29,
	})
}

func runC29(c *core.Ctx) {
	const pkg = "dataRetriever/dataPool/headersCache"
	mu := c.P.Field(pkg, "headersPool", "mutHeadersPool")
	cacheF := c.P.Field(pkg, "headersPool", "cache")
	if mu == nil || cacheF == nil {
		c.Undecided("anchor", "headersPool.{mutHeadersPool,cache}", 0, "fields not found")
		return
	}
	fns := c.P.FuncsOfPkg(pkg)
	entry := core.EntryModes(fns, mu)
	ea := core.NewEffectAnalyzer()
	n := 0
	for _, fn := range fns {
		var modes map[ssa.Instruction]core.Mode
		core.Instrs(fn, func(in ssa.Instruction) {
			// loads of pool.cache
			fa, ok := in.(*ssa.FieldAddr)
			if !ok || core.FieldOfAddr(fa) != cacheF {
				return
			}
			if _, fresh := fa.X.(*ssa.Alloc); fresh {
				return // constructor
			}
			if modes == nil {
				modes = core.LockModes(fn, mu, entry[fn])
				c.Analysed(core.QualName(fn))
			}
			for _, r := range *fa.Referrers() {
				ld, ok := r.(*ssa.UnOp)
				if !ok {
					if st, isSt := r.(*ssa.Store); isSt && st.Addr == ssa.Value(fa) {
						c.Fail("C29/access-under-lock", fname(fn)+"/store-cache", st.Pos(), "the cache object is replaced on a shared pool")
					}
					continue
				}
				for _, u := range *ld.Referrers() {
					n++
					need, what := core.ModeR, ""
					switch x := u.(type) {
					case *ssa.Call:
						callee := x.Call.StaticCallee()
						if callee == nil {
							c.Undecided("C29/access-under-lock", fname(fn)+"/dynamic-call", x.Pos(), "dynamic call on the cache object")
							continue
						}
						idx := -1
						for i, a := range x.Call.Args {
							if a == ssa.Value(ld) {
								idx = i
							}
						}
						what = "call " + core.FuncName(callee)
						for _, e := range ea.OfParam(callee, idx) {
							if e.Write {
								need = core.ModeW
								what += " (writes: " + e.What + ")"
								break
							}
						}
					case *ssa.FieldAddr:
						what = "field " + core.FieldOfAddr(x).Name()
						for _, rr := range *x.Referrers() {
							if st, isSt := rr.(*ssa.Store); isSt && st.Addr == ssa.Value(x) {
								need = core.ModeW
							}
						}
					case *ssa.DebugRef:
						continue
					default:
						c.Undecided("C29/access-under-lock", fname(fn)+"/cache-escapes", u.Pos(), fmt.Sprintf("the cache object is used in an unrecognised way (%T)", u))
						continue
					}
					m := modes[u]
					rule := "C29/write-under-write-lock"
					if need == core.ModeR {
						rule = "C29/read-under-lock"
					}
					c.Check(m >= need, rule, fname(fn), u.Pos(), fmt.Sprintf("%s while mutHeadersPool is %s", what, m),
						fmt.Sprintf("%s while mutHeadersPool is only %s: %s", what, m, map[bool]string{true: "a map write races with concurrent readers", false: "an unlocked read races with writers"}[need == core.ModeW]))
				}
			}
		})
	}
	c.Sites += n
	c.Floor("C29/write-under-write-lock", 5)
	c.Floor("C29/read-under-lock", 3)
	// headersCache methods are reached only from the pool (or from each other)
	for _, fn := range fns {
		for _, in := range core.CallsIn(fn, func(in ssa.Instruction, cc *ssa.CallCommon) bool {
			d := core.CallDesc(cc)
			return d.Pkg == core.PkgPath(pkg) && d.Recv == "headersCache"
		}) {
			r := fn.Signature.Recv()
			okCaller := r != nil && namedElem(r.Type()) != nil && (namedElem(r.Type()).Obj().Name() == "headersPool" || namedElem(r.Type()).Obj().Name() == "headersCache")
			if !okCaller {
				c.Fail("C29/cache-confined-to-pool", fname(fn)+"→"+core.CallDesc(core.CallOf(in)).Name, in.Pos(), "a headersCache method is called from outside headersPool/headersCache: the pool mutex does not cover it")
			}
		}
	}
	c.Pass("C29/cache-confined-to-pool", "callers", 0, "headersCache methods are called only from headersPool and headersCache methods")

	// ---- S2 co-update
	isCall := func(name string) func(ssa.Instruction) bool {
		return func(in ssa.Instruction) bool {
			cc := core.CallOf(in)
			return cc != nil && core.CallDesc(cc).Name == name
		}
	}
	if fn := anchorM(c, pkg, "headersCache", "addHeader"); fn != nil {
		added := func(in ssa.Instruction, _ *ssa.BasicBlock) bool {
			r, ok := in.(*ssa.Return)
			if !ok {
				return false
			}
			b, isB := core.ConstBool(core.RetOperand(r, 0))
			return isB && b
		}
		for _, ev := range []string{"addElement", "appendHeaderToList", "increment"} {
			mustPass(c, fn, "C29/indexes-co-updated", "headersCache.addHeader/"+ev, nil, isCall(ev), added, nil, "a reported addition performed "+ev)
		}
	}
	if fn := anchorM(c, pkg, "headersCache", "removeHeaderByNonceAndShardId"); fn != nil {
		for i, prim := range core.CallsIn(fn, func(in ssa.Instruction, _ *ssa.CallCommon) bool { return isCall("removeListOfHeaders")(in) }) {
			for _, ev := range []string{"deleteBulk", "decrement"} {
				ok, why := mustAccompany(c, fn, prim, isCall(ev), core.AnyReturn)
				c.Check(ok, "C29/indexes-co-updated", fmt.Sprintf("headersCache.removeHeaderByNonceAndShardId#%d/%s", i, ev), prim.Pos(), "removing a nonce's list is accompanied by "+ev, why)
			}
		}
	}
	if fn := anchorM(c, pkg, "headersCache", "removeHeaderFromNonceMap"); fn != nil {
		for i, prim := range core.CallsIn(fn, func(in ssa.Instruction, _ *ssa.CallCommon) bool { return isCall("removeHeader")(in) }) {
			ok, why := mustAccompany(c, fn, prim, isCall("decrement"), core.AnyReturn)
			c.Check(ok, "C29/indexes-co-updated", fmt.Sprintf("headersCache.removeHeaderFromNonceMap#%d/decrement", i), prim.Pos(), "removing a header from its list decrements the counter", why)
		}
		// the list is a value copy: after removing an element it is written back (or the nonce entry is dropped)
		for i, prim := range core.CallsIn(fn, func(in ssa.Instruction, _ *ssa.CallCommon) bool { return isCall("removeHeader")(in) }) {
			q := core.PathQ{Fn: fn, From: prim, Via: func(in ssa.Instruction) bool {
				return isCall("setListOfHeaders")(in) || isCall("removeListOfHeaders")(in)
			}, Target: core.AnyReturn}
			esc, pth := q.Escape()
			c.Check(esc == nil, "C29/indexes-co-updated", fmt.Sprintf("headersCache.removeHeaderFromNonceMap#%d/write-back", i), prim.Pos(), "the shortened list is stored back in the nonce map (or the entry is removed)",
				"the list from which a header was removed is a copy and is not written back to the nonce index: the index keeps the removed header ("+c.P.PathString(pth)+")")
		}
		for i, dec := range core.CallsIn(fn, func(in ssa.Instruction, _ *ssa.CallCommon) bool { return isCall("decrement")(in) }) {
			q := core.PathQ{Fn: fn, Via: isCall("removeHeader"), Target: func(in ssa.Instruction, _ *ssa.BasicBlock) bool { return in == dec }}
			esc, _ := q.Escape()
			c.Check(esc == nil, "C29/indexes-co-updated", fmt.Sprintf("headersCache.removeHeaderFromNonceMap#%d/decrement-only-after-removal", i), dec.Pos(), "the counter is decremented only after a header was removed from the list",
				"the counter can be decremented without a header having been removed")
		}
	}
	if fn := anchorM(c, pkg, "headersCache", "removeHeaderByHash"); fn != nil {
		for i, prim := range core.CallsIn(fn, func(in ssa.Instruction, _ *ssa.CallCommon) bool { return isCall("deleteElement")(in) }) {
			ok, why := mustAccompany(c, fn, prim, isCall("removeHeaderFromNonceMap"), core.AnyReturn)
			c.Check(ok, "C29/indexes-co-updated", fmt.Sprintf("headersCache.removeHeaderByHash#%d", i), prim.Pos(), "deleting from the by-hash index is accompanied by removal from the nonce index", why)
		}
	}
	if fn := anchorM(c, pkg, "headersCache", "clear"); fn != nil {
		for _, f := range []string{"headersNonceCache", "headersCounter", "headersByHash"} {
			f := f
			mustPass(c, fn, "C29/indexes-co-updated", "headersCache.clear/"+f, nil, func(in ssa.Instruction) bool {
				st, ok := in.(*ssa.Store)
				return ok && isRecvFieldAddr(fn, st.Addr, f)
			}, core.AnyReturn, nil, "clear resets "+f)
		}
	}
	// who changes the counter
	var writers []string
	for _, fn := range fns {
		if len(core.CallsIn(fn, func(in ssa.Instruction, cc *ssa.CallCommon) bool {
			d := core.CallDesc(cc)
			return d.Recv == "numHeadersByShard" && (d.Name == "increment" || d.Name == "decrement")
		})) > 0 {
			writers = append(writers, fname(fn))
		}
	}
	sort.Strings(writers)
	want := "headersCache.addHeader,headersCache.removeHeaderByNonceAndShardId,headersCache.removeHeaderFromNonceMap"
	c.Check(strings.Join(writers, ",") == want, "C29/indexes-co-updated", "who-changes-counter", 0, "the counter is changed only by "+want, fmt.Sprintf("the counter is changed by %v (reviewed: %s)", writers, want))
	c.Floor("C29/indexes-co-updated", 12)
}
