package rules

import (
	"fmt"
	"go/token"
	"go/types"
	"strings"

	"golang.org/x/tools/go/ssa"

	"verif/checker/internal/core"
)

func init() {
	register(&Rule{
		ID:    "C26",
		Title: "Transaction selection respects nonce order",
		Pkgs:  []string{"storage/txcache", "storage/txcache/maps"},
		Explain: "Decides structural conditions of the per-sender copy loop txListForSender.selectBatchTo and of its caller. (S1, never skip a nonce) every path of the loop that reaches the copy into the destination passes " +
			"the no-gap edge of the gap test (current nonce against previous nonce + 1), or bypasses it through a condition that does not depend on any nonce value; a bypass decided by comparing a nonce-valued variable with a " +
			"literal uses a legal nonce as the 'no previous transaction' marker (every uint64 is a legal nonce). When the bypass is a loop-carried flag, the flag is set on every pass that copied. (S2) what the loop carries " +
			"between calls (list position, previous nonce, flag) is written back to the fields it was read from before every return, so the second batch continues where the first stopped. (S3, gap ⇒ nothing / one in grace " +
			"period) when the stored gap flag is set the batch limit is the constant 0, or 1 only on the first batch and behind isInGracePeriod(); the flag is stored from the initial-gap test on the first batch and set on " +
			"the gap branch of the loop. (S4, at most requested) the copy is dominated by copied != limit and copied != len(destination), copied advances by one, and the caller hands over the unfilled tail " +
			"result[fill:] with fill advanced by the reported count and returns result[:fill]. (S5, the first ones in list order) the list position advances only by Next() on a pass that copied the element's value. " +
			"A sender changes score chunk by leaving the old one first. " +
			"Not decided (value-level): that the list is nonce-ordered (C25), arithmetic wrap of nonce+1, fairness between senders.",
		Run: runC26,
	})
}

func runC26(c *core.Ctx) {
	c26ScoreMoveRemovesBeforeAdding(c)
	const pkg = "storage/txcache"
	fn := anchorM(c, pkg, "txListForSender", "selectBatchTo")
	if fn == nil {
		return
	}
	c.Analysed(fname(fn))
	if len(fn.Params) < 4 {
		c.Undecided("anchor", "selectBatchTo/signature", fn.Pos(), "expected (recv, isFirstBatch, destination, batchSize)")
		return
	}
	recv, pFirst, pDest, pBatch := fn.Params[0], fn.Params[1], fn.Params[2], fn.Params[3]
	_ = recv
	// the copy
	var copyStore *ssa.Store
	core.Instrs(fn, func(in ssa.Instruction) {
		if st, ok := in.(*ssa.Store); ok {
			if ia, ok := st.Addr.(*ssa.IndexAddr); ok && ia.X == ssa.Value(pDest) {
				copyStore = st
			}
		}
	})
	if copyStore == nil {
		c.Undecided("anchor", "selectBatchTo/copy", fn.Pos(), "no store into the destination slice")
		return
	}
	loop := core.InnermostLoop(fn, copyStore.Block())
	if loop == nil {
		c.Undecided("anchor", "selectBatchTo/loop", copyStore.Pos(), "the copy is not inside a loop")
		return
	}
	hdr := loop.Header
	// reachability inside the loop body without re-entering the header
	reachIn := func(from *ssa.BasicBlock, avoid *ssa.BasicBlock) map[*ssa.BasicBlock]bool {
		seen := map[*ssa.BasicBlock]bool{}
		stack := []*ssa.BasicBlock{from}
		for len(stack) > 0 {
			b := stack[len(stack)-1]
			stack = stack[:len(stack)-1]
			if seen[b] || !loop.Body[b] || b == hdr && len(seen) > 0 || b == avoid {
				continue
			}
			seen[b] = true
			stack = append(stack, b.Succs...)
		}
		return seen
	}
	nonceValued := func(v ssa.Value) string {
		for x := range core.BackwardReachPure(v) {
			if call, ok := x.(*ssa.Call); ok && call.Call.IsInvoke() && call.Call.Method.Name() == "GetNonce" {
				return "a GetNonce() result"
			}
			if _, f := core.FieldLoad(x); f != nil && strings.Contains(strings.ToLower(f.Name()), "nonce") {
				if b, ok := f.Type().Underlying().(*types.Basic); ok && b.Info()&types.IsInteger != 0 {
					return "the nonce field " + f.Name()
				}
			}
		}
		return ""
	}
	// ---- S1 the gap test
	var gapIf *ssa.If
	for b := range loop.Body {
		ifi, ok := b.Instrs[len(b.Instrs)-1].(*ssa.If)
		if !ok {
			continue
		}
		bo, ok := ifi.Cond.(*ssa.BinOp)
		if !ok {
			continue
		}
		switch bo.Op {
		case token.GTR, token.LSS, token.GEQ, token.LEQ, token.NEQ, token.EQL:
		default:
			continue
		}
		isNonceCall := func(v ssa.Value) bool {
			call, ok := v.(*ssa.Call)
			return ok && call.Call.IsInvoke() && call.Call.Method.Name() == "GetNonce"
		}
		isPrevPlusOne := func(v ssa.Value) bool {
			add, ok := v.(*ssa.BinOp)
			if !ok || add.Op != token.ADD {
				return false
			}
			n, isC := core.ConstInt(add.Y)
			ph, isPhi := add.X.(*ssa.Phi)
			return isC && n == 1 && isPhi && ph.Block() == hdr
		}
		if isNonceCall(bo.X) && isPrevPlusOne(bo.Y) || isNonceCall(bo.Y) && isPrevPlusOne(bo.X) {
			gapIf = ifi
		}
	}
	if gapIf == nil {
		c.Fail("C26/gap-test-covers-every-copy", "selectBatchTo/gap-test", copyStore.Pos(), "no comparison of the current transaction's nonce with the previous nonce + 1 inside the copy loop: consecutive selected nonces can skip values")
	} else {
		gb := gapIf.Block()
		noGapSucc := -1
		for i, s := range gb.Succs {
			if reachIn(s, nil)[copyStore.Block()] {
				if noGapSucc >= 0 {
					noGapSucc = -2
				} else {
					noGapSucc = i
				}
			}
		}
		if noGapSucc < 0 {
			c.Undecided("C26/gap-test-covers-every-copy", "selectBatchTo/gap-test", gapIf.Pos(), "the gap test does not separate a copying branch from a non-copying one")
		} else {
			// bypass candidates
			type edge struct {
				b *ssa.BasicBlock
				s int
			}
			allowed := map[edge]bool{{gb, noGapSucc}: true}
			var flagPhi *ssa.Phi
			flagBypassOn := false
			var reject string
			for b := range loop.Body {
				ifi, ok := b.Instrs[len(b.Instrs)-1].(*ssa.If)
				if !ok || ifi == gapIf {
					continue
				}
				toGap, around := -1, -1
				for i, s := range b.Succs {
					if reachIn(s, nil)[gb] || s == gb {
						toGap = i
					} else if reachIn(s, gb)[copyStore.Block()] {
						around = i
					}
				}
				if toGap < 0 || around < 0 {
					continue
				}
				if why := nonceValued(ifi.Cond); why != "" {
					reject = fmt.Sprintf("the condition at %s that skips the gap test depends on %s - a legal nonce value is used as the 'no previous transaction' marker, so a gap after that nonce goes undetected", c.P.Pos(firstPos(b)), why)
					continue
				}
				loopCarried := false
				for x := range core.BackwardReachPure(ifi.Cond) {
					if ph, isPhi := x.(*ssa.Phi); isPhi && ph.Block() == hdr {
						loopCarried = true
					}
				}
				if !loopCarried {
					reject = fmt.Sprintf("the condition at %s that skips the gap test does not change from one pass to the next, so the test is skipped for every transaction of the batch or for none", c.P.Pos(firstPos(b)))
					continue
				}
				allowed[edge{b, around}] = true
				cond := ifi.Cond
				on := around == 0
				if u, ok := cond.(*ssa.UnOp); ok && u.Op == token.NOT {
					cond, on = u.X, !on
				}
				if ph, ok := cond.(*ssa.Phi); ok && ph.Block() == hdr {
					flagPhi, flagBypassOn = ph, on
				}
			}
			var start *ssa.BasicBlock
			for _, s := range hdr.Succs {
				if loop.Body[s] {
					start = s
				}
			}
			esc, path := core.PathQ{Fn: fn, FromBlk: start,
				ViaEdge: func(b *ssa.BasicBlock, s int) bool { return allowed[edge{b, s}] },
				Target:  func(in ssa.Instruction, _ *ssa.BasicBlock) bool { return in == ssa.Instruction(copyStore) }}.Escape()
			// the header itself may hold the first tests: paths through the header's own branch are covered by FromBlk
			detail := ""
			if esc != nil {
				detail = "a transaction is copied on a path that skips the gap test (" + c.P.PathString(path) + ")"
				if reject != "" {
					detail += ": " + reject
				}
			}
			c.Check(esc == nil, "C26/gap-test-covers-every-copy", "selectBatchTo/copy", copyStore.Pos(),
				"every copy lies behind the no-gap edge of the gap test or behind a bypass that does not depend on a nonce value", detail)
			if flagPhi != nil {
				ok, why := true, ""
				for i, p := range hdr.Preds {
					if !loop.Body[p] {
						continue
					}
					v, isC := core.ConstBool(flagPhi.Edges[i])
					if !isC || v == flagBypassOn {
						ok, why = false, fmt.Sprintf("after a pass of the loop the flag %s is not set to %v", flagPhi.Comment, !flagBypassOn)
					}
				}
				c.Check(ok, "C26/gap-test-covers-every-copy", "selectBatchTo/previous-flag-set-after-copy", flagPhi.Pos(),
					"the loop-carried flag that bypasses the gap test for the first transaction is switched after every pass", why+": the gap test stays bypassed for later transactions")
			}
		}
	}
	// ---- S5 list walked in order, one element per copy
	var start *ssa.BasicBlock
	for _, s := range hdr.Succs {
		if loop.Body[s] {
			start = s
		}
	}
	esc, path := core.PathQ{Fn: fn, FromBlk: start, Via: func(in ssa.Instruction) bool { return in == ssa.Instruction(copyStore) },
		Target: func(in ssa.Instruction, _ *ssa.BasicBlock) bool { return in == hdr.Instrs[0] }}.Escape()
	c.Check(esc == nil, "C26/list-walked-in-order", "selectBatchTo/every-pass-copies", copyStore.Pos(), "every pass of the loop that continues has copied the current element",
		"a pass of the loop continues without copying the current element ("+c.P.PathString(path)+"): the position or the counter advances past a transaction that was not selected")
	var elemPhi, copiedPhi *ssa.Phi
	for _, in := range hdr.Instrs {
		ph, ok := in.(*ssa.Phi)
		if !ok {
			continue
		}
		if core.BackwardReachPure(copyStore.Val)[ph] {
			if _, isPtr := ph.Type().Underlying().(*types.Pointer); isPtr {
				elemPhi = ph
			}
		}
		if ia := copyStore.Addr.(*ssa.IndexAddr); ia.Index == ssa.Value(ph) {
			copiedPhi = ph
		}
	}
	if elemPhi == nil || copiedPhi == nil {
		c.Undecided("C26/list-walked-in-order", "selectBatchTo/position", copyStore.Pos(), "the loop-carried list position or copy counter was not identified")
	} else {
		okE, okC := true, true
		for i, p := range hdr.Preds {
			if !loop.Body[p] {
				continue
			}
			call, isCall := elemPhi.Edges[i].(*ssa.Call)
			if !isCall || call.Call.StaticCallee() == nil || call.Call.StaticCallee().Name() != "Next" || len(call.Call.Args) != 1 || call.Call.Args[0] != ssa.Value(elemPhi) {
				okE = false
			}
			add, isAdd := copiedPhi.Edges[i].(*ssa.BinOp)
			if !isAdd || add.Op != token.ADD || add.X != ssa.Value(copiedPhi) {
				okC = false
			} else if n, isC := core.ConstInt(add.Y); !isC || n != 1 {
				okC = false
			}
		}
		c.Check(okE, "C26/list-walked-in-order", "selectBatchTo/position-advances-by-Next", elemPhi.Pos(), "the list position advances to element.Next() of the element just copied",
			"the list position carried to the next pass is not Next() of the element just copied: transactions are skipped or repeated")
		c.Check(okC, "C26/copies-bounded", "selectBatchTo/counter-advances-by-one", copiedPhi.Pos(), "the copy counter advances by exactly one per copied transaction",
			"the copy counter does not advance by exactly one per copied transaction: slots of the destination are skipped or overwritten, the reported count is wrong")
	}
	// ---- S4 bounds of the copy
	var limit ssa.Value
	if copiedPhi != nil {
		lenDest, lim := false, false
		for _, f := range core.FactsAt(copyStore.Block()) {
			if f.Op != "!=" && f.Op != "<" {
				continue
			}
			ck := core.ExprKey(copiedPhi)
			other := ""
			if f.A == ck {
				other = f.B
			} else if f.B == ck && f.Op == "!=" {
				other = f.A
			} else {
				continue
			}
			if other == "len("+core.ExprKey(pDest)+")" {
				lenDest = true
			}
		}
		for _, cd := range core.CondsAt(copyStore.Block()) {
			bo, ok := cd.V.(*ssa.BinOp)
			if !ok || bo.Op != token.EQL && bo.Op != token.NEQ && bo.Op != token.LSS && bo.Op != token.GEQ {
				continue
			}
			for _, pair := range [][2]ssa.Value{{bo.X, bo.Y}, {bo.Y, bo.X}} {
				if pair[0] == ssa.Value(copiedPhi) && core.BackwardReachPure(pair[1])[pBatch] {
					f := core.FactOf(cd)
					if f.Op == "!=" || f.Op == "<" {
						lim = true
						limit = pair[1]
					}
				}
			}
		}
		c.Check(lenDest, "C26/copies-bounded", "selectBatchTo/within-destination", copyStore.Pos(), "the copy is dominated by copied != len(destination)",
			"the copy is not dominated by a test that the counter has not reached len(destination): more than the available space is written (panic) or the caller's other slots are overwritten")
		c.Check(lim, "C26/copies-bounded", "selectBatchTo/within-batch", copyStore.Pos(), "the copy is dominated by copied != batch limit",
			"the copy is not dominated by a test of the counter against the batch limit derived from batchSize: a sender contributes more than its batch")
	}
	// ---- S3 gap limits the batch
	gapField := c.P.Field(pkg, "txListForSender", "copyDetectedGap")
	if gapField == nil {
		c.Undecided("anchor", "txListForSender.copyDetectedGap", fn.Pos(), "field not found")
	} else if limit != nil {
		ph, isPhi := limit.(*ssa.Phi)
		var gapIfB *ssa.BasicBlock
		gapTrue := -1
		for _, b := range fn.Blocks {
			ifi, ok := b.Instrs[len(b.Instrs)-1].(*ssa.If)
			if !ok || loop.Body[b] {
				continue
			}
			cond, on := ifi.Cond, 0
			if u, ok := cond.(*ssa.UnOp); ok && u.Op == token.NOT {
				cond, on = u.X, 1
			}
			if _, f := core.FieldLoad(cond); f == gapField {
				gapIfB, gapTrue = b, on
			}
		}
		if !isPhi || gapIfB == nil {
			c.Fail("C26/gap-limits-batch", "selectBatchTo/limit", fn.Pos(), "the batch limit used by the loop is not chosen by a branch on the stored gap flag copyDetectedGap: a sender with a nonce gap still contributes transactions")
		} else {
			T := gapIfB.Succs[gapTrue]
			ok, why := true, ""
			n := 0
			for i, p := range ph.Block().Preds {
				if !(T == p || T.Dominates(p)) {
					continue
				}
				n++
				v, isC := core.ConstInt(ph.Edges[i])
				switch {
				case !isC || v < 0 || v > 1:
					ok, why = false, "with the gap flag set the batch limit is not the constant 0 or 1"
				case v == 1:
					first, grace := false, false
					for _, cd := range core.CondsOnEdgeTo(p, ph.Block()) {
						if cd.V == ssa.Value(pFirst) && cd.Taken {
							first = true
						}
						if call, isCall := cd.V.(*ssa.Call); isCall && cd.Taken && call.Call.StaticCallee() != nil && call.Call.StaticCallee().Name() == "isInGracePeriod" {
							grace = true
						}
					}
					if !first || !grace {
						ok, why = false, "the limit 1 under a detected gap is not confined to the first batch of a sender in its grace period"
					}
				}
			}
			if n == 0 {
				ok, why = false, "no value of the batch limit is chosen under the gap flag"
			}
			c.Check(ok, "C26/gap-limits-batch", "selectBatchTo/limit", ph.Pos(), "under the gap flag the limit is 0, or 1 on the first batch in the grace period", why+": a sender whose transactions cannot be executed yet contributes to the selection")
		}
		// the flag is stored from the initial-gap test on the first batch and set on the gap branch
		initStored, midStored := false, false
		core.Instrs(fn, func(in ssa.Instruction) {
			st, ok := in.(*ssa.Store)
			if !ok {
				return
			}
			fa, ok := st.Addr.(*ssa.FieldAddr)
			if !ok || core.FieldOfAddr(fa) != gapField {
				return
			}
			if call, isCall := st.Val.(*ssa.Call); isCall && call.Call.StaticCallee() != nil && call.Call.StaticCallee().Name() == "verifyInitialGapOnSelectionStart" {
				for _, cd := range core.CondsAt(st.Block()) {
					if cd.V == ssa.Value(pFirst) && cd.Taken {
						initStored = true
					}
				}
			}
			if v, isC := core.ConstBool(st.Val); isC && v && gapIf != nil {
				gb := gapIf.Block()
				for _, s := range gb.Succs {
					if (s == st.Block() || s.Dominates(st.Block())) && !reachIn(s, nil)[copyStore.Block()] {
						midStored = true
					}
				}
			}
		})
		// ... or by a resetting helper called on the first batch that stores it on each of its paths
		if !initStored {
			for _, in := range core.CallsIn(fn, func(_ ssa.Instruction, cc *ssa.CallCommon) bool {
				h := cc.StaticCallee()
				return h != nil && h.Blocks != nil && h.Pkg == fn.Pkg && h != fn
			}) {
				onFirst := false
				for _, cd := range core.CondsAt(in.Block()) {
					if cd.V == ssa.Value(pFirst) && cd.Taken {
						onFirst = true
					}
				}
				if !onFirst {
					continue
				}
				h := core.CallOf(in).StaticCallee()
				core.Instrs(h, func(hin ssa.Instruction) {
					st, ok := hin.(*ssa.Store)
					if !ok {
						return
					}
					fa, ok := st.Addr.(*ssa.FieldAddr)
					if !ok || core.FieldOfAddr(fa) != gapField {
						return
					}
					call, isCall := st.Val.(*ssa.Call)
					if !isCall || call.Call.StaticCallee() == nil || call.Call.StaticCallee().Name() != "verifyInitialGapOnSelectionStart" {
						return
					}
					all := true
					for _, r := range core.Returns(h) {
						if !st.Block().Dominates(r.Block()) {
							all = false
						}
					}
					if all {
						initStored = true
						c.Analysed(fname(h))
					}
				})
			}
		}
		c.Check(initStored, "C26/gap-limits-batch", "selectBatchTo/initial-gap-recorded", fn.Pos(), "on the first batch the result of verifyInitialGapOnSelectionStart is stored in copyDetectedGap",
			"the first batch does not store the result of the initial-gap test in copyDetectedGap: a sender whose lowest nonce is above its account nonce is selected from")
		c.Check(midStored || gapIf == nil, "C26/gap-limits-batch", "selectBatchTo/middle-gap-recorded", fn.Pos(), "the gap branch of the loop sets copyDetectedGap",
			"the gap branch of the copy loop does not set copyDetectedGap: the next batch of the same selection continues after the gap")
	}
	// ---- S2 write-back
	for _, in := range hdr.Instrs {
		ph, ok := in.(*ssa.Phi)
		if !ok {
			continue
		}
		var field *types.Var
		for i, p := range hdr.Preds {
			if loop.Body[p] {
				continue
			}
			// the value the loop starts from: a field of the receiver, possibly through phis
			seen := map[ssa.Value]bool{}
			var look func(v ssa.Value)
			look = func(v ssa.Value) {
				if seen[v] {
					return
				}
				seen[v] = true
				if base, f := core.FieldLoad(v); f != nil && base == ssa.Value(fn.Params[0]) {
					field = f
				}
				if p2, isPhi := v.(*ssa.Phi); isPhi {
					for _, e := range p2.Edges {
						look(e)
					}
				}
			}
			look(ph.Edges[i])
		}
		if field == nil {
			continue
		}
		ok2 := true
		var at token.Pos
		for _, r := range core.Returns(fn) {
			found := false
			core.Instrs(fn, func(in2 ssa.Instruction) {
				st, isSt := in2.(*ssa.Store)
				if !isSt {
					return
				}
				fa, isFA := st.Addr.(*ssa.FieldAddr)
				if !isFA || core.FieldOfAddr(fa) != field || fa.X != ssa.Value(fn.Params[0]) {
					return
				}
				if st.Val == ssa.Value(ph) && core.DominatesInstr(st, r) {
					found = true
				}
			})
			if !found {
				ok2, at = false, r.Pos()
			}
		}
		c.Check(ok2, "C26/selection-state-written-back", "selectBatchTo/"+field.Name(), ph.Pos(), "the loop's final "+ph.Comment+" is stored back to "+field.Name()+" before every return",
			"the value of "+ph.Comment+" at the end of the loop is not stored back to "+field.Name()+" before the return at "+c.P.Pos(at)+": the next batch of the same selection restarts from stale state (gap detection and position are lost between batches)")
	}
	c.Floor("C26/selection-state-written-back", 2)
	c.Floor("C26/gap-test-covers-every-copy", 1)
	c.Floor("C26/list-walked-in-order", 2)
	c.Floor("C26/copies-bounded", 3)
	c.Floor("C26/gap-limits-batch", 3)
	c26Caller(c)
}

// c26Caller: doSelectTransactions hands selectBatchTo the unfilled tail of the result and returns the filled prefix.
func c26Caller(c *core.Ctx) {
	const pkg = "storage/txcache"
	fn := anchorM(c, pkg, "TxCache", "doSelectTransactions")
	sel := c.P.Method(pkg, "txListForSender", "selectBatchTo")
	if fn == nil || sel == nil {
		return
	}
	c.Analysed(fname(fn))
	n := 0
	for _, in := range core.CallsIn(fn, func(in ssa.Instruction, cc *ssa.CallCommon) bool { return cc.StaticCallee() == sel }) {
		n++
		call := in.(*ssa.Call)
		sl, isSl := call.Call.Args[2].(*ssa.Slice)
		ok, why := false, "the destination handed to selectBatchTo is not a tail result[fill:] of the result buffer"
		var fill *ssa.Phi
		if isSl && sl.Low != nil && sl.High == nil {
			if ph, isPhi := sl.Low.(*ssa.Phi); isPhi {
				fill = ph
			}
		}
		if fill != nil {
			// fill advances by the count reported by this call
			adv := false
			for x := range core.BackwardReachPure(fill) {
				if add, isAdd := x.(*ssa.BinOp); isAdd && add.Op == token.ADD && add.X == ssa.Value(fill) {
					for y := range core.BackwardReach(add.Y) {
						if y == ssa.Value(call) {
							adv = true
						}
					}
				}
			}
			ok = adv
			why = "the fill index of the result buffer does not advance by the count reported by selectBatchTo: later batches overwrite earlier ones or leave holes"
			// the returned slice is the filled prefix
			if ok {
				for _, r := range core.Returns(fn) {
					rs, isRS := core.RetOperand(r, 0).(*ssa.Slice)
					if !isRS || rs.X != sl.X || rs.High == nil || !core.BackwardReachPure(rs.High)[fill] {
						ok, why = false, "the returned slice is not the filled prefix result[:fill] of the buffer the batches were copied into"
					}
				}
			}
			// the buffer has room for exactly the requested number
			if ok {
				ms := false
				for x := range core.BackwardReachPure(sl.X) {
					if mk, isMk := x.(*ssa.MakeSlice); isMk && len(fn.Params) > 1 && mk.Len == ssa.Value(fn.Params[1]) {
						ms = true
					}
				}
				if !ms {
					ok, why = false, "the result buffer is not allocated with exactly numRequested slots"
				}
			}
		}
		c.Check(ok, "C26/destination-is-unfilled-tail", fmt.Sprintf("doSelectTransactions/selectBatchTo#%d", n), in.Pos(),
			"the batch is copied into result[fill:], fill advances by the reported count, result[:fill] of a numRequested-slot buffer is returned", why)
	}
	c.Floor("C26/destination-is-unfilled-tail", 1)
	// the initial-gap test compares with the account nonce last notified: every notification is taken
	// over (nonces go down on reverts, so "only forward" filters make a gapped sender selectable)
	if nf := anchorM(c, pkg, "txListForSender", "notifyAccountNonce"); nf != nil && len(nf.Params) == 2 {
		c.Analysed(fname(nf))
		setsNonce := func(in ssa.Instruction) bool {
			cc := core.CallOf(in)
			if cc == nil || len(cc.Args) < 2 || cc.Args[1] != ssa.Value(nf.Params[1]) {
				return false
			}
			fa, ok := cc.Args[0].(*ssa.FieldAddr)
			return ok && core.FieldOfAddr(fa).Name() == "accountNonce" && core.CallDesc(cc).Name == "Set"
		}
		setsKnown := func(in ssa.Instruction) bool {
			cc := core.CallOf(in)
			if cc == nil || len(cc.Args) < 1 {
				return false
			}
			fa, ok := cc.Args[0].(*ssa.FieldAddr)
			return ok && core.FieldOfAddr(fa).Name() == "accountNonceKnown" && (core.CallDesc(cc).Name == "Set" || core.CallDesc(cc).Name == "SetValue")
		}
		e1, p1 := core.PathQ{Fn: nf, Via: setsNonce, Target: core.AnyReturn}.Escape()
		e2, _ := core.PathQ{Fn: nf, Via: setsKnown, Target: core.AnyReturn}.Escape()
		c.Check(e1 == nil && e2 == nil, "C26/account-nonce-follows-notification", "txListForSender.notifyAccountNonce", nf.Pos(),
			"every return has stored the notified nonce and marked it known",
			"a notification can be dropped without storing the nonce ("+c.P.PathString(p1)+"): the initial-gap test then compares with an outdated account nonce (e.g. after a revert lowered it) and a sender whose lowest pooled nonce is above its account nonce is selected from")
	}
}

// c26ScoreMoveRemovesBeforeAdding: the snapshot a selection works from lists every sender once
// because a sender sits in exactly one score chunk. Moving a sender between chunks takes it out of
// the old chunk before it is put into the new one: the other order lets a concurrent snapshot see it
// twice, and its transactions are selected twice.
func c26ScoreMoveRemovesBeforeAdding(c *core.Ctx) {
	fn := anchorM(c, "storage/txcache/maps", "BucketSortedMap", "NotifyScoreChange")
	if fn == nil {
		return
	}
	removes := func(in ssa.Instruction) bool {
		cc := core.CallOf(in)
		if cc == nil {
			return false
		}
		n := core.CallDesc(cc).Name
		return n == "removeFromScoreChunk" || n == "removeItem"
	}
	n := 0
	core.Instrs(fn, func(in ssa.Instruction) {
		cc := core.CallOf(in)
		if cc == nil || core.CallDesc(cc).Name != "setItem" {
			return
		}
		n++
		esc, path := core.PathQ{Fn: fn, Via: removes, Target: func(x ssa.Instruction, _ *ssa.BasicBlock) bool { return x == in }}.Escape()
		c.Check(esc == nil, "C26/score-move-removes-before-adding", fmt.Sprintf("BucketSortedMap.NotifyScoreChange/setItem#%d", n), in.Pos(),
			"the sender is removed from its old score chunk before it is added to the new one",
			"a sender is added to its new score chunk before it is removed from the old one ("+c.P.PathString(path)+"): a snapshot taken in between lists the sender twice and its transactions are selected twice")
	})
	c.Floor("C26/score-move-removes-before-adding", 1)
}
