package rules

import (
	"fmt"
	"go/token"
	"strings"

	"golang.org/x/tools/go/ssa"

	"verif/checker/internal/core"
)

func init() {
	register(&Rule{
		ID:    "C22",
		Title: "Estimated gas limit is affordable",
		Pkgs:  []string{"process/economics", "process/transaction"},
		Explain: "Decides that economicsData.ComputeGasLimitBasedOnBalance has the shape of an inverse of the fee function - the structural necessary conditions of 'fee(estimate) <= balance - value'. " +
			"(S1) the amount available for fees is Sub(balance, tx.GetValue()); the dividend of every big quotient in the estimator derives from it by subtractions only, never from the raw balance, and nothing adds to it in place. " +
			"(S2) a successful return lies behind the dominance fact moveBalanceFee <= available (read from the big.Int Cmp tests). " +
			"(S3) the divisor of each quotient is the transaction's gas price (tx.GetGasPrice, GasPriceForMove(tx) or GasPriceForProcessing(tx)); when the divisor is the modifier-reduced processing price, or when the returned estimate adds the move-balance gas, " +
			"the dividend has had the move-balance fee (the result of ComputeMoveBalanceFee(tx)) subtracted; the estimate returned is the quotient plus at most that move-balance gas - no other term. " +
			"With these, fee = moveFee + procPrice*floor((avail-moveFee)/procPrice) <= avail (modifier branch) and price*floor(avail/price) <= avail (plain branch) by construction. " +
			"Not decided (value-level): the float rounding inside GasPriceForProcessing, truncation of a quotient above 2^64, wrap of the final uint64 sum (each of these only lowers the estimate), a zero divisor.",
		Run: runC22,
	})
}

// c22EstimatorFedAPricedTransaction: the estimate is made for the transaction the node will then
// simulate. The cost estimator fills in a missing gas price before it asks for the gas limit: every
// path of addMissingFieldsIfNeeded to getTxGasLimit passes the store of the minimum gas price or
// the edge on which the price is known to be non-zero. With the price still zero the fee of any
// gas limit is zero, the affordability branch is skipped and the block maximum is returned for a
// transaction that is then given the minimum price - far beyond the sender's balance.
func c22EstimatorFedAPricedTransaction(c *core.Ctx) {
	fn := anchorM(c, "process/transaction", "transactionCostEstimator", "addMissingFieldsIfNeeded")
	if fn == nil || len(fn.Params) < 2 {
		return
	}
	tx := ssa.Value(fn.Params[1])
	isPrice := func(v ssa.Value) bool {
		base, f := core.FieldLoad(v)
		return f != nil && f.Name() == "GasPrice" && base == tx
	}
	priced := func(in ssa.Instruction) bool {
		st, ok := in.(*ssa.Store)
		if !ok {
			return false
		}
		fa, ok := st.Addr.(*ssa.FieldAddr)
		return ok && core.FieldOfAddr(fa).Name() == "GasPrice" && fa.X == tx
	}
	nonZero := func(b *ssa.BasicBlock, si int) bool {
		ifi, ok := b.Instrs[len(b.Instrs)-1].(*ssa.If)
		if !ok {
			return false
		}
		bo, ok := ifi.Cond.(*ssa.BinOp)
		if !ok {
			return false
		}
		z := func(v ssa.Value) bool { k, isC := core.ConstInt(v); return isC && k == 0 }
		if !((isPrice(bo.X) && z(bo.Y)) || (isPrice(bo.Y) && z(bo.X))) {
			return false
		}
		switch bo.Op {
		case token.EQL:
			return si == 1
		case token.NEQ, token.GTR:
			return si == 0
		}
		return false
	}
	n := 0
	core.Instrs(fn, func(in ssa.Instruction) {
		cc := core.CallOf(in)
		if cc == nil || cc.StaticCallee() == nil || cc.StaticCallee().Name() != "getTxGasLimit" {
			return
		}
		n++
		esc, path := core.PathQ{Fn: fn, Via: priced, ViaEdge: nonZero, Target: func(x ssa.Instruction, _ *ssa.BasicBlock) bool { return x == in }}.Escape()
		c.Check(esc == nil, "C22/estimator-fed-a-priced-transaction", fmt.Sprintf("transactionCostEstimator.addMissingFieldsIfNeeded/getTxGasLimit#%d", n), in.Pos(),
			"the gas price is filled in (or known non-zero) before the gas limit is estimated",
			"the gas limit is estimated while the transaction's gas price can still be zero ("+c.P.PathString(path)+"): every fee is zero, the affordability test is skipped and the block maximum is returned for a transaction that gets the minimum price afterwards - its fee is far above the sender's balance")
	})
	c.Floor("C22/estimator-fed-a-priced-transaction", 1)
}

func runC22(c *core.Ctx) {
	c22EstimatorFedAPricedTransaction(c)
	const pkg = "process/economics"
	fn := anchorM(c, pkg, "economicsData", "ComputeGasLimitBasedOnBalance")
	if fn == nil {
		return
	}
	if len(fn.Params) != 3 {
		c.Undecided("C22/shape", fname(fn), fn.Pos(), "expected (receiver, tx, balance)")
		return
	}
	tx, balance := ssa.Value(fn.Params[1]), ssa.Value(fn.Params[2])
	bigM := func(v ssa.Value) (*ssa.Call, string) {
		call, ok := v.(*ssa.Call)
		if !ok {
			return nil, ""
		}
		g := call.Call.StaticCallee()
		if g == nil || g.Signature.Recv() == nil || !strings.HasSuffix(g.Signature.Recv().Type().String(), "math/big.Int") {
			return nil, ""
		}
		return call, g.Name()
	}
	onTx := func(v ssa.Value, name string) bool { // tx.<name>()
		call, ok := v.(*ssa.Call)
		return ok && call.Call.IsInvoke() && call.Call.Method.Name() == name && call.Call.Value == tx
	}
	ownOnTx := func(v ssa.Value, name string) bool { // ed.<name>(tx)
		call, ok := v.(*ssa.Call)
		if !ok {
			return false
		}
		g := call.Call.StaticCallee()
		return g != nil && g.Name() == name && g.Signature.Recv() != nil && len(call.Call.Args) == 2 && call.Call.Args[1] == tx
	}
	// the available amount
	var avail *ssa.Call
	var moveFee ssa.Value
	core.Instrs(fn, func(in ssa.Instruction) {
		v, ok := in.(ssa.Value)
		if !ok {
			return
		}
		if call, name := bigM(v); call != nil && name == "Sub" && len(call.Call.Args) == 3 && call.Call.Args[1] == balance && onTx(call.Call.Args[2], "GetValue") {
			avail = call
		}
		if ownOnTx(v, "ComputeMoveBalanceFee") {
			moveFee = v
		}
	})
	c.Check(avail != nil, "C22/available-is-balance-minus-value", fname(fn), fn.Pos(),
		"the amount available for fees is Sub(balance, tx.GetValue())",
		"no Sub(balance, tx.GetValue()) in the estimator: the transferred value is not set aside before the gas that the rest can buy is computed - the estimated limit costs more than balance - value")
	if avail == nil {
		return
	}
	// derived(v): v is the available amount or a difference whose minuend is; subFee: the move-balance fee was subtracted on the way
	var derived func(v ssa.Value, seen map[ssa.Value]bool) (ok, subFee bool)
	derived = func(v ssa.Value, seen map[ssa.Value]bool) (bool, bool) {
		if v == ssa.Value(avail) {
			return true, false
		}
		if seen[v] {
			return false, false
		}
		seen[v] = true
		if ph, isPhi := v.(*ssa.Phi); isPhi {
			all, fee := true, true
			for _, e := range ph.Edges {
				o, f := derived(e, seen)
				all, fee = all && o, fee && f
			}
			return all, all && fee
		}
		call, name := bigM(v)
		if call == nil {
			return false, false
		}
		switch name {
		case "Sub":
			o, f := derived(call.Call.Args[1], seen)
			return o, o && (f || (moveFee != nil && call.Call.Args[2] == moveFee))
		case "Set":
			return derived(call.Call.Args[1], seen)
		}
		return false, false
	}
	// nothing adds to the available amount in place
	readers := map[string]bool{"Cmp": true, "CmpAbs": true, "Sign": true, "String": true, "Uint64": true, "Int64": true, "Bytes": true, "BitLen": true, "IsUint64": true, "Text": true}
	okInPlace := ""
	core.Instrs(fn, func(in ssa.Instruction) {
		v, isV := in.(ssa.Value)
		if !isV {
			return
		}
		call, name := bigM(v)
		if call == nil || readers[name] || name == "Sub" || name == "Div" || name == "Quo" {
			return
		}
		if o, _ := derived(call.Call.Args[0], map[ssa.Value]bool{}); o {
			okInPlace = name + " at " + c.P.Pos(call.Pos())
		}
	})
	c.Check(okInPlace == "", "C22/available-only-shrinks", fname(fn), fn.Pos(),
		"the available amount is only read, subtracted from or divided",
		"the available amount is overwritten in place ("+okInPlace+"): the gas is estimated from more than balance - value")

	// quotients
	type quot struct {
		call           *ssa.Call
		subFee, modded bool
		isUint         bool // the call itself is the uint64 number of units (a helper that divides and converts)
	}
	var quots []quot
	nq := 0
	addQuot := func(call *ssa.Call, dividend, price ssa.Value, divisorText string, isUint bool) {
		nq++
		c.Sites++
		construct := fmt.Sprintf("%s/quotient#%d", fname(fn), nq)
		o, subFee := derived(dividend, map[ssa.Value]bool{})
		c.Check(o, "C22/dividend-from-available", construct, call.Pos(),
			"the dividend derives from balance - value by subtractions",
			"the dividend "+core.ExprKey(dividend)+" is not derived from Sub(balance, tx.GetValue()) by subtractions: the estimate spends what the transfer itself needs")
		plain := price != nil && (onTx(price, "GetGasPrice") || ownOnTx(price, "GasPriceForMove"))
		modded := price != nil && ownOnTx(price, "GasPriceForProcessing")
		c.Check(plain || modded, "C22/divisor-is-the-gas-price", construct, call.Pos(),
			"the divisor is the transaction's gas price (plain or for processing)",
			"the divisor "+divisorText+" is not the transaction's gas price: gas bought = amount / price is the only inverse of fee = gas x price")
		if modded {
			c.Check(subFee, "C22/reduced-price-only-for-the-rest", construct, call.Pos(),
				"the processing price divides what is left after the move-balance fee",
				"the amount divided by the modifier-reduced processing price has not had the move-balance fee subtracted: the move-balance part of the gas is charged at the full price, so the estimated limit costs more than the amount available")
		}
		quots = append(quots, quot{call, subFee, modded, isUint})
	}
	// priceOf: the uint64 price a *big.Int divisor was made from (SetUint64)
	priceOf := func(divisor ssa.Value) ssa.Value {
		if d, dn := bigM(divisor); d != nil && dn == "SetUint64" {
			return stripConv(d.Call.Args[1])
		}
		return nil
	}
	// quotHelper: a function of the package whose only result is Div(_, dividendParam, SetUint64(_, priceParam)),
	// possibly converted with Uint64(): a call of it is a quotient of its arguments
	quotHelper := func(call *ssa.Call) (dividend, price ssa.Value, isUint, ok bool) {
		h := call.Call.StaticCallee()
		if h == nil || h.Blocks == nil || h.Pkg != fn.Pkg || h.Signature.Results().Len() != 1 {
			return
		}
		rets := core.Returns(h)
		if len(rets) != 1 {
			return
		}
		rv := core.RetOperand(rets[0], 0)
		if u, name := bigM(rv); u != nil && name == "Uint64" {
			rv, isUint = u.Call.Args[0], true
		}
		d, name := bigM(rv)
		if d == nil || (name != "Div" && name != "Quo") || len(d.Call.Args) != 3 {
			return
		}
		paramArg := func(v ssa.Value) ssa.Value {
			for i, p := range h.Params {
				if ssa.Value(p) == v && i < len(call.Call.Args) {
					return call.Call.Args[i]
				}
			}
			return nil
		}
		dividend = paramArg(d.Call.Args[1])
		if pv := priceOf(d.Call.Args[2]); pv != nil {
			if a := paramArg(pv); a != nil {
				price = stripConv(a)
			}
		} else if a := paramArg(d.Call.Args[2]); a != nil {
			price = priceOf(a)
		}
		// nothing else in the helper touches the operands
		extra := false
		core.Instrs(h, func(in ssa.Instruction) {
			if v, isV := in.(ssa.Value); isV {
				if bc, bn := bigM(v); bc != nil && bc != d && bn != "SetUint64" && bn != "Uint64" {
					extra = true
				}
			}
		})
		ok = dividend != nil && price != nil && !extra
		if ok {
			c.Analysed(fname(h))
		}
		return
	}
	core.Instrs(fn, func(in ssa.Instruction) {
		v, isV := in.(ssa.Value)
		if !isV {
			return
		}
		if hc, isCall := v.(*ssa.Call); isCall {
			if dividend, price, isUint, ok := quotHelper(hc); ok {
				addQuot(hc, dividend, price, core.ExprKey(price), isUint)
				return
			}
		}
		call, name := bigM(v)
		if call == nil || (name != "Div" && name != "Quo") || len(call.Call.Args) != 3 {
			return
		}
		addQuot(call, call.Call.Args[1], priceOf(call.Call.Args[2]), core.ExprKey(call.Call.Args[2]), false)
	})
	c.Floor("C22/dividend-from-available", 1)

	// success returns
	nr := 0
	for _, r := range core.Returns(fn) {
		if !core.NilReturn(r, nil) {
			continue
		}
		nr++
		construct := fmt.Sprintf("%s/success#%d", fname(fn), nr)
		// guard: moveFee <= available
		guarded := false
		for _, cd := range core.CondsAt(r.Block()) {
			bo, isBo := cd.V.(*ssa.BinOp)
			if !isBo {
				continue
			}
			for _, side := range []ssa.Value{bo.X, bo.Y} {
				cmp, name := bigM(side)
				if cmp == nil || name != "Cmp" || moveFee == nil {
					continue
				}
				f := core.FactOf(cd)
				key := core.ExprKey(cmp)
				a0, _ := derived(cmp.Call.Args[0], map[ssa.Value]bool{})
				a1, _ := derived(cmp.Call.Args[1], map[ssa.Value]bool{})
				if ub, has := f.UpperBound(key); has && ub <= 0 && cmp.Call.Args[0] == moveFee && a1 {
					guarded = true
				}
				if lb, has := f.LowerBound(key); has && lb >= 0 && a0 && cmp.Call.Args[1] == moveFee {
					guarded = true
				}
			}
		}
		c.Check(guarded, "C22/success-only-with-funds-for-the-move", construct, r.Pos(),
			"a gas limit is returned only when moveBalanceFee <= balance - value",
			"a gas limit is returned without the test moveBalanceFee <= balance - value having succeeded: the remainder is negative, its quotient's Uint64() is the absolute value, and the estimate costs more than the sender has")
		// the estimate: quotient.Uint64() [+ ComputeGasLimit(tx)]
		var terms []ssa.Value
		var split func(v ssa.Value)
		split = func(v ssa.Value) {
			if bo, isBo := v.(*ssa.BinOp); isBo && bo.Op == token.ADD {
				split(bo.X)
				split(bo.Y)
				return
			}
			terms = append(terms, v)
		}
		split(core.RetOperand(r, 0))
		var q *quot
		moveGas, other := false, ""
		for _, t := range terms {
			viaHelper := false
			for i := range quots {
				if quots[i].isUint && ssa.Value(quots[i].call) == t {
					if q != nil {
						other = "two quotients"
					}
					q, viaHelper = &quots[i], true
				}
			}
			if viaHelper {
				continue
			}
			if u, name := bigM(t); u != nil && name == "Uint64" {
				for i := range quots {
					if ssa.Value(quots[i].call) == u.Call.Args[0] {
						if q != nil {
							other = "two quotients"
						}
						q = &quots[i]
					}
				}
				if q == nil {
					other = core.ExprKey(t)
				}
				continue
			}
			if ownOnTx(t, "ComputeGasLimit") && !moveGas {
				moveGas = true
				continue
			}
			other = core.ExprKey(t)
		}
		c.Check(q != nil && other == "", "C22/estimate-is-the-quotient", construct, r.Pos(),
			"the estimate is quotient.Uint64(), plus at most the move-balance gas",
			"the returned estimate contains a term that is not the quotient or the move-balance gas ("+other+"): every extra unit of gas costs its price on top of the amount available")
		if q != nil && moveGas {
			c.Check(q.subFee, "C22/move-gas-added-only-if-paid-for", construct, r.Pos(),
				"the move-balance gas is added to a quotient of the amount left after the move-balance fee",
				"the move-balance gas is added to the quotient of the whole available amount: that gas is counted twice, the estimated limit costs the amount available plus the move-balance fee")
		}
	}
	c.Floor("C22/success-only-with-funds-for-the-move", 1)
	c.Floor("C22/estimate-is-the-quotient", 1)
}
