package rules

import (
	"fmt"
	"go/types"

	"golang.org/x/tools/go/ssa"

	"verif/checker/internal/core"
)

func init() {
	register(&Rule{
		ID:    "C15",
		Title: "Consensus groups are well-formed and reproducible",
		Pkgs:  []string{"sharding"},
		Explain: "Decides the reproducibility half structurally. (S1) no map-iteration order and no time/rand/select can influence the group: every map range in the cone of ComputeConsensusGroup " +
			"(both coordinators, selectValidators, the selection provider, expandList) is classified order-independent. (S2) 'with or without the group cache': the cache key derives from all four inputs " +
			"(randomness, round, shard, epoch), the value cached on the miss path is the very value returned, a hit returns the cached value, and the cache is cleared on every EpochStartPrepare that " +
			"installed a new configuration (Clear() after setNodesPerShards on every path to the exit). A key that omits an input, or a cache surviving an epoch change, makes a node answer with a group computed for other inputs. " +
			"The rating-aware constructor rebuilds the selectors of nodesConfig[currentEpoch]. " +
			"Not decided (value-level): group size, distinctness, membership in the eligible list, leader position.",
		Run: runC15,
	})
}

func runC15(c *core.Ctx) {
	c15RaterSelectorsForCurrentEpoch(c)
	c15SelectionStatePrivate(c)
	cone := shardingCone(c, [][2]string{{"indexHashedNodesCoordinator", "ComputeConsensusGroup"}, {"indexHashedNodesCoordinatorWithRater", "ComputeAdditionalLeaving"},
		{"", "selectValidators"}, {"SelectionBasedProvider", "Get"}})
	n := checkMapOrder(c, "C15/map-order-independent", cone, nil)
	checkNondet(c, "C15/no-nondeterminism-source", cone, nil)
	checkSortComparators(c, "C15/sort-comparator-consistent", cone)
	c.Note("cone: %d functions, %d map-range loops", len(cone), n)

	fn := anchorM(c, "sharding", "indexHashedNodesCoordinator", "ComputeConsensusGroup")
	if fn == nil {
		return
	}
	// S2a key completeness
	var keyV ssa.Value
	puts := core.CallsIn(fn, func(in ssa.Instruction, cc *ssa.CallCommon) bool {
		return isInvoke(cc, "Put") && isRecvField(fn, cc.Value, "consensusGroupCacher")
	})
	searches := callsMatching(fn, "sharding", "indexHashedNodesCoordinator", "searchConsensusForKey")
	if len(puts) != 1 || len(searches) != 1 {
		c.Fail("C15/cache-key-complete", "indexHashedNodesCoordinator.ComputeConsensusGroup", fn.Pos(), "expected exactly one cache lookup and one cache insert")
		return
	}
	putCC := core.CallOf(puts[0])
	keyV = putCC.Args[0]
	sKey := core.CallOf(searches[0]).Args[1]
	c.Check(keyV == sKey, "C15/cache-key-complete", "ComputeConsensusGroup/same-key", puts[0].Pos(), "lookup and insert use the same key value", "the cache is read and written under different keys")
	reach := core.BackwardReachPure(keyV)
	for i, pn := range []string{"randomness", "round", "shardID", "epoch"} {
		p := fn.Params[i+1]
		c.Check(reach[p], "C15/cache-key-complete", "ComputeConsensusGroup/key⊇"+pn, puts[0].Pos(),
			"the cache key derives from "+pn, "the cache key does not depend on "+pn+": groups computed for different "+pn+" values are served from the same cache entry")
		if p.Name() != pn {
			c.Note("parameter %d of ComputeConsensusGroup is named %s (expected %s)", i+1, p.Name(), pn)
		}
	}
	// S2b cached value is the returned value on the miss path; a hit returns the looked-up value
	okVal := false
	for _, r := range core.Returns(fn) {
		if core.RetOperand(r, 0) == core.Strip(putCC.Args[1]) && core.DominatesInstr(puts[0], r) {
			okVal = true
		}
	}
	c.Check(okVal, "C15/cache-coherent", "ComputeConsensusGroup/miss-path", puts[0].Pos(), "the value inserted in the cache is the value returned", "the value put in the cache is not the value returned on the miss path: hit and miss answers differ")
	sres := searches[0].(ssa.Value)
	okHit := false
	for _, r := range core.Returns(fn) {
		if core.RetOperand(r, 0) == sres {
			okHit = true
		}
	}
	c.Check(okHit, "C15/cache-coherent", "ComputeConsensusGroup/hit-path", searches[0].Pos(), "a cache hit returns the cached value", "the hit path does not return the cached value")
	// S2c cache cleared on epoch change
	if ep := anchorM(c, "sharding", "indexHashedNodesCoordinator", "EpochStartPrepare"); ep != nil {
		sets := callsMatching(ep, "sharding", "indexHashedNodesCoordinator", "setNodesPerShards")
		for i, s := range sets {
			mustPass(c, ep, "C15/cache-cleared-on-epoch-change", fmt.Sprintf("EpochStartPrepare#%d", i), s, func(in ssa.Instruction) bool {
				cc := core.CallOf(in)
				return cc != nil && isInvoke(cc, "Clear") && isRecvField(ep, cc.Value, "consensusGroupCacher")
			}, core.AnyReturn, nil, "after a new configuration was installed, the group cache is cleared before EpochStartPrepare returns")
		}
		if len(sets) == 0 {
			c.Fail("C15/cache-cleared-on-epoch-change", "EpochStartPrepare", ep.Pos(), "setNodesPerShards is no longer called")
		}
	}
	// S3 registry round trip: a node restarted from the saved registry must hold the same validators
	// (public key, selection chances, index) as its peers: every field of SerializableValidator is
	// read by every function that rebuilds validators from it and flows into NewValidator
	if sv := c.P.Named("sharding", "SerializableValidator"); sv != nil {
		st := sv.Underlying().(*types.Struct)
		readers := 0
		for _, rf := range c.P.FuncsOfPkg("sharding") {
			var ctor []ssa.Instruction
			for _, in := range callsMatching(rf, "sharding", "", "NewValidator") {
				cc := core.CallOf(in)
				fromSV := false
				for _, a := range cc.Args {
					if b, f := core.FieldLoad(a); f != nil && namedElem(b.Type()) == sv {
						fromSV = true
					}
				}
				if fromSV {
					ctor = append(ctor, in)
				}
			}
			for i, in := range ctor {
				readers++
				c.Analysed(core.QualName(rf))
				cc := core.CallOf(in)
				for k := 0; k < st.NumFields(); k++ {
					f := st.Field(k)
					used := false
					for _, a := range cc.Args {
						for v := range core.BackwardReach(a) {
							if _, lf := core.FieldLoad(v); lf == f {
								used = true
							}
						}
					}
					c.Check(used, "C15/registry-round-trip", fmt.Sprintf("%s#%d/SerializableValidator.%s", fname(rf), i, f.Name()), in.Pos(),
						"the saved "+f.Name()+" is restored into the validator", "a validator rebuilt from the saved registry does not take its "+f.Name()+" from the registry entry: a node restarted in-epoch computes with different "+f.Name()+" than its peers")
				}
			}
		}
		if readers == 0 {
			c.Undecided("C15/registry-round-trip", "SerializableValidator", 0, "no function rebuilding validators from SerializableValidator found")
		}
	}
	c.Floor("C15/registry-round-trip", 3)
	c.Floor("C15/cache-key-complete", 5)
	c.Floor("C15/cache-coherent", 2)
	c.Floor("C15/cache-cleared-on-epoch-change", 1)
}

// c15SelectionStatePrivate: the "already chosen" state of a selection lives in the provider; every
// write to it, including the deferred clean-up, happens while the provider's mutex is held: a
// deferred call that writes the state is registered after the lock was taken (and therefore runs
// before the deferred unlock).
func c15SelectionStatePrivate(c *core.Ctx) {
	fn := anchorM(c, "sharding", "SelectionBasedProvider", "Get")
	if fn == nil {
		return
	}
	c.Analysed(fname(fn))
	var lock ssa.Instruction
	core.Instrs(fn, func(in ssa.Instruction) {
		if _, isDefer := in.(*ssa.Defer); isDefer {
			return
		}
		cc := core.CallOf(in)
		if cc != nil && cc.StaticCallee() != nil && cc.StaticCallee().Name() == "Lock" && lock == nil {
			lock = in
		}
	})
	n := 0
	core.Instrs(fn, func(in ssa.Instruction) {
		df, isDefer := in.(*ssa.Defer)
		if !isDefer {
			return
		}
		g := df.Call.StaticCallee()
		if g == nil || len(g.Blocks) == 0 {
			return
		}
		writes := false
		core.Instrs(g, func(in2 ssa.Instruction) {
			if st, ok := in2.(*ssa.Store); ok {
				if fa, ok := st.Addr.(*ssa.FieldAddr); ok && len(g.Params) > 0 && fa.X == ssa.Value(g.Params[0]) {
					writes = true
				}
			}
		})
		if !writes {
			return
		}
		n++
		c.Check(lock != nil && core.DominatesInstr(lock, in), "C15/selection-state-written-under-lock", fmt.Sprintf("SelectionBasedProvider.Get/defer-%s", g.Name()), in.Pos(),
			"the deferred call that rewrites the selection state is registered after the mutex was taken, so it runs before the deferred unlock",
			"the deferred "+g.Name()+"() that rewrites the selection state is registered before the mutex is taken: it runs after the unlock and wipes the state while another selection sharing the provider is in its sampling loop (duplicate members, different groups for the same inputs)")
	})
	if n == 0 {
		c.Note("SelectionBasedProvider.Get has no deferred state-writing call")
	}
}

// c15RaterSelectorsForCurrentEpoch: the rating-aware coordinator replaces the weight-1 selectors
// the base constructor built by weighted ones - for the epoch the node is in. The configuration it
// rebuilds the selectors for is looked up under currentEpoch (a node that starts in a later epoch
// has startEpoch != currentEpoch; with the wrong key the lookup misses and this node selects
// groups with other weights than everybody else until the next epoch change).
func c15RaterSelectorsForCurrentEpoch(c *core.Ctx) {
	fn := anchorF(c, "sharding", "NewIndexHashedNodesCoordinatorWithRater")
	if fn == nil {
		return
	}
	n := 0
	core.Instrs(fn, func(in ssa.Instruction) {
		cc := core.CallOf(in)
		if cc == nil || cc.StaticCallee() == nil && !cc.IsInvoke() {
			return
		}
		name := core.CallDesc(cc).Name
		if name != "createSelectors" {
			return
		}
		n++
		good, key := false, "?"
		for x := range core.BackwardReachPure(cc.Args[len(cc.Args)-1]) {
			if lk, ok := x.(*ssa.Lookup); ok && isFieldOf(lk.X, "nodesConfig") {
				_, f := core.FieldLoad(lk.Index)
				if f != nil {
					key = f.Name()
					good = f.Name() == "currentEpoch"
				} else {
					key = core.ExprKey(lk.Index)
				}
			}
		}
		c.Check(good, "C15/rater-selectors-for-the-current-epoch", "NewIndexHashedNodesCoordinatorWithRater", in.Pos(),
			"the configuration whose selectors are rebuilt is nodesConfig[currentEpoch]",
			"the weighted selectors are rebuilt for nodesConfig["+key+"], not for the current epoch: a node started in a later epoch keeps weight-1 selectors for the epoch it is in and computes other consensus groups than the rest of the network")
	})
	c.Floor("C15/rater-selectors-for-the-current-epoch", 1)
}
