package rules

import (
	"fmt"
	"go/constant"
	"go/token"
	"math/big"
	"strings"

	"golang.org/x/tools/go/ssa"

	"verif/checker/internal/core"
)

func init() {
	register(&Rule{
		ID:    "C41",
		Title: "Token identifiers are unique and well-formed",
		Pkgs:  []string{"vm/systemSmartContracts"},
		Explain: "Decides the structural half of uniqueness: createNewTokenIdentifier returns an identifier only on the branch where the storage lookup of THAT SAME value came back empty " +
			"(GetStorage(id) with len(...) == 0 dominating the return of the very value that was looked up), every other exit is an error; createNewToken validates ticker and token name before anything is created, " +
			"saves the token (error checked) under exactly the identifier it got from createNewTokenIdentifier and returns that identifier. An identifier returned without the emptiness test on itself can overwrite an existing token. " +
			"The random part is printed with %06x and an interval analysis of the mutable *big.Int along the CFG (SetBytes of a 3-byte slice, Add, Mod, Lsh; widening around the retry loop) shows it below 16^6 at the print: exactly six digits. " +
			"Each range test isTickerValid accepts pairs bounds of one class, A..Z or 0..9. " +
			"Not decided (value-level): lowercase/charset of the ticker part (validated elsewhere).",
		Run: runC41,
	})
}

func runC41(c *core.Ctx) {
	c41TickerAlphabet(c)
	const pkg = "vm/systemSmartContracts"
	if fn := anchorM(c, pkg, "esdt", "createNewTokenIdentifier"); fn != nil {
		c41Digits(c, fn)
		n := 0
		for i, r := range core.Returns(fn) {
			if !core.SuccessReturn(r, nil) {
				continue
			}
			n++
			id := core.RetOperand(r, 0)
			ok, why := false, "no dominating `len(GetStorage(id)) == 0` test for the returned identifier"
			for _, cd := range core.CondsAt(r.Block()) {
				// the test may be a boolean method of the contract (`if e.isFree(id)`): every answer of it is
				// `len(GetStorage(p)) == 0` (or a constant "taken"), p being the parameter the identifier is handed as
				if hc, isCall := cd.V.(*ssa.Call); isCall && cd.Taken {
					if h := hc.Call.StaticCallee(); h != nil && h.Blocks != nil && h.Pkg == fn.Pkg && h != fn {
						all, any := true, false
						for _, hr := range core.Returns(h) {
							rv := core.RetOperand(hr, 0)
							if b, isC := core.ConstBool(rv); isC {
								all = all && !b
								continue
							}
							bo, isB := rv.(*ssa.BinOp)
							good := false
							if isB {
								f := core.FactOf(core.Cond{V: bo, Taken: true})
								for _, side := range []ssa.Value{bo.X, bo.Y} {
									lc, isC := side.(*ssa.Call)
									if !isC || len(lc.Call.Args) != 1 {
										continue
									}
									key := core.ExprKey(lc)
									if ub, has := f.UpperBound(key); !has || ub > 0 || !strings.HasPrefix(key, "len(") {
										continue
									}
									gs, isG := lc.Call.Args[0].(*ssa.Call)
									if !isG || !isInvoke(&gs.Call, "GetStorage") {
										continue
									}
									for i, p := range h.Params {
										if ssa.Value(p) == gs.Call.Args[0] && i < len(hc.Call.Args) && hc.Call.Args[i] == id {
											good = true
										}
									}
								}
							}
							all, any = all && good, any || good
						}
						if all && any {
							ok = true
							c.Analysed(fname(h))
						}
					}
				}
				f := core.FactOf(cd)
				lenKey := f.B
				if strings.HasPrefix(f.A, "len(") {
					lenKey = f.A
				}
				if ub, has := f.UpperBound(lenKey); !has || ub > 0 || !strings.HasPrefix(lenKey, "len(") {
					continue
				}
				// find the GetStorage call inside the len
				b, isB := cd.V.(*ssa.BinOp)
				if !isB {
					continue
				}
				for _, side := range []ssa.Value{b.X, b.Y} {
					lc, isC := side.(*ssa.Call)
					if !isC || len(lc.Call.Args) != 1 {
						continue
					}
					gs, isG := lc.Call.Args[0].(*ssa.Call)
					if !isG || !isInvoke(&gs.Call, "GetStorage") {
						continue
					}
					if gs.Call.Args[0] == id {
						ok = true
					} else {
						why = "the emptiness test looks up a different value than the identifier that is returned"
					}
				}
			}
			c.Check(ok, "C41/identifier-free-when-returned", fmt.Sprintf("esdt.createNewTokenIdentifier/return#%d", i), r.Pos(), "returned only when the storage under this very identifier is empty", why)
		}
		if n == 0 {
			c.Fail("C41/identifier-free-when-returned", "esdt.createNewTokenIdentifier", fn.Pos(), "no success exit found")
		}
	}
	if fn := anchorM(c, pkg, "esdt", "createNewToken"); fn != nil {
		var id ssa.Value
		for _, in := range callsMatching(fn, pkg, "esdt", "createNewTokenIdentifier") {
			id = core.ResultOf(in.(*ssa.Call), 0)
		}
		if id == nil {
			c.Fail("C41/token-saved-under-its-identifier", "esdt.createNewToken", fn.Pos(), "createNewTokenIdentifier is not called")
			return
		}
		mustPassChecked(c, fn, "C41/token-saved-under-its-identifier", "esdt.createNewToken/save", nil,
			func(in ssa.Instruction, cc *ssa.CallCommon) bool {
				return core.CallDesc(cc).Name == "saveToken" && cc.Args[1] == id
			},
			core.SuccessReturn, nil, "the token is saved (error checked) under the identifier obtained from createNewTokenIdentifier")
		okRet := true
		for _, r := range core.Returns(fn) {
			if core.NilReturn(r, nil) && core.RetOperand(r, 0) != id {
				okRet = false
			}
		}
		c.Check(okRet, "C41/token-saved-under-its-identifier", "esdt.createNewToken/returns-identifier", fn.Pos(), "the identifier returned is the one the token was saved under", "createNewToken returns another value than the identifier it saved the token under")
		for _, v := range []string{"isTickerValid", "isTokenNameHumanReadable"} {
			v := v
			// every path to the identifier creation passes the validation with a true verdict
			q := core.PathQ{Fn: fn, ViaEdge: edgeFact(func(f core.Fact, _ core.Cond) bool {
				return f.Op == "T" && strings.Contains(f.A, v+"(") && !strings.HasPrefix(f.A, "!")
			}),
				Target: func(in ssa.Instruction, _ *ssa.BasicBlock) bool {
					return core.IsCall(in, pkg, "esdt", "createNewTokenIdentifier")
				}}
			esc, path := q.Escape()
			c.Check(esc == nil, "C41/well-formed-before-creation", "esdt.createNewToken/"+v, fn.Pos(), v+" holds before an identifier is created", "an identifier can be created without "+v+" having accepted the input: "+c.P.PathString(path))
		}
	}
	c.Floor("C41/identifier-free-when-returned", 1)
	c.Floor("C41/token-saved-under-its-identifier", 2)
}

// ---- interval analysis of mutable *big.Int objects along the CFG (for the identifier's digits)

type bigIv struct {
	top    bool
	lo, hi *big.Int
}

func bigObj(v ssa.Value) ssa.Value {
	for i := 0; i < 16; i++ {
		call, ok := v.(*ssa.Call)
		if !ok || call.Call.StaticCallee() == nil || call.Call.StaticCallee().Pkg == nil || call.Call.StaticCallee().Pkg.Pkg.Path() != "math/big" {
			return v
		}
		if call.Call.StaticCallee().Signature.Recv() == nil || len(call.Call.Args) == 0 {
			return v
		}
		v = call.Call.Args[0] // methods of big.Int return their receiver
	}
	return v
}

func joinBig(a, b bigIv) bigIv {
	if a.top || b.top {
		return bigIv{top: true}
	}
	lo, hi := a.lo, a.hi
	if b.lo.Cmp(lo) < 0 {
		lo = b.lo
	}
	if hi == nil || b.hi == nil {
		hi = nil // unbounded above
	} else if b.hi.Cmp(hi) > 0 {
		hi = b.hi
	}
	return bigIv{lo: lo, hi: hi}
}

// bigIntervalsAt runs the forward analysis and returns the state just before `at`.
func bigIntervalsAt(fn *ssa.Function, at ssa.Instruction) map[ssa.Value]bigIv {
	return bigFlow(fn, nil, at, 0)
}

// bigFlow: the analysis proper. init gives intervals for objects known on entry (a helper's parameters bound
// to what its caller knows of the arguments); at == nil asks for the join of the states at the returns.
func bigFlow(fn *ssa.Function, init map[ssa.Value]bigIv, at ssa.Instruction, depth int) map[ssa.Value]bigIv {
	type state map[ssa.Value]bigIv
	clone := func(s state) state {
		c := state{}
		for k, v := range s {
			c[k] = v
		}
		return c
	}
	equal := func(a, b state) bool {
		if len(a) != len(b) {
			return false
		}
		for k, v := range a {
			w, ok := b[k]
			if !ok || v.top != w.top {
				return false
			}
			if !v.top && (v.lo.Cmp(w.lo) != 0 || (v.hi == nil) != (w.hi == nil) || v.hi != nil && v.hi.Cmp(w.hi) != 0) {
				return false
			}
		}
		return true
	}
	get := func(s state, v ssa.Value) bigIv {
		if iv, ok := s[bigObj(v)]; ok {
			return iv
		}
		return bigIv{top: true}
	}
	step := func(s state, in ssa.Instruction) {
		call, ok := in.(*ssa.Call)
		if !ok || call.Call.StaticCallee() == nil || call.Call.StaticCallee().Pkg == nil {
			return
		}
		// a function of the same package handed tracked objects: its effect on them is what its own returns
		// know of the parameters, the parameters starting from what is known here
		if h := call.Call.StaticCallee(); h.Pkg == fn.Pkg && h.Blocks != nil && h != fn {
			handed := map[ssa.Value]bigIv{}
			byParam := map[*ssa.Parameter]ssa.Value{}
			for i, p := range h.Params {
				if i >= len(call.Call.Args) {
					continue
				}
				o := bigObj(call.Call.Args[i])
				if iv, tracked := s[o]; tracked {
					handed[p] = iv
					byParam[p] = o
				}
			}
			if len(handed) == 0 {
				return
			}
			if depth >= 2 {
				for _, o := range byParam {
					s[o] = bigIv{top: true}
				}
				return
			}
			out := bigFlow(h, handed, nil, depth+1)
			for p, o := range byParam {
				if iv, ok := out[p]; ok {
					s[o] = iv
				} else {
					s[o] = bigIv{top: true}
				}
			}
			return
		}
		if call.Call.StaticCallee().Pkg.Pkg.Path() != "math/big" {
			return
		}
		callee := call.Call.StaticCallee()
		args := call.Call.Args
		if callee.Signature.Recv() == nil {
			if callee.Name() == "NewInt" {
				if n, isC := core.ConstInt(args[0]); isC {
					s[call] = bigIv{lo: big.NewInt(n), hi: big.NewInt(n)}
				} else {
					s[call] = bigIv{top: true}
				}
			}
			return
		}
		if !strings.HasSuffix(callee.Signature.Recv().Type().String(), "math/big.Int") {
			return
		}
		z := bigObj(args[0])
		switch callee.Name() {
		case "SetBytes":
			s[z] = bigIv{top: true}
			src := args[1]
			// the bytes may be the single result of a function of the package that cuts them to length itself
			if hc, isCall := src.(*ssa.Call); isCall {
				if h := hc.Call.StaticCallee(); h != nil && h.Blocks != nil && h.Pkg == fn.Pkg {
					if rets := core.Returns(h); len(rets) == 1 && len(rets[0].Results) == 1 {
						src = core.RetOperand(rets[0], 0)
					}
				}
			}
			if sl, ok := src.(*ssa.Slice); ok && sl.High != nil {
				if k, isC := core.ConstInt(sl.High); isC && k >= 0 && k <= 64 {
					lowOK := sl.Low == nil
					if sl.Low != nil {
						if l, isL := core.ConstInt(sl.Low); isL && l == 0 {
							lowOK = true
						}
					}
					if lowOK {
						hi := new(big.Int).Lsh(big.NewInt(1), uint(8*k))
						s[z] = bigIv{lo: big.NewInt(0), hi: hi.Sub(hi, big.NewInt(1))}
					}
				}
			}
		case "SetUint64", "SetInt64":
			if n, isC := core.ConstInt(args[1]); isC {
				s[z] = bigIv{lo: big.NewInt(n), hi: big.NewInt(n)}
			} else {
				s[z] = bigIv{top: true}
			}
		case "Set":
			s[z] = get(s, args[1])
		case "Add":
			a, b := get(s, args[1]), get(s, args[2])
			if a.top || b.top {
				s[z] = bigIv{top: true}
			} else {
				r := bigIv{lo: new(big.Int).Add(a.lo, b.lo)}
				if a.hi != nil && b.hi != nil {
					r.hi = new(big.Int).Add(a.hi, b.hi)
				}
				s[z] = r
			}
		case "Lsh":
			a := get(s, args[1])
			n, isC := core.ConstInt(args[2])
			if a.top || !isC || n < 0 || n > 4096 || a.lo.Sign() < 0 {
				s[z] = bigIv{top: true}
			} else {
				r := bigIv{lo: new(big.Int).Lsh(a.lo, uint(n))}
				if a.hi != nil {
					r.hi = new(big.Int).Lsh(a.hi, uint(n))
				}
				s[z] = r
			}
		case "Mod":
			a, m := get(s, args[1]), get(s, args[2])
			if m.top || m.hi == nil || m.lo.Cmp(m.hi) != 0 || m.lo.Sign() <= 0 {
				s[z] = bigIv{top: true}
			} else if !a.top && a.lo.Sign() >= 0 && a.hi != nil && a.hi.Cmp(m.lo) < 0 {
				s[z] = a
			} else {
				s[z] = bigIv{lo: big.NewInt(0), hi: new(big.Int).Sub(m.lo, big.NewInt(1))}
			}
		case "Cmp", "CmpAbs", "Sign", "BitLen", "Bytes", "String", "Text", "Uint64", "Int64", "IsUint64", "IsInt64", "Bit", "Format", "Append", "FillBytes", "ProbablyPrime", "TrailingZeroBits":
		default:
			s[z] = bigIv{top: true}
		}
	}
	refineBigOnEdge := func(b *ssa.BasicBlock, si int, s state, clone func(state) state, get func(state, ssa.Value) bigIv) state {
		ifi, ok := b.Instrs[len(b.Instrs)-1].(*ssa.If)
		if !ok {
			return s
		}
		bo, ok := ifi.Cond.(*ssa.BinOp)
		if !ok {
			return s
		}
		cmp, ok := bo.X.(*ssa.Call)
		zero, isC := core.ConstInt(bo.Y)
		if !ok || !isC || zero != 0 || cmp.Call.StaticCallee() == nil || cmp.Call.StaticCallee().Name() != "Cmp" || len(cmp.Call.Args) != 2 {
			return s
		}
		x, m := get(s, cmp.Call.Args[0]), get(s, cmp.Call.Args[1])
		if x.top || m.top || m.hi == nil || m.lo.Cmp(m.hi) != 0 {
			return s
		}
		// relation between x and M established on this edge
		op := bo.Op
		if si == 1 { // condition false
			switch op {
			case token.LSS:
				op = token.GEQ
			case token.LEQ:
				op = token.GTR
			case token.GTR:
				op = token.LEQ
			case token.GEQ:
				op = token.LSS
			case token.EQL:
				op = token.NEQ
			case token.NEQ:
				op = token.EQL
			}
		}
		M := m.lo
		lo, hi := x.lo, x.hi
		one := big.NewInt(1)
		switch op {
		case token.LSS:
			if h := new(big.Int).Sub(M, one); hi == nil || hi.Cmp(h) > 0 {
				hi = h
			}
		case token.LEQ:
			if hi == nil || hi.Cmp(M) > 0 {
				hi = M
			}
		case token.GTR:
			if l := new(big.Int).Add(M, one); lo.Cmp(l) < 0 {
				lo = l
			}
		case token.GEQ:
			if lo.Cmp(M) < 0 {
				lo = M
			}
		case token.EQL:
			lo, hi = M, M
		default:
			return s
		}
		if hi != nil && lo.Cmp(hi) > 0 {
			return nil
		}
		ns := clone(s)
		ns[bigObj(cmp.Call.Args[0])] = bigIv{lo: lo, hi: hi}
		return ns
	}
	in := map[*ssa.BasicBlock]state{}
	visits := map[*ssa.BasicBlock]int{}
	work := []*ssa.BasicBlock{fn.Blocks[0]}
	in[fn.Blocks[0]] = state{}
	for k, v := range init {
		in[fn.Blocks[0]][k] = v
	}
	for len(work) > 0 {
		b := work[0]
		work = work[1:]
		visits[b]++
		s := clone(in[b])
		for _, ins := range b.Instrs {
			step(s, ins)
		}
		for si, succ := range b.Succs {
			s := refineBigOnEdge(b, si, s, clone, get)
			if s == nil {
				continue // infeasible edge
			}
			old, seen := in[succ]
			var merged state
			if !seen {
				merged = clone(s)
			} else {
				merged = state{}
				for k, v := range old {
					if w, ok := s[k]; ok {
						merged[k] = joinBig(v, w)
					} else {
						merged[k] = v
					}
				}
				for k, w := range s {
					if _, ok := old[k]; !ok {
						merged[k] = w
					}
				}
				if visits[succ] > 6 { // widening
					for k, v := range merged {
						o := old[k]
						if v.top || o.top || o.lo == nil {
							continue
						}
						if v.lo.Cmp(o.lo) != 0 {
							merged[k] = bigIv{top: true}
						} else if v.hi != nil && (o.hi == nil || v.hi.Cmp(o.hi) != 0) {
							merged[k] = bigIv{lo: v.lo} // unbounded above
						}
					}
				}
			}
			if !seen || !equal(old, merged) {
				in[succ] = merged
				work = append(work, succ)
			}
		}
	}
	if at == nil {
		// the join over the returns
		var out state
		for _, b := range fn.Blocks {
			if _, isRet := b.Instrs[len(b.Instrs)-1].(*ssa.Return); !isRet {
				continue
			}
			st, reached := in[b]
			if !reached {
				continue
			}
			s := clone(st)
			for _, ins := range b.Instrs {
				step(s, ins)
			}
			if out == nil {
				out = s
				continue
			}
			for k, v := range out {
				if w, ok := s[k]; ok {
					out[k] = joinBig(v, w)
				} else {
					out[k] = bigIv{top: true}
				}
			}
		}
		return out
	}
	s := clone(in[at.Block()])
	for _, ins := range at.Block().Instrs {
		if ins == at {
			break
		}
		step(s, ins)
	}
	return s
}

// c41Digits: the random part of the identifier is printed with %0Nx and stays below 16^N on
// every path into the print, so the identifier always has exactly N hex digits.
func c41Digits(c *core.Ctx, top *ssa.Function) {
	n := 0
	// where the print happens: in the function itself, or in a function of the package it calls (the printed
	// parameter then stands for the argument, whose range is the one known at the call)
	type printSite struct {
		fn   *ssa.Function
		site *ssa.Call // the call in top that leads to the print (nil: the print is in top)
	}
	scopes := []printSite{{top, nil}}
	core.Instrs(top, func(in ssa.Instruction) {
		if call, ok := in.(*ssa.Call); ok {
			if h := call.Call.StaticCallee(); h != nil && h.Blocks != nil && h.Pkg == top.Pkg && h != top {
				scopes = append(scopes, printSite{h, call})
			}
		}
	})
	for _, sc := range scopes {
		fn, site := sc.fn, sc.site
		core.Instrs(fn, func(in ssa.Instruction) {
			call, ok := in.(*ssa.Call)
			if !ok || call.Call.StaticCallee() == nil || call.Call.StaticCallee().Name() != "Sprintf" || len(call.Call.Args) != 2 {
				return
			}
			fc, ok := call.Call.Args[0].(*ssa.Const)
			if !ok {
				return
			}
			format := constant.StringVal(fc.Value)
			var width int
			if k, _ := fmt.Sscanf(format, "%%0%dx", &width); k != 1 || format != fmt.Sprintf("%%0%dx", width) {
				return
			}
			n++
			// the printed operand
			var obj ssa.Value
			if sl, ok := call.Call.Args[1].(*ssa.Slice); ok {
				if al, ok := sl.X.(*ssa.Alloc); ok && al.Referrers() != nil {
					for _, r := range *al.Referrers() {
						ia, ok := r.(*ssa.IndexAddr)
						if !ok || ia.Referrers() == nil {
							continue
						}
						for _, rr := range *ia.Referrers() {
							if st, ok := rr.(*ssa.Store); ok {
								if mi, ok := st.Val.(*ssa.MakeInterface); ok {
									obj = bigObj(mi.X)
								}
							}
						}
					}
				}
			}
			name := fmt.Sprintf("esdt.createNewTokenIdentifier/%s#%d", format, n)
			if obj == nil {
				c.Undecided("C41/identifier-has-fixed-width", name, in.Pos(), "the printed operand is not a tracked *big.Int")
				return
			}
			var iv bigIv
			var known bool
			if site == nil {
				iv, known = bigIntervalsAt(fn, in)[obj]
			} else {
				// the printed object is the helper's parameter: what the caller knows of the argument at the call
				for i, p := range fn.Params {
					if ssa.Value(p) == obj && i < len(site.Call.Args) {
						iv, known = bigIntervalsAt(top, site)[bigObj(site.Call.Args[i])]
						c.Analysed(fname(fn))
					}
				}
			}
			limit := new(big.Int).Lsh(big.NewInt(1), uint(4*width))
			ok2 := known && !iv.top && iv.lo.Sign() >= 0 && iv.hi != nil && iv.hi.Cmp(limit) < 0
			detail := "the value printed is unbounded at this point (incremented around the retry loop without being reduced)"
			if known && !iv.top && iv.hi != nil {
				detail = fmt.Sprintf("the value printed ranges over [%s, %s]", iv.lo.Text(16), iv.hi.Text(16))
			}
			c.Check(ok2, "C41/identifier-has-fixed-width", name, in.Pos(),
				fmt.Sprintf("the random part is in [0, 16^%d) on every path into the print: exactly %d hex digits", width, width),
				fmt.Sprintf("%s, which is not below 16^%d: after a taken candidate at the top of the range the identifier gets %d digits (TICKER-1000000)", detail, width, width+1))
		})
	}
	c.Floor("C41/identifier-has-fixed-width", 1)
}

// c41TickerAlphabet: the part of an identifier in front of the dash is the ticker as the caller
// sent it; what keeps it to capital letters and digits is isTickerValid. Each range test it accepts
// pairs a lower and an upper bound of the SAME class - 'A'..'Z' or '0'..'9'. A "simplified" single
// range '0'..'Z' also admits : ; < = > ? @, and tokens get registered under malformed identifiers.
func c41TickerAlphabet(c *core.Ctx) {
	fn := anchorF(c, "vm/systemSmartContracts", "isTickerValid")
	if fn == nil {
		return
	}
	type bound struct {
		lower bool
		k     int64
	}
	// bounds that a condition (known true) puts on the character, with the value compared
	boundOf := func(v ssa.Value) (ssa.Value, bound, bool) {
		bo, ok := v.(*ssa.BinOp)
		if !ok {
			return nil, bound{}, false
		}
		x, y := bo.X, bo.Y
		op := bo.Op
		if _, isC := core.ConstInt(x); isC {
			x, y = y, x
			op = map[token.Token]token.Token{token.LSS: token.GTR, token.GTR: token.LSS, token.LEQ: token.GEQ, token.GEQ: token.LEQ}[op]
		}
		k, isC := core.ConstInt(y)
		if !isC {
			return nil, bound{}, false
		}
		switch op {
		case token.GEQ:
			return x, bound{true, k}, true
		case token.GTR:
			return x, bound{true, k + 1}, true
		case token.LEQ:
			return x, bound{false, k}, true
		case token.LSS:
			return x, bound{false, k - 1}, true
		}
		return nil, bound{}, false
	}
	n, bad := 0, ""
	classes := map[[2]int64]bool{{'A', 'Z'}: true, {'0', '9'}: true}
	// the accepting condition: a disjunction of conjunctions of range tests
	core.Instrs(fn, func(in ssa.Instruction) {
		ifi, ok := in.(*ssa.If)
		if !ok {
			return
		}
		// the test that decides a character: one of its branches rejects the ticker
		rejects := false
		for _, sb := range ifi.Block().Succs {
			if r, isR := sb.Instrs[len(sb.Instrs)-1].(*ssa.Return); isR && len(sb.Instrs) == 1 {
				if b, isC := core.ConstBool(r.Results[0]); isC && !b {
					rejects = true
				}
			}
		}
		if !rejects || core.InnermostLoop(fn, ifi.Block()) == nil {
			return
		}
		// `if a || b { continue }; return false` lowers to a chain of tests, the last of which rejects: the
		// tests before it (each falling through to the next when false, accepting when true) are disjuncts too
		disj := core.Disjuncts(ifi.Cond)
		for b := ifi.Block(); len(b.Preds) == 1; {
			p := b.Preds[0]
			pif, isIf := p.Instrs[len(p.Instrs)-1].(*ssa.If)
			if !isIf || p.Succs[1] != b || core.InnermostLoop(fn, p) == nil {
				break
			}
			rejectsOnTrue := false
			if r, isR := p.Succs[0].Instrs[len(p.Succs[0].Instrs)-1].(*ssa.Return); isR {
				if bv, isC := core.ConstBool(r.Results[0]); isC && !bv {
					rejectsOnTrue = true
				}
			}
			if rejectsOnTrue {
				break
			}
			disj = append(disj, core.Disjuncts(pif.Cond)...)
			b = p
		}
		for _, d := range disj {
			cj := core.Conjuncts(d)
			var lo, hi []int64
			var ch ssa.Value
			for _, t := range cj {
				x, b, isB := boundOf(t)
				if !isB {
					continue
				}
				if ch == nil {
					ch = x
				}
				if x != ch {
					continue
				}
				if b.lower {
					lo = append(lo, b.k)
				} else {
					hi = append(hi, b.k)
				}
			}
			if len(lo) == 0 && len(hi) == 0 {
				continue
			}
			n++
			if len(lo) != 1 || len(hi) != 1 || !classes[[2]int64{lo[0], hi[0]}] {
				bad = fmt.Sprintf("a range test accepts characters %v..%v", lo, hi)
			}
		}
	})
	c.Check(n >= 2 && bad == "", "C41/ticker-alphabet", "isTickerValid", fn.Pos(),
		fmt.Sprintf("%d range tests, each 'A'..'Z' or '0'..'9'", n),
		"isTickerValid: "+bad+" (as character codes), which is not one of 'A'..'Z' / '0'..'9': tickers with other characters are accepted and tokens are registered under identifiers that are not TICKER-xxxxxx")
}
