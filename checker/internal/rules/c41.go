package rules

import (
	"fmt"
	"strings"

	"golang.org/x/tools/go/ssa"

	"verif/checker/internal/core"
)

func init() {
	register(&Rule{
		ID:    "C41",
		Title: "Token identifiers are unique and well-formed",
		Pkgs:  []string{"vm/systemSmartContracts"},
		Explain: "Decides the structural half of uniqueness: createNewTokenIdentifier returns an identifier only on the branch where the storage lookup of THAT SAME value came back empty " +
			"(GetStorage(id) with len(...) == 0 dominating the return of the very value that was looked up), every other exit is an error; createNewToken validates ticker and token name before anything is created, " +
			"saves the token (error checked) under exactly the identifier it got from createNewTokenIdentifier and returns that identifier. An identifier returned without the emptiness test on itself can overwrite an existing token. " +
			"Not decided (value-level): the textual form of the identifier (ticker-6 hex digits; reading showed a carry can produce seven digits).",
		Run: runC41,
	})
}

func runC41(c *core.Ctx) {
	const pkg = "vm/systemSmartContracts"
	if fn := anchorM(c, pkg, "esdt", "createNewTokenIdentifier"); fn != nil {
		n := 0
		for i, r := range core.Returns(fn) {
			if !core.SuccessReturn(r, nil) {
				continue
			}
			n++
			id := core.RetOperand(r, 0)
			ok, why := false, "no dominating `len(GetStorage(id)) == 0` test for the returned identifier"
			for _, cd := range core.CondsAt(r.Block()) {
				f := core.FactOf(cd)
				lenKey := f.B
				if strings.HasPrefix(f.A, "len(") {
					lenKey = f.A
				}
				if ub, has := f.UpperBound(lenKey); !has || ub > 0 || !strings.HasPrefix(lenKey, "len(") {
					continue
				}
				// find the GetStorage call inside the len
				b, isB := cd.V.(*ssa.BinOp)
				if !isB {
					continue
				}
				for _, side := range []ssa.Value{b.X, b.Y} {
					lc, isC := side.(*ssa.Call)
					if !isC || len(lc.Call.Args) != 1 {
						continue
					}
					gs, isG := lc.Call.Args[0].(*ssa.Call)
					if !isG || !isInvoke(&gs.Call, "GetStorage") {
						continue
					}
					if gs.Call.Args[0] == id {
						ok = true
					} else {
						why = "the emptiness test looks up a different value than the identifier that is returned"
					}
				}
			}
			c.Check(ok, "C41/identifier-free-when-returned", fmt.Sprintf("esdt.createNewTokenIdentifier/return#%d", i), r.Pos(), "returned only when the storage under this very identifier is empty", why)
		}
		if n == 0 {
			c.Fail("C41/identifier-free-when-returned", "esdt.createNewTokenIdentifier", fn.Pos(), "no success exit found")
		}
	}
	if fn := anchorM(c, pkg, "esdt", "createNewToken"); fn != nil {
		var id ssa.Value
		for _, in := range callsMatching(fn, pkg, "esdt", "createNewTokenIdentifier") {
			id = core.ResultOf(in.(*ssa.Call), 0)
		}
		if id == nil {
			c.Fail("C41/token-saved-under-its-identifier", "esdt.createNewToken", fn.Pos(), "createNewTokenIdentifier is not called")
			return
		}
		mustPassChecked(c, fn, "C41/token-saved-under-its-identifier", "esdt.createNewToken/save", nil,
			func(in ssa.Instruction, cc *ssa.CallCommon) bool {
				return core.CallDesc(cc).Name == "saveToken" && cc.Args[1] == id
			},
			core.SuccessReturn, nil, "the token is saved (error checked) under the identifier obtained from createNewTokenIdentifier")
		okRet := true
		for _, r := range core.Returns(fn) {
			if core.NilReturn(r, nil) && core.RetOperand(r, 0) != id {
				okRet = false
			}
		}
		c.Check(okRet, "C41/token-saved-under-its-identifier", "esdt.createNewToken/returns-identifier", fn.Pos(), "the identifier returned is the one the token was saved under", "createNewToken returns another value than the identifier it saved the token under")
		for _, v := range []string{"isTickerValid", "isTokenNameHumanReadable"} {
			v := v
			// every path to the identifier creation passes the validation with a true verdict
			q := core.PathQ{Fn: fn, ViaEdge: edgeFact(func(f core.Fact, _ core.Cond) bool {
				return f.Op == "T" && strings.Contains(f.A, v+"(") && !strings.HasPrefix(f.A, "!")
			}),
				Target: func(in ssa.Instruction, _ *ssa.BasicBlock) bool {
					return core.IsCall(in, pkg, "esdt", "createNewTokenIdentifier")
				}}
			esc, path := q.Escape()
			c.Check(esc == nil, "C41/well-formed-before-creation", "esdt.createNewToken/"+v, fn.Pos(), v+" holds before an identifier is created", "an identifier can be created without "+v+" having accepted the input: "+c.P.PathString(path))
		}
	}
	c.Floor("C41/identifier-free-when-returned", 1)
	c.Floor("C41/token-saved-under-its-identifier", 2)
}
