package rules

import (
	"fmt"
	"go/token"
	"go/types"
	"strings"

	"golang.org/x/tools/go/ssa"

	"verif/checker/internal/core"
)

func init() {
	register(&Rule{
		ID:    "C02",
		Title: "State root hash depends only on trie contents",
		Pkgs:  []string{"data/trie"},
		Explain: "Decides a necessary structural condition: a trie node whose content (key, value, child pointers, encoded children) is modified in place has its cached hash invalidated " +
			"(hash = nil on every path from the content store to any return) and is marked dirty on every path on which the node itself is returned to the parent. " +
			"Otherwise RootHash returns the stale cached hash for new contents and two tries with equal contents report different roots. " +
			"Every store to a content field in package data/trie is classified: on a freshly constructed node (no obligation), in a content-preserving materialiser " +
			"(collapse/resolve/commit; tabled with a reason), on the leaf being inserted (owned by the operation), or in a mutator (obligations above). An unclassified writer fails. " +
			"Not decided (value-level): canonical shape after delete (reduceNode), equality of collapsed and in-memory encodings, the empty-trie constant.",
		Run: runC02,
	})
}

// materialisers: functions that rewrite content fields without changing the node's logical
// content (child pointer <-> child hash), or that re-load the node from its own encoding.
var c02Materialisers = map[string]string{
	"branchNode.resolveCollapsed":         "loads children[pos] from the DB under EncodedChildren[pos]: same logical child",
	"extensionNode.resolveCollapsed":      "loads child from the DB under EncodedChild: same logical child",
	"branchNode.setHashConcurrent":        "only computes hashes",
	"branchNode.hashChildren":             "only computes hashes",
	"branchNode.hashNode":                 "stores EncodedChildren[i] = hash of children[i]: the encoding of the same child",
	"extensionNode.hashNode":              "stores EncodedChild = hash of child: the encoding of the same child",
	"branchNode.commitDirty":              "replaces the node by its own collapsed form after it was written to the DB",
	"extensionNode.commitDirty":           "replaces the node by its own collapsed form after it was written to the DB",
	"branchNode.commitCheckpoint":         "drops child pointers after the child was written (EncodedChildren keep the hash)",
	"extensionNode.commitCheckpoint":      "drops child pointer after the child was written",
	"branchNode.commitSnapshot":           "drops child pointers after the child was written (EncodedChildren keep the hash)",
	"extensionNode.commitSnapshot":        "drops child pointer after the child was written",
	"branchNode.loadChildren":             "loads children from the DB under their hashes",
	"extensionNode.loadChildren":          "loads child from the DB under its hash",
	"branchNode.getAllLeavesOnChannel":    "resolves collapsed children then drops the pointers again",
	"extensionNode.getAllLeavesOnChannel": "resolves collapsed child then drops the pointer again",
	"branchNode.getCollapsed":             "writes into the clone it just made",
	"extensionNode.getCollapsed":          "writes into the clone it just made",
	"branchNode.removeChildrenPointers":   "drops child pointers of a committed node (EncodedChildren keep the hashes)",
	"branchNode.saveToStorage":            "drops child pointers after the node was written to the DB",
	"extensionNode.saveToStorage":         "drops the child pointer after the node was written to the DB (EncodedChild keeps the hash)",
	"CollapsedBn.Unmarshal":               "generated decoder: fills the fresh node allocated by decodeNode/getEmptyNodeOfType",
	"CollapsedEn.Unmarshal":               "generated decoder: fills the fresh node allocated by decodeNode/getEmptyNodeOfType",
	"CollapsedLn.Unmarshal":               "generated decoder: fills the fresh node allocated by decodeNode/getEmptyNodeOfType",
}

func runC02(c *core.Ctx) {
	const pkg = "data/trie"
	c02ChildScans(c)
	type ft struct{ typ, field string }
	content := map[*types.Var]string{}
	for _, f := range []ft{{"leafNode", "Key"}, {"leafNode", "Value"}, {"extensionNode", "Key"}, {"extensionNode", "child"},
		{"extensionNode", "EncodedChild"}, {"branchNode", "children"}, {"branchNode", "EncodedChildren"}} {
		// Key/Value/Encoded* live in the embedded protobuf structs: resolve through the type
		v := findFieldDeep(c.P.Named(pkg, f.typ), f.field)
		if v == nil {
			c.Undecided("anchor", f.typ+"."+f.field, token.NoPos, "content field not found")
			return
		}
		content[v] = f.typ + "." + f.field
	}
	hashF := map[string]*types.Var{}
	dirtyF := map[string]*types.Var{}
	for _, t := range []string{"leafNode", "extensionNode", "branchNode"} {
		hashF[t] = findFieldDeep(c.P.Named(pkg, t), "hash")
		dirtyF[t] = findFieldDeep(c.P.Named(pkg, t), "dirty")
		if hashF[t] == nil || dirtyF[t] == nil {
			c.Undecided("anchor", t+".{hash,dirty}", token.NoPos, "fields not found")
			return
		}
	}
	freshCtors := map[string]bool{"newLeafNode": true, "newBranchNode": true, "newExtensionNode": true, "emptyDirtyBranchNode": true, "clone": true}

	for _, fn := range c.P.FuncsOfPkg(pkg) {
		// collect content stores grouped by base object
		type cs struct {
			in    ssa.Instruction
			base  ssa.Value
			field string
		}
		var stores []cs
		core.Instrs(fn, func(in ssa.Instruction) {
			st, ok := in.(*ssa.Store)
			if !ok {
				return
			}
			base, fld := contentStoreTarget(st.Addr, content)
			if fld == "" {
				return
			}
			stores = append(stores, cs{in, base, fld})
		})
		// whole-node overwrite *n = *other
		core.Instrs(fn, func(in ssa.Instruction) {
			st, ok := in.(*ssa.Store)
			if !ok {
				return
			}
			if n := namedElem(st.Addr.Type()); n != nil && (n.Obj().Name() == "leafNode" || n.Obj().Name() == "branchNode" || n.Obj().Name() == "extensionNode") &&
				n.Obj().Pkg().Path() == core.PkgPath(pkg) {
				if _, isAlloc := st.Addr.(*ssa.Alloc); !isAlloc {
					stores = append(stores, cs{in, st.Addr, n.Obj().Name() + ".*"})
				}
			}
		})
		if len(stores) == 0 {
			continue
		}
		c.Analysed(core.QualName(fn))
		for i, s := range stores {
			c.Sites++
			name := fmt.Sprintf("%s/%s#%d", fname(fn), s.field, i)
			// 1. fresh object
			if isFreshNode(s.base, freshCtors) {
				c.Pass("C02/content-store-classified", name, s.in.Pos(), "store on a node constructed in this function")
				continue
			}
			// 2. materialiser
			if why, ok := c02Materialisers[fname(fn)]; ok {
				c.Pass("C02/content-store-classified", name, s.in.Pos(), "content-preserving materialiser: "+why)
				continue
			}
			// 3. the leaf being inserted: a *leafNode parameter that is not the receiver, in an insert function
			if p, ok := s.base.(*ssa.Parameter); ok && isInsertedLeafParam(fn, p) {
				c.Pass("C02/content-store-classified", name, s.in.Pos(), "store on the leaf being inserted (constructed dirty and hash-less by the caller, owned by the operation)")
				continue
			}
			// 4. mutator: must be the receiver
			recv := receiverOf(fn)
			if recv == nil || s.base != ssa.Value(recv) {
				c.Fail("C02/content-store-classified", name, s.in.Pos(),
					fmt.Sprintf("unclassified writer of trie node content field %s: not a fresh node, not a tabled materialiser, not the receiver of a mutator", s.field))
				continue
			}
			c.Pass("C02/content-store-classified", name, s.in.Pos(), "in-place mutation by a mutator method")
			tn := namedElem(recv.Type()).Obj().Name()
			isHashNil := func(in ssa.Instruction) bool {
				st, ok := in.(*ssa.Store)
				if !ok {
					return false
				}
				fa, ok := st.Addr.(*ssa.FieldAddr)
				return ok && core.FieldOfAddr(fa) == hashF[tn] && rootBase(fa.X) == ssa.Value(recv) && core.IsNilConst(st.Val)
			}
			isDirtyTrue := func(in ssa.Instruction) bool {
				st, ok := in.(*ssa.Store)
				if !ok {
					return false
				}
				fa, ok := st.Addr.(*ssa.FieldAddr)
				if !ok || core.FieldOfAddr(fa) != dirtyF[tn] || rootBase(fa.X) != ssa.Value(recv) {
					return false
				}
				if b, ok := core.ConstBool(st.Val); ok {
					return b
				}
				for _, cd := range core.CondsAt(st.Block()) {
					if cd.V == st.Val && cd.Taken {
						return true
					}
				}
				return false
			}
			// (a) hash invalidated on every path through the store to any return
			okA, why := mustAccompany(c, fn, s.in, isHashNil, core.AnyReturn)
			c.Check(okA, "C02/mutation-invalidates-hash", name, s.in.Pos(), "hash = nil accompanies the content store on every path", "in-place content change without hash invalidation: "+why)
			// (b) dirty on every path returning the receiver
			retRecv := func(in ssa.Instruction, pred *ssa.BasicBlock) bool {
				r, ok := in.(*ssa.Return)
				if !ok {
					return false
				}
				for i := range r.Results {
					if core.Strip(core.RetOperand(r, i)) == ssa.Value(recv) {
						return true
					}
				}
				return false
			}
			okB, whyB := mustAccompany(c, fn, s.in, isDirtyTrue, retRecv)
			c.Check(okB, "C02/mutation-marks-dirty", name, s.in.Pos(), "dirty = true accompanies the content store on every path returning the node", "in-place content change without marking the node dirty: "+whyB)
		}
	}
	c02CanonicalShape(c)
	c.Floor("C02/mutation-invalidates-hash", 3)
	c.Floor("C02/mutation-marks-dirty", 3)
	c.Floor("C02/content-store-classified", 20)
}

// mustAccompany: every path entry → store → target passes an instruction accepted by ev
// (either before or after the store).
func mustAccompany(c *core.Ctx, fn *ssa.Function, store ssa.Instruction, ev func(ssa.Instruction) bool, target func(ssa.Instruction, *ssa.BasicBlock) bool) (bool, string) {
	after := core.PathQ{Fn: fn, From: store, Via: ev, Target: target}
	escA, pathA := after.Escape()
	if escA == nil {
		return true, ""
	}
	before := core.PathQ{Fn: fn, Via: ev, Target: func(in ssa.Instruction, _ *ssa.BasicBlock) bool { return in == store }}
	escB, _ := before.Escape()
	if escB == nil {
		return true, ""
	}
	return false, fmt.Sprintf("path %s reaches the return at %s without it", c.P.PathString(pathA), c.P.Pos(escA.Pos()))
}

func findFieldDeep(n *types.Named, name string) *types.Var {
	if n == nil {
		return nil
	}
	st, ok := n.Underlying().(*types.Struct)
	if !ok {
		return nil
	}
	for i := 0; i < st.NumFields(); i++ {
		f := st.Field(i)
		if f.Name() == name {
			return f
		}
	}
	for i := 0; i < st.NumFields(); i++ {
		f := st.Field(i)
		if f.Embedded() {
			t := f.Type()
			if p, ok := t.(*types.Pointer); ok {
				t = p.Elem()
			}
			if en, ok := t.(*types.Named); ok {
				if v := findFieldDeep(en, name); v != nil {
					return v
				}
			}
		}
	}
	return nil
}

// contentStoreTarget recognises stores to x.F or x.F[i] (through embedded structs) for content
// fields F and returns the root base object x.
func contentStoreTarget(addr ssa.Value, content map[*types.Var]string) (ssa.Value, string) {
	switch a := addr.(type) {
	case *ssa.FieldAddr:
		if n, ok := content[core.FieldOfAddr(a)]; ok {
			return rootBase(a.X), n
		}
	case *ssa.IndexAddr:
		// x.children[i] (array field: IndexAddr(FieldAddr)) or x.EncodedChildren[i] (slice: IndexAddr(load FieldAddr))
		switch b := a.X.(type) {
		case *ssa.FieldAddr:
			if n, ok := content[core.FieldOfAddr(b)]; ok {
				return rootBase(b.X), n
			}
		case *ssa.UnOp:
			if fa, ok := b.X.(*ssa.FieldAddr); ok && b.Op == token.MUL {
				if n, ok := content[core.FieldOfAddr(fa)]; ok {
					return rootBase(fa.X), n
				}
			}
		}
	}
	return nil, ""
}

// rootBase strips embedded-struct field selections: &x.CollapsedBn → x.
func rootBase(v ssa.Value) ssa.Value {
	for {
		v = core.Unspill(v)
		if u, ok := v.(*ssa.UnOp); ok && u.Op == token.MUL {
			if fa, ok := u.X.(*ssa.FieldAddr); ok {
				if f := core.FieldOfAddr(fa); f != nil && f.Embedded() {
					v = fa.X
					continue
				}
			}
			return v
		}
		fa, ok := v.(*ssa.FieldAddr)
		if !ok {
			return v
		}
		f := core.FieldOfAddr(fa)
		if f == nil || !f.Embedded() {
			return v
		}
		v = fa.X
	}
}

func namedElem(t types.Type) *types.Named {
	if p, ok := t.Underlying().(*types.Pointer); ok {
		t = p.Elem()
	}
	n, _ := t.(*types.Named)
	return n
}

func isFreshNode(v ssa.Value, ctors map[string]bool) bool {
	switch x := v.(type) {
	case *ssa.Alloc:
		return true
	case *ssa.Call:
		return ctors[core.CallDesc(&x.Call).Name]
	case *ssa.Extract:
		if call, ok := x.Tuple.(*ssa.Call); ok {
			return ctors[core.CallDesc(&call.Call).Name]
		}
	case *ssa.Phi:
		for _, e := range x.Edges {
			if !isFreshNode(e, ctors) {
				return false
			}
		}
		return true
	}
	return false
}

func receiverOf(fn *ssa.Function) *ssa.Parameter {
	if fn.Signature.Recv() == nil || len(fn.Params) == 0 {
		return nil
	}
	return fn.Params[0]
}

func isInsertedLeafParam(fn *ssa.Function, p *ssa.Parameter) bool {
	if rp := receiverOf(fn); rp != nil && rp == p {
		return false
	}
	n := namedElem(p.Type())
	if n == nil || n.Obj().Name() != "leafNode" {
		return false
	}
	switch fn.Name() {
	case "insert", "insertInSameEn", "insertInNewBn", "insertInNewBnAtPos", "insertOnNilChild", "insertOnExistingChild", "insertInSameLn", "insertInNewBn$1":
		return true
	}
	return len(fn.Name()) >= 6 && fn.Name()[:6] == "insert"
}

// c02CanonicalShape: two shape conditions the root hash depends on (equal contents must give the
// same node structure): (a) the child handed to newExtensionNode is a branch node - two chained
// extension nodes, or an extension over a leaf, encode the same keys as one fused node but hash
// differently; (b) an extension node built from a sub-slice of a key (which may be empty) is
// linked into the trie only behind a test that its key is not empty.
func c02CanonicalShape(c *core.Ctx) {
	const pkg = "data/trie"
	childOK := map[string]string{
		"extensionNode.insertInSameEn": "the child is the result of recv.child.insert: the child of an extension is a branch and branchNode.insert returns that branch",
	}
	n := 0
	for _, fn := range c.P.FuncsOfPkg(pkg) {
		for i, in := range callsMatching(fn, pkg, "", "newExtensionNode") {
			n++
			c.Sites++
			call := in.(*ssa.Call)
			name := fmt.Sprintf("%s/newExtensionNode#%d", fname(fn), i)
			child := call.Call.Args[1]
			// ---- (a)
			var isBranch func(child ssa.Value, conds []core.Cond, d int) (bool, string)
			isBranch = func(child ssa.Value, conds []core.Cond, d int) (bool, string) {
				inner := core.Strip(child)
				if nt := namedElem(inner.Type()); nt != nil && nt.Obj().Name() == "branchNode" {
					return true, "static type *branchNode"
				}
				if _, f := core.FieldLoad(inner); f != nil && f.Name() == "child" {
					return true, "the existing child of an extension node (a branch, inductively)"
				}
				// a value chosen on several paths: each incoming value is a branch under the conditions of its edge
				if ph, isPhi := inner.(*ssa.Phi); isPhi && d < 3 {
					whys := []string{}
					for i, e := range ph.Edges {
						ok, w := isBranch(e, core.CondsOnEdgeTo(ph.Block().Preds[i], ph.Block()), d+1)
						if !ok {
							return false, ""
						}
						whys = append(whys, w)
					}
					return true, "on every path: " + strings.Join(whys, " / ")
				}
				// default arm of a type switch (or if-chain of type assertions) that excluded *leafNode and *extensionNode
				excl := map[string]bool{}
				for _, cd := range conds {
					if ex, ok := cd.V.(*ssa.Extract); ok && ex.Index == 1 && !cd.Taken {
						if ta, ok := ex.Tuple.(*ssa.TypeAssert); ok {
							if nt := namedElem(ta.AssertedType); nt != nil {
								// the switch is on the value handed over as child
								if core.Strip(ta.X) == inner || ta.X == child {
									excl[nt.Obj().Name()] = true
								}
							}
						}
					}
				}
				if excl["leafNode"] && excl["extensionNode"] {
					return true, "path on which the value was found to be neither a *leafNode nor an *extensionNode"
				}
				// result of a package function all of whose success exits return a *branchNode
				if ex, ok := inner.(*ssa.Extract); ok && ex.Index == 0 {
					if cl, ok := ex.Tuple.(*ssa.Call); ok {
						if g := cl.Call.StaticCallee(); g != nil && g.Blocks != nil {
							all, any := true, false
							for _, r := range core.Returns(g) {
								if !core.SuccessReturn(r, nil) {
									continue
								}
								any = true
								if nt := namedElem(core.Strip(core.RetOperand(r, 0)).Type()); nt == nil || nt.Obj().Name() != "branchNode" {
									all = false
								}
							}
							if all && any {
								return true, "result of " + fname(g) + ", which returns a *branchNode on every success exit"
							}
						}
					}
				}
				return false, ""
			}
			okChild, why := isBranch(child, core.CondsAt(in.Block()), 0)
			if !okChild {
				if r, ok := childOK[fname(fn)]; ok {
					okChild, why = true, "tabled: "+r
				}
			}
			c.Check(okChild, "C02/extension-child-is-branch", name, in.Pos(), why,
				"the node handed to newExtensionNode as child is not known to be a branch node (an extension over an extension/leaf must be fused into one node): equal contents reached through this path hash differently")
			// ---- (b)
			key := call.Call.Args[0]
			sl, isSlice := key.(*ssa.Slice)
			if !isSlice || (sl.Low == nil && sl.High == nil) {
				continue
			}
			res := core.ResultOf(call, 0)
			if res == nil {
				continue
			}
			resKeyLen := "len(" + core.ExprKey(res) + ".Key)"
			for j, u := range *res.Referrers() {
				linking := false
				switch x := u.(type) {
				case *ssa.MakeInterface:
					for _, r2 := range *x.Referrers() {
						switch r2.(type) {
						case *ssa.Store, *ssa.Return:
							linking = true
						case *ssa.Call:
							linking = true
						}
					}
				case *ssa.Store, *ssa.Return:
					linking = true
				}
				if !linking {
					continue
				}
				guarded := false
				for _, f := range core.FactsAt(u.Block()) {
					if lb, ok := f.LowerBound(resKeyLen); ok && lb >= 1 {
						guarded = true
					}
					if sl.Low == nil && sl.High != nil {
						hk := core.ExprKey(sl.High)
						if lb, ok := f.LowerBound(hk); ok && lb >= 1 {
							guarded = true
						}
						if f.Op == "!=" && ((f.A == "0" && f.B == hk) || (f.B == "0" && f.A == hk)) {
							guarded = true
						}
					}
				}
				c.Check(guarded, "C02/no-empty-key-extension", fmt.Sprintf("%s/link#%d", name, j), u.Pos(), "linked only when its key is known to be non-empty",
					"an extension node whose key is the sub-slice "+core.ExprKey(key)+" (possibly empty) is linked into the trie without a test that the key is non-empty: an empty-key extension hashes differently from the same contents without it")
			}
		}
	}
	c.Floor("C02/extension-child-is-branch", 8)
	c.Floor("C02/no-empty-key-extension", 3)
}

// c02ChildScans: a loop that inspects the children of a branch node by index covers all of its
// slots (slot 16 holds the key that ends at the branch): its bound is the array length / len of
// the slice, never a smaller constant.
func c02ChildScans(c *core.Ctx) {
	const pkg = "data/trie"
	n := 0
	for _, fn := range c.P.FuncsOfPkg(pkg) {
		k := 0
		for _, l := range core.Loops(fn) {
			// induction variable and constant bound at the header
			var bound *ssa.BinOp
			for _, in := range l.Header.Instrs {
				if b, ok := in.(*ssa.BinOp); ok && b.Op == token.LSS {
					bound = b
				}
			}
			if bound == nil {
				continue
			}
			// does the body index a branch node's children with the loop counter?
			arrLen := int64(-1)
			var slices []ssa.Value
			for b := range l.Body {
				for _, in := range b.Instrs {
					ia, ok := in.(*ssa.IndexAddr)
					if !ok || !core.BackwardReachPure(ia.Index)[bound.X] && ia.Index != bound.X {
						continue
					}
					if fa, isFA := ia.X.(*ssa.FieldAddr); isFA && core.FieldOfAddr(fa).Name() == "children" {
						if pt, ok := fa.Type().Underlying().(*types.Pointer); ok {
							if at, ok := pt.Elem().Underlying().(*types.Array); ok {
								arrLen = at.Len()
							}
						}
					}
					if _, f := core.FieldLoad(ia.X); f != nil && f.Name() == "EncodedChildren" {
						slices = append(slices, ia.X)
					}
				}
			}
			if arrLen < 0 && len(slices) == 0 {
				continue
			}
			k++
			n++
			c.Analysed(fname(fn))
			ok, why := false, ""
			if kc, isC := core.ConstInt(bound.Y); isC {
				want := arrLen
				if want < 0 {
					want = 17
					if cst := c.P.Const(pkg, "nrOfChildren"); cst != nil {
						if v, okv := constInt64(cst); okv {
							want = v
						}
					}
				}
				ok = kc >= want
				why = fmt.Sprintf("the loop stops at %d while a branch node has %d child slots", kc, want)
			} else if call, isCall := bound.Y.(*ssa.Call); isCall {
				if bi, isB := call.Call.Value.(*ssa.Builtin); isB && bi.Name() == "len" {
					ok = true // ranges over the collection itself
				}
			} else {
				why = "the loop bound is not the number of child slots"
			}
			c.Check(ok, "C02/child-scans-cover-all-slots", fmt.Sprintf("%s/loop#%d", fname(fn), k), bound.Pos(),
				"the scan over the children runs over all slots",
				why+": the last slot (the key that ends at this branch) is never looked at, so a delete can reduce a branch that still holds that key, or leave a non-canonical single-child branch whose hash depends on history")
		}
	}
	c.Floor("C02/child-scans-cover-all-slots", 10)
}
