package rules

import (
	"fmt"
	"go/token"
	"go/types"
	"sort"
	"strings"

	"golang.org/x/tools/go/ssa"

	"verif/checker/internal/core"
)

func init() {
	register(&Rule{
		ID:    "C45",
		Title: "Protocol data encodes deterministically and round-trips",
		Pkgs: []string{"consensus", "core/dblookupext", "data/batch", "data/block", "data/metrics", "data/receipt", "data/rewardTx", "data/smartContractResult",
			"data/state", "data/transaction", "data/trie", "dataRetriever", "heartbeat/data", "p2p/data", "process/block/bootstrapStorage", "vm/systemSmartContracts", "marshal", "data"},
		Explain: "Decides the determinism half ('encodes to the same bytes each time') completely at the level of code shape: every generated protocol type (a type with gogo-proto Marshal/MarshalToSizedBuffer/Size " +
			"methods in a *.pb.go file) has no map-typed field and no unknown-field store (XXX_unrecognized), and none of its encoding methods contains a range over a map, a goroutine, a select, or a time/rand call - " +
			"so the emitted bytes are a fixed function of the field values, written in field-number order. GogoProtoMarshalizer.Marshal delegates to exactly that method. " +
			"BigIntCaster.Unmarshal has no error return behind an upper bound on the input length. " +
			"Not decided (value-level): decode∘encode equality (custom BigInt caster, nil vs empty slices, default values).",
		Run: runC45,
	})
}

func runC45(c *core.Ctx) {
	c45DecoderAcceptsWhatTheEncoderEmits(c)
	encNames := map[string]bool{"Marshal": true, "MarshalTo": true, "MarshalToSizedBuffer": true, "Size": true}
	typesSeen := map[*types.Named]bool{}
	var tlist []*types.Named
	nFn := 0
	for _, fn := range c.P.SrcFuncs() {
		if fn.Signature.Recv() == nil || !encNames[fn.Name()] {
			continue
		}
		file := c.P.Fset.Position(fn.Pos()).Filename
		if !strings.HasSuffix(file, ".pb.go") || strings.Contains(file, "/mock/") || strings.Contains(file, "testSizeCheckUnmarshal") {
			continue
		}
		nt := namedElem(fn.Signature.Recv().Type())
		if nt == nil {
			continue
		}
		if !typesSeen[nt] {
			typesSeen[nt] = true
			tlist = append(tlist, nt)
		}
		nFn++
		bad := ""
		core.Instrs(fn, func(in ssa.Instruction) {
			switch x := in.(type) {
			case *ssa.Range:
				if _, isMap := x.X.Type().Underlying().(*types.Map); isMap {
					bad = "range over a map at " + c.P.Pos(x.Pos())
				}
			case *ssa.Go:
				bad = "goroutine at " + c.P.Pos(x.Pos())
			case *ssa.Select:
				bad = "select at " + c.P.Pos(x.Pos())
			}
		})
		if nd := core.NondetSources(fn); len(nd) > 0 {
			bad = "time/rand/select at " + c.P.Pos(nd[0].Pos())
		}
		if bad != "" {
			c.Fail("C45/encoder-order-independent", fname(fn), fn.Pos(), "the encoder contains "+bad+": the emitted bytes can differ between runs")
		}
	}
	c.Sites += nFn
	sort.Slice(tlist, func(i, j int) bool {
		return tlist[i].Obj().Pkg().Path()+tlist[i].Obj().Name() < tlist[j].Obj().Pkg().Path()+tlist[j].Obj().Name()
	})
	for _, nt := range tlist {
		st, ok := nt.Underlying().(*types.Struct)
		name := strings.TrimPrefix(nt.Obj().Pkg().Path(), core.Mod+"/") + "." + nt.Obj().Name()
		if !ok {
			continue
		}
		bad := ""
		for i := 0; i < st.NumFields(); i++ {
			f := st.Field(i)
			if _, isMap := f.Type().Underlying().(*types.Map); isMap {
				bad = "map-typed field " + f.Name()
			}
			if strings.HasPrefix(f.Name(), "XXX_unrecognized") {
				bad = "unknown-field store " + f.Name()
			}
		}
		c.Check(bad == "", "C45/type-has-fixed-field-order", name, nt.Obj().Pos(), "no map field, no unknown-field store; encoders are straight-line over the fields",
			"generated type has a "+bad+": its encoding depends on map iteration order / on bytes that are not part of the decoded fields")
	}
	c.Note("%d generated types, %d encoder methods scanned", len(tlist), nFn)
	c.Pass("C45/encoder-order-independent", "all-encoders", 0, fmt.Sprintf("%d Marshal/MarshalTo/MarshalToSizedBuffer/Size methods contain no map range, goroutine, select, time or rand", nFn))
	c.Floor("C45/type-has-fixed-field-order", 60)
	// decoding starts from a clean object: the generated Unmarshal MERGES into its receiver (repeated fields are appended,
	// absent fields keep their old value), so GogoProtoMarshalizer.Unmarshal must Reset() the destination first
	if fn := anchorM(c, "marshal", "GogoProtoMarshalizer", "Unmarshal"); fn != nil {
		q := core.PathQ{Fn: fn, Via: func(in ssa.Instruction) bool {
			cc := core.CallOf(in)
			return cc != nil && isInvoke(cc, "Reset")
		}, Target: func(in ssa.Instruction, _ *ssa.BasicBlock) bool {
			cc := core.CallOf(in)
			return cc != nil && isInvoke(cc, "Unmarshal")
		}}
		esc, _ := q.Escape()
		c.Check(esc == nil, "C45/marshalizer-delegates", "GogoProtoMarshalizer.Unmarshal/reset-first", fn.Pos(), "the destination is Reset() before the generated Unmarshal merges into it",
			"the generated Unmarshal is reached without a preceding Reset(): decoding into a reused object appends to repeated fields and keeps stale values")
		// ... and success is reported only as the outcome of the generated Unmarshal on the reset object
		// (an all-default value encodes to zero bytes: a shortcut for an empty buffer leaves a reused
		// destination with its old contents)
		okRes, whyRes := true, ""
		for _, r := range core.Returns(fn) {
			if !core.SuccessReturn(r, nil) {
				continue
			}
			call, isCall := core.RetErrOperand(r).(*ssa.Call)
			if !isCall || !isInvoke(&call.Call, "Unmarshal") {
				okRes, whyRes = false, "a return that can report success at "+c.P.Pos(r.Pos())+" is not the result of the generated Unmarshal"
				continue
			}
			reset := false
			core.Instrs(fn, func(in ssa.Instruction) {
				if cc := core.CallOf(in); cc != nil && isInvoke(cc, "Reset") && cc.Value == call.Call.Value && core.DominatesInstr(in, call) {
					reset = true
				}
			})
			if !reset {
				okRes, whyRes = false, "the object decoded into is not the one that was Reset()"
			}
		}
		c.Check(okRes, "C45/marshalizer-delegates", "GogoProtoMarshalizer.Unmarshal/success-is-decode-of-reset-object", fn.Pos(),
			"every success return is msg.Unmarshal(buff) on the message that was Reset()", whyRes+": decoding into a reused object can leave stale contents (an all-default value encodes to zero bytes)")
	}
	// every decoded big integer is a fresh object: a shared *big.Int would alias the zero-valued fields of all decoded records
	if fn := optM(c, "data", "BigIntCaster", "Unmarshal"); fn != nil {
		bad := ""
		for _, r := range core.Returns(fn) {
			for v := range core.BackwardReachPure(core.RetOperand(r, 0)) {
				if g, ok := v.(*ssa.Global); ok {
					bad = g.Name()
				}
			}
		}
		c.Check(bad == "", "C45/decoded-values-fresh", "BigIntCaster.Unmarshal", fn.Pos(), "returns a big.Int allocated by the call",
			"BigIntCaster.Unmarshal returns the package-level value "+bad+": all decoded zero-valued fields share one pointer and an in-place update of one record changes the others")
	}
	// the marshalizer delegates to the generated method
	if fn := anchorM(c, "marshal", "GogoProtoMarshalizer", "Marshal"); fn != nil {
		ok := false
		for _, r := range core.Returns(fn) {
			if ex, isEx := core.RetOperand(r, 0).(*ssa.Extract); isEx {
				if call, isC := ex.Tuple.(*ssa.Call); isC && isInvoke(&call.Call, "Marshal") {
					ok = true
				}
			}
		}
		c.Check(ok, "C45/marshalizer-delegates", "GogoProtoMarshalizer.Marshal", fn.Pos(), "returns the object's own generated Marshal()", "GogoProtoMarshalizer.Marshal no longer returns the generated Marshal() of the object")
	}
}

// c45DecoderAcceptsWhatTheEncoderEmits: BigIntCaster encodes a value of any width (sign byte plus
// magnitude). Its decoder refuses only what the encoder never emits - an empty buffer, an invalid
// sign byte: no error return sits behind an upper bound on the length of the input. A decode-side
// limit makes values the encoder accepts unreadable.
func c45DecoderAcceptsWhatTheEncoderEmits(c *core.Ctx) {
	fn := anchorM(c, "data", "BigIntCaster", "Unmarshal")
	if fn == nil || len(fn.Params) < 2 {
		return
	}
	buf := ssa.Value(fn.Params[1])
	isLen := func(v ssa.Value) bool {
		call, ok := v.(*ssa.Call)
		if !ok {
			return false
		}
		b, isB := call.Call.Value.(*ssa.Builtin)
		return isB && b.Name() == "len" && call.Call.Args[0] == buf
	}
	n, bad := 0, ""
	for _, r := range core.Returns(fn) {
		if core.NilReturn(r, nil) {
			continue
		}
		n++
		for _, cd := range core.CondsAt(r.Block()) {
			bo, ok := cd.V.(*ssa.BinOp)
			if !ok {
				continue
			}
			x, y, op := bo.X, bo.Y, bo.Op
			if isLen(y) {
				x, y = y, x
				op = map[token.Token]token.Token{token.LSS: token.GTR, token.GTR: token.LSS, token.LEQ: token.GEQ, token.GEQ: token.LEQ, token.EQL: token.EQL, token.NEQ: token.NEQ}[op]
			}
			k, isC := core.ConstInt(y)
			if !isLen(x) || !isC {
				continue
			}
			// the error is returned for len(buf) ABOVE some bound
			upper := (op == token.GTR || op == token.GEQ) && cd.Taken || (op == token.LSS || op == token.LEQ) && !cd.Taken
			if upper && k >= 2 {
				bad = fmt.Sprintf("len(buf) above %d at %s", k, c.P.Pos(r.Pos()))
			}
		}
	}
	c.Check(n >= 1 && bad == "", "C45/decoder-accepts-what-the-encoder-emits", "BigIntCaster.Unmarshal", fn.Pos(),
		"no error return behind an upper bound on the input length",
		"BigIntCaster.Unmarshal refuses an input because of its length ("+bad+") while Size/MarshalTo encode values of any width: a structure holding such a value still encodes deterministically but can no longer be decoded")
}
