package rules

import (
	"fmt"
	"go/token"

	"golang.org/x/tools/go/ssa"

	"verif/checker/internal/core"
)

// anchorM resolves a method anchor; an unresolved anchor is an undecided obligation.
func anchorM(c *core.Ctx, rel, typ, name string) *ssa.Function {
	fn := c.P.Method(rel, typ, name)
	if fn == nil || fn.Blocks == nil {
		c.Undecided("anchor", fmt.Sprintf("%s:%s.%s", rel, typ, name), token.NoPos, "anchor method not found in the type-checked program (renamed or removed): the rule cannot be evaluated")
		return nil
	}
	c.Analysed(core.QualName(fn))
	return fn
}

// anchorF resolves a package-level function anchor.
func anchorF(c *core.Ctx, rel, name string) *ssa.Function {
	fn := c.P.Func(rel, name)
	if fn == nil || fn.Blocks == nil {
		c.Undecided("anchor", fmt.Sprintf("%s:%s", rel, name), token.NoPos, "anchor function not found in the type-checked program (renamed or removed): the rule cannot be evaluated")
		return nil
	}
	c.Analysed(core.QualName(fn))
	return fn
}

// optM resolves a method that may legitimately be absent.
func optM(c *core.Ctx, rel, typ, name string) *ssa.Function {
	fn := c.P.Method(rel, typ, name)
	if fn != nil && fn.Blocks != nil {
		c.Analysed(core.QualName(fn))
		return fn
	}
	return nil
}

func fname(fn *ssa.Function) string { return core.FuncName(fn) }

// callsMatching lists calls in fn (not in closures) matching pkg/recv/name.
func callsMatching(fn *ssa.Function, pkg, recv, name string) []ssa.Instruction {
	return core.CallsIn(fn, func(in ssa.Instruction, cc *ssa.CallCommon) bool {
		return core.CallDesc(cc).Is(pkg, recv, name)
	})
}

func isFieldOf(v ssa.Value, field string) bool {
	_, f := core.FieldLoad(v)
	return f != nil && f.Name() == field
}

type tokenPos = token.Pos

type viaPred = func(in ssa.Instruction, cc *ssa.CallCommon) bool
type targetFn = func(in ssa.Instruction, pred *ssa.BasicBlock) bool
type pruneFn = func(b *ssa.BasicBlock, succ int) bool

// mustPassChecked records the obligation "every path of fn from `from` (entry when nil) to a
// target passes a call accepted by via whose error result was nil".
func mustPassChecked(c *core.Ctx, fn *ssa.Function, rule, construct string, from ssa.Instruction, via viaPred, target targetFn, prune pruneFn, what string) bool {
	cv := core.NewCheckedVia(fn, via)
	c.Sites += len(cv.Calls)
	if len(cv.Calls) == 0 {
		c.Fail(rule, construct, fn.Pos(), fmt.Sprintf("%s: no such call in %s", what, fname(fn)))
		return false
	}
	for _, u := range cv.Unhandled {
		c.Fail(rule, construct, u.Pos(), fmt.Sprintf("%s: the error result of the call is neither tested against nil nor returned", what))
		return false
	}
	q := core.PathQ{Fn: fn, From: from, Via: cv.Via, ViaEdge: cv.ViaEdge, Prune: prune, Target: cv.WrapTarget(target)}
	esc, path := q.Escape()
	if esc != nil {
		c.Fail(rule, construct, esc.Pos(), fmt.Sprintf("%s: the exit at %s is reachable without it (path %s)", what, c.P.Pos(esc.Pos()), c.P.PathString(path)))
		return false
	}
	c.Pass(rule, construct, fn.Pos(), what+": holds on every path")
	return true
}

// mustPass is the unchecked variant (events without an error result, or where the error is irrelevant).
func mustPass(c *core.Ctx, fn *ssa.Function, rule, construct string, from ssa.Instruction, via func(ssa.Instruction) bool, target targetFn, prune pruneFn, what string) bool {
	n := 0
	core.Instrs(fn, func(in ssa.Instruction) {
		if via(in) {
			n++
		}
	})
	c.Sites += n
	if n == 0 {
		c.Fail(rule, construct, fn.Pos(), fmt.Sprintf("%s: no such event in %s", what, fname(fn)))
		return false
	}
	q := core.PathQ{Fn: fn, From: from, Via: via, Prune: prune, Target: target}
	esc, path := q.Escape()
	if esc != nil {
		c.Fail(rule, construct, esc.Pos(), fmt.Sprintf("%s: the exit at %s is reachable without it (path %s)", what, c.P.Pos(esc.Pos()), c.P.PathString(path)))
		return false
	}
	c.Pass(rule, construct, fn.Pos(), what+": holds on every path")
	return true
}

// isRecvField reports whether v is a load of field `name` of the function's receiver
// (through embedded structs).
func isRecvField(fn *ssa.Function, v ssa.Value, name string) bool {
	base, f := core.FieldLoad(v)
	if f == nil || f.Name() != name {
		return false
	}
	r := receiverOf(fn)
	return r != nil && rootBase(base) == ssa.Value(r)
}

// loopComplete checks that the loop leaves only through its header (range exhaustion) or
// through definite error returns; returns a description of the offending exit otherwise.
func loopComplete(c *core.Ctx, l *core.Loop, allow func(e core.Exit) bool) string {
	for _, e := range l.Exits() {
		if e.From == l.Header {
			continue
		}
		to := e.From.Succs[e.Succ]
		if core.OnlyErrorReturnsFrom(to, e.From, l) {
			continue
		}
		if allow != nil && allow(e) {
			continue
		}
		return fmt.Sprintf("early exit from the loop at b%d→b%d (%s)", e.From.Index, to.Index, c.P.Pos(firstPos(to)))
	}
	return ""
}

// edgeFact returns an edge predicate accepting CFG edges on which the branch condition itself
// establishes a fact accepted by pred.
func edgeFact(pred func(f core.Fact, cd core.Cond) bool) func(b *ssa.BasicBlock, succ int) bool {
	return func(b *ssa.BasicBlock, succ int) bool {
		ifi, ok := b.Instrs[len(b.Instrs)-1].(*ssa.If)
		if !ok || b.Succs[0] == b.Succs[1] {
			return false
		}
		conds := core.CondsOnEdge(b, succ)
		if len(conds) == 0 {
			return false
		}
		cd := conds[len(conds)-1]
		if cd.If != ifi {
			return false
		}
		return pred(core.FactOf(cd), cd)
	}
}

// onlyPkgs returns a Cone stop-predicate that confines a call cone to the given module-relative
// packages (the property's anchored packages): interface calls are resolved to every
// implementation inside them; implementations elsewhere in the module (loggers, storage back
// ends, mocks) are outside the property's mechanism and are not followed.
func onlyPkgs(rels ...string) func(*ssa.Function) bool {
	allowed := map[string]bool{}
	for _, r := range rels {
		allowed[core.PkgPath(r)] = true
	}
	return func(f *ssa.Function) bool {
		root := f
		for root.Parent() != nil {
			root = root.Parent()
		}
		if root.Package() == nil {
			return true
		}
		return !allowed[root.Package().Pkg.Path()]
	}
}

// reachWithHelpers is BackwardReachPure(v) extended, one level, into the functions of pkg whose result
// is among the values reached (`x.f = x.compute(n)`: what compute's results are made of is what f is made of).
func reachWithHelpers(v ssa.Value, pkg *ssa.Package) map[ssa.Value]bool {
	out := map[ssa.Value]bool{}
	for x := range core.BackwardReachPure(v) {
		out[x] = true
	}
	out[v] = true
	for x := range out {
		var call *ssa.Call
		switch t := x.(type) {
		case *ssa.Call:
			call = t
		case *ssa.Extract:
			call, _ = t.Tuple.(*ssa.Call)
		}
		if call == nil {
			continue
		}
		h := call.Call.StaticCallee()
		if h == nil || h.Blocks == nil || h.Pkg != pkg {
			continue
		}
		for _, r := range core.Returns(h) {
			for i := range r.Results {
				for y := range core.BackwardReachPure(core.RetOperand(r, i)) {
					out[y] = true
				}
			}
		}
	}
	return out
}

// succeedsOnlyAfter: every nil-error return of h lies behind a call matching pred whose error result was
// tested (or is what h returns). The quiet form of mustPassChecked, used to take a helper as the event itself.
func succeedsOnlyAfter(h *ssa.Function, pred viaPred) bool {
	if h == nil || h.Blocks == nil || core.ErrIndex(h.Signature) < 0 {
		return false
	}
	cv := core.NewCheckedVia(h, pred)
	if len(cv.Calls) == 0 || len(cv.Unhandled) > 0 {
		return false
	}
	esc, _ := core.PathQ{Fn: h, Via: cv.Via, ViaEdge: cv.ViaEdge, Target: cv.WrapTarget(core.NilReturn)}.Escape()
	return esc == nil
}
