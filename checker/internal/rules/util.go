package rules

import (
	"fmt"
	"go/token"

	"golang.org/x/tools/go/ssa"

	"verif/checker/internal/core"
)

// anchorM resolves a method anchor; an unresolved anchor is an undecided obligation.
func anchorM(c *core.Ctx, rel, typ, name string) *ssa.Function {
	fn := c.P.Method(rel, typ, name)
	if fn == nil || fn.Blocks == nil {
		c.Undecided("anchor", fmt.Sprintf("%s:%s.%s", rel, typ, name), token.NoPos, "anchor method not found in the type-checked program (renamed or removed): the rule cannot be evaluated")
		return nil
	}
	c.Analysed(core.QualName(fn))
	return fn
}

// anchorF resolves a package-level function anchor.
func anchorF(c *core.Ctx, rel, name string) *ssa.Function {
	fn := c.P.Func(rel, name)
	if fn == nil || fn.Blocks == nil {
		c.Undecided("anchor", fmt.Sprintf("%s:%s", rel, name), token.NoPos, "anchor function not found in the type-checked program (renamed or removed): the rule cannot be evaluated")
		return nil
	}
	c.Analysed(core.QualName(fn))
	return fn
}

// optM resolves a method that may legitimately be absent.
func optM(c *core.Ctx, rel, typ, name string) *ssa.Function {
	fn := c.P.Method(rel, typ, name)
	if fn != nil && fn.Blocks != nil {
		c.Analysed(core.QualName(fn))
		return fn
	}
	return nil
}

func fname(fn *ssa.Function) string { return core.FuncName(fn) }

// callsMatching lists calls in fn (not in closures) matching pkg/recv/name.
func callsMatching(fn *ssa.Function, pkg, recv, name string) []ssa.Instruction {
	return core.CallsIn(fn, func(in ssa.Instruction, cc *ssa.CallCommon) bool {
		return core.CallDesc(cc).Is(pkg, recv, name)
	})
}

func isFieldOf(v ssa.Value, field string) bool {
	_, f := core.FieldLoad(v)
	return f != nil && f.Name() == field
}

type tokenPos = token.Pos
