package rules

import (
	"fmt"
	"go/token"
	"go/types"
	"sort"
	"strings"

	"golang.org/x/tools/go/ssa"

	"verif/checker/internal/core"
)

func init() {
	register(&Rule{
		ID:    "C38",
		Title: "Delegation contract bookkeeping stays consistent",
		Pkgs:  []string{"vm/systemSmartContracts"},
		Explain: "Decides a structural necessary condition of multi-record consistency: a persistent record that is modified is written back. The delegation contract keeps its state in records loaded by getters " +
			"(GetStorage+Unmarshal, returning *T) and persisted by savers (Marshal of a *T parameter + SetStorage); both sets are inferred from the SSA of the package, not listed. For every method of `delegation`, every " +
			"record value whose field is written (directly, through a *big.Int it points to, through an element of a slice it holds, or by a callee whose summary says it leaves the parameter modified) reaches every success " +
			"return (vmcommon.Ok / nil error; `if code != Ok { return code }` is recognised as failure) only through a saver of that same value or a delete of its storage entry, unless the function hands the record back " +
			"(returns it, or got it as a parameter: the obligation moves to the caller through the callee's summary). Functions whose call cone performs no storage write, transfer or nested execution are views and exempt. " +
			"A total updated in one record while the record holding the matching sum is not saved (or the reverse) is exactly how the totals and the per-delegator funds drift apart. Reviewed exceptions are listed with a " +
			"reason that is re-verified on every run. " +
			"Also: a change of a delegator's active fund is preceded on every path (callers followed) by the settling of its rewards or the initialisation of its checkpoint; a function that resets UnClaimedRewards pays out or re-stakes exactly that counter; " +
			"the early exit of withdraw's fund loop is accepted only while validatorSC.unBondTokens returns no data (no Finish in its cone), which makes the partial-unbond branch dead. " +
			"Not decided (value-level): the arithmetic relating the records (sums, thresholds, unbonding periods), operation histories.",
		Run: func(c *core.Ctx) {
			runWriteBack(c, "C38", "delegation", 25, wbExceptionsC38)
			c38Checkpoint(c)
			c38NewDelegatorInitialised(c)
			c38FundListConserved(c)
			c38PaidIsTheZeroedCounter(c)
			c38SettledBeforeStakeChanges(c)
			c38CheckpointIsNextEpoch(c)
		},
	})
	register(&Rule{
		ID:    "C39",
		Title: "Staking queue and staked-node count stay consistent",
		Pkgs:  []string{"vm/systemSmartContracts"},
		Explain: "Decides two structural necessary conditions. (S1) the modified-record-written-back typestate of C38 applied to every method of `stakingSC`: the waiting-list head, the list elements touched by an insertion " +
			"or removal, the per-key staking data and the nodes configuration are each saved (or their entry deleted) on every success path after they were modified - a neighbour whose pointer was rewired but not saved " +
			"leaves a list whose links, length and markers disagree. (S2) the staked-node counter moves with the Staked flag: a store of `Staked = true` is accompanied on every path by addToStakedNodes (in the same " +
			"function, or - when the record is a parameter - around every call of that helper), and every call of removeFromStakedNodes is followed by a store of `Staked = false` before a success return. " +
			"(S3) links are updated in pairs: when an element's NextKey (PreviousKey) is set to the key of another element, that other element is loaded in the same function and its PreviousKey (NextKey) is written too; " +
			"the end markers (own key as PreviousKey of the first element, empty NextKey of the last) are exempt. A one-sided link leaves an element that still marks itself as first, and removing it later cuts the real first element out of the list. " +
			"(S4) removeFromWaitingList reaches a success return, once the length was decremented, only through a store of LastJailedKey, the deletion of the head, or the branch on which the removed key is known not to be the last-jailed marker; " +
			"functions that prefix a BLS key themselves (add/removeFromWaitingList, ...) are never handed an already prefixed key. " +
			"The link written on the neighbour names the element: its value is the key the element is saved under (same origins), neighbours being the elements whose load dominates the link store. " +
			"Not decided (value-level): which element becomes first/last/last-jailed, the comparison of the counter with the configured maximum, feature-flag dependent branches.",
		Run: func(c *core.Ctx) {
			runWriteBack(c, "C39", "stakingSC", 15, nil)
			c39Counters(c)
			c39LinksInPairs(c)
			c39MarkerAndKeys(c)
			c39JailOnlyStakedNodes(c)
		},
	})
}

type wbException struct {
	fn, recType, reason string
}

var wbExceptionsC38 = []wbException{
	{"delegation.withdraw", "DelegatorData", "deleteDelegatorIfNeeded recomputes the rewards of a delegator it may delete; when the delegator is kept, what stays persisted is the record saved just before (older checkpoint and unclaimed rewards are consistent with each other and are recomputed on the next call)"},
}

func runWriteBack(c *core.Ctx, prop, recvType string, floor int, exceptions []wbException) {
	const pkg = "vm/systemSmartContracts"
	funcs := c.P.FuncsOfPkg(pkg)
	if len(funcs) == 0 {
		c.Undecided("anchor", pkg, 0, "package not loaded")
		return
	}
	wb := core.NewWriteBack(funcs[0].Pkg, funcs)
	wb.Run()
	sv, dh := wb.Stats()
	c.Note("record types with a saver: %s", strings.Join(wb.RecordTypes(), ", "))
	c.Note("%d saver functions (primitive and derived), %d helpers that leave a record parameter modified", sv, dh)
	rule := prop + "/modified-record-written-back"
	isRecv := func(fn *ssa.Function) bool {
		root := fn
		for root.Parent() != nil {
			root = root.Parent()
		}
		return root.Signature.Recv() != nil && strings.HasSuffix(root.Signature.Recv().Type().String(), "."+recvType)
	}
	for _, fn := range funcs {
		if !isRecv(fn) {
			continue
		}
		byType := map[string][]core.WBFinding{}
		for _, f := range wb.Findings[fn] {
			byType[f.Type] = append(byType[f.Type], f)
		}
		checked := append([]string(nil), wb.Checked[fn]...)
		sort.Strings(checked)
		if len(checked) == 0 {
			continue
		}
		c.Analysed(fname(fn))
		view := wb.ReadOnly(fn)
		for _, t := range checked {
			name := fname(fn) + "/" + t
			fs := byType[t]
			switch {
			case len(fs) == 0:
				c.Pass(rule, name, fn.Pos(), "every success return after a modification of the record lies behind its saver (or the deletion of its entry)")
			case view:
				c.Pass(rule, name, fn.Pos(), "view: the call cone of the function performs no storage write, transfer or nested execution; the modified record is a scratch value")
			default:
				f := fs[0]
				var ex *wbException
				for i := range exceptions {
					if exceptions[i].fn == fname(fn) && exceptions[i].recType == t {
						ex = &exceptions[i]
					}
				}
				detail := fmt.Sprintf("%s is modified (%s, %s) and a success return at %s is reachable without saving it (%s): the change is lost while the other records written by this call keep theirs, so the records disagree",
					f.Record, f.What, c.P.Pos(f.Mutation.Pos()), c.P.Pos(f.Return.Pos()), c.P.PathString(f.Path))
				if ex != nil {
					c.Check(f.SavedBefore, rule, name, f.Mutation.Pos(), "reviewed exception (re-verified: the record was saved before this modification): "+ex.reason,
						"reviewed exception no longer verifiable (no save of the record dominates the modification): "+detail)
				} else {
					c.Fail(rule, name, f.Mutation.Pos(), detail)
				}
			}
		}
	}
	c.Floor(rule, floor)
}

// c39Counters: the staked-node counter moves with the Staked flag.
func c39Counters(c *core.Ctx) {
	const pkg = "vm/systemSmartContracts"
	add := c.P.Method(pkg, "stakingSC", "addToStakedNodes")
	rem := c.P.Method(pkg, "stakingSC", "removeFromStakedNodes")
	stakedF := c.P.Field(pkg, "StakedDataV2_0", "Staked")
	if add == nil || rem == nil || stakedF == nil {
		c.Undecided("anchor", "stakingSC counters", 0, "addToStakedNodes/removeFromStakedNodes/StakedDataV2_0.Staked not found")
		return
	}
	isCallTo := func(g *ssa.Function) func(ssa.Instruction) bool {
		return func(in ssa.Instruction) bool {
			cc := core.CallOf(in)
			return cc != nil && cc.StaticCallee() == g
		}
	}
	storeOf := func(in ssa.Instruction, val bool) bool {
		st, ok := in.(*ssa.Store)
		if !ok {
			return false
		}
		fa, ok := st.Addr.(*ssa.FieldAddr)
		if !ok || core.FieldOfAddr(fa) != stakedF {
			return false
		}
		b, isC := core.ConstBool(st.Val)
		return isC && b == val
	}
	// helpers that set Staked = true on a record parameter (activeStakingFor): the pairing is checked at their call sites
	setsTrue := map[*ssa.Function]bool{}
	for _, fn := range c.P.FuncsOfPkg(pkg) {
		core.Instrs(fn, func(in ssa.Instruction) {
			if storeOf(in, true) {
				st := in.(*ssa.Store)
				if _, isParam := st.Addr.(*ssa.FieldAddr).X.(*ssa.Parameter); isParam {
					setsTrue[fn] = true
				}
			}
		})
	}
	// ... and the mirror image: helpers every return of which has set Staked = false on a record parameter
	// (an extracted "mark as unstaked"): a call of one is the clearing of the flag at its call site
	setsFalse := map[*ssa.Function]bool{}
	for _, fn := range c.P.FuncsOfPkg(pkg) {
		clears := func(in ssa.Instruction) bool {
			if !storeOf(in, false) {
				return false
			}
			_, isParam := in.(*ssa.Store).Addr.(*ssa.FieldAddr).X.(*ssa.Parameter)
			return isParam
		}
		any := false
		core.Instrs(fn, func(in ssa.Instruction) {
			if clears(in) {
				any = true
			}
		})
		if !any {
			continue
		}
		if esc, _ := (core.PathQ{Fn: fn, Via: clears, Target: core.AnyReturn}).Escape(); esc == nil {
			setsFalse[fn] = true
		}
	}
	n := 0
	for _, fn := range c.P.FuncsOfPkg(pkg) {
		if fn.Signature.Recv() == nil || !strings.HasSuffix(fn.Signature.Recv().Type().String(), ".stakingSC") || setsTrue[fn] {
			continue
		}
		k := 0
		core.Instrs(fn, func(in ssa.Instruction) {
			becomesStaked := storeOf(in, true)
			if cc := core.CallOf(in); cc != nil && cc.StaticCallee() != nil && setsTrue[cc.StaticCallee()] {
				becomesStaked = true
			}
			if becomesStaked {
				k++
				n++
				c.Analysed(fname(fn))
				// no path entry -> in without add AND in -> success return without add
				before, _ := core.PathQ{Fn: fn, Via: isCallTo(add), Target: func(x ssa.Instruction, _ *ssa.BasicBlock) bool { return x == in }}.Escape()
				after, path := core.PathQ{Fn: fn, From: in, Via: isCallTo(add), Target: okReturn}.Escape()
				c.Check(before == nil || after == nil, "C39/counter-moves-with-staked-flag", fmt.Sprintf("%s/becomes-staked#%d", fname(fn), k), in.Pos(),
					"a key that becomes staked is counted by addToStakedNodes on every path",
					"a key can be marked Staked without addToStakedNodes on the path ("+c.P.PathString(path)+"): the staked-node counter falls behind the number of keys marked as staked")
			}
			if isCallTo(rem)(in) {
				k++
				n++
				c.Analysed(fname(fn))
				esc, path := core.PathQ{Fn: fn, From: in, Via: func(x ssa.Instruction) bool {
					if storeOf(x, false) {
						return true
					}
					cc := core.CallOf(x)
					return cc != nil && cc.StaticCallee() != nil && setsFalse[cc.StaticCallee()]
				}, Target: okReturn}.Escape()
				c.Check(esc == nil, "C39/counter-moves-with-staked-flag", fmt.Sprintf("%s/uncounted#%d", fname(fn), k), in.Pos(),
					"after removeFromStakedNodes the key is marked not staked before every success return",
					"removeFromStakedNodes is not followed by `Staked = false` on a path to a success return ("+c.P.PathString(path)+"): the counter drops while the key stays marked as staked")
			}
		})
	}
	c.Floor("C39/counter-moves-with-staked-flag", 5)
}

// okReturn classifies a return as (possibly) successful for functions returning an error or a
// vmcommon.ReturnCode (Ok is 0; a constant other than 0 is a failure).
func okReturn(in ssa.Instruction, pred *ssa.BasicBlock) bool {
	r, ok := in.(*ssa.Return)
	if !ok {
		return false
	}
	fn := r.Parent()
	if core.ErrIndex(fn.Signature) >= 0 {
		return core.SuccessReturn(r, pred)
	}
	for i := 0; i < fn.Signature.Results().Len(); i++ {
		if strings.HasSuffix(fn.Signature.Results().At(i).Type().String(), "ReturnCode") {
			if n, isC := core.ConstInt(r.Results[i]); isC {
				return n == 0
			}
		}
	}
	return true
}

// c38Checkpoint: settling the rewards advances the checkpoint on every success path.
func c38Checkpoint(c *core.Ctx) {
	fn := anchorM(c, "vm/systemSmartContracts", "delegation", "computeAndUpdateRewards")
	if fn == nil {
		return
	}
	c.Analysed(fname(fn))
	cp := c.P.Field("vm/systemSmartContracts", "DelegatorData", "RewardsCheckpoint")
	if cp == nil {
		c.Undecided("anchor", "DelegatorData.RewardsCheckpoint", fn.Pos(), "field not found")
		return
	}
	stores := func(in ssa.Instruction) bool {
		st, ok := in.(*ssa.Store)
		if !ok {
			return false
		}
		fa, ok := st.Addr.(*ssa.FieldAddr)
		return ok && core.FieldOfAddr(fa) == cp
	}
	n := 0
	for _, r := range core.Returns(fn) {
		if !core.SuccessReturn(r, nil) {
			continue
		}
		n++
		r := r
		esc, path := core.PathQ{Fn: fn, Via: stores, Target: func(in ssa.Instruction, _ *ssa.BasicBlock) bool { return in == ssa.Instruction(r) }}.Escape()
		name := "delegation.computeAndUpdateRewards/return-after-loop"
		if esc != nil {
			name = "delegation.computeAndUpdateRewards/return-without-checkpoint"
		}
		c.Check(esc == nil, "C38/rewards-checkpoint-advances", name, r.Pos(),
			"the success return lies behind the store that advances RewardsCheckpoint",
			"computeAndUpdateRewards reports success without advancing RewardsCheckpoint ("+c.P.PathString(path)+"): a delegator without an active fund keeps an old checkpoint, and after delegating again is paid for the epochs in between with the new stake - rewards paid exceed rewards received")
	}
	c.Floor("C38/rewards-checkpoint-advances", 2)
}

// c38NewDelegatorInitialised: a delegator record that did not exist before gets its rewards
// checkpoint before it is handed to anything that saves it.
func c38NewDelegatorInitialised(c *core.Ctx) {
	const pkg = "vm/systemSmartContracts"
	cp := c.P.Field(pkg, "DelegatorData", "RewardsCheckpoint")
	get := c.P.Method(pkg, "delegation", "getOrCreateDelegatorData")
	if cp == nil || get == nil {
		c.Undecided("anchor", "delegation.getOrCreateDelegatorData", 0, "not found")
		return
	}
	funcs := c.P.FuncsOfPkg(pkg)
	wb := core.NewWriteBack(funcs[0].Pkg, funcs)
	wb.Run()
	n := 0
	// savesWithoutCP: g can write the record given as its i-th argument to storage on a path on which
	// it has neither assigned the record's RewardsCheckpoint nor settled its rewards (the settling
	// routine assigns it). A callee that initialises before it saves is not a "save of an
	// uninitialised record" for its caller.
	var savesWithoutCP func(g *ssa.Function, i int, depth int) bool
	savesWithoutCP = func(g *ssa.Function, i int, depth int) bool {
		if depth > 3 || len(g.Blocks) == 0 || i >= len(g.Params) {
			return true
		}
		p := ssa.Value(g.Params[i])
		sets := func(x ssa.Instruction) bool {
			if st, ok := x.(*ssa.Store); ok {
				if fa, ok := st.Addr.(*ssa.FieldAddr); ok && core.FieldOfAddr(fa) == cp && fa.X == p {
					return true
				}
			}
			if cc := core.CallOf(x); cc != nil && cc.StaticCallee() != nil && cc.StaticCallee().Name() == "computeAndUpdateRewards" {
				for _, a := range cc.Args {
					if a == p {
						return true
					}
				}
			}
			return false
		}
		passesOn := false
		target := func(x ssa.Instruction, _ *ssa.BasicBlock) bool {
			cc := core.CallOf(x)
			if cc == nil || cc.StaticCallee() == nil {
				return false
			}
			for j, a := range cc.Args {
				if a == p && wb.Saves(cc.StaticCallee(), j) {
					passesOn = true
					if savesWithoutCP(cc.StaticCallee(), j, depth+1) {
						return true
					}
				}
			}
			return false
		}
		core.Instrs(g, func(x ssa.Instruction) {
			if cc := core.CallOf(x); cc != nil && cc.StaticCallee() != nil {
				for j, a := range cc.Args {
					if a == p && wb.Saves(cc.StaticCallee(), j) {
						passesOn = true
					}
				}
			}
		})
		esc, _ := core.PathQ{Fn: g, Via: sets, Target: target}.Escape()
		if esc != nil {
			return true
		}
		return !passesOn // the primitive saver itself (marshals and stores the record)
	}
	for _, fn := range funcs {
		for _, in := range core.CallsIn(fn, func(in ssa.Instruction, cc *ssa.CallCommon) bool { return cc.StaticCallee() == get }) {
			call := in.(*ssa.Call)
			var isNew, rec ssa.Value
			if call.Referrers() != nil {
				for _, r := range *call.Referrers() {
					if ex, ok := r.(*ssa.Extract); ok {
						switch ex.Index {
						case 0:
							isNew = ex
						case 1:
							rec = ex
						}
					}
				}
			}
			if isNew == nil || rec == nil {
				continue
			}
			// edges on which isNew is known to be false (an existing delegator: nothing to initialise)
			notNew := func(b *ssa.BasicBlock, si int) bool {
				ifi, ok := b.Instrs[len(b.Instrs)-1].(*ssa.If)
				if !ok {
					return false
				}
				cond, falseSucc := ifi.Cond, 1
				if u, isU := cond.(*ssa.UnOp); isU && u.Op == token.NOT {
					cond, falseSucc = u.X, 0
				}
				return cond == isNew && si == falseSucc
			}
			n++
			c.Analysed(fname(fn))
			setsCP := func(x ssa.Instruction) bool {
				st, ok := x.(*ssa.Store)
				if !ok {
					return false
				}
				fa, ok := st.Addr.(*ssa.FieldAddr)
				return ok && core.FieldOfAddr(fa) == cp && fa.X == rec
			}
			persists := func(x ssa.Instruction, _ *ssa.BasicBlock) bool {
				cc := core.CallOf(x)
				if cc == nil || cc.StaticCallee() == nil {
					return false
				}
				for i, a := range cc.Args {
					if a == rec && wb.Saves(cc.StaticCallee(), i) && savesWithoutCP(cc.StaticCallee(), i, 0) {
						return true
					}
				}
				return false
			}
			bad := ""
			if esc, path := (core.PathQ{Fn: fn, From: call, Via: setsCP, ViaEdge: notNew, Target: persists}).Escape(); esc != nil {
				bad = c.P.PathString(path)
			}
			c.Check(bad == "", "C38/new-delegator-initialised", fname(fn), in.Pos(),
				"a delegator that did not exist gets RewardsCheckpoint assigned before it is saved",
				"a newly created delegator can be saved without RewardsCheckpoint having been assigned ("+bad+"): it keeps checkpoint 0 and is later paid a share of every epoch since the contract was created - rewards paid exceed rewards received")
		}
	}
	c.Floor("C38/new-delegator-initialised", 1)
}

// c38FundListConserved: withdraw rebuilds the delegator's list of unstaked funds; every fund of the
// old list is kept in the new one or its entry is deleted/rewritten, and the loop ends by exhaustion.
func c38FundListConserved(c *core.Ctx) {
	const pkg = "vm/systemSmartContracts"
	fn := anchorM(c, pkg, "delegation", "withdraw")
	if fn == nil {
		return
	}
	c.Analysed(fname(fn))
	var loop *core.Loop
	for _, l := range core.Loops(fn) {
		if src := l.RangeSource(); src != nil && isFieldOf(src, "UnStakedFunds") {
			loop = l
		}
	}
	if loop == nil {
		c.Undecided("C38/fund-list-conserved", "delegation.withdraw", fn.Pos(), "no loop over delegator.UnStakedFunds")
		return
	}
	isKeep := func(in ssa.Instruction) bool {
		call, ok := in.(*ssa.Call)
		if !ok || !loop.Body[in.Block()] {
			return false
		}
		b, ok := call.Call.Value.(*ssa.Builtin)
		return ok && b.Name() == "append"
	}
	isConsume := func(in ssa.Instruction) bool {
		cc := core.CallOf(in)
		if cc == nil || !loop.Body[in.Block()] {
			return false
		}
		if cc.IsInvoke() && cc.Method.Name() == "SetStorage" {
			return true
		}
		return cc.StaticCallee() != nil && cc.StaticCallee().Name() == "saveFund"
	}
	esc, path := core.PathQ{Fn: fn, FromBlk: firstBodyBlock(loop), Via: func(in ssa.Instruction) bool { return isKeep(in) || isConsume(in) },
		Target: func(in ssa.Instruction, _ *ssa.BasicBlock) bool { return in == loop.Header.Instrs[0] }}.Escape()
	c.Check(esc == nil, "C38/fund-list-conserved", "delegation.withdraw/every-fund-kept-or-consumed", fn.Pos(),
		"every pass keeps the fund in the new list or deletes/rewrites its entry",
		"a pass of the loop neither keeps the fund in the new list nor deletes or rewrites its entry ("+c.P.PathString(path)+"): the fund stays in storage and in TotalUnStaked while no delegator references it")
	// exits
	for i, e := range loop.Exits() {
		if e.From == loop.Header {
			continue
		}
		to := e.From.Succs[e.Succ]
		if core.OnlyErrorReturnsFrom(to, e.From, loop) || onlyFailureCodesFrom(to) {
			continue
		}
		// reviewed: the exit of the partial-unbond branch, taken right after saveFund (see DESIGN 6.12: the
		// branch needs the validator contract to unbond less than requested; its reachability through
		// public operations was not established, so it is documented rather than claimed as a finding)
		afterSave := false
		for _, in := range to.Instrs { // a `break` branch is not part of the natural loop: the exit edge enters it
			if cc := core.CallOf(in); cc != nil && cc.StaticCallee() != nil && cc.StaticCallee().Name() == "saveFund" {
				afterSave = true
			}
		}
		for _, in := range e.From.Instrs {
			if cc := core.CallOf(in); cc != nil && cc.StaticCallee() != nil && cc.StaticCallee().Name() == "saveFund" {
				afterSave = true
			}
		}
		for _, cd := range core.CondsAt(e.From) {
			if call, ok := cd.V.(*ssa.Call); ok {
				_ = call
			}
		}
		if !afterSave {
			// walk back through error-check blocks of the save
			for _, p := range e.From.Preds {
				for _, in := range p.Instrs {
					if cc := core.CallOf(in); cc != nil && cc.StaticCallee() != nil && cc.StaticCallee().Name() == "saveFund" {
						afterSave = true
					}
				}
			}
		}
		// The reviewed exit is dead only as long as the validator contract's unBondTokens returns no data
		// (resolveUnStakedUnBondResponse then answers the requested amount, so the running total never
		// exceeds it). Once unBondTokens reports an amount through Finish the branch is live and drops
		// the tail of the list: the exemption is tied to that fact, re-derived on every run.
		if afterSave {
			if reports := c38UnBondReports(c); reports != "" {
				c.Fail("C38/fund-list-conserved", fmt.Sprintf("delegation.withdraw/loop-exit#%d", i), firstPos(to),
					"the validator contract reports the amount it unbonded ("+reports+"), so withdraw's partial-unbond branch at "+c.P.Pos(firstPos(to))+" can be taken: it leaves the loop without keeping the partially paid fund or the funds after it in the delegator's list - they stay in storage and in TotalUnStaked while no delegator references them")
				continue
			}
		}
		c.Check(afterSave, "C38/fund-list-conserved", fmt.Sprintf("delegation.withdraw/loop-exit#%d", i), firstPos(to),
			"reviewed exit: the partial-unbond branch, dead while validatorSC.unBondTokens returns no data (checked: no Finish in its cone)",
			"the loop over the delegator's unstaked funds is left early at "+c.P.Pos(firstPos(to))+" on a path that can succeed: the funds after this one are dropped from the delegator's list although they stay in storage and in TotalUnStaked")
	}
	c.Floor("C38/fund-list-conserved", 2)
}

// c38PaidIsTheZeroedCounter: a function of the delegation contract that resets a delegator's
// UnClaimedRewards to zero pays out (Transfer) or re-stakes (hands to another method of the
// contract) exactly that counter: every *big.Int amount it passes on is the UnClaimedRewards field
// or a copy of it. Paying from another counter (e.g. the cumulated total) pays rewards twice.
func c38PaidIsTheZeroedCounter(c *core.Ctx) {
	const pkg = "vm/systemSmartContracts"
	unclaimed := c.P.Field(pkg, "DelegatorData", "UnClaimedRewards")
	if unclaimed == nil {
		c.Undecided("anchor", "DelegatorData.UnClaimedRewards", 0, "field not found")
		return
	}
	isBigPtr := func(t types.Type) bool { return strings.HasSuffix(t.String(), "*math/big.Int") }
	var fromCounter func(v ssa.Value, d int) bool
	fromCounter = func(v ssa.Value, d int) bool {
		if d > 4 {
			return false
		}
		if _, f := core.FieldLoad(v); f == unclaimed {
			return true
		}
		if call, ok := v.(*ssa.Call); ok && core.CallDesc(&call.Call).Is("math/big", "Int", "Set") {
			return fromCounter(call.Call.Args[1], d+1)
		}
		return false
	}
	n := 0
	for _, fn := range c.P.FuncsOfPkg(pkg) {
		if fn.Signature.Recv() == nil || !strings.HasSuffix(fn.Signature.Recv().Type().String(), ".delegation") {
			continue
		}
		zeroes := false
		core.Instrs(fn, func(in ssa.Instruction) {
			cc := core.CallOf(in)
			if cc == nil || !core.CallDesc(cc).Is("math/big", "Int", "") {
				return
			}
			nm := core.CallDesc(cc).Name
			if _, f := core.FieldLoad(cc.Args[0]); f == unclaimed && (nm == "SetUint64" || nm == "SetInt64") {
				if z, isC := core.ConstInt(cc.Args[1]); isC && z == 0 {
					zeroes = true
				}
			}
		})
		if !zeroes {
			continue
		}
		c.Analysed(fname(fn))
		k := 0
		core.Instrs(fn, func(in ssa.Instruction) {
			cc := core.CallOf(in)
			if cc == nil {
				return
			}
			own := cc.StaticCallee() != nil && cc.StaticCallee().Signature.Recv() != nil && strings.HasSuffix(cc.StaticCallee().Signature.Recv().Type().String(), ".delegation")
			transfer := cc.IsInvoke() && cc.Method.Name() == "Transfer"
			if !own && !transfer {
				return
			}
			for i, a := range cc.Args {
				if !isBigPtr(a.Type()) {
					continue
				}
				k++
				n++
				c.Sites++
				callee := "Transfer"
				if own {
					callee = cc.StaticCallee().Name()
				}
				c.Check(fromCounter(a, 0), "C38/paid-amount-is-the-zeroed-counter", fmt.Sprintf("%s/%s#arg%d", fname(fn), callee, i), in.Pos(),
					"the amount handed on is UnClaimedRewards (or a copy of it), the counter this function resets",
					fmt.Sprintf("%s resets UnClaimedRewards to zero but hands %s to %s: the amount paid out or re-staked is not the counter that is cleared - rewards already taken out once are taken out again (rewards paid exceed rewards received)", fname(fn), core.ExprKey(a), callee))
			}
		})
	}
	c.Floor("C38/paid-amount-is-the-zeroed-counter", 3)
}

// c38SettledBeforeStakeChanges: rewards are computed from the active fund as it is stored. A
// change of a delegator's active fund (addValueToFund / saveFund on delegator.ActiveFund) is
// therefore preceded, on every path of the operation, by the settling of that delegator's rewards
// (computeAndUpdateRewards) or by the initialisation of a new delegator's checkpoint - in the
// function itself or, when the function is a helper, before every call of it.
func c38SettledBeforeStakeChanges(c *core.Ctx) {
	const pkg = "vm/systemSmartContracts"
	cp := c.P.Field(pkg, "DelegatorData", "RewardsCheckpoint")
	if cp == nil {
		c.Undecided("anchor", "DelegatorData.RewardsCheckpoint", 0, "field not found")
		return
	}
	var fns []*ssa.Function
	for _, f := range c.P.FuncsOfPkg(pkg) {
		if f.Signature.Recv() != nil && strings.HasSuffix(f.Signature.Recv().Type().String(), ".delegation") {
			fns = append(fns, f)
		}
	}
	settles := func(x ssa.Instruction) bool {
		if st, ok := x.(*ssa.Store); ok {
			if fa, ok := st.Addr.(*ssa.FieldAddr); ok && core.FieldOfAddr(fa) == cp {
				return true
			}
		}
		cc := core.CallOf(x)
		return cc != nil && cc.StaticCallee() != nil && cc.StaticCallee().Name() == "computeAndUpdateRewards"
	}
	callers := func(g *ssa.Function) (out []ssa.Instruction) {
		for _, f := range fns {
			core.Instrs(f, func(in ssa.Instruction) {
				if cc := core.CallOf(in); cc != nil && cc.StaticCallee() == g {
					out = append(out, in)
				}
			})
		}
		return out
	}
	// settledBefore(site): every path of site's function reaches it through a settle, or every call of that function does
	var settledBefore func(site ssa.Instruction, depth int) (bool, string)
	settledBefore = func(site ssa.Instruction, depth int) (bool, string) {
		g := site.Parent()
		esc, path := core.PathQ{Fn: g, Via: settles, Target: func(x ssa.Instruction, _ *ssa.BasicBlock) bool { return x == site }}.Escape()
		if esc == nil {
			return true, ""
		}
		cs := callers(g)
		if len(cs) == 0 || depth > 2 {
			return false, fname(g) + " reaches it without settling (" + c.P.PathString(path) + ")"
		}
		for _, cl := range cs {
			if ok, why := settledBefore(cl, depth+1); !ok {
				return false, "called from " + fname(cl.Parent()) + " at " + c.P.Pos(cl.Pos()) + "; " + why
			}
		}
		return true, ""
	}
	n := 0
	for _, f := range fns {
		k := 0
		core.Instrs(f, func(in ssa.Instruction) {
			cc := core.CallOf(in)
			if cc == nil || cc.StaticCallee() == nil || len(cc.Args) < 2 {
				return
			}
			if nm := cc.StaticCallee().Name(); nm != "addValueToFund" && nm != "saveFund" {
				return
			}
			if !isFieldOf(cc.Args[1], "ActiveFund") {
				return
			}
			k++
			n++
			c.Sites++
			c.Analysed(fname(f))
			ok, why := settledBefore(in, 0)
			c.Check(ok, "C38/rewards-settled-before-stake-changes", fmt.Sprintf("%s/%s#%d", fname(f), cc.StaticCallee().Name(), k), in.Pos(),
				"the delegator's rewards are settled (or a new delegator's checkpoint set) before its active fund changes",
				"the delegator's active fund is changed before its rewards are settled: "+why+" - the settling reads the fund back from storage and pays the epochs already passed at the new stake (rewards paid exceed rewards received)")
		})
	}
	c.Floor("C38/rewards-settled-before-stake-changes", 2)
}

// c38UnBondReports returns the position of a Finish call reachable from validatorSC.unBondTokens
// through the contract's own methods ("" when there is none).
func c38UnBondReports(c *core.Ctx) string {
	fn := c.P.Method("vm/systemSmartContracts", "validatorSC", "unBondTokens")
	if fn == nil {
		c.Undecided("anchor", "validatorSC.unBondTokens", 0, "method not found")
		return ""
	}
	own := func(f *ssa.Function) bool {
		return f.Signature.Recv() != nil && strings.HasSuffix(f.Signature.Recv().Type().String(), "systemSmartContracts.validatorSC")
	}
	pos := ""
	for _, f := range c.P.Cone([]*ssa.Function{fn}, func(f *ssa.Function) bool { return !own(f) && f.Parent() == nil }) {
		c.Analysed(fname(f))
		core.Instrs(f, func(in ssa.Instruction) {
			if cc := core.CallOf(in); cc != nil && cc.IsInvoke() && cc.Method.Name() == "Finish" && pos == "" {
				pos = c.P.Pos(in.Pos())
			}
		})
	}
	return pos
}

// onlyFailureCodesFrom reports whether every path from b ends in a return of a constant
// vmcommon.ReturnCode other than Ok.
func onlyFailureCodesFrom(b *ssa.BasicBlock) bool {
	seen := map[*ssa.BasicBlock]bool{}
	var walk func(x *ssa.BasicBlock) bool
	walk = func(x *ssa.BasicBlock) bool {
		if seen[x] {
			return true
		}
		seen[x] = true
		if r, ok := x.Instrs[len(x.Instrs)-1].(*ssa.Return); ok {
			return !okReturn(r, nil)
		}
		if len(x.Succs) == 0 {
			return true
		}
		for _, s := range x.Succs {
			if !walk(s) {
				return false
			}
		}
		return true
	}
	return walk(b)
}

// c39LinksInPairs: the waiting list is doubly linked: a link written on one element is mirrored
// on the neighbour it points to.
func c39LinksInPairs(c *core.Ctx) {
	const pkg = "vm/systemSmartContracts"
	next := c.P.Field(pkg, "ElementInList", "NextKey")
	prev := c.P.Field(pkg, "ElementInList", "PreviousKey")
	getEl := c.P.Method(pkg, "stakingSC", "getWaitingListElement")
	if next == nil || prev == nil || getEl == nil {
		c.Undecided("anchor", "ElementInList links", 0, "NextKey/PreviousKey/getWaitingListElement not found")
		return
	}
	keyFields := map[string]bool{"FirstKey": true, "LastKey": true, "LastJailedKey": true, "NextKey": true, "PreviousKey": true}
	n := 0
	nSave := 0
	for _, fn := range c.P.FuncsOfPkg(pkg) {
		if fn.Signature.Recv() == nil || !strings.HasSuffix(fn.Signature.Recv().Type().String(), ".stakingSC") {
			continue
		}
		// origins of a key value: the list/element fields it was read from ("" element: the element's own key or an empty key)
		// origins of a key value, followed structurally (no flow-insensitive load/store matching): a
		// load of a key field of the list head or of an element (with forwarding of a dominating store
		// to the same field in this function), a fresh buffer the key was copied into, a phi; the
		// element's own key (createWaitingListKey) has no origin in the list
		var origins func(v ssa.Value, at ssa.Instruction) (map[string]bool, bool)
		depth := 0
		origins = func(v ssa.Value, at ssa.Instruction) (map[string]bool, bool) {
			out := map[string]bool{}
			own := false
			depth++
			defer func() { depth-- }()
			if depth > 6 || v == nil {
				return out, own
			}
			merge := func(o map[string]bool, w bool) {
				for k := range o {
					out[k] = true
				}
				if w {
					own = true
				}
			}
			switch x := v.(type) {
			case *ssa.Call:
				if x.Call.StaticCallee() != nil && x.Call.StaticCallee().Name() == "createWaitingListKey" {
					own = true
				}
			case *ssa.Phi:
				for _, e := range x.Edges {
					merge(origins(e, at))
				}
			case *ssa.MakeSlice:
				if x.Referrers() != nil {
					for _, r := range *x.Referrers() {
						if call, ok := r.(*ssa.Call); ok {
							if b, isB := call.Call.Value.(*ssa.Builtin); isB && b.Name() == "copy" && call.Call.Args[0] == ssa.Value(x) {
								merge(origins(call.Call.Args[1], call))
							}
						}
						// the buffer is stored into a field and filled through that field: copy(rec.F, src)
						if st, ok := r.(*ssa.Store); ok && st.Val == ssa.Value(x) {
							core.Instrs(fn, func(in2 ssa.Instruction) {
								call, ok := in2.(*ssa.Call)
								if !ok {
									return
								}
								b, isB := call.Call.Value.(*ssa.Builtin)
								if !isB || b.Name() != "copy" {
									return
								}
								if u, isU := call.Call.Args[0].(*ssa.UnOp); isU && core.ExprKey(u.X) == core.ExprKey(st.Addr) {
									merge(origins(call.Call.Args[1], call))
								}
							})
						}
					}
				}
			case *ssa.UnOp:
				base, f := core.FieldLoad(x)
				if f == nil || !keyFields[f.Name()] || base == nil {
					break
				}
				forwarded := false
				var last *ssa.Store
				core.Instrs(fn, func(in ssa.Instruction) {
					st, ok := in.(*ssa.Store)
					if !ok || core.ExprKey(st.Addr) != core.ExprKey(x.X) || !core.DominatesInstr(st, x) {
						return
					}
					if last == nil || core.DominatesInstr(last, st) {
						last = st
					}
				})
				if last != nil {
					forwarded = true
					merge(origins(last.Val, last))
				}
				if !forwarded {
					out[core.ExprKey(x)] = true
				}
			}
			return out, own
		}
		type loaded struct {
			rec  ssa.Value
			keys map[string]bool
			at   ssa.Instruction
		}
		var elems []loaded
		for _, in := range core.CallsIn(fn, func(in ssa.Instruction, cc *ssa.CallCommon) bool { return cc.StaticCallee() == getEl }) {
			call := in.(*ssa.Call)
			var rec ssa.Value
			if call.Referrers() != nil {
				for _, r := range *call.Referrers() {
					if ex, ok := r.(*ssa.Extract); ok && ex.Index == 0 {
						rec = ex
					}
				}
			}
			if rec == nil {
				continue
			}
			ks, _ := origins(call.Call.Args[1], in)
			elems = append(elems, loaded{rec, ks, in})
		}
		// an element read from the list is written back under the key it was read from
		for _, e := range elems {
			core.Instrs(fn, func(in2 ssa.Instruction) {
				cc := core.CallOf(in2)
				if cc == nil || cc.StaticCallee() == nil || len(cc.Args) < 3 || cc.Args[2] != e.rec {
					return
				}
				if nm := cc.StaticCallee().Name(); nm != "saveWaitingListElement" && nm != "saveElementAndList" {
					return
				}
				ks, own := origins(cc.Args[1], in2)
				same := len(ks) > 0 && len(ks) == len(e.keys)
				for k2 := range ks {
					if !e.keys[k2] {
						same = false
					}
				}
				if len(e.keys) == 0 {
					same = true // loaded under a key that is not read from the list: nothing to compare
				}
				_ = own
				nSave++
				var want, got []string
				for k2 := range e.keys {
					want = append(want, k2)
				}
				for k2 := range ks {
					got = append(got, k2)
				}
				sort.Strings(want)
				sort.Strings(got)
				c.Check(same, "C39/saved-under-the-key-it-was-loaded-from", fmt.Sprintf("%s/save#%d", fname(fn), nSave), in2.Pos(),
					"the element is saved under the key it was loaded from ("+strings.Join(want, ",")+")",
					fmt.Sprintf("an element loaded from the waiting list under a key read from %v is saved under a key read from %v (the element's own key when empty): the update lands in another element's slot - usually overwritten at once - and the element keeps its stale links", want, got))
			})
		}
		writesField := func(rec ssa.Value, f *types.Var) bool {
			hit := false
			core.Instrs(fn, func(in ssa.Instruction) {
				if st, ok := in.(*ssa.Store); ok {
					if fa, ok := st.Addr.(*ssa.FieldAddr); ok && fa.X == rec && core.FieldOfAddr(fa) == f {
						hit = true
					}
				}
			})
			return hit
		}
		k := 0
		core.Instrs(fn, func(in ssa.Instruction) {
			st, ok := in.(*ssa.Store)
			if !ok {
				return
			}
			fa, ok := st.Addr.(*ssa.FieldAddr)
			if !ok {
				return
			}
			f := core.FieldOfAddr(fa)
			if f != next && f != prev {
				return
			}
			if isEmptyBytes(st.Val) {
				return // end of the list
			}
			os, own := origins(st.Val, st)
			// `PreviousKey: make(..)` filled afterwards by copy(elem.PreviousKey, src)
			if _, isMk := st.Val.(*ssa.MakeSlice); isMk && len(os) == 0 {
				core.Instrs(fn, func(in2 ssa.Instruction) {
					call, ok := in2.(*ssa.Call)
					if !ok {
						return
					}
					b, isB := call.Call.Value.(*ssa.Builtin)
					if !isB || b.Name() != "copy" {
						return
					}
					if u, isU := call.Call.Args[0].(*ssa.UnOp); isU && core.ExprKey(u.X) == core.ExprKey(st.Addr) {
						o2, _ := origins(call.Call.Args[1], call)
						for k2 := range o2 {
							os[k2] = true
						}
					}
				})
			}
			if len(os) == 0 {
				return // the element's own key (first-element marker) or a key that is not read from the list
			}
			_ = own
			k++
			n++
			c.Analysed(fname(fn))
			opposite := prev
			if f == prev {
				opposite = next
			}
			ok2, why := false, "the element stored under that key is not loaded in this function"
			var neighbours []ssa.Value
			for _, e := range elems {
				shared := false
				for o := range os {
					if e.keys[o] {
						shared = true
					}
				}
				if shared && e.rec != fa.X && writesField(e.rec, opposite) && core.DominatesInstr(e.at, st) {
					neighbours = append(neighbours, e.rec)
				}
			}
			for _, e := range elems {
				shared := false
				for o := range os {
					if e.keys[o] {
						shared = true
					}
				}
				if !shared {
					continue
				}
				if e.rec == fa.X {
					ok2 = true // the element is given its own key: the first-element marker
					break
				}
				if writesField(e.rec, opposite) {
					ok2 = true
					break
				}
				why = "the element stored under that key is loaded but its " + opposite.Name() + " is not written"
			}
			var osl []string
			for o := range os {
				osl = append(osl, o)
			}
			if os2 := os; len(os2) > 0 && false {
				fmt.Println()
			}
			sort.Strings(osl)
			name := fmt.Sprintf("%s/%s#%d", fname(fn), f.Name(), k)
			if !ok2 {
				name = fmt.Sprintf("%s/%s←%s", fname(fn), f.Name(), strings.Join(osl, ","))
			}
			// the mirrored link names THIS element: the value written to the neighbour's opposite field is
			// the key this element is saved under
			if len(neighbours) > 0 {
				var saveKey ssa.Value
				core.Instrs(fn, func(in2 ssa.Instruction) {
					cc := core.CallOf(in2)
					if cc == nil || cc.StaticCallee() == nil || len(cc.Args) < 3 {
						return
					}
					if nm := cc.StaticCallee().Name(); (nm == "saveWaitingListElement" || nm == "saveElementAndList") && cc.Args[2] == fa.X {
						saveKey = cc.Args[1]
					}
				})
				if saveKey != nil {
					sameKey := func(a, b ssa.Value, at ssa.Instruction) bool {
						if a == b || core.ExprKey(a) == core.ExprKey(b) {
							return true
						}
						oa, owna := origins(a, at)
						ob, ownb := origins(b, at)
						if len(oa) == 0 && len(ob) == 0 {
							return owna && ownb
						}
						if len(oa) != len(ob) {
							return false
						}
						for k2 := range oa {
							if !ob[k2] {
								return false
							}
						}
						return true
					}
					named, got := false, ""
					core.Instrs(fn, func(in2 ssa.Instruction) {
						st2, isSt := in2.(*ssa.Store)
						if !isSt {
							return
						}
						fa2, isFa := st2.Addr.(*ssa.FieldAddr)
						if !isFa || !containsVal(neighbours, fa2.X) || core.FieldOfAddr(fa2) != opposite {
							return
						}
						if sameKey(st2.Val, saveKey, st2) {
							named = true
						} else {
							got = core.ExprKey(st2.Val)
						}
					})
					c.Check(named, "C39/back-link-names-the-element", fmt.Sprintf("%s/%s#%d", fname(fn), f.Name(), k), st.Pos(),
						"the neighbour's "+opposite.Name()+" is set to the key this element is saved under",
						fmt.Sprintf("an element saved under %s links to its neighbour through %s, but the neighbour's %s is set to %s, not to that key: the two directions of the list disagree, and removing the neighbour later relinks through the stale key and cuts this element out while Length still counts it", core.ExprKey(saveKey), f.Name(), opposite.Name(), got))
				}
			}
			c.Check(ok2, "C39/links-updated-in-pairs", name, st.Pos(),
				"the neighbour this link points to (key read from "+strings.Join(osl, ", ")+") is loaded and its "+opposite.Name()+" is written in the same function",
				fmt.Sprintf("%s of an element is set to a key read from %s, but %s: the neighbour keeps its old back link (e.g. still marks itself as the first element), and removing it later cuts elements out of the list while Length still counts them", f.Name(), strings.Join(osl, ", "), why))
		})
	}
	c.Floor("C39/links-updated-in-pairs", 5)
	c.Floor("C39/back-link-names-the-element", 3)
	c.Floor("C39/saved-under-the-key-it-was-loaded-from", 3)
}

func containsVal(vs []ssa.Value, v ssa.Value) bool {
	for _, x := range vs {
		if x == v {
			return true
		}
	}
	return false
}

func isEmptyBytes(v ssa.Value) bool {
	switch x := v.(type) {
	case *ssa.Slice:
		if al, ok := x.X.(*ssa.Alloc); ok {
			if pt, ok := al.Type().Underlying().(*types.Pointer); ok {
				if at, ok := pt.Elem().Underlying().(*types.Array); ok && at.Len() == 0 {
					return true
				}
			}
		}
	case *ssa.MakeSlice:
		if n, ok := core.ConstInt(x.Len); ok && n == 0 {
			return true
		}
	case *ssa.Const:
		return x.IsNil()
	}
	return false
}

// c39MarkerAndKeys: the last-jailed marker never keeps pointing at a removed element, and raw BLS
// keys are not confused with prefixed list keys.
func c39MarkerAndKeys(c *core.Ctx) {
	const pkg = "vm/systemSmartContracts"
	if fn := anchorM(c, pkg, "stakingSC", "removeFromWaitingList"); fn != nil {
		c.Analysed(fname(fn))
		lj := c.P.Field(pkg, "WaitingList", "LastJailedKey")
		ln := c.P.Field(pkg, "WaitingList", "Length")
		var dec ssa.Instruction
		core.Instrs(fn, func(in ssa.Instruction) {
			if st, ok := in.(*ssa.Store); ok {
				if fa, ok := st.Addr.(*ssa.FieldAddr); ok && core.FieldOfAddr(fa) == ln {
					dec = in
				}
			}
		})
		if dec == nil || lj == nil {
			c.Undecided("C39/last-jailed-marker-follows-removal", "stakingSC.removeFromWaitingList", fn.Pos(), "the length update or the LastJailedKey field was not found")
		} else {
			fixes := func(in ssa.Instruction) bool {
				if st, ok := in.(*ssa.Store); ok {
					if fa, ok := st.Addr.(*ssa.FieldAddr); ok && core.FieldOfAddr(fa) == lj {
						return true
					}
				}
				cc := core.CallOf(in)
				return cc != nil && cc.IsInvoke() && cc.Method.Name() == "SetStorage" && len(cc.Args) == 2 && core.IsNilConst(cc.Args[1])
			}
			notMarker := func(b *ssa.BasicBlock, si int) bool {
				ifi, ok := b.Instrs[len(b.Instrs)-1].(*ssa.If)
				if !ok {
					return false
				}
				cond, falseSucc := ifi.Cond, 1
				if u, isU := cond.(*ssa.UnOp); isU && u.Op == token.NOT {
					cond, falseSucc = u.X, 0
				}
				call, isCall := cond.(*ssa.Call)
				if !isCall || call.Call.StaticCallee() == nil || call.Call.StaticCallee().Name() != "Equal" || si != falseSucc {
					return false
				}
				for _, a := range call.Call.Args {
					if _, f := core.FieldLoad(a); f == lj {
						return true
					}
				}
				return false
			}
			// a branch of the removal may be a helper of the contract handed the list: the same demand on its paths
			baseFixes := fixes
			fixes = func(in ssa.Instruction) bool {
				if baseFixes(in) {
					return true
				}
				cc := core.CallOf(in)
				if cc == nil || cc.StaticCallee() == nil || cc.StaticCallee().Blocks == nil || cc.StaticCallee().Pkg != fn.Pkg || cc.StaticCallee() == fn {
					return false
				}
				handed := false
				for _, a := range cc.Args {
					if nt := namedElem(a.Type()); nt != nil && nt.Obj().Name() == "WaitingList" {
						handed = true
					}
				}
				if !handed {
					return false
				}
				h := cc.StaticCallee()
				esc, _ := core.PathQ{Fn: h, Via: baseFixes, ViaEdge: notMarker, Target: core.SuccessReturn}.Escape()
				if esc == nil {
					c.Analysed(fname(h))
				}
				return esc == nil
			}
			esc, path := core.PathQ{Fn: fn, From: dec, Via: fixes, ViaEdge: notMarker, Target: core.SuccessReturn}.Escape()
			c.Check(esc == nil, "C39/last-jailed-marker-follows-removal", "stakingSC.removeFromWaitingList", dec.Pos(),
				"after the removal every success return lies behind an update of LastJailedKey, the deletion of the head, or the test that the removed key is not the marker",
				"an element can be removed with a success return that neither updates LastJailedKey nor tested that the removed key is not the marker ("+c.P.PathString(path)+"): the marker keeps pointing at a deleted element and the next insertion after the last jailed key fails")
		}
	}
	// raw keys vs prefixed keys
	prefixers := map[*ssa.Function]int{}
	mk := c.P.Method(pkg, "stakingSC", "createWaitingListKey")
	if mk == nil {
		return
	}
	for _, fn := range c.P.FuncsOfPkg(pkg) {
		for _, in := range core.CallsIn(fn, func(in ssa.Instruction, cc *ssa.CallCommon) bool { return cc.StaticCallee() == mk }) {
			arg := core.CallOf(in).Args[1]
			for i, p := range fn.Params {
				if arg == ssa.Value(p) {
					prefixers[fn] = i
				}
			}
		}
	}
	n := 0
	for _, fn := range c.P.FuncsOfPkg(pkg) {
		k := 0
		core.Instrs(fn, func(in ssa.Instruction) {
			cc := core.CallOf(in)
			if cc == nil || cc.StaticCallee() == nil {
				return
			}
			i, ok := prefixers[cc.StaticCallee()]
			if !ok || i >= len(cc.Args) {
				return
			}
			k++
			n++
			already := false
			for x := range core.BackwardReachPure(cc.Args[i]) {
				if call, isCall := x.(*ssa.Call); isCall && call.Call.StaticCallee() == mk {
					already = true
				}
			}
			c.Check(!already, "C39/raw-keys-not-prefixed-twice", fmt.Sprintf("%s→%s#%d", fname(fn), fname(cc.StaticCallee()), k), in.Pos(),
				"the callee prefixes the key itself and is handed a raw key",
				"the callee prefixes the key itself but is handed a key that was already prefixed with createWaitingListKey: it looks up a key that does not exist and silently does nothing, so the element stays in the list while the node is marked staked")
		})
	}
	c.Floor("C39/raw-keys-not-prefixed-twice", 5)
}

// c38CheckpointIsNextEpoch: a delegator's checkpoint names the first epoch whose rewards it has NOT
// yet been credited. Both places that set it - a new delegator's initialisation and the settling
// routine - write "current epoch + 1": the two must agree, because rewards of the current epoch are
// recorded against a total stake that a newcomer is not part of. An initialisation with the bare
// current epoch pays the newcomer a share of rewards that were computed without its stake.
func c38CheckpointIsNextEpoch(c *core.Ctx) {
	const pkg = "vm/systemSmartContracts"
	cp := c.P.Field(pkg, "DelegatorData", "RewardsCheckpoint")
	if cp == nil {
		return
	}
	n := 0
	for _, fn := range c.P.FuncsOfPkg(pkg) {
		if fn.Signature.Recv() == nil || !strings.HasSuffix(fn.Signature.Recv().Type().String(), ".delegation") {
			continue
		}
		k := 0
		core.Instrs(fn, func(in ssa.Instruction) {
			st, ok := in.(*ssa.Store)
			if !ok {
				return
			}
			fa, ok := st.Addr.(*ssa.FieldAddr)
			if !ok || core.FieldOfAddr(fa) != cp {
				return
			}
			k++
			n++
			good := false
			if add, isAdd := st.Val.(*ssa.BinOp); isAdd && add.Op == token.ADD {
				one, isC := core.ConstInt(add.Y)
				x := add.X
				if !isC {
					one, isC = core.ConstInt(add.X)
					x = add.Y
				}
				if isC && one == 1 {
					for y := range core.BackwardReachPure(x) {
						if call, isCall := y.(*ssa.Call); isCall && call.Call.IsInvoke() && call.Call.Method.Name() == "CurrentEpoch" {
							good = true
						}
					}
				}
			}
			c.Check(good, "C38/checkpoint-is-the-next-epoch", fmt.Sprintf("%s/RewardsCheckpoint#%d", fname(fn), k), st.Pos(),
				"RewardsCheckpoint = CurrentEpoch() + 1",
				fname(fn)+" sets RewardsCheckpoint to "+core.ExprKey(st.Val)+", not to the current epoch + 1 as the other assignment does: a delegator initialised with the current epoch is paid a share of that epoch's rewards although they were recorded against a total stake without it (rewards paid exceed rewards received)")
		})
	}
	c.Floor("C38/checkpoint-is-the-next-epoch", 2)
}

// c39JailOnlyStakedNodes: switchJailedWithWaiting hands the key to
// moveFirstFromWaitingToStakedIfNeeded, whose "the key is itself in the queue" branch takes it out of
// the list WITHOUT touching its registration record; the caller then saves the record it loaded
// before. That is sound only because the caller refuses keys that are not staked: the call is
// reached only where registrationData.Staked is known to be true. Without the guard a queued key is
// removed from the list and saved with Waiting still set.
func c39JailOnlyStakedNodes(c *core.Ctx) {
	const pkg = "vm/systemSmartContracts"
	n := 0
	for _, fn := range c.P.FuncsOfPkg(pkg) {
		if fn.Signature.Recv() == nil || !strings.HasSuffix(fn.Signature.Recv().Type().String(), ".stakingSC") {
			continue
		}
		core.Instrs(fn, func(in ssa.Instruction) {
			cc := core.CallOf(in)
			if cc == nil || cc.StaticCallee() == nil || cc.StaticCallee().Name() != "moveFirstFromWaitingToStakedIfNeeded" {
				return
			}
			n++
			staked := false
			for _, cd := range core.CondsAt(in.Block()) {
				if _, f := core.FieldLoad(cd.V); f != nil && f.Name() == "Staked" && cd.Taken {
					staked = true
				}
			}
			c.Check(staked, "C39/jail-only-staked-nodes", fname(fn)+"/moveFirstFromWaitingToStakedIfNeeded", in.Pos(),
				"reached only where the key's registration says Staked",
				fname(fn)+" reaches moveFirstFromWaitingToStakedIfNeeded without the key being known as staked: for a key that is itself queued the helper removes it from the waiting list and the caller saves the registration it loaded before, Waiting still set - flagged waiting, not in the list")
		})
	}
	c.Floor("C39/jail-only-staked-nodes", 1)
}
