package rules

import (
	"fmt"
	"sort"
	"strings"

	"golang.org/x/tools/go/ssa"

	"verif/checker/internal/core"
)

func init() {
	register(&Rule{
		ID:    "C38",
		Title: "Delegation contract bookkeeping stays consistent",
		Pkgs:  []string{"vm/systemSmartContracts"},
		Explain: "Decides a structural necessary condition of multi-record consistency: a persistent record that is modified is written back. The delegation contract keeps its state in records loaded by getters " +
			"(GetStorage+Unmarshal, returning *T) and persisted by savers (Marshal of a *T parameter + SetStorage); both sets are inferred from the SSA of the package, not listed. For every method of `delegation`, every " +
			"record value whose field is written (directly, through a *big.Int it points to, through an element of a slice it holds, or by a callee whose summary says it leaves the parameter modified) reaches every success " +
			"return (vmcommon.Ok / nil error; `if code != Ok { return code }` is recognised as failure) only through a saver of that same value or a delete of its storage entry, unless the function hands the record back " +
			"(returns it, or got it as a parameter: the obligation moves to the caller through the callee's summary). Functions whose call cone performs no storage write, transfer or nested execution are views and exempt. " +
			"A total updated in one record while the record holding the matching sum is not saved (or the reverse) is exactly how the totals and the per-delegator funds drift apart. Reviewed exceptions are listed with a " +
			"reason that is re-verified on every run. Not decided (value-level): the arithmetic relating the records (sums, thresholds, unbonding periods), operation histories.",
		Run: func(c *core.Ctx) { runWriteBack(c, "C38", "delegation", 25, wbExceptionsC38) },
	})
	register(&Rule{
		ID:    "C39",
		Title: "Staking queue and staked-node count stay consistent",
		Pkgs:  []string{"vm/systemSmartContracts"},
		Explain: "Decides two structural necessary conditions. (S1) the modified-record-written-back typestate of C38 applied to every method of `stakingSC`: the waiting-list head, the list elements touched by an insertion " +
			"or removal, the per-key staking data and the nodes configuration are each saved (or their entry deleted) on every success path after they were modified - a neighbour whose pointer was rewired but not saved " +
			"leaves a list whose links, length and markers disagree. (S2) the staked-node counter moves with the Staked flag: a store of `Staked = true` is accompanied on every path by addToStakedNodes (in the same " +
			"function, or - when the record is a parameter - around every call of that helper), and every call of removeFromStakedNodes is followed by a store of `Staked = false` before a success return. " +
			"Not decided (value-level): which element becomes first/last/last-jailed, the comparison of the counter with the configured maximum, feature-flag dependent branches.",
		Run: func(c *core.Ctx) {
			runWriteBack(c, "C39", "stakingSC", 15, nil)
			c39Counters(c)
		},
	})
}

type wbException struct {
	fn, recType, reason string
}

var wbExceptionsC38 = []wbException{
	{"delegation.withdraw", "DelegatorData", "deleteDelegatorIfNeeded recomputes the rewards of a delegator it may delete; when the delegator is kept, what stays persisted is the record saved just before (older checkpoint and unclaimed rewards are consistent with each other and are recomputed on the next call)"},
}

func runWriteBack(c *core.Ctx, prop, recvType string, floor int, exceptions []wbException) {
	const pkg = "vm/systemSmartContracts"
	funcs := c.P.FuncsOfPkg(pkg)
	if len(funcs) == 0 {
		c.Undecided("anchor", pkg, 0, "package not loaded")
		return
	}
	wb := core.NewWriteBack(funcs[0].Pkg, funcs)
	wb.Run()
	sv, dh := wb.Stats()
	c.Note("record types with a saver: %s", strings.Join(wb.RecordTypes(), ", "))
	c.Note("%d saver functions (primitive and derived), %d helpers that leave a record parameter modified", sv, dh)
	rule := prop + "/modified-record-written-back"
	isRecv := func(fn *ssa.Function) bool {
		root := fn
		for root.Parent() != nil {
			root = root.Parent()
		}
		return root.Signature.Recv() != nil && strings.HasSuffix(root.Signature.Recv().Type().String(), "."+recvType)
	}
	for _, fn := range funcs {
		if !isRecv(fn) {
			continue
		}
		byType := map[string][]core.WBFinding{}
		for _, f := range wb.Findings[fn] {
			byType[f.Type] = append(byType[f.Type], f)
		}
		checked := append([]string(nil), wb.Checked[fn]...)
		sort.Strings(checked)
		if len(checked) == 0 {
			continue
		}
		c.Analysed(fname(fn))
		view := wb.ReadOnly(fn)
		for _, t := range checked {
			name := fname(fn) + "/" + t
			fs := byType[t]
			switch {
			case len(fs) == 0:
				c.Pass(rule, name, fn.Pos(), "every success return after a modification of the record lies behind its saver (or the deletion of its entry)")
			case view:
				c.Pass(rule, name, fn.Pos(), "view: the call cone of the function performs no storage write, transfer or nested execution; the modified record is a scratch value")
			default:
				f := fs[0]
				var ex *wbException
				for i := range exceptions {
					if exceptions[i].fn == fname(fn) && exceptions[i].recType == t {
						ex = &exceptions[i]
					}
				}
				detail := fmt.Sprintf("%s is modified (%s, %s) and a success return at %s is reachable without saving it (%s): the change is lost while the other records written by this call keep theirs, so the records disagree",
					f.Record, f.What, c.P.Pos(f.Mutation.Pos()), c.P.Pos(f.Return.Pos()), c.P.PathString(f.Path))
				if ex != nil {
					c.Check(f.SavedBefore, rule, name, f.Mutation.Pos(), "reviewed exception (re-verified: the record was saved before this modification): "+ex.reason,
						"reviewed exception no longer verifiable (no save of the record dominates the modification): "+detail)
				} else {
					c.Fail(rule, name, f.Mutation.Pos(), detail)
				}
			}
		}
	}
	c.Floor(rule, floor)
}

// c39Counters: the staked-node counter moves with the Staked flag.
func c39Counters(c *core.Ctx) {
	const pkg = "vm/systemSmartContracts"
	add := c.P.Method(pkg, "stakingSC", "addToStakedNodes")
	rem := c.P.Method(pkg, "stakingSC", "removeFromStakedNodes")
	stakedF := c.P.Field(pkg, "StakedDataV2_0", "Staked")
	if add == nil || rem == nil || stakedF == nil {
		c.Undecided("anchor", "stakingSC counters", 0, "addToStakedNodes/removeFromStakedNodes/StakedDataV2_0.Staked not found")
		return
	}
	isCallTo := func(g *ssa.Function) func(ssa.Instruction) bool {
		return func(in ssa.Instruction) bool {
			cc := core.CallOf(in)
			return cc != nil && cc.StaticCallee() == g
		}
	}
	storeOf := func(in ssa.Instruction, val bool) bool {
		st, ok := in.(*ssa.Store)
		if !ok {
			return false
		}
		fa, ok := st.Addr.(*ssa.FieldAddr)
		if !ok || core.FieldOfAddr(fa) != stakedF {
			return false
		}
		b, isC := core.ConstBool(st.Val)
		return isC && b == val
	}
	// helpers that set Staked = true on a record parameter (activeStakingFor): the pairing is checked at their call sites
	setsTrue := map[*ssa.Function]bool{}
	for _, fn := range c.P.FuncsOfPkg(pkg) {
		core.Instrs(fn, func(in ssa.Instruction) {
			if storeOf(in, true) {
				st := in.(*ssa.Store)
				if _, isParam := st.Addr.(*ssa.FieldAddr).X.(*ssa.Parameter); isParam {
					setsTrue[fn] = true
				}
			}
		})
	}
	n := 0
	for _, fn := range c.P.FuncsOfPkg(pkg) {
		if fn.Signature.Recv() == nil || !strings.HasSuffix(fn.Signature.Recv().Type().String(), ".stakingSC") || setsTrue[fn] {
			continue
		}
		k := 0
		core.Instrs(fn, func(in ssa.Instruction) {
			becomesStaked := storeOf(in, true)
			if cc := core.CallOf(in); cc != nil && cc.StaticCallee() != nil && setsTrue[cc.StaticCallee()] {
				becomesStaked = true
			}
			if becomesStaked {
				k++
				n++
				c.Analysed(fname(fn))
				// no path entry -> in without add AND in -> success return without add
				before, _ := core.PathQ{Fn: fn, Via: isCallTo(add), Target: func(x ssa.Instruction, _ *ssa.BasicBlock) bool { return x == in }}.Escape()
				after, path := core.PathQ{Fn: fn, From: in, Via: isCallTo(add), Target: okReturn}.Escape()
				c.Check(before == nil || after == nil, "C39/counter-moves-with-staked-flag", fmt.Sprintf("%s/becomes-staked#%d", fname(fn), k), in.Pos(),
					"a key that becomes staked is counted by addToStakedNodes on every path",
					"a key can be marked Staked without addToStakedNodes on the path ("+c.P.PathString(path)+"): the staked-node counter falls behind the number of keys marked as staked")
			}
			if isCallTo(rem)(in) {
				k++
				n++
				c.Analysed(fname(fn))
				esc, path := core.PathQ{Fn: fn, From: in, Via: func(x ssa.Instruction) bool { return storeOf(x, false) }, Target: okReturn}.Escape()
				c.Check(esc == nil, "C39/counter-moves-with-staked-flag", fmt.Sprintf("%s/uncounted#%d", fname(fn), k), in.Pos(),
					"after removeFromStakedNodes the key is marked not staked before every success return",
					"removeFromStakedNodes is not followed by `Staked = false` on a path to a success return ("+c.P.PathString(path)+"): the counter drops while the key stays marked as staked")
			}
		})
	}
	c.Floor("C39/counter-moves-with-staked-flag", 5)
}

// okReturn classifies a return as (possibly) successful for functions returning an error or a
// vmcommon.ReturnCode (Ok is 0; a constant other than 0 is a failure).
func okReturn(in ssa.Instruction, pred *ssa.BasicBlock) bool {
	r, ok := in.(*ssa.Return)
	if !ok {
		return false
	}
	fn := r.Parent()
	if core.ErrIndex(fn.Signature) >= 0 {
		return core.SuccessReturn(r, pred)
	}
	for i := 0; i < fn.Signature.Results().Len(); i++ {
		if strings.HasSuffix(fn.Signature.Results().At(i).Type().String(), "ReturnCode") {
			if n, isC := core.ConstInt(r.Results[i]); isC {
				return n == 0
			}
		}
	}
	return true
}
