package rules

import (
	"fmt"
	"go/token"
	"go/types"
	"strings"

	"golang.org/x/tools/go/ssa"

	"verif/checker/internal/core"
)

func init() {
	register(&Rule{
		ID:    "C04",
		Title: "Merkle proofs are sound and complete",
		Pkgs:  []string{"data/trie"},
		Explain: "Decides two structural conditions. (S1, never crashes on attacker-chosen keys/proofs) in VerifyProof, decodeNode and the three getNextHashAndKey implementations every slice index / slice " +
			"expression on a slice is dominated by a comparison on the length of that same slice (or is a range index); the one exception, branchNode.EncodedChildren[key[0]], is re-verified on every run " +
			"(keyBytesToHex stores only masked nibbles/the terminator, all < nrOfChildren; only hash-chained, i.e. genuine, nodes are decoded). " +
			"(S2, soundness by sibling agreement over the node interface) for every node type, each key-consuming guard that dominates the key step of the lookup walk (getNext / tryGet) also dominates " +
			"the key step of the verification walk (getNextHashAndKey): a guard missing there lets a proof for K verify for an absent K'. " +
			"VerifyProof answers false without an error only for a nil or empty entry, a hash mismatch or the end of the proof (completeness: no other relation is demanded of genuine proofs). " +
			"Not decided (value-level): completeness (every present key's proof verifies), nibble arithmetic.",
		Assume: []string{"the hash function is collision/second-preimage resistant, so only encodings of genuine trie nodes pass the hash comparison in VerifyProof"},
		Run:    runC04,
	})
}

func runC04(c *core.Ctx) {
	c04RefusalsHaveAProofReason(c)
	const pkg = "data/trie"
	var fns []*ssa.Function
	if f := anchorM(c, pkg, "patriciaMerkleTrie", "VerifyProof"); f != nil {
		fns = append(fns, f)
		if len(f.Params) >= 3 {
			if h, _ := c04Delegate(f, f.Params[2]); h != nil {
				fns = append(fns, h)
			}
		}
	}
	if f := anchorF(c, pkg, "decodeNode"); f != nil {
		fns = append(fns, f)
	}
	types3 := []string{"leafNode", "extensionNode", "branchNode"}
	for _, t := range types3 {
		if f := anchorM(c, pkg, t, "getNextHashAndKey"); f != nil {
			fns = append(fns, f)
		}
	}
	// ---- S1 index guards
	for _, fn := range fns {
		core.Instrs(fn, func(in ssa.Instruction) {
			var x ssa.Value
			var kind string
			switch t := in.(type) {
			case *ssa.IndexAddr:
				x, kind = t.X, "index"
				if _, isArr := t.X.Type().Underlying().(*types.Pointer); isArr {
					return // pointer to fixed-size array: bounds are static or checked against a constant
				}
				if isRangeIndex(fn, t) {
					return
				}
			case *ssa.Slice:
				x, kind = t.X, "slice"
				if t.Low == nil && t.High == nil {
					return
				}
				if _, ok := t.X.Type().Underlying().(*types.Slice); !ok {
					if _, ok := t.X.Type().Underlying().(*types.Basic); !ok {
						return
					}
				}
			default:
				return
			}
			c.Sites++
			key := core.ExprKey(x)
			name := fmt.Sprintf("%s/%s %s", fname(fn), kind, exprOf(in))
			lenKey := "len(" + key + ")"
			facts := core.FactsAt(in.Block())
			// idx < len(x) (strict) or idx <= len(x) established by a dominating branch
			bounded := func(idx ssa.Value, strict bool) bool {
				if idx == nil {
					return true
				}
				if n, isC := core.ConstInt(idx); isC {
					need := n
					if strict {
						need = n + 1
					}
					if need <= 0 {
						return true
					}
					for _, f := range facts {
						if lb, ok := f.LowerBound(lenKey); ok && lb >= need {
							return true
						}
					}
					return false
				}
				ik := core.ExprKey(idx)
				// len(x) - k: within bounds as soon as len(x) >= k
				if bo, isB := idx.(*ssa.BinOp); isB && bo.Op == token.SUB && core.ExprKey(bo.X) == lenKey {
					if k, isC := core.ConstInt(bo.Y); isC && k >= 0 && (k >= 1 || !strict) {
						for _, f := range facts {
							if lb, ok := f.LowerBound(lenKey); ok && lb >= k {
								return true
							}
						}
					}
				}
				for _, f := range facts {
					switch {
					case f.Op == "<" && f.A == ik && f.B == lenKey:
						return true
					case !strict && f.Op == "<=" && f.A == ik && f.B == lenKey:
						return true
					case !strict && f.Op == "==" && (f.A == ik && f.B == lenKey || f.B == ik && f.A == lenKey):
						return true
					}
				}
				return false
			}
			guarded := false
			switch t := in.(type) {
			case *ssa.IndexAddr:
				guarded = bounded(t.Index, true)
			case *ssa.Slice:
				guarded = bounded(t.Low, false) && bounded(t.High, false)
			}
			if guarded {
				c.Pass("C04/index-guarded", name, in.Pos(), "the index/bounds are dominated by a comparison that keeps them within "+lenKey)
				return
			}
			if strings.HasSuffix(key, "recv.EncodedChildren") && fname(fn) == "branchNode.getNextHashAndKey" {
				ok, why := c04VerifyNibbleBound(c)
				c.Check(ok, "C04/index-guarded", name, in.Pos(), "exception verified: "+why, "exception could not be re-verified: "+why)
				return
			}
			c.Fail("C04/index-guarded", name, in.Pos(), "no dominating comparison keeps the index/bounds within "+lenKey+": an attacker-chosen key/proof can make this panic")
		})
	}
	c.Floor("C04/index-guarded", 5)

	// ---- S2 sibling agreement
	for _, t := range types3 {
		ver := c.P.Method(pkg, t, "getNextHashAndKey")
		if ver == nil {
			continue
		}
		for _, refName := range []string{"getNext", "tryGet"} {
			ref := anchorM(c, pkg, t, refName)
			if ref == nil {
				continue
			}
			refFacts := keyStepFacts(ref)
			verFacts := keyStepFacts(ver)
			if len(refFacts) == 0 {
				c.Undecided("C04/sibling-guards-agree", fmt.Sprintf("%s.%s", t, refName), ref.Pos(), "no key step recognised in the lookup walk")
				continue
			}
			have := map[string]bool{}
			for _, f := range verFacts {
				have[f.String()] = true
			}
			for _, f := range refFacts {
				name := fmt.Sprintf("%s.getNextHashAndKey ⊇ %s.%s: %s", t, t, refName, f.String())
				c.Check(have[f.String()], "C04/sibling-guards-agree", name, ver.Pos(),
					"the verification walk applies the same key guard as the lookup walk",
					"the lookup walk consumes the key only when `"+f.String()+"` holds, the verification walk does not test it: a proof verifies for keys the trie does not contain")
			}
		}
	}
	c.Floor("C04/sibling-guards-agree", 6)
}

// keyStepFacts returns the canonical facts mentioning the key parameter (p1) that hold where the
// function consumes the key: at a Slice of the key parameter, or (leaf) at the return that
// reports a match / hands out the value.
func keyStepFacts(fn *ssa.Function) []core.Fact {
	var blocks []*ssa.BasicBlock
	core.Instrs(fn, func(in ssa.Instruction) {
		if s, ok := in.(*ssa.Slice); ok && core.ExprKey(s.X) == "p1" && s.Low != nil && s.High == nil {
			blocks = append(blocks, in.Block())
		}
	})
	if len(blocks) == 0 {
		// leaf: the "found" exit: a return whose first operand is `true` or the leaf's Value
		for _, r := range core.Returns(fn) {
			if len(r.Results) == 0 {
				continue
			}
			v := core.RetOperand(r, 0)
			if b, ok := core.ConstBool(v); ok && b {
				blocks = append(blocks, r.Block())
			} else if strings.HasSuffix(core.ExprKey(v), "recv.Value") {
				blocks = append(blocks, r.Block())
			} else if fn.Name() == "getNext" && len(r.Results) == 3 && core.IsNilConst(core.RetOperand(r, 2)) {
				blocks = append(blocks, r.Block())
			}
		}
	}
	seen := map[string]bool{}
	var out []core.Fact
	// leaf written without a branch: `return bytes.Equal(key, ln.Key), nil, nil` - "found" is the
	// comparison itself, i.e. the found outcome is guarded by it
	if len(blocks) == 0 {
		for _, r := range core.Returns(fn) {
			if len(r.Results) == 0 {
				continue
			}
			if call, ok := core.RetOperand(r, 0).(*ssa.Call); ok && core.CallDesc(&call.Call).Is("bytes", "", "Equal") {
				f := core.FactOf(core.Cond{V: call, Taken: true})
				if f.Mentions("p1") && strings.Contains(f.String(), "recv.") && !seen[f.String()] {
					seen[f.String()] = true
					out = append(out, f)
				}
				for _, f2 := range core.FactsAt(r.Block()) {
					if f2.Mentions("p1") && (strings.Contains(f2.String(), "recv.") || f2.Mentions("len(p1)")) && !seen[f2.String()] {
						seen[f2.String()] = true
						out = append(out, f2)
					}
				}
			}
		}
	}
	for _, b := range blocks {
		for _, f := range core.FactsAt(b) {
			// only guards relating the key to the node's own content or to the key's length: range
			// checks on the key's bytes alone are established once by the caller (keyBytesToHex)
			if !f.Mentions("p1") || !(strings.Contains(f.String(), "recv.") || f.Mentions("len(p1)")) {
				continue
			}
			// whether the child selected by the key's nibble exists is not a comparison of the key with the node's
			// content (the walk that verifies a proof has no child to test, only a hash that the next element must
			// match); where such a test stands relative to the key step is a matter of statement order
			if f.A == "nil" || f.B == "nil" {
				continue
			}
			if !seen[f.String()] {
				seen[f.String()] = true
				out = append(out, f)
			}
		}
	}
	return out
}

func exprOf(in ssa.Instruction) string {
	if v, ok := in.(ssa.Value); ok {
		return core.ExprKey(v)
	}
	return in.String()
}

// isRangeIndex: idx = phi+1 in a loop header whose condition is idx < len(x) for the same x.
func isRangeIndex(fn *ssa.Function, ia *ssa.IndexAddr) bool {
	b, ok := ia.Index.(*ssa.BinOp)
	if !ok || b.Op != token.ADD {
		return false
	}
	if _, ok := b.X.(*ssa.Phi); !ok {
		return false
	}
	for _, r := range *b.Referrers() {
		cmp, ok := r.(*ssa.BinOp)
		if !ok || cmp.Op != token.LSS || cmp.X != ssa.Value(b) {
			continue
		}
		if call, ok := cmp.Y.(*ssa.Call); ok {
			if bi, ok := call.Call.Value.(*ssa.Builtin); ok && bi.Name() == "len" && call.Call.Args[0] == ia.X {
				return true
			}
		}
	}
	return false
}

// c04VerifyNibbleBound re-establishes the shape invariant behind EncodedChildren[key[0]]:
// every byte keyBytesToHex writes is a masked nibble (< 16) or the terminator constant, all
// below nrOfChildren, and branch nodes are constructed with nrOfChildren encoded-children slots.
func c04VerifyNibbleBound(c *core.Ctx) (bool, string) {
	const pkg = "data/trie"
	fn := c.P.Func(pkg, "keyBytesToHex")
	if fn == nil {
		return false, "keyBytesToHex not found"
	}
	c.Analysed(core.QualName(fn))
	nr := c.P.Const(pkg, "nrOfChildren")
	if nr == nil {
		return false, "nrOfChildren not found"
	}
	nrv, _ := constInt64(nr)
	bad := ""
	stores := 0
	core.Instrs(fn, func(in ssa.Instruction) {
		st, ok := in.(*ssa.Store)
		if !ok {
			return
		}
		if _, ok := st.Addr.(*ssa.IndexAddr); !ok {
			return
		}
		stores++
		max := int64(-1)
		switch v := st.Val.(type) {
		case *ssa.Const:
			if n, ok := core.ConstInt(v); ok {
				max = n
			}
		case *ssa.BinOp:
			if v.Op == token.AND {
				if n, ok := core.ConstInt(v.Y); ok {
					max = n
				} else if n, ok := core.ConstInt(v.X); ok {
					max = n
				}
			}
			if v.Op == token.SHR {
				if n, ok := core.ConstInt(v.Y); ok && n >= 4 && v.X.Type().Underlying().(*types.Basic).Kind() == types.Uint8 {
					max = 255 >> uint(n)
				}
			}
		}
		if max < 0 || max >= nrv {
			bad = fmt.Sprintf("keyBytesToHex stores a value not provably < nrOfChildren at %s", c.P.Pos(st.Pos()))
		}
	})
	if bad != "" {
		return false, bad
	}
	if stores < 3 {
		return false, "keyBytesToHex no longer has the recognised shape"
	}
	// constructors allocate nrOfChildren encoded children
	for _, ctor := range []string{"newBranchNode", "emptyDirtyBranchNode"} {
		f := c.P.Func(pkg, ctor)
		if f == nil {
			return false, ctor + " not found"
		}
		c.Analysed(core.QualName(f))
		ok := false
		core.Instrs(f, func(in ssa.Instruction) {
			if ms, ok2 := in.(*ssa.MakeSlice); ok2 {
				if n, ok3 := core.ConstInt(ms.Len); ok3 && n == nrv {
					ok = true
				}
			}
			// make([]T, const) is lowered to new([const]T)[:]
			if sl, ok2 := in.(*ssa.Slice); ok2 {
				if al, ok3 := sl.X.(*ssa.Alloc); ok3 {
					if pt, ok4 := al.Type().Underlying().(*types.Pointer); ok4 {
						if at, ok5 := pt.Elem().Underlying().(*types.Array); ok5 && at.Len() == nrv {
							if _, isBytes := at.Elem().Underlying().(*types.Slice); isBytes {
								ok = true
							}
						}
					}
				}
			}
		})
		if !ok {
			return false, ctor + " does not allocate nrOfChildren encoded children"
		}
	}
	return true, fmt.Sprintf("keyBytesToHex writes only values < %d; branch constructors allocate %d slots", nrv, nrv)
}

func constInt64(k *types.Const) (int64, bool) {
	v := k.Val()
	if v == nil {
		return 0, false
	}
	var n int64
	_, err := fmt.Sscan(v.ExactString(), &n)
	return n, err == nil
}

// c04RefusalsHaveAProofReason: a proof produced for a present key must verify, so VerifyProof may
// answer "no" (false without an error) only for a reason that a genuine proof never gives: an
// entry that is nil or empty, an entry whose hash is not the expected one, or the end of the proof.
// A refusal decided by anything else - e.g. a relation between the number of entries and the
// length of the key, which fails for keys stored under a branch's terminator slot - rejects
// genuine proofs.
func c04RefusalsHaveAProofReason(c *core.Ctx) {
	fn := anchorM(c, "data/trie", "patriciaMerkleTrie", "VerifyProof")
	if fn == nil || len(fn.Params) < 3 {
		return
	}
	proof := ssa.Value(fn.Params[2])
	// the walk may live in a method VerifyProof hands the proof to and whose answer it returns
	// (`return tr.verifyFromHash(root, hexKey, proof)`): the refusals judged are then that method's
	if h, hp := c04Delegate(fn, proof); h != nil {
		fn, proof = h, hp
		c.Analysed(fname(h))
	}
	n := 0
	for _, r := range core.Returns(fn) {
		b, isC := core.ConstBool(core.RetOperand(r, 0))
		if !isC || b || !core.NilReturn(r, nil) {
			continue
		}
		n++
		conds := core.CondsAt(r.Block())
		reason := ""
		if len(conds) > 0 {
			cd := conds[0]
			switch v := cd.V.(type) {
			case *ssa.Extract: // range loop: `ok` of next is false
				if _, isNext := v.Tuple.(*ssa.Next); isNext && v.Index == 0 && !cd.Taken {
					reason = "end of the proof"
				}
			case *ssa.Call:
				if core.CallDesc(&v.Call).Is("bytes", "", "Equal") && !cd.Taken {
					reason = "hash mismatch"
				}
				// the comparison extracted into a helper that returns bytes.Equal(...) on every path
				if g := v.Call.StaticCallee(); g != nil && len(g.Blocks) > 0 && !cd.Taken {
					all := len(core.Returns(g)) > 0
					for _, gr := range core.Returns(g) {
						eq, isCall := core.RetOperand(gr, 0).(*ssa.Call)
						if !isCall || !core.CallDesc(&eq.Call).Is("bytes", "", "Equal") {
							all = false
						}
					}
					if all {
						reason = "hash mismatch (through " + g.Name() + ")"
					}
				}
			case *ssa.BinOp:
				isEntry := func(x ssa.Value) bool {
					for y := range core.BackwardReachPure(x) {
						if y == proof {
							return true
						}
					}
					return false
				}
				lenOfProofPart := func(x ssa.Value) bool {
					call, ok := x.(*ssa.Call)
					if !ok {
						return false
					}
					bi, isB := call.Call.Value.(*ssa.Builtin)
					return isB && bi.Name() == "len" && isEntry(call.Call.Args[0])
				}
				zero := func(x ssa.Value) bool { k, ok := core.ConstInt(x); return ok && k == 0 }
				switch {
				case (core.IsNilConst(v.Y) && isEntry(v.X) || core.IsNilConst(v.X) && isEntry(v.Y)) && (v.Op == token.EQL) == cd.Taken:
					reason = "nil entry"
				case lenOfProofPart(v.X) && zero(v.Y) && ((v.Op == token.EQL && cd.Taken) || (v.Op == token.NEQ && !cd.Taken) || (v.Op == token.GTR && !cd.Taken) || (v.Op == token.LEQ && cd.Taken)):
					reason = "empty entry / empty proof"
				case v.Op == token.LSS && !cd.Taken && lenOfProofPart(v.Y): // index loop exhausted: !(i < len(proof))
					reason = "end of the proof"
				}
			}
		}
		c.Check(reason != "", "C04/refusals-have-a-proof-reason", fmt.Sprintf("patriciaMerkleTrie.VerifyProof/refusal#%d", n), r.Pos(),
			"refused because: "+reason,
			"VerifyProof answers false on a condition that is not a nil/empty entry, a hash mismatch or the end of the proof: a relation that genuine proofs need not satisfy (e.g. number of entries vs key length) makes proofs of present keys fail")
	}
	c.Floor("C04/refusals-have-a-proof-reason", 3)
}

// c04Delegate: fn returns the results of one call of a function of its package to which it hands v
// unchanged; that function and the parameter v arrives as.
func c04Delegate(fn *ssa.Function, v ssa.Value) (*ssa.Function, ssa.Value) {
	for _, r := range core.Returns(fn) {
		if len(r.Results) == 0 {
			continue
		}
		ex, ok := core.RetOperand(r, 0).(*ssa.Extract)
		if !ok {
			continue
		}
		call, ok := ex.Tuple.(*ssa.Call)
		if !ok || call.Call.StaticCallee() == nil || call.Call.StaticCallee().Blocks == nil || call.Call.StaticCallee().Pkg != fn.Pkg || call.Call.StaticCallee() == fn {
			continue
		}
		h := call.Call.StaticCallee()
		for i, p := range h.Params {
			if i < len(call.Call.Args) && call.Call.Args[i] == v {
				return h, p
			}
		}
	}
	return nil, nil
}
