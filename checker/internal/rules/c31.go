package rules

import (
	"fmt"
	"go/token"
	"go/types"

	"golang.org/x/tools/go/ssa"

	"verif/checker/internal/core"
)

func init() {
	register(&Rule{
		ID:    "C31",
		Title: "Bloom filter has no false negatives and is race-free",
		Pkgs:  []string{"storage/bloom"},
		Explain: "Decides the race-freedom clause completely and the structural half of 'no false negatives under concurrent adds' (a lost read-modify-write of a filter byte is a lost bit): " +
			"every access to an element of Bloom.filter (read, write, read-modify-write) in package storage/bloom happens while Bloom.mutex is held (lock-state dataflow over the SSA CFG, " +
			"entry modes of unexported helpers inherited from their call sites); the slice header Bloom.filter is assigned only while the object is under construction, so unlocked len() reads are race-free; " +
			"the filter slice does not escape to callees. The field is unexported, so the package is the whole universe of accesses. " +
			"A write whose value derives from a read of the filter sits in the same critical section as that read (no Unlock/RUnlock between them on any path): an atomicity violation loses a concurrent Add's bit although every access is locked. " +
			"MayContain answers false only directly behind the test of a clear bit of the filter. " +
			"Not decided (value-level): that MayContain tests exactly the bits Add sets (hash/index arithmetic).",
		Run: runC31,
	})
}

func runC31(c *core.Ctx) {
	c31NegativeOnlyForAClearBit(c)
	const pkg = "storage/bloom"
	mu := c.P.Field(pkg, "Bloom", "mutex")
	filter := c.P.Field(pkg, "Bloom", "filter")
	if mu == nil || filter == nil {
		c.Undecided("anchor", "Bloom.{mutex,filter}", token.NoPos, "fields not found")
		return
	}
	// the reviewed shared state of a Bloom is {filter (guarded by mutex), hashFunc (immutable after construction), mutex};
	// any other field is shared mutable state nobody classified: the race-freedom claim does not extend to it
	if bt := c.P.Named(pkg, "Bloom"); bt != nil {
		if st, ok := bt.Underlying().(*types.Struct); ok {
			for i := 0; i < st.NumFields(); i++ {
				switch n := st.Field(i).Name(); n {
				case "filter", "hashFunc", "mutex":
					c.Pass("C31/shared-state-reviewed", "Bloom."+n, st.Field(i).Pos(), "reviewed field")
				default:
					c.Undecided("C31/shared-state-reviewed", "Bloom."+n, st.Field(i).Pos(), "new field of Bloom: shared state that is not in the reviewed guarded-by table (channels, buffers or counters shared between Add and MayContain can lose or misroute bit indexes)")
				}
			}
		}
	}
	// hashFunc is never re-assigned on a shared object
	fns := c.P.FuncsOfPkg(pkg)
	entry := core.EntryModes(fns, mu)
	n := 0
	for _, fn := range fns {
		c.Analysed(core.QualName(fn))
		modes := core.LockModes(fn, mu, entry[fn])
		core.Instrs(fn, func(in ssa.Instruction) {
			fa, ok := in.(*ssa.FieldAddr)
			if !ok || core.FieldOfAddr(fa) != filter {
				return
			}
			for _, r := range *fa.Referrers() {
				switch u := r.(type) {
				case *ssa.Store:
					if u.Addr != ssa.Value(fa) {
						continue
					}
					// header assignment: only on an object under construction
					_, fresh := fa.X.(*ssa.Alloc)
					c.Check(fresh, "C31/filter-header-immutable", fmt.Sprintf("%s/store-filter", fname(fn)), u.Pos(),
						"Bloom.filter assigned on a freshly allocated object (constructor)",
						"Bloom.filter is re-assigned on a shared object: unlocked len()/header reads elsewhere would race")
				case *ssa.UnOp:
					checkFilterUses(c, fn, u, modes, &n)
				}
			}
		})
	}
	c.Sites += n
	c.Floor("C31/filter-element-access-under-mutex", 4) // Add (read+write), MayContain (read), Clear (write)
	c.Floor("C31/filter-header-immutable", 2)           // NewFilter, NewDefaultFilter
}

func checkFilterUses(c *core.Ctx, fn *ssa.Function, hdr ssa.Value, modes map[ssa.Instruction]core.Mode, n *int) {
	for _, r := range *hdr.Referrers() {
		*n++
		switch u := r.(type) {
		case *ssa.IndexAddr:
			for _, rr := range *u.Referrers() {
				write := false
				switch a := rr.(type) {
				case *ssa.Store:
					write = a.Addr == ssa.Value(u)
					if !write {
						continue
					}
				case *ssa.UnOp:
				default:
					c.Undecided("C31/filter-element-access-under-mutex", fmt.Sprintf("%s/elem-addr-escapes", fname(fn)), rr.Pos(), "address of a filter element used in an unrecognised way")
					continue
				}
				kind := "read"
				need := core.ModeR
				if write {
					kind = "write"
					need = core.ModeW
				}
				m := modes[rr]
				name := fmt.Sprintf("%s/element-%s", fname(fn), kind)
				c.Check(m >= need, "C31/filter-element-access-under-mutex", name, rr.Pos(),
					fmt.Sprintf("filter element %s while %s", kind, m),
					fmt.Sprintf("filter element %s while Bloom.mutex is %s: races with concurrent Add (a lost update is a false negative)", kind, m))
				// a write that depends on a read of the filter must sit in the same critical section as
				// that read: if the mutex is released in between, a concurrent Add's bit is overwritten
				if st, isSt := rr.(*ssa.Store); isSt && write {
					for x := range core.BackwardReachPure(st.Val) {
						ld, isLd := x.(*ssa.UnOp)
						if !isLd || ld.Op != token.MUL {
							continue
						}
						ia, isIA := ld.X.(*ssa.IndexAddr)
						if !isIA || !derivesFrom(ia.X, hdr) {
							continue
						}
						released := ""
						core.Instrs(fn, func(in ssa.Instruction) {
							cc := core.CallOf(in)
							if cc == nil || cc.StaticCallee() == nil {
								return
							}
							if nm := cc.StaticCallee().Name(); nm != "Unlock" && nm != "RUnlock" {
								return
							}
							if _, isDefer := in.(*ssa.Defer); isDefer {
								return
							}
							a, _ := core.PathQ{Fn: fn, From: ld, Target: func(y ssa.Instruction, _ *ssa.BasicBlock) bool { return y == in },
								Via: func(y ssa.Instruction) bool { return y == ssa.Instruction(st) }}.Escape()
							b, _ := core.PathQ{Fn: fn, From: in, Target: func(y ssa.Instruction, _ *ssa.BasicBlock) bool { return y == ssa.Instruction(st) }}.Escape()
							if a != nil && b != nil {
								released = c.P.Pos(in.Pos())
							}
						})
						c.Check(released == "", "C31/filter-element-access-under-mutex", name+"/read-modify-write-in-one-section", st.Pos(),
							"the value written derives from a read of the filter made in the same critical section",
							"the value written derives from a read of the filter made before the mutex was released at "+released+": a bit set by a concurrent Add in between is overwritten (a lost update is a false negative), although every access is under the mutex")
					}
				}
			}
		case *ssa.Slice, *ssa.Phi:
			checkFilterUses(c, fn, u.(ssa.Value), modes, n)
		case *ssa.Call:
			if b, ok := u.Call.Value.(*ssa.Builtin); ok && (b.Name() == "len" || b.Name() == "cap") {
				continue // header read; header is immutable after construction (checked above)
			}
			c.Undecided("C31/filter-element-access-under-mutex", fmt.Sprintf("%s/filter-escapes", fname(fn)), u.Pos(), "the filter slice is passed to a callee; its element accesses are not tracked")
		case *ssa.Range:
			c.Undecided("C31/filter-element-access-under-mutex", fmt.Sprintf("%s/range", fname(fn)), u.Pos(), "range over filter in an unrecognised form")
		case *ssa.DebugRef:
		default:
			c.Undecided("C31/filter-element-access-under-mutex", fmt.Sprintf("%s/filter-use", fname(fn)), r.Pos(), fmt.Sprintf("unrecognised use of the filter slice: %T", r))
		}
	}
}

func derivesFrom(v, root ssa.Value) bool {
	for i := 0; i < 8; i++ {
		if v == root {
			return true
		}
		switch x := v.(type) {
		case *ssa.Slice:
			v = x.X
		case *ssa.Phi:
			for _, e := range x.Edges {
				if derivesFrom(e, root) {
					return true
				}
			}
			return false
		default:
			// two loads of the same field are the same header
			return core.ExprKey(v) == core.ExprKey(root)
		}
	}
	return false
}

// c31NegativeOnlyForAClearBit: the filter may answer "not present" only because one of the key's
// bits is clear. Every `return false` of MayContain sits directly behind the test of a bit of the
// filter being zero; a "no" for any other reason (an empty index list, an early length test) is a
// false negative for some key that was added.
func c31NegativeOnlyForAClearBit(c *core.Ctx) {
	fn := anchorM(c, "storage/bloom", "Bloom", "MayContain")
	if fn == nil {
		return
	}
	n := 0
	for _, r := range core.Returns(fn) {
		b, isC := core.ConstBool(core.RetOperand(r, 0))
		if !isC || b {
			continue
		}
		n++
		good := false
		if conds := core.CondsAt(r.Block()); len(conds) > 0 {
			cd := conds[0]
			if bo, ok := cd.V.(*ssa.BinOp); ok && (bo.Op == token.EQL && cd.Taken || bo.Op == token.NEQ && !cd.Taken) {
				for _, side := range []ssa.Value{bo.X, bo.Y} {
					and, isAnd := side.(*ssa.BinOp)
					if !isAnd || and.Op != token.AND {
						continue
					}
					for _, op := range []ssa.Value{and.X, and.Y} {
						if ld, isLd := op.(*ssa.UnOp); isLd {
							if ia, isIa := ld.X.(*ssa.IndexAddr); isIa && isFieldOf(ia.X, "filter") {
								good = true
							}
						}
					}
				}
			}
		}
		c.Check(good, "C31/negative-only-for-a-clear-bit", fmt.Sprintf("Bloom.MayContain/return-false#%d", n), r.Pos(),
			"`false` directly behind filter[pos] & mask == 0",
			"Bloom.MayContain answers false on a condition that is not a clear bit of the filter: some key that was added (e.g. the empty key, whose index list a helper may leave empty) is reported as absent")
	}
	c.Floor("C31/negative-only-for-a-clear-bit", 1)
}
