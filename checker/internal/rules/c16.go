package rules

import (
	"fmt"
	"go/types"

	"golang.org/x/tools/go/ssa"

	"verif/checker/internal/core"
)

func init() {
	register(&Rule{
		ID:    "C16",
		Title: "After an epoch change each validator has exactly one place",
		Pkgs:  []string{"sharding"},
		Explain: "Decides the structural half of 'looking the key up reports that same shard'. (S1 index freshness) the public-key index is rebuilt (fillPublicKeyToValidatorMap) after the new configuration is installed " +
			"(setNodesPerShards) on every path of EpochStartPrepare and of the constructor. (S2 lookup determinism) the index is built from the per-epoch maps in sorted epoch order, and every map range in the cone of " +
			"fillPublicKeyToValidatorMap / computeNodesConfigFromList is order-independent, so the newest epoch wins for every node alike. A stale index answers with the previous epoch's shard. " +
			"(S3 one place per entry) one pass through the loop of computeNodesConfigFromList over validatorInfos inserts into the maps installed as eligibleMap/waitingMap at most once, callees that receive those maps counted with their per-call maximum (path-count over the loop body DAG). " +
			"Not decided (value-level): uniqueness of a key across distinct validator-info entries.",
		Run: runC16,
	})
}

func runC16(c *core.Ctx) {
	isFill := func(in ssa.Instruction) bool {
		return core.IsCall(in, "sharding", "indexHashedNodesCoordinator", "fillPublicKeyToValidatorMap")
	}
	// S1
	if ep := anchorM(c, "sharding", "indexHashedNodesCoordinator", "EpochStartPrepare"); ep != nil {
		for i, s := range callsMatching(ep, "sharding", "indexHashedNodesCoordinator", "setNodesPerShards") {
			mustPass(c, ep, "C16/index-rebuilt-after-install", fmt.Sprintf("EpochStartPrepare#%d", i), s, isFill, core.AnyReturn, nil,
				"the public-key index is rebuilt after the new epoch's lists were installed")
		}
	}
	if ctor := anchorF(c, "sharding", "NewIndexHashedNodesCoordinator"); ctor != nil {
		for i, s := range callsMatching(ctor, "sharding", "indexHashedNodesCoordinator", "setNodesPerShards") {
			mustPass(c, ctor, "C16/index-rebuilt-after-install", fmt.Sprintf("NewIndexHashedNodesCoordinator#%d", i), s, isFill, core.SuccessReturn, nil,
				"the public-key index is built after the initial lists were installed")
		}
	}
	c.Floor("C16/index-rebuilt-after-install", 2)
	// S2
	cone := shardingCone(c, [][2]string{{"indexHashedNodesCoordinator", "fillPublicKeyToValidatorMap"}, {"indexHashedNodesCoordinator", "computeNodesConfigFromList"},
		{"indexHashedNodesCoordinator", "GetValidatorWithPublicKey"}})
	n := checkMapOrder(c, "C16/map-order-independent", cone, c13Exceptions)
	checkSortComparators(c, "C16/sort-comparator-consistent", cone)
	c.Note("cone: %d functions, %d map-range loops", len(cone), n)
	c.Floor("C16/map-order-independent", 3)
	// a validator placed twice has two places: results that return the unconsumed part of a list must be used
	shCone := shardingCone(c, [][2]string{{"indexHashedNodesCoordinator", "EpochStartPrepare"}, {"randHashShuffler", "UpdateNodeLists"}})
	checkValidatorResultsUsed(c, "C16/validator-results-used", shCone)
	c.Floor("C16/validator-results-used", 10)
	c16OnePlacement(c)
	// the merge loop over epochs ranges over the sorted epoch list, not over the map
	if fn := anchorM(c, "sharding", "indexHashedNodesCoordinator", "fillPublicKeyToValidatorMap"); fn != nil {
		pkF := c.P.Field("sharding", "indexHashedNodesCoordinator", "publicKeyToValidatorMap")
		ok, why := false, "no insertion into publicKeyToValidatorMap found"
		core.Instrs(fn, func(in ssa.Instruction) {
			mu, isMU := in.(*ssa.MapUpdate)
			if !isMU {
				return
			}
			if _, f := core.FieldLoad(mu.Map); f != pkF {
				return
			}
			// the enclosing loops: innermost ranges a map (per-epoch validators, keyed by pubkey = range key), the outer one must not be a map range
			outerIsMap := false
			inner := core.InnermostLoop(fn, mu.Block())
			for _, ml := range core.MapLoops(fn) {
				if ml.Loop != inner && ml.Loop.Body[mu.Block()] {
					outerIsMap = true
				}
			}
			if outerIsMap {
				ok, why = false, "epochs are merged in map iteration order: which epoch's entry survives for a key differs between nodes"
			} else {
				ok = true
			}
		})
		c.Check(ok, "C16/newest-epoch-wins", "fillPublicKeyToValidatorMap/merge", fn.Pos(), "per-epoch maps are merged by a loop over the sorted epoch list", why)
		// ... the WHOLE sorted list: the loop ranges over the very slice that was sorted, not a window of it
		var sorted ssa.Value
		for _, sc := range core.SortCalls(fn) {
			sorted = sc.Slice
		}
		okAll, whyAll := false, "the epoch list handed to sort.Slice was not found"
		if sorted != nil {
			whyAll = "no loop ranges over the sorted epoch list"
			for _, l := range core.Loops(fn) {
				src := l.RangeSource()
				if src == nil {
					continue
				}
				if core.ExprKey(src) == core.ExprKey(sorted) || src == sorted {
					okAll = true
					// the list lives in a cell when the comparator captures it: it must not be reassigned
					// between the sort and the loop
					if ld, isLd := src.(*ssa.UnOp); isLd {
						if cell, isCell := ld.X.(*ssa.Alloc); isCell && cell.Referrers() != nil {
							for _, sc := range core.SortCalls(fn) {
								for _, r := range *cell.Referrers() {
									if st, isSt := r.(*ssa.Store); isSt && st.Addr == ssa.Value(cell) && core.DominatesInstr(sc.In, st) {
										okAll = false
										whyAll = "the sorted epoch list is reassigned (" + core.ExprKey(st.Val) + ") between the sort and the merge loop: the loop no longer ranges over all stored epochs"
									}
								}
							}
						}
					}
				} else if _, isMap := src.Type().Underlying().(*types.Map); !isMap {
					for x := range core.BackwardReachPure(src) {
						if sl, isSl := x.(*ssa.Slice); isSl && (sl.High != nil || sl.Low != nil) {
							whyAll = "the merge loop ranges over a window (" + core.ExprKey(sl) + ") of the sorted epoch list: an epoch (the newest, if the head is kept) is left out of the index"
						}
					}
				}
			}
		}
		c.Check(okAll, "C16/newest-epoch-wins", "fillPublicKeyToValidatorMap/all-epochs-merged", fn.Pos(), "the merge loop ranges over the complete sorted epoch list", whyAll+": lookups by public key report the shard of an older epoch")
	}
	// the state saved at the epoch change is the state of the new epoch
	if fn := anchorM(c, "sharding", "indexHashedNodesCoordinator", "EpochStartAction"); fn != nil {
		c.Analysed(fname(fn))
		var save ssa.Instruction
		for _, in := range core.CallsIn(fn, func(in ssa.Instruction, cc *ssa.CallCommon) bool {
			return cc.StaticCallee() != nil && cc.StaticCallee().Name() == "saveState"
		}) {
			save = in
		}
		if save == nil {
			c.Undecided("C16/saved-state-is-the-new-epoch", "indexHashedNodesCoordinator.EpochStartAction", fn.Pos(), "saveState is not called")
		} else {
			esc, path := core.PathQ{Fn: fn, Via: func(in ssa.Instruction) bool {
				st, ok := in.(*ssa.Store)
				return ok && isRecvFieldAddr(fn, st.Addr, "currentEpoch")
			}, Target: func(in ssa.Instruction, _ *ssa.BasicBlock) bool { return in == save }}.Escape()
			c.Check(esc == nil, "C16/saved-state-is-the-new-epoch", "indexHashedNodesCoordinator.EpochStartAction", save.Pos(),
				"currentEpoch is advanced before the coordinator's state is saved",
				"the state is saved before currentEpoch is advanced ("+c.P.PathString(path)+"): after a restart the coordinator resumes one epoch behind, and the next epoch change is computed from the configuration of two epochs ago - validators end up listed in two shards")
		}
	}
}

// c16OnePlacement: list reconstruction gives each validator-info entry at most one place in
// eligible ∪ waiting: on one pass through the loop over validatorInfos at most one insertion into
// the maps that become epochNodesConfig.eligibleMap / waitingMap happens (insertions made by a
// callee that receives those maps are counted with the callee's per-call maximum).
func c16OnePlacement(c *core.Ctx) {
	fn := anchorM(c, "sharding", "indexHashedNodesCoordinator", "computeNodesConfigFromList")
	if fn == nil {
		return
	}
	c.Analysed(fname(fn))
	placeMaps := map[ssa.Value]string{}
	core.Instrs(fn, func(in ssa.Instruction) {
		st, ok := in.(*ssa.Store)
		if !ok {
			return
		}
		fa, ok := st.Addr.(*ssa.FieldAddr)
		if !ok {
			return
		}
		if f := core.FieldOfAddr(fa); f != nil && (f.Name() == "eligibleMap" || f.Name() == "waitingMap") {
			if _, isMap := st.Val.Type().Underlying().(*types.Map); isMap {
				placeMaps[st.Val] = f.Name()
			}
		}
	})
	if len(placeMaps) != 2 {
		c.Undecided("C16/one-placement-per-entry", "computeNodesConfigFromList", fn.Pos(), fmt.Sprintf("expected the two maps installed as eligibleMap and waitingMap, found %d", len(placeMaps)))
		return
	}
	var weight func(f *ssa.Function, maps map[ssa.Value]bool, depth int) func(in ssa.Instruction) int
	calleeMax := func(call *ssa.Call, maps map[ssa.Value]bool, depth int) int {
		callee := call.Call.StaticCallee()
		if callee == nil || len(callee.Blocks) == 0 || depth > 3 {
			return 0
		}
		sub := map[ssa.Value]bool{}
		for i, a := range call.Call.Args {
			if maps[a] && i < len(callee.Params) {
				sub[callee.Params[i]] = true
			}
		}
		if len(sub) == 0 {
			return 0
		}
		c.Analysed(fname(callee))
		max := 0
		for _, cnt := range core.CountEvents(callee, weight(callee, sub, depth+1), core.AnyReturn) {
			if cnt.Max > max {
				max = cnt.Max
			}
		}
		return max
	}
	weight = func(f *ssa.Function, maps map[ssa.Value]bool, depth int) func(in ssa.Instruction) int {
		return func(in ssa.Instruction) int {
			switch x := in.(type) {
			case *ssa.MapUpdate:
				if maps[x.Map] {
					return 1
				}
			case *ssa.Call:
				return calleeMax(x, maps, depth)
			}
			return 0
		}
	}
	top := map[ssa.Value]bool{}
	for m := range placeMaps {
		top[m] = true
	}
	found := false
	for _, l := range core.Loops(fn) {
		src := l.RangeSource()
		if src == nil || len(fn.Params) < 3 || src != ssa.Value(fn.Params[2]) {
			continue
		}
		found = true
		n := l.MaxPerIteration(fn, weight(fn, top, 0))
		c.Check(n == 1, "C16/one-placement-per-entry", "computeNodesConfigFromList/loop over validatorInfos", fn.Pos(),
			"one pass through the loop inserts the entry's validator at most once into the eligible/waiting maps",
			fmt.Sprintf("one pass through the loop can insert the entry's validator %d times into the eligible/waiting maps (callees included): the validator gets two places in the new epoch", n))
	}
	if !found {
		c.Undecided("C16/one-placement-per-entry", "computeNodesConfigFromList", fn.Pos(), "no loop over the validatorInfos parameter")
	}
}
