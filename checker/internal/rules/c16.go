package rules

import (
	"fmt"

	"golang.org/x/tools/go/ssa"

	"verif/checker/internal/core"
)

func init() {
	register(&Rule{
		ID:    "C16",
		Title: "After an epoch change each validator has exactly one place",
		Pkgs:  []string{"sharding"},
		Explain: "Decides the structural half of 'looking the key up reports that same shard'. (S1 index freshness) the public-key index is rebuilt (fillPublicKeyToValidatorMap) after the new configuration is installed " +
			"(setNodesPerShards) on every path of EpochStartPrepare and of the constructor. (S2 lookup determinism) the index is built from the per-epoch maps in sorted epoch order, and every map range in the cone of " +
			"fillPublicKeyToValidatorMap / computeNodesConfigFromList is order-independent, so the newest epoch wins for every node alike. A stale index answers with the previous epoch's shard. " +
			"Not decided (value-level): uniqueness of a key across the reconstructed lists (computeNodesConfigFromList arithmetic).",
		Run: runC16,
	})
}

func runC16(c *core.Ctx) {
	isFill := func(in ssa.Instruction) bool {
		return core.IsCall(in, "sharding", "indexHashedNodesCoordinator", "fillPublicKeyToValidatorMap")
	}
	// S1
	if ep := anchorM(c, "sharding", "indexHashedNodesCoordinator", "EpochStartPrepare"); ep != nil {
		for i, s := range callsMatching(ep, "sharding", "indexHashedNodesCoordinator", "setNodesPerShards") {
			mustPass(c, ep, "C16/index-rebuilt-after-install", fmt.Sprintf("EpochStartPrepare#%d", i), s, isFill, core.AnyReturn, nil,
				"the public-key index is rebuilt after the new epoch's lists were installed")
		}
	}
	if ctor := anchorF(c, "sharding", "NewIndexHashedNodesCoordinator"); ctor != nil {
		for i, s := range callsMatching(ctor, "sharding", "indexHashedNodesCoordinator", "setNodesPerShards") {
			mustPass(c, ctor, "C16/index-rebuilt-after-install", fmt.Sprintf("NewIndexHashedNodesCoordinator#%d", i), s, isFill, core.SuccessReturn, nil,
				"the public-key index is built after the initial lists were installed")
		}
	}
	c.Floor("C16/index-rebuilt-after-install", 2)
	// S2
	cone := shardingCone(c, [][2]string{{"indexHashedNodesCoordinator", "fillPublicKeyToValidatorMap"}, {"indexHashedNodesCoordinator", "computeNodesConfigFromList"},
		{"indexHashedNodesCoordinator", "GetValidatorWithPublicKey"}})
	n := checkMapOrder(c, "C16/map-order-independent", cone, c13Exceptions)
	checkSortComparators(c, "C16/sort-comparator-consistent", cone)
	c.Note("cone: %d functions, %d map-range loops", len(cone), n)
	c.Floor("C16/map-order-independent", 3)
	// a validator placed twice has two places: results that return the unconsumed part of a list must be used
	shCone := shardingCone(c, [][2]string{{"indexHashedNodesCoordinator", "EpochStartPrepare"}, {"randHashShuffler", "UpdateNodeLists"}})
	checkValidatorResultsUsed(c, "C16/validator-results-used", shCone)
	c.Floor("C16/validator-results-used", 10)
	// the merge loop over epochs ranges over the sorted epoch list, not over the map
	if fn := anchorM(c, "sharding", "indexHashedNodesCoordinator", "fillPublicKeyToValidatorMap"); fn != nil {
		pkF := c.P.Field("sharding", "indexHashedNodesCoordinator", "publicKeyToValidatorMap")
		ok, why := false, "no insertion into publicKeyToValidatorMap found"
		core.Instrs(fn, func(in ssa.Instruction) {
			mu, isMU := in.(*ssa.MapUpdate)
			if !isMU {
				return
			}
			if _, f := core.FieldLoad(mu.Map); f != pkF {
				return
			}
			// the enclosing loops: innermost ranges a map (per-epoch validators, keyed by pubkey = range key), the outer one must not be a map range
			outerIsMap := false
			inner := core.InnermostLoop(fn, mu.Block())
			for _, ml := range core.MapLoops(fn) {
				if ml.Loop != inner && ml.Loop.Body[mu.Block()] {
					outerIsMap = true
				}
			}
			if outerIsMap {
				ok, why = false, "epochs are merged in map iteration order: which epoch's entry survives for a key differs between nodes"
			} else {
				ok = true
			}
		})
		c.Check(ok, "C16/newest-epoch-wins", "fillPublicKeyToValidatorMap/merge", fn.Pos(), "per-epoch maps are merged by a loop over the sorted epoch list", why)
	}
}
