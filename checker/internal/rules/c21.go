package rules

import (
	"fmt"
	"go/token"
	"go/types"
	"strings"

	"golang.org/x/tools/go/ssa"

	"verif/checker/internal/core"
)

func init() {
	register(&Rule{
		ID:    "C21",
		Title: "Transaction fees never exceed what the sender authorised",
		Pkgs:  []string{"process/economics", "core"},
		Explain: "Decides two structural conditions. (S1) no unsigned subtraction in the fee/gas computations of package process/economics (ComputeTxFee, ComputeTxFeeBasedOnGasUsed, " +
			"ComputeGasUsedAndFeeBasedOnRefundValue, SplitTxGasInCategories, isTooMuchGasProvided and every other function of economicsData) can wrap around: each `a - b` on unsigned operands is dominated by a " +
			"comparison establishing b ≤ a on the same expressions (or goes through a checked helper). A wrapped difference turns 'gas remaining' into a huge number and a reported gas used / fee above the limit. " +
			"(S2) CheckValidityTxValues returns nil only past its bounds checks on gas price, gas limit (lower bound and per-block upper bound) and value. " +
			"(S3) a value converted to *big.Int in the package is never the machine product of two runtime integer quantities (price x gas wraps modulo 2^64, making fees non-monotone). (S4) the raw gasPriceModifier field is read only behind a test of its activation flag. " +
			"Not decided (value-level): the inequalities between the fee formulas themselves (big-int arithmetic).",
		Run: runC21,
	})
}

func runC21(c *core.Ctx) {
	c21SafeMulStaysBig(c)
	const pkg = "process/economics"
	n := 0
	for _, fn := range c.P.FuncsOfPkg(pkg) {
		subs := core.UnsignedSubs(fn)
		if len(subs) == 0 {
			continue
		}
		c.Analysed(core.QualName(fn))
		for i, s := range subs {
			n++
			c.Sites++
			name := fname(fn)
			if len(subs) > 1 {
				name = fmt.Sprintf("%s#%d", fname(fn), i)
			}
			c.Check(s.Guarded, "C21/unsigned-sub-guarded", name, s.Op.Pos(), core.ExprKey(s.Op)+": "+s.Why,
				"unsigned subtraction "+core.ExprKey(s.Op)+" can wrap around: "+s.Why)
		}
	}
	c.Floor("C21/unsigned-sub-guarded", 3)
	c21BigProducts(c)
	c21GatedModifier(c)
	c21FeeParts(c)

	if fn := anchorM(c, pkg, "economicsData", "CheckValidityTxValues"); fn != nil {
		type want struct{ name, a, b string }
		// facts that must hold at every nil return (canonical form: A <= B / A < B)
		for i, r := range core.Returns(fn) {
			if !core.NilReturn(r, nil) {
				continue
			}
			facts := core.FactsAt(r.Block())
			has := func(pred func(f core.Fact) bool) bool {
				for _, f := range facts {
					if pred(f) {
						return true
					}
				}
				return false
			}
			checks := []struct {
				name string
				ok   bool
			}{
				{"gas-price-lower-bound", has(func(f core.Fact) bool {
					return (f.Op == "<=" || f.Op == "<") && strings.Contains(f.A, "inGasPrice") && strings.Contains(f.B, "GetGasPrice")
				})},
				{"gas-limit-per-block-upper-bound", has(func(f core.Fact) bool {
					return (f.Op == "<" || f.Op == "<=") && strings.Contains(f.A, "GetGasLimit") && strings.Contains(f.B, "maxGasLimitPerBlock")
				})},
				{"value-upper-bound", has(func(f core.Fact) bool {
					return strings.Contains(f.String(), "Cmp(") && strings.Contains(f.String(), "genesisTotalSupply")
				})},
			}
			for _, ck := range checks {
				c.Check(ck.ok, "C21/validity-checks-precede-accept", fmt.Sprintf("CheckValidityTxValues/return#%d/%s", i, ck.name), r.Pos(),
					"nil only past the "+ck.name+" test", "a nil return is not dominated by the "+ck.name+" test")
			}
		}
		// the gas-limit lower bound is waived for smart contract results only
		q := core.PathQ{Fn: fn,
			ViaEdge: edgeFact(func(f core.Fact, _ core.Cond) bool {
				return (f.Op == "<=" || f.Op == "<") && strings.Contains(f.B, "GetGasLimit") && strings.Contains(f.A, "ComputeGasLimit")
			}),
			Prune: edgeFact(func(f core.Fact, cd core.Cond) bool {
				return f.Op == "T" && strings.HasPrefix(f.A, "economics.isSmartContractResult(")
			}),
			Target: core.NilReturn}
		esc, path := q.Escape()
		c.Check(esc == nil, "C21/validity-checks-precede-accept", "CheckValidityTxValues/gas-limit-lower-bound", fn.Pos(),
			"nil only past `gas limit ≥ ComputeGasLimit(tx)` unless the tx is a smart contract result",
			"a transaction that is not a smart contract result can be accepted without its gas limit covering ComputeGasLimit(tx): "+c.P.PathString(path))
		c.Floor("C21/validity-checks-precede-accept", 4)
	}
	_ = ssa.Value(nil)
}

// c21BigProducts: a fee is a product of two runtime 64-bit quantities (price x gas); a value
// converted into a *big.Int must not come out of a machine multiplication of two runtime
// operands, which wraps modulo 2^64 and makes a larger gas limit cheaper than a smaller one.
func c21BigProducts(c *core.Ctx) {
	const pkg = "process/economics"
	n := 0
	for _, fn := range c.P.FuncsOfPkg(pkg) {
		k := 0
		core.Instrs(fn, func(in ssa.Instruction) {
			call, ok := in.(*ssa.Call)
			if !ok || call.Call.StaticCallee() == nil {
				return
			}
			callee := call.Call.StaticCallee()
			if callee.Pkg == nil || callee.Pkg.Pkg.Path() != "math/big" {
				return
			}
			if callee.Name() != "SetUint64" && callee.Name() != "SetInt64" && callee.Name() != "NewInt" {
				return
			}
			arg := call.Call.Args[len(call.Call.Args)-1]
			if _, isC := arg.(*ssa.Const); isC {
				return
			}
			k++
			n++
			c.Analysed(core.QualName(fn))
			bad := ""
			for x := range core.BackwardReachPure(arg) {
				bo, ok := x.(*ssa.BinOp)
				if !ok || bo.Op != token.MUL {
					continue
				}
				if b, isB := bo.Type().Underlying().(*types.Basic); !isB || b.Info()&types.IsInteger == 0 {
					continue
				}
				_, cx := bo.X.(*ssa.Const)
				_, cy := bo.Y.(*ssa.Const)
				if !cx && !cy {
					bad = core.ExprKey(bo) + " at " + c.P.Pos(bo.Pos())
				}
			}
			c.Check(bad == "", "C21/fee-products-in-big-arithmetic", fmt.Sprintf("%s/%s#%d", fname(fn), callee.Name(), k), call.Pos(),
				"the value converted to big.Int is not a machine product of two runtime quantities",
				"the value converted to big.Int is the machine product "+bad+" of two runtime 64-bit quantities: it wraps modulo 2^64, so the fee for a larger gas amount can be smaller than for a smaller one")
		})
	}
	c.Floor("C21/fee-products-in-big-arithmetic", 3)
}

// c21GatedModifier: the configured gas price modifier takes effect only from its activation
// epoch; the raw field may be read only by the accessor that tests the activation flag.
func c21GatedModifier(c *core.Ctx) {
	const pkg = "process/economics"
	field := c.P.Field(pkg, "economicsData", "gasPriceModifier")
	gate := c.P.Field(pkg, "economicsData", "flagGasPriceModifier")
	if field == nil || gate == nil {
		c.Undecided("anchor", "economicsData.gasPriceModifier", token.NoPos, "field or its activation flag not found")
		return
	}
	n := 0
	for _, fn := range c.P.FuncsOfPkg(pkg) {
		k := 0
		core.Instrs(fn, func(in ssa.Instruction) {
			u, ok := in.(*ssa.UnOp)
			if !ok || u.Op != token.MUL {
				return
			}
			fa, ok := u.X.(*ssa.FieldAddr)
			if !ok || core.FieldOfAddr(fa) != field {
				return
			}
			k++
			n++
			c.Analysed(core.QualName(fn))
			// the read is dominated by a test of the activation flag
			gated := false
			for _, cd := range core.CondsAt(u.Block()) {
				for x := range core.BackwardReachPure(cd.V) {
					if call, isCall := x.(*ssa.Call); isCall && len(call.Call.Args) > 0 {
						if fa2, isFA := call.Call.Args[0].(*ssa.FieldAddr); isFA && core.FieldOfAddr(fa2) == gate {
							gated = true
						}
					}
				}
			}
			c.Check(gated, "C21/modifier-read-behind-activation-flag", fmt.Sprintf("%s/read#%d", fname(fn), k), u.Pos(),
				"the raw modifier is read only after the activation flag was tested",
				"economicsData.gasPriceModifier is read without testing flagGasPriceModifier: before the activation epoch the processing fee is computed with the discounted price while the full fee is charged, so gas used and fees derived from a refund exceed the limit")
		})
	}
	if n == 0 {
		c.Undecided("C21/modifier-read-behind-activation-flag", "economicsData.gasPriceModifier", token.NoPos, "no read of the field found")
	}
}

// c21FeeParts: the two parts of a fee are computed the same way wherever they are computed. (a) a
// move-balance fee (price for move x gas limit) is formed only where the item is known not to be a
// smart contract result - those pay no move-balance fee - i.e. behind a false
// isSmartContractResult(tx) test, or through ComputeMoveBalanceFee which contains that test;
// (b) the processing fee is the product of GasPriceForProcessing(tx) and the gas, which is the
// quantity the refund path divides by.
func c21FeeParts(c *core.Ctx) {
	const pkg = "process/economics"
	n := 0
	for _, fn := range c.P.FuncsOfPkg(pkg) {
		k := 0
		core.Instrs(fn, func(in ssa.Instruction) {
			call, ok := in.(*ssa.Call)
			if !ok || call.Call.StaticCallee() == nil {
				return
			}
			nm := call.Call.StaticCallee().Name()
			if nm != "SafeMul" && nm != "Mul" {
				return
			}
			fromMovePrice := false
			for _, a := range call.Call.Args {
				for x := range core.BackwardReachPure(a) {
					if c2, isC := x.(*ssa.Call); isC && c2.Call.StaticCallee() != nil && c2.Call.StaticCallee().Name() == "GasPriceForMove" {
						fromMovePrice = true
					}
				}
			}
			if !fromMovePrice {
				return
			}
			k++
			n++
			c.Analysed(fname(fn))
			guarded := false
			for _, cd := range core.CondsAt(call.Block()) {
				if c2, isC := cd.V.(*ssa.Call); isC && !cd.Taken && c2.Call.StaticCallee() != nil && c2.Call.StaticCallee().Name() == "isSmartContractResult" {
					guarded = true
				}
			}
			c.Check(guarded, "C21/move-balance-fee-not-for-contract-results", fmt.Sprintf("%s/move-fee#%d", fname(fn), k), call.Pos(),
				"the move-balance fee is formed only where isSmartContractResult(tx) is known false",
				"a move-balance fee is computed without the smart-contract-result test that its sibling computations make: for a smart contract result the fee derived from gas used then exceeds the full fee (which charges it no move-balance part)")
		})
	}
	c.Floor("C21/move-balance-fee-not-for-contract-results", 2)
	if fn := anchorM(c, pkg, "economicsData", "ComputeFeeForProcessing"); fn != nil {
		c.Analysed(fname(fn))
		ok, why := true, ""
		for _, r := range core.Returns(fn) {
			v := core.RetOperand(r, 0)
			price, gas := false, false
			call, isCall := v.(*ssa.Call)
			if isCall && call.Call.StaticCallee() != nil && (call.Call.StaticCallee().Name() == "SafeMul" || call.Call.StaticCallee().Name() == "Mul") {
				for _, a := range call.Call.Args {
					for x := range core.BackwardReachPure(a) {
						if c2, isC := x.(*ssa.Call); isC && c2.Call.StaticCallee() != nil && c2.Call.StaticCallee().Name() == "GasPriceForProcessing" {
							price = true
						}
						if x == ssa.Value(fn.Params[2]) {
							gas = true
						}
					}
				}
			}
			if !price || !gas {
				ok, why = false, "the processing fee returned at "+c.P.Pos(r.Pos())+" is not the exact product GasPriceForProcessing(tx) x gas"
			}
		}
		c.Check(ok, "C21/processing-fee-is-price-times-gas", "economicsData.ComputeFeeForProcessing", fn.Pos(),
			"the processing fee is the product of the (truncated) processing price and the gas",
			why+": the refund path converts a fee back into gas by dividing by GasPriceForProcessing, so any other rounding makes the gas derived from a refund exceed the gas limit")
	}
}

// c21SafeMulStaysBig: core.SafeMul is the multiplication behind every fee formula; it exists
// because price x gas does not fit a machine word. It multiplies in big arithmetic only: no machine
// product of its two parameters, whatever fast path guards it (a bound on leading zeros that is
// off by one wraps modulo 2^64 exactly for the large products the helper is for).
func c21SafeMulStaysBig(c *core.Ctx) {
	fn := anchorF(c, "core", "SafeMul")
	if fn == nil {
		return
	}
	bad := ""
	core.Instrs(fn, func(in ssa.Instruction) {
		bo, ok := in.(*ssa.BinOp)
		if !ok || bo.Op != token.MUL {
			return
		}
		if bt, isB := bo.Type().Underlying().(*types.Basic); !isB || bt.Info()&types.IsInteger == 0 {
			return
		}
		_, cx := bo.X.(*ssa.Const)
		_, cy := bo.Y.(*ssa.Const)
		if !cx && !cy {
			bad = core.ExprKey(bo) + " at " + c.P.Pos(bo.Pos())
		}
	})
	c.Check(bad == "", "C21/fee-products-in-big-arithmetic", "core.SafeMul/no-machine-product", fn.Pos(),
		"SafeMul has no machine-integer product of two runtime values",
		"core.SafeMul computes the machine product "+bad+": for price x gas above 2^64 the fee wraps to a small number, fees stop growing with the gas used and the refund path can report a negative fee")
}
