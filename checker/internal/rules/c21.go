package rules

import (
	"fmt"
	"strings"

	"golang.org/x/tools/go/ssa"

	"verif/checker/internal/core"
)

func init() {
	register(&Rule{
		ID:    "C21",
		Title: "Transaction fees never exceed what the sender authorised",
		Pkgs:  []string{"process/economics"},
		Explain: "Decides two structural conditions. (S1) no unsigned subtraction in the fee/gas computations of package process/economics (ComputeTxFee, ComputeTxFeeBasedOnGasUsed, " +
			"ComputeGasUsedAndFeeBasedOnRefundValue, SplitTxGasInCategories, isTooMuchGasProvided and every other function of economicsData) can wrap around: each `a - b` on unsigned operands is dominated by a " +
			"comparison establishing b ≤ a on the same expressions (or goes through a checked helper). A wrapped difference turns 'gas remaining' into a huge number and a reported gas used / fee above the limit. " +
			"(S2) CheckValidityTxValues returns nil only past its bounds checks on gas price, gas limit (lower bound and per-block upper bound) and value. " +
			"Not decided (value-level): the inequalities between the fee formulas themselves (big-int arithmetic).",
		Run: runC21,
	})
}

func runC21(c *core.Ctx) {
	const pkg = "process/economics"
	n := 0
	for _, fn := range c.P.FuncsOfPkg(pkg) {
		subs := core.UnsignedSubs(fn)
		if len(subs) == 0 {
			continue
		}
		c.Analysed(core.QualName(fn))
		for i, s := range subs {
			n++
			c.Sites++
			name := fname(fn)
			if len(subs) > 1 {
				name = fmt.Sprintf("%s#%d", fname(fn), i)
			}
			c.Check(s.Guarded, "C21/unsigned-sub-guarded", name, s.Op.Pos(), core.ExprKey(s.Op)+": "+s.Why,
				"unsigned subtraction "+core.ExprKey(s.Op)+" can wrap around: "+s.Why)
		}
	}
	c.Floor("C21/unsigned-sub-guarded", 3)

	if fn := anchorM(c, pkg, "economicsData", "CheckValidityTxValues"); fn != nil {
		type want struct{ name, a, b string }
		// facts that must hold at every nil return (canonical form: A <= B / A < B)
		for i, r := range core.Returns(fn) {
			if !core.NilReturn(r, nil) {
				continue
			}
			facts := core.FactsAt(r.Block())
			has := func(pred func(f core.Fact) bool) bool {
				for _, f := range facts {
					if pred(f) {
						return true
					}
				}
				return false
			}
			checks := []struct {
				name string
				ok   bool
			}{
				{"gas-price-lower-bound", has(func(f core.Fact) bool {
					return (f.Op == "<=" || f.Op == "<") && strings.Contains(f.A, "inGasPrice") && strings.Contains(f.B, "GetGasPrice")
				})},
				{"gas-limit-per-block-upper-bound", has(func(f core.Fact) bool {
					return (f.Op == "<" || f.Op == "<=") && strings.Contains(f.A, "GetGasLimit") && strings.Contains(f.B, "maxGasLimitPerBlock")
				})},
				{"value-upper-bound", has(func(f core.Fact) bool {
					return strings.Contains(f.String(), "Cmp(") && strings.Contains(f.String(), "genesisTotalSupply")
				})},
			}
			for _, ck := range checks {
				c.Check(ck.ok, "C21/validity-checks-precede-accept", fmt.Sprintf("CheckValidityTxValues/return#%d/%s", i, ck.name), r.Pos(),
					"nil only past the "+ck.name+" test", "a nil return is not dominated by the "+ck.name+" test")
			}
		}
		// the gas-limit lower bound is waived for smart contract results only
		q := core.PathQ{Fn: fn,
			ViaEdge: edgeFact(func(f core.Fact, _ core.Cond) bool {
				return (f.Op == "<=" || f.Op == "<") && strings.Contains(f.B, "GetGasLimit") && strings.Contains(f.A, "ComputeGasLimit")
			}),
			Prune: edgeFact(func(f core.Fact, cd core.Cond) bool {
				return f.Op == "T" && strings.HasPrefix(f.A, "economics.isSmartContractResult(")
			}),
			Target: core.NilReturn}
		esc, path := q.Escape()
		c.Check(esc == nil, "C21/validity-checks-precede-accept", "CheckValidityTxValues/gas-limit-lower-bound", fn.Pos(),
			"nil only past `gas limit ≥ ComputeGasLimit(tx)` unless the tx is a smart contract result",
			"a transaction that is not a smart contract result can be accepted without its gas limit covering ComputeGasLimit(tx): "+c.P.PathString(path))
		c.Floor("C21/validity-checks-precede-accept", 4)
	}
	_ = ssa.Value(nil)
}
