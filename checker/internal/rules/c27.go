package rules

import (
	"fmt"
	"go/token"
	"go/types"
	"math"
	"strings"

	"golang.org/x/tools/go/ssa"

	"verif/checker/internal/core"
)

func init() {
	register(&Rule{
		ID:    "C27",
		Title: "Cross-shard pool cache never evicts immune items and keeps admitting",
		Pkgs:  []string{"storage/immunitycache", "dataRetriever/shardedData"},
		Explain: "Decides three structural conditions. (S1 keeps admitting) the per-chunk limits derived by getChunkConfig from any configuration accepted by CacheConfig.Verify are ≥ 1: the field bounds are " +
			"extracted from the comparisons that dominate Verify's nil return and pushed through the derivation by interval evaluation (/, core.MaxUint32, ...); a limit of 0 makes a full chunk evict nothing " +
			"and refuse every further item. (S2 never evicts immune items) every removeNoLock reached from eviction (removeOldestNoLock) is on the `isImmuneToEviction() == false` branch for the same element; " +
			"removeNoLock has no other callers than eviction and the explicit RemoveItem. (S3 co-update) items / itemsAsList / numBytes change together: insertion = list PushBack + map insert + numBytes add, " +
			"removal = map delete + list Remove + numBytes subtract, and nothing else writes them (the byte limit is enforced against numBytes). " +
			"A full chunk refuses an item only as the outcome of the eviction walk (evictItemsNoLock); shardedData.ImmunizeSetOfDataAgainstEviction reaches cache.ImmunizeKeys on every return not decided by the keys argument alone. " +
			"Every return of immunityChunk.RemoveItem passes the delete from immuneKeys. " +
			"Not decided (value-level): eviction order, the arithmetic of the byte accounting.",
		Run: runC27,
	})
}

func runC27(c *core.Ctx) {
	c27RemovalRevokesImmunity(c)
	const pkg = "storage/immunitycache"
	c27AdmissionAndImmunize(c)
	// ---- S1
	ver := anchorM(c, pkg, "CacheConfig", "Verify")
	gcc := anchorM(c, pkg, "CacheConfig", "getChunkConfig")
	if ver != nil && gcc != nil {
		leaves := map[string]core.Interval{}
		cfgT := c.P.Named(pkg, "CacheConfig")
		st := cfgT.Underlying().(*types.Struct)
		for i := 0; i < st.NumFields(); i++ {
			f := st.Field(i)
			if b, ok := f.Type().Underlying().(*types.Basic); !ok || b.Info()&types.IsUnsigned == 0 {
				continue
			}
			key := "recv." + f.Name()
			iv := core.Interval{Lo: 0, Hi: math.MaxUint32}
			first := true
			for _, r := range core.Returns(ver) {
				if !core.NilReturn(r, nil) {
					continue
				}
				lo, hi := uint64(0), uint64(math.MaxUint32)
				for _, ft := range core.FactsAt(r.Block()) {
					if lb, ok := ft.LowerBound(key); ok && uint64(lb) > lo {
						lo = uint64(lb)
					}
					if (ft.Op == "<=" || ft.Op == "<") && ft.A == key {
						var n uint64
						if _, err := fmt.Sscan(ft.B, &n); err == nil {
							if ft.Op == "<" {
								n--
							}
							if n < hi {
								hi = n
							}
						}
					}
				}
				if first {
					iv = core.Interval{Lo: lo, Hi: hi}
					first = false
				} else {
					if lo < iv.Lo {
						iv.Lo = lo
					}
					if hi > iv.Hi {
						iv.Hi = hi
					}
				}
			}
			leaves[key] = iv
			c.Note("Verify accepts %s in [%d, %d]", f.Name(), iv.Lo, iv.Hi)
		}
		limits := map[string]bool{"maxNumItems": false, "maxNumBytes": false, "numItemsToPreemptivelyEvict": false}
		core.Instrs(gcc, func(in ssa.Instruction) {
			st, ok := in.(*ssa.Store)
			if !ok {
				return
			}
			fa, ok := st.Addr.(*ssa.FieldAddr)
			if !ok {
				return
			}
			f := core.FieldOfAddr(fa)
			if _, want := limits[f.Name()]; !want {
				return
			}
			limits[f.Name()] = true
			iv := core.EvalInterval(st.Val, leaves, math.MaxUint32)
			c.Sites++
			c.Check(iv.Lo >= 1, "C27/chunk-limits-positive", "CacheConfig.getChunkConfig/"+f.Name(), st.Pos(),
				fmt.Sprintf("%s = %s ∈ [%d, %d] for every accepted configuration", f.Name(), core.ExprKey(st.Val), iv.Lo, iv.Hi),
				fmt.Sprintf("%s = %s has lower bound %d for configurations accepted by Verify: a chunk limit of 0 makes the chunk refuse every item / evict nothing", f.Name(), core.ExprKey(st.Val), iv.Lo))
		})
		for k, seen := range limits {
			if !seen {
				c.Fail("C27/chunk-limits-positive", "CacheConfig.getChunkConfig/"+k, gcc.Pos(), "per-chunk limit "+k+" is not derived in getChunkConfig")
			}
		}
		c.Floor("C27/chunk-limits-positive", 3)
	}
	// the eviction step actually used is the configured (positive) one: a step that can be 0 evicts nothing and the chunk refuses every item
	if fn := anchorM(c, pkg, "immunityChunk", "evictItemsNoLock"); fn != nil {
		leaves := map[string]core.Interval{"recv.config.numItemsToPreemptivelyEvict": {Lo: 1, Hi: math.MaxUint32}}
		for i, in := range callsMatching(fn, pkg, "immunityChunk", "removeOldestNoLock") {
			iv := core.EvalInterval(core.CallOf(in).Args[1], leaves, math.MaxUint32)
			c.Check(iv.Lo >= 1, "C27/chunk-limits-positive", fmt.Sprintf("immunityChunk.evictItemsNoLock/step#%d", i), in.Pos(),
				"eviction removes at least the configured (≥1) number of items per step", "the number of items to evict per step ("+core.ExprKey(core.CallOf(in).Args[1])+") can be 0 although the configured value is ≥ 1")
		}
	}
	// ---- S2
	if fn := anchorM(c, pkg, "immunityChunk", "removeOldestNoLock"); fn != nil {
		rms := callsMatching(fn, pkg, "immunityChunk", "removeNoLock")
		for i, rm := range rms {
			cc := core.CallOf(rm)
			elem := cc.Args[1]
			ok := false
			for _, cd := range core.CondsAt(rm.Block()) {
				call, isC := cd.V.(*ssa.Call)
				if !isC || core.CallDesc(&call.Call).Name != "isImmuneToEviction" || cd.Taken {
					continue
				}
				// the tested item is the Value of the element being removed
				reach := core.BackwardReach(call.Call.Args[0])
				for v := range reach {
					if v == elem || (isPhiOf(elem, v)) {
						ok = true
					}
				}
			}
			c.Check(ok, "C27/evict-only-non-immune", fmt.Sprintf("removeOldestNoLock/removeNoLock#%d", i), rm.Pos(), "eviction removes an element only when its item is not immune",
				"an element is evicted without a dominating `isImmuneToEviction() == false` test on that element's item")
		}
		if len(rms) == 0 {
			c.Fail("C27/evict-only-non-immune", "removeOldestNoLock", fn.Pos(), "eviction no longer goes through removeNoLock: anchor drift")
		}
	}
	allowed := map[string]bool{"immunityChunk.removeOldestNoLock": true, "immunityChunk.RemoveItem": true}
	for _, fn := range c.P.FuncsOfPkg(pkg) {
		for _, in := range callsMatching(fn, pkg, "immunityChunk", "removeNoLock") {
			c.Check(allowed[fname(fn)], "C27/evict-only-non-immune", fname(fn)+"→removeNoLock", in.Pos(), "reviewed caller of removeNoLock", "new caller of removeNoLock bypasses the immunity test of removeOldestNoLock")
		}
	}
	c.Floor("C27/evict-only-non-immune", 3)
	// ---- S3
	items := c.P.Field(pkg, "immunityChunk", "items")
	numBytes := c.P.Field(pkg, "immunityChunk", "numBytes")
	writers := map[string]map[string]bool{"items": {}, "itemsAsList": {}, "numBytes": {}}
	for _, fn := range c.P.FuncsOfPkg(pkg) {
		core.Instrs(fn, func(in ssa.Instruction) {
			switch x := in.(type) {
			case *ssa.MapUpdate:
				if _, f := core.FieldLoad(x.Map); f == items {
					writers["items"][fname(fn)] = true
				}
			case *ssa.Store:
				if fa, ok := x.Addr.(*ssa.FieldAddr); ok && core.FieldOfAddr(fa) == numBytes {
					if _, fresh := fa.X.(*ssa.Alloc); !fresh {
						writers["numBytes"][fname(fn)] = true
					}
				}
			}
			if cc := core.CallOf(in); cc != nil {
				d := core.CallDesc(cc)
				if d.Pkg == "builtin" && d.Name == "delete" {
					if _, f := core.FieldLoad(cc.Args[0]); f == items {
						writers["items"][fname(fn)] = true
					}
				}
				if d.Pkg == "container/list" && d.Recv == "List" && len(cc.Args) > 0 && isFieldOf(cc.Args[0], "itemsAsList") {
					switch d.Name {
					case "PushBack", "PushFront", "Remove", "InsertAfter", "InsertBefore", "Init", "MoveToBack", "MoveToFront":
						writers["itemsAsList"][fname(fn)] = true
					}
				}
			}
		})
	}
	expect := map[string][]string{
		"items":       {"immunityChunk.addItemNoLock", "immunityChunk.removeNoLock"},
		"itemsAsList": {"immunityChunk.addItemNoLock", "immunityChunk.removeNoLock"},
		"numBytes":    {"immunityChunk.trackNumBytesOnAddNoLock", "immunityChunk.trackNumBytesOnRemoveNoLock"},
	}
	for fld, exp := range expect {
		got := writers[fld]
		var extra []string
		for w := range got {
			found := false
			for _, e := range exp {
				if e == w {
					found = true
				}
			}
			if !found {
				extra = append(extra, w)
			}
		}
		missing := ""
		for _, e := range exp {
			if !got[e] {
				missing = e
			}
		}
		c.Check(len(extra) == 0 && missing == "", "C27/index-and-size-co-updated", "who-writes/"+fld, 0,
			"written only by "+strings.Join(exp, ", "), fmt.Sprintf("immunityChunk.%s is written by %v (reviewed writers: %v; missing: %s)", fld, extra, exp, missing))
	}
	if fn := anchorM(c, pkg, "immunityChunk", "AddItem"); fn != nil {
		adds := callsMatching(fn, pkg, "immunityChunk", "addItemNoLock")
		for i, a := range adds {
			item := core.CallOf(a).Args[1]
			mustPass(c, fn, "C27/index-and-size-co-updated", fmt.Sprintf("AddItem/addItemNoLock#%d", i), a, func(in ssa.Instruction) bool {
				cc := core.CallOf(in)
				return cc != nil && core.CallDesc(cc).Name == "trackNumBytesOnAddNoLock" && cc.Args[1] == item
			}, core.AnyReturn, nil, "an inserted item is added to numBytes")
		}
		if len(adds) == 0 {
			c.Fail("C27/index-and-size-co-updated", "AddItem", fn.Pos(), "AddItem no longer inserts through addItemNoLock")
		}
	}
	if fn := anchorM(c, pkg, "immunityChunk", "removeNoLock"); fn != nil {
		for _, ev := range []struct {
			name string
			is   func(ssa.Instruction) bool
		}{
			{"map-delete", func(in ssa.Instruction) bool {
				cc := core.CallOf(in)
				return cc != nil && core.CallDesc(cc).Is("builtin", "", "delete") && isFieldOf(cc.Args[0], "items")
			}},
			{"list-remove", func(in ssa.Instruction) bool {
				cc := core.CallOf(in)
				return cc != nil && core.CallDesc(cc).Is("container/list", "List", "Remove") && cc.Args[1] == ssa.Value(fn.Params[1])
			}},
			{"numBytes-subtract", func(in ssa.Instruction) bool {
				cc := core.CallOf(in)
				return cc != nil && core.CallDesc(cc).Name == "trackNumBytesOnRemoveNoLock"
			}},
		} {
			mustPass(c, fn, "C27/index-and-size-co-updated", "removeNoLock/"+ev.name, nil, ev.is, core.AnyReturn, nil, "removal performs "+ev.name)
		}
	}
	if fn := anchorM(c, pkg, "immunityChunk", "addItemNoLock"); fn != nil {
		mustPass(c, fn, "C27/index-and-size-co-updated", "addItemNoLock/list-push", nil, func(in ssa.Instruction) bool {
			cc := core.CallOf(in)
			return cc != nil && core.CallDesc(cc).Is("container/list", "List", "PushBack")
		}, core.AnyReturn, nil, "insertion pushes on the list")
		mustPass(c, fn, "C27/index-and-size-co-updated", "addItemNoLock/map-insert", nil, func(in ssa.Instruction) bool {
			mu, ok := in.(*ssa.MapUpdate)
			return ok && isFieldOf(mu.Map, "items")
		}, core.AnyReturn, nil, "insertion stores in the map")
	}
	c.Floor("C27/index-and-size-co-updated", 9)
}

func isPhiOf(v ssa.Value, x ssa.Value) bool {
	ph, ok := v.(*ssa.Phi)
	if !ok {
		return false
	}
	for _, e := range ph.Edges {
		if e == x {
			return true
		}
	}
	return false
}

// c27AdmissionAndImmunize: (a) a full chunk refuses an item only after the eviction walk was
// tried - every non-nil result of evictItemsIfCapacityExceededNoLock comes out of
// evictItemsNoLock; (b) an immunize request reaches the cache whatever the cache id: every return
// of shardedData.ImmunizeSetOfDataAgainstEviction lies behind ImmunizeKeys, except returns decided
// by the `keys` argument alone.
func c27AdmissionAndImmunize(c *core.Ctx) {
	isEvict := func(in ssa.Instruction) bool {
		cc := core.CallOf(in)
		return cc != nil && cc.StaticCallee() != nil && cc.StaticCallee().Name() == "evictItemsNoLock"
	}
	errorReturn := func(in ssa.Instruction, pred *ssa.BasicBlock) bool {
		r, ok := in.(*ssa.Return)
		if !ok {
			return false
		}
		return !core.NilReturn(r, pred)
	}
	// the same demand at the admission itself, wherever the capacity test lives (a helper or AddItem's own body):
	// AddItem refuses (false, false) only behind the eviction step, or behind a helper whose every error comes out of it
	if fn := anchorM(c, "storage/immunitycache", "immunityChunk", "AddItem"); fn != nil {
		c.Analysed(fname(fn))
		via := func(in ssa.Instruction) bool {
			if isEvict(in) {
				return true
			}
			cc := core.CallOf(in)
			if cc == nil || cc.StaticCallee() == nil || cc.StaticCallee().Blocks == nil || cc.StaticCallee().Pkg != fn.Pkg || core.ErrIndex(cc.StaticCallee().Signature) < 0 {
				return false
			}
			h := cc.StaticCallee()
			if len(core.CallsIn(h, func(x ssa.Instruction, _ *ssa.CallCommon) bool { return isEvict(x) })) == 0 {
				return false
			}
			esc, _ := core.PathQ{Fn: h, Via: isEvict, Target: errorReturn}.Escape()
			return esc == nil
		}
		refusal := func(in ssa.Instruction, pred *ssa.BasicBlock) bool {
			r, ok := in.(*ssa.Return)
			if !ok || len(r.Results) != 2 {
				return false
			}
			has, isH := core.ConstBool(core.RetOperand(r, 0))
			added, isA := core.ConstBool(core.RetOperand(r, 1))
			return isH && isA && !has && !added
		}
		n := 0
		for _, r := range core.Returns(fn) {
			if refusal(r, nil) {
				n++
			}
		}
		esc, path := core.PathQ{Fn: fn, Via: via, Target: refusal}.Escape()
		c.Check(esc == nil && n > 0, "C27/refusal-only-after-eviction-walk", "immunityChunk.AddItem", fn.Pos(),
			"the item is refused only behind the eviction step",
			"AddItem can refuse an item (false, false) without the eviction step having been tried ("+c.P.PathString(path)+"): a full chunk holding evictable items stops admitting new ones")
	}
	if fn := optM(c, "storage/immunitycache", "immunityChunk", "evictItemsIfCapacityExceededNoLock"); fn != nil {
		c.Analysed(fname(fn))
		esc, path := core.PathQ{Fn: fn, Via: isEvict, Target: errorReturn}.Escape()
		c.Check(esc == nil, "C27/refusal-only-after-eviction-walk", "immunityChunk.evictItemsIfCapacityExceededNoLock", fn.Pos(),
			"an error (the item is refused) is returned only as the outcome of evictItemsNoLock",
			"the chunk can refuse an item without having walked the eviction list ("+c.P.PathString(path)+"): a full chunk holding evictable items stops admitting new ones")
	}
	if fn := anchorM(c, "storage/immunitycache", "immunityChunk", "evictItemsNoLock"); fn != nil {
		c.Analysed(fname(fn))
		isWalk := func(in ssa.Instruction) bool {
			cc := core.CallOf(in)
			return cc != nil && cc.StaticCallee() != nil && cc.StaticCallee().Name() == "removeOldestNoLock"
		}
		esc, path := core.PathQ{Fn: fn, Via: isWalk, Target: core.AnyReturn}.Escape()
		c.Check(esc == nil, "C27/refusal-only-after-eviction-walk", "immunityChunk.evictItemsNoLock", fn.Pos(),
			"every return of the eviction step follows a walk of the list (removeOldestNoLock)",
			"the eviction step can return (and the item be refused) without walking the list ("+c.P.PathString(path)+"): a shortcut based on counters (e.g. the number of immune keys, which includes keys whose items have not arrived) refuses items although evictable ones are held")
	}
	if fn := anchorM(c, "dataRetriever/shardedData", "shardedData", "ImmunizeSetOfDataAgainstEviction"); fn != nil {
		c.Analysed(fname(fn))
		var imm []ssa.Instruction
		for _, in := range core.CallsIn(fn, func(in ssa.Instruction, cc *ssa.CallCommon) bool {
			return cc.IsInvoke() && cc.Method.Name() == "ImmunizeKeys"
		}) {
			imm = append(imm, in)
		}
		n := 0
		for _, r := range core.Returns(fn) {
			n++
			behind := false
			for _, in := range imm {
				if core.DominatesInstr(in, r) {
					behind = true
				}
			}
			if behind {
				c.Pass("C27/immunize-reaches-the-cache", fmt.Sprintf("shardedData.ImmunizeSetOfDataAgainstEviction/return#%d", n), r.Pos(), "behind cache.ImmunizeKeys(keys)")
				continue
			}
			onlyKeys := len(core.CondsAt(r.Block())) > 0
			for _, cd := range core.CondsAt(r.Block()) {
				for x := range core.BackwardReachPure(cd.V) {
					switch t := x.(type) {
					case *ssa.Parameter:
						if t != fn.Params[1] {
							onlyKeys = false
						}
					case *ssa.Call:
						if !core.CallDesc(&t.Call).Is("builtin", "", "len") {
							onlyKeys = false
						}
					case *ssa.UnOp:
						if t.Op == token.MUL {
							onlyKeys = false
						}
					}
				}
			}
			c.Check(onlyKeys, "C27/immunize-reaches-the-cache", fmt.Sprintf("shardedData.ImmunizeSetOfDataAgainstEviction/return#%d", n), r.Pos(),
				"returns without immunizing only for a reason that depends on the keys argument alone",
				"returns without calling ImmunizeKeys for a reason other than the keys themselves (e.g. no store exists yet for the cache id): the request is dropped, and items that arrive later for those keys are evictable")
		}
		c.Floor("C27/immunize-reaches-the-cache", 1)
	}
}

// c27RemovalRevokesImmunity: removing a key revokes its immunity whether or not the item is in the
// cache yet (keys can be immunized for the future): every return of immunityChunk.RemoveItem passes
// the delete from immuneKeys. A marker that survives makes later items wrongly immune - a chunk
// full of them refuses every new item - and counts against the immune capacity.
func c27RemovalRevokesImmunity(c *core.Ctx) {
	fn := anchorM(c, "storage/immunitycache", "immunityChunk", "RemoveItem")
	if fn == nil {
		return
	}
	revokes := func(in ssa.Instruction) bool {
		call, ok := in.(*ssa.Call)
		if !ok {
			return false
		}
		b, isB := call.Call.Value.(*ssa.Builtin)
		return isB && b.Name() == "delete" && isFieldOf(call.Call.Args[0], "immuneKeys")
	}
	esc, path := core.PathQ{Fn: fn, Via: revokes, Target: core.AnyReturn}.Escape()
	c.Check(esc == nil, "C27/removal-revokes-immunity", "immunityChunk.RemoveItem", fn.Pos(),
		"every return passes delete(immuneKeys, key)",
		"immunityChunk.RemoveItem can return without revoking the key's immunity ("+c.P.PathString(path)+"): a key immunized for the future and then removed keeps its marker, later items under it are wrongly immune and a full chunk refuses new items instead of evicting")
}
