package rules

import (
	"fmt"
	"go/token"
	"strings"

	"golang.org/x/tools/go/ssa"

	"verif/checker/internal/core"
)

func init() {
	register(&Rule{
		ID:    "C14",
		Title: "Reshuffling keeps every shard at its minimum size",
		Pkgs:  []string{"sharding"},
		Explain: "Decides the wiring of the removal caps and of the refill in hashValidatorShuffler.go - structural necessary conditions of 'no shard drops below its minimum'; the counting argument itself (how many are removed, moved and shuffled) is NOT decided. " +
			"(S1) the metachain minimum is selected exactly for the metachain id: in computeMinNumberOfNodes and moveMaxNumNodesToMap the quantity used is a two-way choice between the *Meta and the per-shard parameter, the *Meta one on the edge where " +
			"`shardId == core.MetachainShardId` holds; computeNumToRemove pairs eligible/waiting of one and the same shard with nodesPerShard, and those of the metachain with nodesMeta. The cap returned by computeMinNumberOfNodes is " +
			"len(eligible[shard]) + len(waiting[shard]) - minimum, or 0. (S2) in removeLeavingNodes (waiting-list fix) the cap on removals from the eligible list is lowered to a value of computeMinNumberOfNodes computed AFTER the removal from the " +
			"waiting lists (the waiting list shrinks in place: a cap computed before would be spent twice), only ever lowered, and the removal from the eligible lists follows the capping loop; the waiting removal has its own cap map filled from computeMinNumberOfNodes. " +
			"(S3) at every call of the functions that take the two minimums as adjacent same-typed parameters, the *Meta parameter is fed from a *Meta* source and the per-shard one from a *Shard* source. " +
			"(S4) moveMaxNumNodesToMap appends validators[0:n] to the eligible list and leaves validators[n:] waiting, the same n = computeNeededNodes(eligible[shard], waiting[shard], minimum of that shard). " +
			"Not decided (value-level): the counting itself, removeValidatorsFromList, the effect of maxNodesToSwapPerShard.",
		Run: runC14,
	})
}

func runC14(c *core.Ctx) {
	const pkg = "sharding"
	metaC := c.P.Const("core", "MetachainShardId")
	if metaC == nil {
		c.Undecided("anchor", "core.MetachainShardId", 0, "constant not found")
		return
	}
	metaID, _ := constInt64(metaC)
	isMeta := func(v ssa.Value) bool {
		n, ok := core.ConstInt(v)
		return ok && uint32(n) == uint32(metaID)
	}
	// metaChoice: a phi choosing between the two parameters, the meta one exactly where `id == MetachainShardId`
	metaChoice := func(fn *ssa.Function, pMeta, pShard ssa.Value) (*ssa.Phi, ssa.Value, string) {
		var found *ssa.Phi
		var id ssa.Value
		why := "no two-way choice between the two minimums"
		core.Instrs(fn, func(in ssa.Instruction) {
			ph, ok := in.(*ssa.Phi)
			if !ok || len(ph.Edges) != 2 {
				return
			}
			mi := -1
			for i, e := range ph.Edges {
				if e == pMeta && ph.Edges[1-i] == pShard {
					mi = i
				}
			}
			if mi < 0 {
				return
			}
			okM, okS := false, false
			// isMetaTest: the condition says id == MetachainShardId (eq) or id != MetachainShardId (!eq)
			isMetaTest := func(cd core.Cond) (isTest, eq bool, idv ssa.Value) {
				bo, isBo := cd.V.(*ssa.BinOp)
				if !isBo || (bo.Op != token.EQL && bo.Op != token.NEQ) || !(isMeta(bo.Y) || isMeta(bo.X)) {
					return false, false, nil
				}
				idv = bo.X
				if isMeta(bo.X) {
					idv = bo.Y
				}
				return true, (bo.Op == token.EQL) == cd.Taken, idv
			}
			for _, cd := range core.CondsOnEdgeTo(ph.Block().Preds[mi], ph.Block()) {
				if t, eq, idv := isMetaTest(cd); t && eq {
					okM = true
					id = idv
				}
			}
			for _, cd := range core.CondsOnEdgeTo(ph.Block().Preds[1-mi], ph.Block()) {
				if t, eq, _ := isMetaTest(cd); t && !eq {
					okS = true
				}
			}
			if okM && okS {
				found = ph
			} else {
				why = fmt.Sprintf("the metachain minimum is chosen on an edge where `id == MetachainShardId` is not known (meta edge ok: %v, shard edge ok: %v)", okM, okS)
			}
		})
		return found, id, why
	}
	// S1a computeMinNumberOfNodes
	if fn := anchorF(c, pkg, "computeMinNumberOfNodes"); fn != nil && len(fn.Params) == 5 {
		ph, id, why := metaChoice(fn, fn.Params[3], fn.Params[4])
		c.Check(ph != nil && id == ssa.Value(fn.Params[2]), "C14/minimum-by-shard-kind", "computeMinNumberOfNodes", fn.Pos(),
			"minNodesMeta exactly for shardId == MetachainShardId", "computeMinNumberOfNodes: "+why+": a shard is measured against the metachain's minimum or the reverse")
		// the cap: len(eligible[id]) + len(waiting[id]) - minimum, or 0
		okCap, whyCap := true, ""
		lenOf := func(v ssa.Value, m ssa.Value) bool {
			call, ok := v.(*ssa.Call)
			if !ok {
				return false
			}
			if b, isB := call.Call.Value.(*ssa.Builtin); !isB || b.Name() != "len" {
				return false
			}
			lk, ok := call.Call.Args[0].(*ssa.Lookup)
			return ok && lk.X == m && lk.Index == ssa.Value(fn.Params[2])
		}
		for _, r := range core.Returns(fn) {
			var vals []ssa.Value
			if p2, isPhi := core.RetOperand(r, 0).(*ssa.Phi); isPhi {
				vals = p2.Edges
			} else {
				vals = []ssa.Value{core.RetOperand(r, 0)}
			}
			for _, v := range vals {
				if n, isC := core.ConstInt(v); isC && n == 0 {
					continue
				}
				sub, isS := v.(*ssa.BinOp)
				if !isS || sub.Op != token.SUB || ph == nil || sub.Y != ssa.Value(ph) {
					okCap, whyCap = false, core.ExprKey(v)
					continue
				}
				add, isA := sub.X.(*ssa.BinOp)
				if !isA || add.Op != token.ADD || !((lenOf(add.X, fn.Params[0]) && lenOf(add.Y, fn.Params[1])) || (lenOf(add.X, fn.Params[1]) && lenOf(add.Y, fn.Params[0]))) {
					okCap, whyCap = false, core.ExprKey(v)
				}
			}
		}
		c.Check(okCap, "C14/minimum-by-shard-kind", "computeMinNumberOfNodes/cap", fn.Pos(),
			"the cap is len(eligible[shard]) + len(waiting[shard]) - minimum, or 0",
			"computeMinNumberOfNodes returns "+whyCap+", not the surplus of the shard's own eligible and waiting lists over its minimum: more validators than the surplus can be removed")
	}
	// S1b + S4 moveMaxNumNodesToMap
	if fn := anchorF(c, pkg, "moveMaxNumNodesToMap"); fn != nil && len(fn.Params) == 4 {
		ph, id, why := metaChoice(fn, fn.Params[2], fn.Params[3])
		c.Check(ph != nil, "C14/minimum-by-shard-kind", "moveMaxNumNodesToMap", fn.Pos(),
			"numMeta exactly for shardId == MetachainShardId", "moveMaxNumNodesToMap: "+why+": a shard is refilled up to the metachain's size or the reverse")
		okSplit, whySplit := false, "no refill found"
		core.Instrs(fn, func(in ssa.Instruction) {
			mu, ok := in.(*ssa.MapUpdate)
			if !ok || mu.Map != ssa.Value(fn.Params[0]) {
				return
			}
			app, ok := mu.Value.(*ssa.Call)
			if !ok || len(app.Call.Args) != 2 {
				return
			}
			win, ok := app.Call.Args[1].(*ssa.Slice)
			if !ok || win.High == nil {
				return
			}
			need, isCall := win.High.(*ssa.Call)
			whySplit = ""
			if !isCall || need.Call.StaticCallee() == nil || need.Call.StaticCallee().Name() != "computeNeededNodes" {
				whySplit = "the number moved is not computeNeededNodes(...)"
				return
			}
			if lo, isC := core.ConstInt(win.Low); win.Low != nil && (!isC || lo != 0) {
				whySplit = "the window moved does not start at 0"
			}
			if ph == nil || need.Call.Args[2] != ssa.Value(ph) {
				whySplit = "computeNeededNodes is not given the minimum chosen for this shard"
			}
			for k, m := range []ssa.Value{fn.Params[0], fn.Params[1]} {
				// this shard's list: map[id] looked up directly, or (for the ranged map) the range value
				own := false
				if lk, isL := need.Call.Args[k].(*ssa.Lookup); isL && lk.X == m && lk.Index == id {
					own = true
				}
				if ex, isEx := need.Call.Args[k].(*ssa.Extract); isEx && ex.Index == 2 {
					if nx, isNext := ex.Tuple.(*ssa.Next); isNext {
						if rg, isRg := nx.Iter.(*ssa.Range); isRg && rg.X == m {
							if kx, isK := id.(*ssa.Extract); isK && kx.Tuple == ex.Tuple && kx.Index == 1 {
								own = true
							}
						}
					}
				}
				if !own || mu.Key != id {
					whySplit = "computeNeededNodes is not given this shard's own eligible and waiting lists"
				}
			}
			// what stays waiting
			rest := false
			core.Instrs(fn, func(in2 ssa.Instruction) {
				mu2, ok := in2.(*ssa.MapUpdate)
				if !ok || mu2.Map != ssa.Value(fn.Params[1]) || mu2.Key != id {
					return
				}
				if sl, isS := mu2.Value.(*ssa.Slice); isS && sl.X == win.X && sl.Low == win.High && sl.High == nil {
					rest = true
				}
			})
			if !rest && whySplit == "" {
				whySplit = "the waiting list is not left with validators[n:] for the same n"
			}
			if whySplit == "" {
				okSplit = true
			}
		})
		c.Check(okSplit, "C14/refill-split-at-one-index", "moveMaxNumNodesToMap", fn.Pos(),
			"eligible gets validators[0:n], waiting keeps validators[n:], n = computeNeededNodes(own lists, own minimum)",
			"moveMaxNumNodesToMap: "+whySplit+": the refill does not bring the shard's eligible list up to its minimum (or drops/duplicates validators)")
	}
	// S1c computeNumToRemove
	if fn := anchorF(c, pkg, "computeNumToRemove"); fn != nil {
		n := 0
		for _, in := range core.CallsIn(fn, func(in ssa.Instruction, cc *ssa.CallCommon) bool {
			return cc.StaticCallee() != nil && cc.StaticCallee().Name() == "computeNumToRemovePerShard"
		}) {
			cc := core.CallOf(in)
			n++
			idx := func(v ssa.Value, field string) ssa.Value {
				call, ok := v.(*ssa.Call)
				if !ok || len(call.Call.Args) != 1 {
					return nil
				}
				lk, ok := call.Call.Args[0].(*ssa.Lookup)
				if !ok || !isFieldOf(lk.X, field) {
					return nil
				}
				return lk.Index
			}
			e, w := idx(cc.Args[0], "eligible"), idx(cc.Args[1], "waiting")
			_, minF := core.FieldLoad(stripConv(cc.Args[2]))
			ok := e != nil && w != nil && minF != nil && (e == w || (isMeta(e) && isMeta(w)))
			if ok {
				if isMeta(e) {
					ok = minF.Name() == "nodesMeta"
				} else {
					ok = minF.Name() == "nodesPerShard"
				}
			}
			c.Check(ok, "C14/minimum-by-shard-kind", fmt.Sprintf("computeNumToRemove/call#%d", n), in.Pos(),
				"eligible and waiting of one shard against that shard kind's minimum",
				"computeNumToRemove measures the eligible and waiting lists of a shard against the wrong minimum, or lists of two different shards: the number allowed to leave exceeds the shard's surplus")
		}
	}
	c.Floor("C14/minimum-by-shard-kind", 5)
	// S2 removeLeavingNodes
	if fn := anchorF(c, pkg, "removeLeavingNodes"); fn != nil && len(fn.Params) == 6 {
		var wCall, eCall *ssa.Call
		core.Instrs(fn, func(in ssa.Instruction) {
			call, ok := in.(*ssa.Call)
			if !ok || call.Call.StaticCallee() == nil || call.Call.StaticCallee().Name() != "removeNodesFromMap" {
				return
			}
			if call.Call.Args[0] == ssa.Value(fn.Params[1]) {
				wCall = call
			}
			if call.Call.Args[0] == ssa.Value(fn.Params[0]) {
				eCall = call
			}
		})
		if wCall == nil || eCall == nil {
			c.Undecided("C14/eligible-cap-after-waiting-removal", "removeLeavingNodes", fn.Pos(), "the two removeNodesFromMap calls (waiting, eligible) were not found")
		} else {
			isMin := func(v ssa.Value) *ssa.Call {
				call, ok := v.(*ssa.Call)
				if ok && call.Call.StaticCallee() != nil && call.Call.StaticCallee().Name() == "computeMinNumberOfNodes" {
					return call
				}
				return nil
			}
			// the waiting removal has its own cap map, filled from computeMinNumberOfNodes
			okW := false
			if mk, isMk := wCall.Call.Args[2].(*ssa.MakeMap); isMk {
				okW = true
				any := false
				core.Instrs(fn, func(in ssa.Instruction) {
					if mu, ok := in.(*ssa.MapUpdate); ok && mu.Map == ssa.Value(mk) {
						any = true
						before := core.DominatesInstr(mu, wCall)
						if l := core.InnermostLoop(fn, mu.Block()); l != nil && l.Header.Dominates(wCall.Block()) && !l.Body[wCall.Block()] {
							before = true
						}
						if isMin(mu.Value) == nil || !before {
							okW = false
						}
					}
				})
				okW = okW && any
			} else if hc, isCall := wCall.Call.Args[2].(*ssa.Call); isCall && hc.Call.StaticCallee() != nil && hc.Call.StaticCallee().Blocks != nil && hc.Call.StaticCallee().Pkg == fn.Pkg {
				// the cap map is built by a helper of the package: a map made there, every entry of which is a
				// computeMinNumberOfNodes value, and the helper's only result
				h := hc.Call.StaticCallee()
				if rets := core.Returns(h); len(rets) == 1 {
					if mk, isMk := core.RetOperand(rets[0], 0).(*ssa.MakeMap); isMk {
						okW = true
						any := false
						core.Instrs(h, func(in ssa.Instruction) {
							if mu, ok := in.(*ssa.MapUpdate); ok && mu.Map == ssa.Value(mk) {
								any = true
								if isMin(mu.Value) == nil {
									okW = false
								}
							}
						})
						okW = okW && any
						c.Analysed(fname(h))
					}
				}
			}
			c.Check(okW, "C14/eligible-cap-after-waiting-removal", "removeLeavingNodes/waiting-cap", wCall.Pos(),
				"the waiting removal is capped by a fresh map of computeMinNumberOfNodes values",
				"the removal from the waiting lists is not capped by its own map of computeMinNumberOfNodes values")
			n := 0
			okE, whyE := true, ""
			core.Instrs(fn, func(in ssa.Instruction) {
				mu, ok := in.(*ssa.MapUpdate)
				if !ok || mu.Map != ssa.Value(fn.Params[2]) {
					return
				}
				n++
				m := isMin(mu.Value)
				switch {
				case m == nil:
					okE, whyE = false, "numToRemove is assigned "+core.ExprKey(mu.Value)+", not a computeMinNumberOfNodes value"
				case !core.DominatesInstr(wCall, m):
					okE, whyE = false, "the cap assigned to numToRemove is computed before the removal from the waiting lists: the same surplus is spent on the waiting list and again on the eligible list"
				default:
					lowers := false
					for _, cd := range core.CondsAt(mu.Block()) {
						f := core.FactOf(cd)
						if f.Op == "<" && f.A == core.ExprKey(m) {
							lowers = true
						}
					}
					if !lowers {
						okE, whyE = false, "numToRemove is overwritten without the test that the new cap is lower"
					}
				}
			})
			if n == 0 {
				okE, whyE = false, "numToRemove is never lowered to the surplus left after the waiting removal"
			}
			if okE {
				// the eligible removal follows the waiting removal and the capping loop
				if !core.DominatesInstr(wCall, eCall) || eCall.Call.Args[2] != ssa.Value(fn.Params[2]) {
					okE, whyE = false, "the removal from the eligible lists does not follow the waiting removal with the capped numToRemove"
				}
				// no way out of the function that gets round the capping loop and the eligible removal:
				// the caller goes on to shuffle numToRemove validators out of every eligible list
				for _, r := range core.Returns(fn) {
					if !core.DominatesInstr(eCall, r) {
						okE, whyE = false, "the function can return at "+c.P.Pos(r.Pos())+" without having lowered numToRemove (the caller shuffles that many validators out of the eligible list afterwards)"
					}
				}
				for _, l := range core.Loops(fn) {
					if l.Body[eCall.Block()] {
						okE, whyE = false, "the removal from the eligible lists runs inside a loop"
					}
				}
				core.Instrs(fn, func(in ssa.Instruction) {
					if mu, ok := in.(*ssa.MapUpdate); ok && mu.Map == ssa.Value(fn.Params[2]) {
						l := core.InnermostLoop(fn, mu.Block())
						if l == nil || !l.Header.Dominates(eCall.Block()) {
							okE, whyE = false, "the eligible removal does not wait for the capping loop"
							return
						}
						// every shard's cap is reconsidered: no pass of the capping loop gets round the recomputation
						esc, path := core.PathQ{Fn: fn, FromBlk: firstBodyBlock(l),
							Via:    func(x ssa.Instruction) bool { v, isV := x.(ssa.Value); return isV && isMin(v) != nil },
							Target: func(x ssa.Instruction, _ *ssa.BasicBlock) bool { return x == l.Header.Instrs[0] }}.Escape()
						if esc != nil {
							okE, whyE = false, "a pass of the capping loop can skip the recomputation ("+c.P.PathString(path)+"): that shard keeps the cap it had before the waiting removal and spends its surplus twice"
						}
					}
				})
			}
			c.Check(okE, "C14/eligible-cap-after-waiting-removal", "removeLeavingNodes/eligible-cap", eCall.Pos(),
				"numToRemove is lowered to computeMinNumberOfNodes recomputed after the waiting removal, then the eligible removal runs",
				"removeLeavingNodes: "+whyE+": more validators leave a shard than its surplus over the minimum")
		}
	}
	c.Floor("C14/eligible-cap-after-waiting-removal", 2)
	// S3 wiring by name
	want := map[string]string{"minNodesMeta": "meta", "numMeta": "meta", "minNodesPerShard": "shard", "numShard": "shard"}
	var srcNames func(v ssa.Value, d int) []string
	srcNames = func(v ssa.Value, d int) []string {
		v = stripConv(v)
		switch x := v.(type) {
		case *ssa.Parameter:
			return []string{x.Name()}
		case *ssa.Phi:
			var out []string
			if d < 3 {
				for _, e := range x.Edges {
					out = append(out, srcNames(e, d+1)...)
				}
			}
			return out
		}
		if _, f := core.FieldLoad(v); f != nil {
			return []string{f.Name()}
		}
		return []string{"?" + core.ExprKey(v)}
	}
	n := 0
	for _, fn := range c.P.FuncsOfPkg(pkg) {
		if !strings.HasSuffix(c.P.Pos(fn.Pos()), ".go") && fn.Pos() == token.NoPos {
			continue
		}
		k := 0
		core.Instrs(fn, func(in ssa.Instruction) {
			cc := core.CallOf(in)
			if cc == nil || cc.StaticCallee() == nil || cc.IsInvoke() {
				return
			}
			g := cc.StaticCallee()
			switch g.Name() {
			case "removeLeavingNodesFromValidatorMaps", "removeLeavingNodes", "computeMinNumberOfNodes", "moveMaxNumNodesToMap":
			default:
				return
			}
			if g.Pkg == nil || !strings.HasSuffix(g.Pkg.Pkg.Path(), "/sharding") || len(g.Params) != len(cc.Args) {
				return
			}
			for i, p := range g.Params {
				kind, ok := want[p.Name()]
				if !ok {
					continue
				}
				k++
				n++
				c.Sites++
				good := true
				names := srcNames(cc.Args[i], 0)
				for _, nm := range names {
					l := strings.ToLower(nm)
					if kind == "meta" && !strings.Contains(l, "meta") {
						good = false
					}
					if kind == "shard" && (!strings.Contains(l, "shard") || strings.Contains(l, "meta")) {
						good = false
					}
				}
				c.Check(good && len(names) > 0, "C14/minimums-not-crossed", fmt.Sprintf("%s/%s.%s#%d", fname(fn), g.Name(), p.Name(), k), in.Pos(),
					"parameter "+p.Name()+" is fed from "+strings.Join(names, ","),
					fmt.Sprintf("parameter %s of %s is fed from %s: the metachain's and the shards' minimums are crossed (adjacent parameters of one type), so one kind of shard is allowed to drop below its own minimum", p.Name(), g.Name(), strings.Join(names, ",")))
			}
		})
	}
	c.Floor("C14/minimums-not-crossed", 10)
}
