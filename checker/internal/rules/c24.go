package rules

import (
	"fmt"
	"go/types"
	"reflect"
	"strings"

	"golang.org/x/tools/go/ssa"

	"verif/checker/internal/core"
)

func init() {
	register(&Rule{
		ID:    "C24",
		Title: "A transaction signature covers every semantic field",
		Pkgs:  []string{"data/transaction", "process/transaction", "marshal"},
		Explain: "Decides the writer/reader field agreement behind 'changing any semantic field invalidates the signature': every field of transaction.Transaction except Signature is read in " +
			"GetDataForSigning and flows into a field of FrontendTransaction - a distinct one per transaction field, with a JSON tag that is not `-` and a JSON name that is unique - and that struct is what is " +
			"marshalled and returned (a new protobuf field creates a new obligation automatically); FrontendTransaction.Signature is left empty. InterceptedTransaction.verifySig passes to the signer, with the " +
			"transaction's own Signature, the bytes returned by GetDataForSigning of that same transaction (or their hash under the sign-with-hash option), and the key derived from that transaction's sender. " +
			"The flow of each field into the DTO passes conversions and encoder calls only: no arithmetic/bit operation, bounded slice or narrowing integer conversion (they would map different field values to the same signed bytes). " +
			"integrity(tx) validates fields of its argument only. " +
			"Not decided: injectivity of the encoders (assumed), signature scheme.",
		Assume: []string{"bech32 encoding of fixed-length addresses, big.Int.String and JSON encoding of valid UTF-8 / base64 byte strings are injective"},
		Run:    runC24,
	})
}

func runC24(c *core.Ctx) {
	c24IntegrityChecksItsArgument(c)
	const pkg = "data/transaction"
	fn := anchorM(c, pkg, "Transaction", "GetDataForSigning")
	txT := c.P.Named(pkg, "Transaction")
	ftxT := c.P.Named(pkg, "FrontendTransaction")
	if fn == nil || txT == nil || ftxT == nil {
		c.Undecided("anchor", "Transaction/FrontendTransaction", 0, "types not found")
		return
	}
	txS := txT.Underlying().(*types.Struct)
	ftxS := ftxT.Underlying().(*types.Struct)
	// stores into the FrontendTransaction literal
	var lit ssa.Value
	stores := map[*types.Var]ssa.Value{}
	core.Instrs(fn, func(in ssa.Instruction) {
		st, ok := in.(*ssa.Store)
		if !ok {
			return
		}
		fa, ok := st.Addr.(*ssa.FieldAddr)
		if !ok || namedElem(fa.X.Type()) != ftxT {
			return
		}
		lit = fa.X
		stores[core.FieldOfAddr(fa)] = st.Val
	})
	if lit == nil {
		c.Fail("C24/field-covered-by-signature", "GetDataForSigning", fn.Pos(), "no FrontendTransaction is built")
		return
	}
	// the literal is what is marshalled and returned
	okM := false
	for _, r := range core.Returns(fn) {
		if !core.SuccessReturn(r, nil) {
			continue
		}
		if ex, ok := core.RetOperand(r, 0).(*ssa.Extract); ok {
			if call, ok := ex.Tuple.(*ssa.Call); ok && isInvoke(&call.Call, "Marshal") && core.Strip(call.Call.Args[0]) == lit {
				okM = true
			}
		}
	}
	c.Check(okM, "C24/signed-bytes-are-the-dto", "GetDataForSigning/marshal", fn.Pos(), "the returned bytes are Marshal(the FrontendTransaction built here)", "the bytes returned are not the marshalled FrontendTransaction built from the transaction")
	// JSON names unique, not "-"
	jsonName := map[*types.Var]string{}
	seenName := map[string]string{}
	for i := 0; i < ftxS.NumFields(); i++ {
		f := ftxS.Field(i)
		tag := reflect.StructTag(ftxS.Tag(i)).Get("json")
		name := strings.Split(tag, ",")[0]
		if name == "" {
			name = f.Name()
		}
		jsonName[f] = name
		if prev, dup := seenName[name]; dup && name != "-" {
			c.Fail("C24/field-covered-by-signature", "FrontendTransaction/json-name:"+name, f.Pos(), "JSON name shared by "+prev+" and "+f.Name()+": one of them is dropped from the signed bytes")
		}
		seenName[name] = f.Name()
	}
	// every tx field except Signature
	usedDTO := map[*types.Var]string{}
	for i := 0; i < txS.NumFields(); i++ {
		tf := txS.Field(i)
		if strings.HasPrefix(tf.Name(), "XXX_") {
			continue
		}
		name := "Transaction." + tf.Name()
		if tf.Name() == "Signature" {
			// must NOT flow into the DTO
			leak := false
			for df, v := range stores {
				for x := range core.BackwardReach(v) {
					if _, lf := core.FieldLoad(x); lf == tf {
						leak = true
						_ = df
					}
				}
			}
			c.Check(!leak, "C24/field-covered-by-signature", name, fn.Pos(), "the signature itself is not part of the signed bytes", "the signature flows into the bytes that are signed")
			continue
		}
		var target *types.Var
		for k := 0; k < ftxS.NumFields(); k++ { // deterministic order
			df := ftxS.Field(k)
			v, has := stores[df]
			if !has {
				continue
			}
			if _, taken := usedDTO[df]; taken && target != nil {
				continue
			}
			for x := range core.BackwardReach(v) {
				if _, lf := core.FieldLoad(x); lf == tf {
					if rb, _ := core.FieldLoad(x); rb != nil && core.ExprKey(rb) == "recv" {
						if _, taken := usedDTO[df]; !taken || target == nil {
							target = df
						}
					}
				}
			}
		}
		c.Sites++
		if target == nil {
			c.Fail("C24/field-covered-by-signature", name, fn.Pos(), "field "+tf.Name()+" of the transaction does not flow into the bytes that are signed: it can be changed without invalidating the signature")
			continue
		}
		if prev, dup := usedDTO[target]; dup {
			c.Fail("C24/field-covered-by-signature", name, fn.Pos(), fmt.Sprintf("fields %s and %s are both encoded into FrontendTransaction.%s: only one of them is covered", prev, tf.Name(), target.Name()))
			continue
		}
		usedDTO[target] = tf.Name()
		if jsonName[target] == "-" {
			c.Fail("C24/field-covered-by-signature", name, fn.Pos(), "FrontendTransaction."+target.Name()+" is excluded from JSON (`json:\"-\"`)")
			continue
		}
		// the whole field is covered: on the way into the DTO the value passes conversions and
		// encoder calls only - no arithmetic/bit operation and no bounded slice that would map two
		// different field values to the same signed bytes
		if narrowed := narrowingOnPath(stores[target], tf); narrowed != "" {
			c.Fail("C24/field-covered-by-signature", name, fn.Pos(), "field "+tf.Name()+" reaches FrontendTransaction."+target.Name()+" only through "+narrowed+": transactions that differ in the discarded part of the field have the same signed bytes, so a signature stays valid when that part is altered")
			continue
		}
		c.Pass("C24/field-covered-by-signature", name, fn.Pos(), fmt.Sprintf("flows into FrontendTransaction.%s (json %q)", target.Name(), jsonName[target]))
	}
	// every DTO field is filled unconditionally: a store that does not dominate the Marshal call covers the field only for some transactions
	var marshalCall ssa.Instruction
	for _, in := range core.CallsIn(fn, func(in ssa.Instruction, cc *ssa.CallCommon) bool { return isInvoke(cc, "Marshal") }) {
		marshalCall = in
	}
	if marshalCall != nil {
		core.Instrs(fn, func(in ssa.Instruction) {
			st, ok := in.(*ssa.Store)
			if !ok {
				return
			}
			fa, ok := st.Addr.(*ssa.FieldAddr)
			if !ok || namedElem(fa.X.Type()) != ftxT {
				return
			}
			c.Check(core.DominatesInstr(st, marshalCall), "C24/field-covered-by-signature", "FrontendTransaction."+core.FieldOfAddr(fa).Name()+"/unconditional", st.Pos(),
				"set on every path before the DTO is marshalled", "FrontendTransaction."+core.FieldOfAddr(fa).Name()+" is set only on some paths: for other transactions the field is not part of the signed bytes")
		})
	}
	// the signing bytes are owned by the caller: the marshalizer returns bytes of a buffer allocated in the call, not of shared/pooled memory
	if mf := optM(c, "marshal", "TxJsonMarshalizer", "Marshal"); mf != nil {
		ok, why := true, ""
		for _, in := range core.CallsIn(mf, func(in ssa.Instruction, cc *ssa.CallCommon) bool {
			d := core.CallDesc(cc)
			return d.Pkg == "sync" && d.Recv == "Pool"
		}) {
			ok, why = false, "uses a sync.Pool at "+c.P.Pos(in.Pos())
		}
		core.Instrs(mf, func(in ssa.Instruction) {
			if cc := core.CallOf(in); cc != nil && core.CallDesc(cc).Is("bytes", "Buffer", "Bytes") {
				if _, fresh := cc.Args[0].(*ssa.Alloc); !fresh {
					ok, why = false, "returns the bytes of a buffer that was not allocated in this call"
				}
			}
		})
		c.Check(ok, "C24/signed-bytes-are-the-dto", "TxJsonMarshalizer.Marshal/bytes-owned-by-caller", mf.Pos(), "the returned bytes belong to a buffer allocated in the call",
			"TxJsonMarshalizer.Marshal "+why+": a later Marshal call rewrites the signing bytes an earlier caller still holds")
	}
	c.Floor("C24/field-covered-by-signature", 13)

	// verifySig
	if vs := anchorM(c, "process/transaction", "InterceptedTransaction", "verifySig"); vs != nil {
		tx := vs.Params[1]
		var signed ssa.Value
		for _, in := range core.CallsIn(vs, func(in ssa.Instruction, cc *ssa.CallCommon) bool {
			return core.CallDesc(cc).Name == "GetDataForSigning" && len(cc.Args) > 0 && cc.Args[0] == ssa.Value(tx)
		}) {
			if call, ok := in.(*ssa.Call); ok {
				signed = core.ResultOf(call, 0)
			}
		}
		// the verdict may be delegated to a helper of the package (`return inTx.verifyOverHash(key, bytes, sig)`):
		// the helper's Verify calls are judged with its parameters standing for the arguments it was handed
		type argTests struct{ msg, sig, key func(v ssa.Value) bool }
		var verdicts func(fn *ssa.Function, prefix string, t argTests, depth int)
		verdicts = func(fn *ssa.Function, prefix string, t argTests, depth int) {
			verifies := core.CallsIn(fn, func(in ssa.Instruction, cc *ssa.CallCommon) bool { return isInvoke(cc, "Verify") })
			for i, v := range verifies {
				cc := core.CallOf(v)
				name := fmt.Sprintf("%s/Verify#%d", prefix, i)
				msgOK, sigOK, keyOK := t.msg(cc.Args[1]), t.sig(cc.Args[2]), t.key(cc.Args[0])
				c.Check(msgOK && sigOK && keyOK, "C24/signed-bytes-are-the-dto", name, v.Pos(), "Verify(key of tx.SndAddr, GetDataForSigning(tx) [or its hash], tx.Signature)",
					fmt.Sprintf("the signer is not given the transaction's own signing bytes/signature/sender key (message ok=%v, signature ok=%v, key ok=%v)", msgOK, sigOK, keyOK))
			}
			// success only as the result of Verify
			for _, r := range core.Returns(fn) {
				if !core.SuccessReturn(r, nil) {
					continue
				}
				call, ok := core.RetErrOperand(r).(*ssa.Call)
				name := prefix + "/success-is-verify@" + fmt.Sprint(r.Block().Index)
				if ok && !isInvoke(&call.Call, "Verify") && depth < 2 {
					if h := call.Call.StaticCallee(); h != nil && h.Blocks != nil && h.Pkg == fn.Pkg && h != fn {
						args := call.Call.Args
						through := func(test func(ssa.Value) bool, exact bool) func(v ssa.Value) bool {
							return func(v ssa.Value) bool {
								for i, p := range h.Params {
									if i >= len(args) || !test(args[i]) {
										continue
									}
									if ssa.Value(p) == v || (!exact && core.BackwardReach(v)[p]) {
										return true
									}
								}
								return false
							}
						}
						c.Analysed(fname(h))
						verdicts(h, prefix+"/"+h.Name(), argTests{through(t.msg, false), through(t.sig, true), through(t.key, false)}, depth+1)
						c.Pass("C24/signed-bytes-are-the-dto", name, r.Pos(), "success is the verdict of "+h.Name()+", judged in its own right")
						continue
					}
				}
				c.Check(ok && isInvoke(&call.Call, "Verify"), "C24/signed-bytes-are-the-dto", name, r.Pos(), "success is the signer's verdict", "verifySig can succeed without the signer's verdict")
			}
		}
		verdicts(vs, "verifySig", argTests{
			msg: func(v ssa.Value) bool { return signed != nil && core.BackwardReach(v)[signed] },
			sig: func(v ssa.Value) bool { return core.ExprKey(v) == "p1.Signature" },
			key: func(v ssa.Value) bool {
				for x := range core.BackwardReach(v) {
					if core.ExprKey(x) == "p1.SndAddr" {
						return true
					}
				}
				return false
			},
		}, 0)
		c.Floor("C24/signed-bytes-are-the-dto", 4)
	}
}

// narrowingOnPath walks from a DTO field value back to the loads of the transaction field tf and
// reports the first lossy operation met on every such path ("" when some path is conversion-only).
func narrowingOnPath(v ssa.Value, tf *types.Var) string {
	type res struct {
		reaches bool
		lossy   string
	}
	seen := map[ssa.Value]res{}
	var walk func(x ssa.Value, depth int) res
	walk = func(x ssa.Value, depth int) res {
		if r, ok := seen[x]; ok {
			return r
		}
		seen[x] = res{}
		if depth > 16 {
			return res{}
		}
		if _, lf := core.FieldLoad(x); lf == tf {
			seen[x] = res{reaches: true}
			return seen[x]
		}
		var ops []ssa.Value
		lossyHere := ""
		switch t := x.(type) {
		case *ssa.BinOp:
			ops = []ssa.Value{t.X, t.Y}
			lossyHere = "the operation `" + t.Op.String() + "`"
		case *ssa.Slice:
			ops = []ssa.Value{t.X}
			if t.Low != nil || t.High != nil {
				lossyHere = "a bounded slice expression"
			}
		case *ssa.UnOp:
			ops = []ssa.Value{t.X}
		case *ssa.Convert:
			ops = []ssa.Value{t.X}
			// integer narrowing
			if bt, ok := t.Type().Underlying().(*types.Basic); ok {
				if bs, ok2 := t.X.Type().Underlying().(*types.Basic); ok2 && bt.Info()&types.IsInteger != 0 && bs.Info()&types.IsInteger != 0 {
					if sizeOfBasic(bt) < sizeOfBasic(bs) {
						lossyHere = "a narrowing integer conversion"
					}
				}
			}
		case *ssa.ChangeType:
			ops = []ssa.Value{t.X}
		case *ssa.MakeInterface:
			ops = []ssa.Value{t.X}
		case *ssa.Phi:
			ops = t.Edges
		case *ssa.Call:
			ops = append(ops, t.Call.Args...)
			if t.Call.IsInvoke() {
				ops = append(ops, t.Call.Value)
			}
		case *ssa.Extract:
			ops = []ssa.Value{t.Tuple}
		case *ssa.FieldAddr:
			ops = []ssa.Value{t.X}
		}
		out := res{}
		clean := false
		for _, o := range ops {
			r := walk(o, depth+1)
			if !r.reaches {
				continue
			}
			out.reaches = true
			if r.lossy == "" && lossyHere == "" {
				clean = true
			} else if out.lossy == "" {
				out.lossy = r.lossy
				if out.lossy == "" {
					out.lossy = lossyHere
				}
			}
		}
		if clean {
			out.lossy = ""
		}
		seen[x] = out
		return out
	}
	r := walk(v, 0)
	if !r.reaches {
		return ""
	}
	return r.lossy
}

func sizeOfBasic(b *types.Basic) int {
	switch b.Kind() {
	case types.Int8, types.Uint8:
		return 1
	case types.Int16, types.Uint16:
		return 2
	case types.Int32, types.Uint32:
		return 4
	}
	return 8
}

// c24IntegrityChecksItsArgument: InterceptedTransaction.integrity is applied to the outer
// transaction and to the inner transaction of a relayed one; what it validates before the signature
// is verified are the fields of the transaction it was GIVEN. A field read through the receiver's
// own transaction instead leaves that field of an inner transaction unchecked - and the signed
// bytes of transactions with a malformed receiver coincide (the address encoder returns "" for any
// wrong length).
func c24IntegrityChecksItsArgument(c *core.Ctx) {
	fn := anchorM(c, "process/transaction", "InterceptedTransaction", "integrity")
	if fn == nil || len(fn.Params) < 2 {
		return
	}
	bad, n := "", 0
	core.Instrs(fn, func(in ssa.Instruction) {
		fa, ok := in.(*ssa.FieldAddr)
		if !ok {
			return
		}
		// base is the *Transaction loaded from the receiver's `tx` field?
		base, f := core.FieldLoad(fa.X)
		if f != nil && f.Name() == "tx" && base == ssa.Value(fn.Params[0]) {
			bad = "inTx.tx." + core.FieldOfAddr(fa).Name() + " at " + c.P.Pos(fa.Pos())
		}
		if fa.X == ssa.Value(fn.Params[1]) {
			n++
		}
	})
	c.Check(bad == "" && n >= 3, "C24/integrity-checks-its-argument", "InterceptedTransaction.integrity", fn.Pos(),
		"every transaction field validated is a field of the argument",
		"integrity reads "+bad+" - a field of the intercepted (outer) transaction - while validating the transaction it was given: for the inner transaction of a relayed one that field goes unchecked before the signature is verified over it")
}
