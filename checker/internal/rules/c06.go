package rules

import (
	"fmt"
	"go/token"
	"sort"
	"strings"

	"golang.org/x/tools/go/ssa"

	"verif/checker/internal/core"
)

func init() {
	register(&Rule{
		ID:    "C06",
		Title: "Account state reverts exactly to a journal snapshot",
		Pkgs:  []string{"data/state"},
		Explain: "Decides the necessary structural condition 'every trie mutation performed through AccountsDB is journalised': every function of package data/state that updates a trie (directly through " +
			"Trie/Updater.Update or through a non-journalling helper) either (a) on every success path accompanies each mutation with adb.journalize(entry) where entry comes from a NewJournalEntry* constructor, or " +
			"(b) is an unexported helper all of whose callers are themselves in the obligation set (computed, not listed), or (c) is one of the reasoned exemptions " +
			"(ImportAccount: documented non-journalled import; JournalEntry Revert methods: the undo itself). An un-journalised mutation cannot be undone by RevertToSnapshot. " +
			"Not decided (value-level): that each Revert() restores the exact prior value; reverse iteration order of the journal.",
		Run: runC06,
	})
}

var c06Exempt = map[string]string{
	"AccountsDB.ImportAccount":    "documented as a non-journalled import used before processing starts (genesis / sync)",
	"AccountsDB.RevertToSnapshot": "replays the journal backwards and truncates it: the undo itself",
}

func isTrieUpdate(cc *ssa.CallCommon) bool {
	if !cc.IsInvoke() || cc.Method.Name() != "Update" {
		return false
	}
	d := core.CallDesc(cc)
	return d.Recv == "Trie" || d.Recv == "Updater"
}

func runC06(c *core.Ctx) {
	const pkg = "data/state"
	fns := c.P.FuncsOfPkg(pkg)
	direct := map[*ssa.Function][]ssa.Instruction{}
	journals := map[*ssa.Function][]ssa.Instruction{}
	for _, fn := range fns {
		for _, in := range core.CallsIn(fn, func(in ssa.Instruction, cc *ssa.CallCommon) bool { return isTrieUpdate(cc) }) {
			direct[fn] = append(direct[fn], in)
		}
		for _, in := range core.CallsIn(fn, func(in ssa.Instruction, cc *ssa.CallCommon) bool {
			return core.CallDesc(cc).Is(pkg, "AccountsDB", "journalize")
		}) {
			journals[fn] = append(journals[fn], in)
		}
	}
	// journalising helpers: an unexported function of the package that calls journalize itself (e.g. the
	// extracted tail "build the entry, journalize it"); a call of it is a journal event of its caller
	journalHelper := map[*ssa.Function]bool{}
	for fn, j := range journals {
		if len(j) > 0 && fn.Parent() == nil && !ssaExported(fn) {
			journalHelper[fn] = true
		}
	}
	for _, fn := range fns {
		for _, in := range core.CallsIn(fn, func(in ssa.Instruction, cc *ssa.CallCommon) bool {
			g := cc.StaticCallee()
			return g != nil && journalHelper[g] && g != fn
		}) {
			journals[fn] = append(journals[fn], in)
		}
	}
	// callers inside the package, for the inheritance of exemptions by extracted helpers
	callersOf := map[*ssa.Function][]*ssa.Function{}
	for _, fn := range fns {
		core.Instrs(fn, func(in ssa.Instruction) {
			if cc := core.CallOf(in); cc != nil && cc.StaticCallee() != nil {
				callersOf[cc.StaticCallee()] = append(callersOf[cc.StaticCallee()], fn)
			}
		})
	}
	var exemptFn func(fn *ssa.Function, d int) (string, bool)
	exemptFn = func(fn *ssa.Function, d int) (string, bool) {
		n := fname(fn)
		if why, ok := c06Exempt[n]; ok {
			return why, true
		}
		if strings.HasSuffix(n, ".Revert") && strings.HasPrefix(n, "journalEntry") {
			return "the Revert method of a journal entry is the undo itself", true
		}
		if d > 2 || fn.Parent() != nil || ssaExported(fn) || len(callersOf[fn]) == 0 {
			return "", false
		}
		for _, cl := range callersOf[fn] {
			if _, ok := exemptFn(cl, d+1); !ok {
				return "", false
			}
		}
		return "unexported helper called only from exempt functions (" + fname(callersOf[fn][0]) + ")", true
	}
	// reviewed non-journalling helpers (frozen): their call sites are the mutation events of their
	// callers, with the kind of journal entry that undoes them
	helperKind := map[string]string{
		"AccountsDB.saveAccountToTrie":        "account",
		"AccountsDB.updateOldCodeEntry":       "code",
		"AccountsDB.updateNewCodeEntry":       "code",
		"saveCodeEntry":                       "code",
		"journalEntryCode.revertOldCodeEntry": "revert",
		"journalEntryCode.revertNewCodeEntry": "revert",
	}
	// ... and derived ones: an unexported function that only writes a trie it is HANDED (not the accounts
	// trie of its receiver), never journalises and is called inside the package is the same thing as a
	// reviewed helper of kind "data": each of its call sites becomes a mutation event of the caller, which
	// then owes the journal entry. Nothing is taken on trust: the obligation moves, it does not vanish.
	for _, fn := range fns {
		n := fname(fn)
		if _, listed := helperKind[n]; listed || len(direct[fn]) == 0 || len(journals[fn]) > 0 || fn.Parent() != nil || ssaExported(fn) || len(callersOf[fn]) == 0 {
			continue
		}
		if _, ex := exemptFn(fn, 0); ex {
			continue
		}
		onlyHanded := true
		for _, ev := range direct[fn] {
			cc := core.CallOf(ev)
			if isRecvField(fn, cc.Value, "mainTrie") {
				onlyHanded = false
			}
		}
		if onlyHanded {
			helperKind[n] = "data"
			c.Note("derived non-journalling helper %s: its call sites are data-trie mutation events of its callers", n)
		}
	}
	events := map[*ssa.Function][]ssa.Instruction{}
	wrapper := map[*ssa.Function]bool{}
	for fn, d := range direct {
		events[fn] = append(events[fn], d...)
	}
	for _, fn := range fns {
		if _, ok := helperKind[fname(fn)]; ok {
			wrapper[fn] = true
		}
		for _, in := range core.CallsIn(fn, func(in ssa.Instruction, cc *ssa.CallCommon) bool {
			g := cc.StaticCallee()
			if g == nil {
				return false
			}
			_, ok := helperKind[fname(g)]
			return ok
		}) {
			events[fn] = append(events[fn], in)
		}
	}
	kindOf := func(fn *ssa.Function, ev ssa.Instruction) string {
		cc := core.CallOf(ev)
		if g := cc.StaticCallee(); g != nil {
			if k, ok := helperKind[fname(g)]; ok {
				return k
			}
		}
		if isTrieUpdate(cc) {
			if isRecvField(fn, cc.Value, "mainTrie") {
				return "account"
			}
			return "data"
		}
		return "?"
	}
	ctorsOf := map[string][]string{
		"account": {"NewJournalEntryAccount", "NewJournalEntryAccountCreation"},
		"code":    {"NewJournalEntryCode"},
		"data":    {"NewJournalEntryDataTrieUpdates"},
	}
	var names []string
	byName := map[string]*ssa.Function{}
	for fn := range events {
		names = append(names, fname(fn))
		byName[fname(fn)] = fn
	}
	sort.Strings(names)
	for _, n := range names {
		fn := byName[n]
		c.Analysed(core.QualName(fn))
		if why, ok := exemptFn(fn, 0); ok {
			c.Pass("C06/mutation-journalised", n, fn.Pos(), "exempt: "+why)
			continue
		}
		if wrapper[fn] {
			exported := fn.Parent() == nil && ssaExported(fn)
			c.Check(!exported && len(journals[fn]) == 0, "C06/mutation-journalised", n, fn.Pos(),
				"reviewed non-journalling helper ("+helperKind[n]+"): every call site in the package is a mutation event of its caller",
				"a reviewed non-journalling helper became exported or started journalling itself: the helper table no longer describes the code")
			continue
		}
		if len(journals[fn]) == 0 {
			c.Fail("C06/mutation-journalised", n, fn.Pos(), "this function mutates a trie, never journalises, and is neither a reviewed helper nor a reasoned exemption: RevertToSnapshot cannot undo the mutation")
			continue
		}
		for i, ev := range events[fn] {
			c.Sites++
			name := fmt.Sprintf("%s/%s-mutation#%d(%s)", n, kindOf(fn, ev), i, core.CallDesc(core.CallOf(ev)).Name)
			isJ := func(in ssa.Instruction) bool {
				cc := core.CallOf(in)
				if cc == nil {
					return false
				}
				if g := cc.StaticCallee(); g != nil && journalHelper[g] && g != fn {
					// a journalising helper: the entry it journalizes is built from a constructor of the right kind
					found := false
					core.Instrs(g, func(in2 ssa.Instruction) {
						c2 := core.CallOf(in2)
						if c2 == nil || !core.CallDesc(c2).Is(pkg, "AccountsDB", "journalize") {
							return
						}
						for v := range core.BackwardReach(c2.Args[len(c2.Args)-1]) {
							if call, ok := v.(*ssa.Call); ok {
								for _, want := range ctorsOf[kindOf(fn, ev)] {
									if core.CallDesc(&call.Call).Name == want {
										found = true
									}
								}
							}
						}
					})
					return found
				}
				if !core.CallDesc(cc).Is(pkg, "AccountsDB", "journalize") {
					return false
				}
				// the entry derives from a NewJournalEntry* constructor of the kind that undoes this mutation
				arg := cc.Args[len(cc.Args)-1]
				for v := range core.BackwardReach(arg) {
					if call, ok := v.(*ssa.Call); ok {
						for _, want := range ctorsOf[kindOf(fn, ev)] {
							if core.CallDesc(&call.Call).Name == want {
								return true
							}
						}
					}
				}
				return false
			}
			// the mutation's own tail return counts as a success exit reached "through" the event
			ok, why := mustAccompanyTail(c, fn, ev, isJ, core.SuccessReturn)
			c.Check(ok, "C06/mutation-journalised", name, ev.Pos(), "journalize(NewJournalEntry…) accompanies the mutation on every success path", "trie mutation without a journal entry on a success path: "+why)
		}
	}
	c.Floor("C06/mutation-journalised", 9)

	// ---- revert side: RevertToSnapshot(0) means "back to the last committed root", whatever the journal holds
	if fn := anchorM(c, pkg, "AccountsDB", "RevertToSnapshot"); fn != nil {
		snap := fn.Params[1]
		// no success exit before the snapshot==0 case was examined
		bad := ""
		for _, r := range core.Returns(fn) {
			if !core.SuccessReturn(r, nil) {
				continue
			}
			tested := false
			for _, f := range core.FactsAt(r.Block()) {
				if (f.Op == "==" || f.Op == "!=") && ((f.A == "0" && f.B == "p1") || (f.A == "p1" && f.B == "0")) {
					tested = true
				}
			}
			if ev := core.RetErrOperand(r); ev != nil {
				if call, ok := ev.(*ssa.Call); ok && core.CallDesc(&call.Call).Name == "recreateTrie" {
					tested = true
				}
			}
			if !tested {
				bad = c.P.Pos(r.Pos())
			}
		}
		_ = snap
		c.Check(bad == "", "C06/revert-to-zero-recreates", "AccountsDB.RevertToSnapshot/zero-case-first", fn.Pos(),
			"every success exit lies behind the snapshot==0 test", "the success exit at "+bad+" is reachable without examining the snapshot==0 case: RevertToSnapshot(0) can return without restoring the last committed root (e.g. after a failed Commit emptied the journal)")
		// on the snapshot==0 branch the trie is recreated at lastRootHash
		zero := core.PruneWhen(func(cd core.Cond) bool {
			f := core.FactOf(cd)
			return f.Op == "!=" && ((f.A == "0" && f.B == "p1") || (f.A == "p1" && f.B == "0"))
		})
		// start after the test: query = every success return reachable with snapshot==0 passes recreateTrie(lastRootHash)
		cv := core.NewCheckedVia(fn, func(in ssa.Instruction, cc *ssa.CallCommon) bool {
			return core.CallDesc(cc).Is(pkg, "AccountsDB", "recreateTrie") && isRecvField(fn, cc.Args[1], "lastRootHash")
		})
		only0 := func(b *ssa.BasicBlock, s int) bool {
			if zero(b, s) {
				return true
			}
			return false
		}
		q := core.PathQ{Fn: fn, Via: cv.Via, ViaEdge: cv.ViaEdge, Prune: only0, Target: cv.WrapTarget(func(in ssa.Instruction, pred *ssa.BasicBlock) bool {
			if !core.SuccessReturn(in, pred) {
				return false
			}
			// only returns inside the snapshot==0 region
			for _, f := range core.FactsAt(in.Block()) {
				if f.Op == "==" && ((f.A == "0" && f.B == "p1") || (f.A == "p1" && f.B == "0")) {
					return true
				}
			}
			return false
		})}
		esc, path := q.Escape()
		c.Check(esc == nil && len(cv.Calls) > 0, "C06/revert-to-zero-recreates", "AccountsDB.RevertToSnapshot/recreate-last-root", fn.Pos(),
			"with snapshot==0 every success exit has recreated the trie at lastRootHash", "with snapshot==0 a success exit is reachable without recreateTrie(lastRootHash): "+c.P.PathString(path))
	}
	if fn := anchorM(c, pkg, "AccountsDB", "recreateTrie"); fn != nil {
		mustPass(c, fn, "C06/revert-to-zero-recreates", "AccountsDB.recreateTrie/data-tries-reset", nil, func(in ssa.Instruction) bool {
			cc := core.CallOf(in)
			return cc != nil && isInvoke(cc, "Reset") && isRecvField(fn, cc.Value, "dataTries")
		}, core.SuccessReturn, nil, "the cache of loaded data tries (mutated in place by saveDataTrie) is dropped whenever the main trie is recreated")
	}
	// the data trie an account works on is the one the cache hands out later: a newly created data trie is registered unconditionally
	if fn := anchorM(c, pkg, "AccountsDB", "saveDataTrie"); fn != nil {
		for i, in := range core.CallsIn(fn, func(in ssa.Instruction, cc *ssa.CallCommon) bool { return isInvoke(cc, "SetDataTrie") }) {
			tr := core.CallOf(in).Args[0]
			q := core.PathQ{Fn: fn, From: in, Via: func(x ssa.Instruction) bool {
				cc := core.CallOf(x)
				return cc != nil && isInvoke(cc, "Put") && isRecvField(fn, cc.Value, "dataTries") && len(cc.Args) == 2 && cc.Args[1] == tr
			}, Target: core.AnyReturn}
			esc, p := q.Escape()
			c.Check(esc == nil, "C06/revert-to-zero-recreates", fmt.Sprintf("AccountsDB.saveDataTrie/new-data-trie-cached#%d", i), in.Pos(), "a data trie created for the account replaces whatever the cache held for that address",
				"a newly created data trie is not (always) put in the data-trie cache ("+c.P.PathString(p)+"): later loads of the account get a stale instance, so written values are invisible and a revert works on the wrong trie")
		}
	}
	c.Floor("C06/revert-to-zero-recreates", 3)
	c06LastRootAndOrder(c)
}

func ssaExported(fn *ssa.Function) bool {
	n := fn.Name()
	return len(n) > 0 && n[0] >= 'A' && n[0] <= 'Z'
}

// mustAccompanyTail is mustAccompany where the event may itself be the operand of the return.
func mustAccompanyTail(c *core.Ctx, fn *ssa.Function, ev ssa.Instruction, acc func(ssa.Instruction) bool, target targetFn) (bool, string) {
	return mustAccompany(c, fn, ev, acc, target)
}

// c06LastRootAndOrder: (a) lastRootHash - what RevertToSnapshot(0) goes back to - is only ever set to
// a root the trie was successfully brought to (after a nil error of recreateTrie, or at the end of a
// Commit behind its error checks); (b) undoing journal entries is interleaved with writing the
// returned account back: the account an entry returns is saved before an older entry is undone.
func c06LastRootAndOrder(c *core.Ctx) {
	const pkg = "data/state"
	lr := c.P.Field(pkg, "AccountsDB", "lastRootHash")
	if lr == nil {
		c.Undecided("anchor", "AccountsDB.lastRootHash", 0, "field not found")
		return
	}
	n := 0
	for _, fn := range c.P.FuncsOfPkg(pkg) {
		core.Instrs(fn, func(in ssa.Instruction) {
			st, ok := in.(*ssa.Store)
			if !ok {
				return
			}
			fa, ok := st.Addr.(*ssa.FieldAddr)
			if !ok || core.FieldOfAddr(fa) != lr {
				return
			}
			n++
			c.Analysed(fname(fn))
			// every error-returning call of the function that precedes a success return must have been
			// checked before the store: no path from the store reaches an error return
			esc, path := core.PathQ{Fn: fn, From: st, Target: func(x ssa.Instruction, pred *ssa.BasicBlock) bool {
				r, isRet := x.(*ssa.Return)
				if !isRet {
					return false
				}
				return !core.SuccessReturn(r, pred) || !core.NilReturn(r, pred)
			}}.Escape()
			c.Check(esc == nil, "C06/last-root-set-only-after-success", fname(fn)+"/store-lastRootHash", st.Pos(),
				"after lastRootHash is set the function can only succeed",
				"lastRootHash is set and the function can still fail afterwards ("+c.P.PathString(path)+"): a failed operation leaves the trie where it was but moves the root that RevertToSnapshot(0) recreates, so reverting to zero no longer restores the last committed state")
		})
	}
	c.Floor("C06/last-root-set-only-after-success", 2)
	if fn := anchorM(c, pkg, "AccountsDB", "RevertToSnapshot"); fn != nil {
		isRevert := func(in ssa.Instruction, cc *ssa.CallCommon) bool {
			return cc.IsInvoke() && cc.Method.Name() == "Revert"
		}
		// the undo step: in the loop of RevertToSnapshot itself, or in a helper the loop calls
		host := fn
		var rev ssa.Instruction
		for _, in := range core.CallsIn(fn, isRevert) {
			rev = in
		}
		loop := (*core.Loop)(nil)
		if rev != nil {
			loop = core.InnermostLoop(fn, rev.Block())
		} else {
			core.Instrs(fn, func(in ssa.Instruction) {
				cc := core.CallOf(in)
				if cc == nil || cc.StaticCallee() == nil || core.InnermostLoop(fn, in.Block()) == nil {
					return
				}
				for _, in2 := range core.CallsIn(cc.StaticCallee(), isRevert) {
					host, rev = cc.StaticCallee(), in2
				}
			})
		}
		if rev == nil || (host == fn && loop == nil) {
			c.Undecided("C06/reverted-account-written-back-in-order", "AccountsDB.RevertToSnapshot", fn.Pos(), "no loop undoing journal entries")
			return
		}
		c.Analysed(fname(host))
		inScope := func(b *ssa.BasicBlock) bool { return loop == nil || loop.Body[b] }
		saves := func(in ssa.Instruction) bool {
			cc := core.CallOf(in)
			return cc != nil && cc.StaticCallee() != nil && cc.StaticCallee().Name() == "saveAccountToTrie" && inScope(in.Block())
		}
		nilAccount := func(b *ssa.BasicBlock, si int) bool {
			ifi, ok := b.Instrs[len(b.Instrs)-1].(*ssa.If)
			if !ok {
				return false
			}
			cond, on := ifi.Cond, 0
			if u, isU := cond.(*ssa.UnOp); isU && u.Op == token.NOT {
				cond, on = u.X, 1
			}
			call, isCall := cond.(*ssa.Call)
			return isCall && call.Call.StaticCallee() != nil && call.Call.StaticCallee().Name() == "IfNil" && si == on
		}
		// the tail call `return adb.saveAccountToTrie(account)` is a save
		tailSave := func(r *ssa.Return) bool {
			if len(r.Results) == 0 {
				return false
			}
			call, ok := r.Results[len(r.Results)-1].(*ssa.Call)
			return ok && call.Call.StaticCallee() != nil && call.Call.StaticCallee().Name() == "saveAccountToTrie"
		}
		esc, path := core.PathQ{Fn: host, From: rev, Via: saves, ViaEdge: nilAccount,
			Target: func(x ssa.Instruction, pred *ssa.BasicBlock) bool {
				if loop != nil && x == loop.Header.Instrs[0] {
					return true
				}
				r, isRet := x.(*ssa.Return)
				return isRet && (loop == nil || !loop.Body[x.Block()]) && core.SuccessReturn(r, pred) && !tailSave(r)
			}}.Escape()
		c.Check(esc == nil, "C06/reverted-account-written-back-in-order", "AccountsDB.RevertToSnapshot", rev.Pos(),
			"the account returned by an undone entry is saved to the trie before the next (older) entry is undone",
			"an older journal entry can be undone (or the function can succeed) before the account returned by the previous undo was written back ("+c.P.PathString(path)+"): undo steps that delete or replace the same address are applied out of order, and an account can survive a revert to before its creation")
	}
}
