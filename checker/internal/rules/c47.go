package rules

import (
	"fmt"
	"go/token"
	"strings"

	"golang.org/x/tools/go/ssa"

	"verif/checker/internal/core"
)

func init() {
	register(&Rule{
		ID:    "C47",
		Title: "Accepted genesis configuration accounts for the whole supply",
		Pkgs:  []string{"genesis/parsing"},
		Explain: "Decides the guard structure of accountsParser. (S1) process() returns nil only after, for every entry of the list (the loop leaves only on exhaustion or error), parseElement and checkInitialAccount " +
			"succeeded and the entry's supply was added to the running total, after checkForDuplicates succeeded, and past the comparison of the running total with the configured entire supply. " +
			"checkInitialAccount returns nil only past the smart-contract-address test on the decoded address and the comparison of Supply with the sum built from Balance, StakingValue and Delegation.Value. " +
			"(S2) the duplicate test compares a canonical key: its operands derive from the decoded address bytes (AddressBytes) or from a case normalisation, not from the raw textual field - " +
			"bech32 text is accepted in both letter cases, so a textual comparison lets the same account appear twice. " +
			"The supply test at every nil return of checkInitialAccount compares Supply with a zero-initialised object to which exactly Balance, StakingValue and Delegation.Value were added in place before the comparison. " +
			"Not decided (value-level): big-int arithmetic, delegation/staking cross checks.",
		Run: runC47,
	})
}

func runC47(c *core.Ctx) {
	const pkg = "genesis/parsing"
	if fn := anchorM(c, pkg, "accountsParser", "process"); fn != nil {
		// loop over all entries
		var loop *core.Loop
		for _, l := range core.Loops(fn) {
			if src := l.RangeSource(); src != nil && isFieldOf(src, "initialAccounts") {
				loop = l
			}
		}
		if loop == nil {
			c.Fail("C47/process-passes-all-checks", "accountsParser.process/loop", fn.Pos(), "no loop over initialAccounts")
		} else {
			bad := loopComplete(c, loop, nil)
			c.Check(bad == "", "C47/process-passes-all-checks", "accountsParser.process/all-entries", fn.Pos(), "the per-entry checks run over every entry (the loop leaves only on exhaustion or error)", bad+": the remaining entries are not checked")
			var body *ssa.BasicBlock
			for _, s := range loop.Header.Succs {
				if loop.Body[s] {
					body = s
				}
			}
			for _, ev := range []string{"parseElement", "checkInitialAccount"} {
				ev := ev
				cv := core.NewCheckedVia(fn, func(in ssa.Instruction, cc *ssa.CallCommon) bool {
					return core.CallDesc(cc).Name == ev && loop.Body[in.Block()]
				})
				q := core.PathQ{Fn: fn, FromBlk: body, Via: cv.Via, ViaEdge: cv.ViaEdge, Target: func(in ssa.Instruction, _ *ssa.BasicBlock) bool { return in == loop.Header.Instrs[0] }}
				esc, p := q.Escape()
				c.Check(esc == nil && len(cv.Calls) > 0 && len(cv.Unhandled) == 0, "C47/process-passes-all-checks", "accountsParser.process/per-entry-"+ev, fn.Pos(),
					"every entry passes "+ev+" (error checked)", "an entry can be accepted without a successful "+ev+": "+c.P.PathString(p))
			}
			// supply accumulated per entry: a call to (*big.Int).Add with the entry's Supply inside the loop
			acc := false
			core.Instrs(fn, func(in ssa.Instruction) {
				if cc := core.CallOf(in); cc != nil && loop.Body[in.Block()] && core.CallDesc(cc).Is("math/big", "Int", "Add") {
					for _, a := range cc.Args {
						if strings.HasSuffix(core.ExprKey(a), ".Supply") {
							acc = true
						}
					}
				}
			})
			c.Check(acc, "C47/process-passes-all-checks", "accountsParser.process/supply-accumulated", fn.Pos(), "each entry's Supply is added to the running total", "the entries' supplies are not accumulated")
		}
		mustPassChecked(c, fn, "C47/process-passes-all-checks", "accountsParser.process/duplicates", nil,
			func(in ssa.Instruction, cc *ssa.CallCommon) bool {
				return core.CallDesc(cc).Name == "checkForDuplicates"
			},
			core.NilReturn, nil, "checkForDuplicates succeeds before nil is returned")
		okTotal := false
		for _, r := range core.Returns(fn) {
			if !core.NilReturn(r, nil) {
				continue
			}
			okTotal = false
			for _, f := range core.FactsAt(r.Block()) {
				if f.Op == "==" && strings.Contains(f.String(), "Cmp(") && strings.Contains(f.String(), "recv.entireSupply") {
					okTotal = true
				}
			}
		}
		c.Check(okTotal, "C47/process-passes-all-checks", "accountsParser.process/total-supply", fn.Pos(), "nil only when the running total equals the entire supply (Cmp == 0)", "nil is returned without the total having been compared with the entire supply")
	}
	if fn := anchorM(c, pkg, "accountsParser", "checkInitialAccount"); fn != nil {
		sc, sum := true, true
		n := 0
		isBig := func(v ssa.Value, name string) *ssa.Call {
			call, ok := v.(*ssa.Call)
			if !ok || !core.CallDesc(&call.Call).Is("math/big", "Int", name) {
				return nil
			}
			return call
		}
		// sumOfParts(v): v is a zero-initialised big.Int to which exactly Balance, StakingValue and
		// Delegation.Value of the entry are added (in place) before `at`
		// obj: the big.Int object a value denotes (in-place operations return their receiver)
		var obj func(v ssa.Value) ssa.Value
		obj = func(v ssa.Value) ssa.Value {
			if call, ok := v.(*ssa.Call); ok && core.CallDesc(&call.Call).Is("math/big", "Int", "") && len(call.Call.Args) > 0 {
				switch core.CallDesc(&call.Call).Name {
				case "Add", "Sub", "Mul", "Set", "SetUint64", "SetInt64", "Div", "Quo", "Neg", "Abs":
					return obj(call.Call.Args[0])
				}
			}
			return v
		}
		sumOfParts := func(v ssa.Value, at *ssa.BasicBlock) bool {
			v = obj(v)
			mk, ok := v.(*ssa.Call)
			if !ok || !core.CallDesc(&mk.Call).Is("math/big", "", "NewInt") {
				return false
			}
			if z, isC := core.ConstInt(mk.Call.Args[0]); !isC || z != 0 {
				return false
			}
			want := map[string]int{".Balance": 0, ".StakingValue": 0, ".Delegation.Value": 0}
			okAll := true
			core.Instrs(fn, func(in ssa.Instruction) {
				iv, isV := in.(ssa.Value)
				if !isV {
					return
				}
				// any in-place operation on v other than Add / readers spoils the sum
				if call, isCall := iv.(*ssa.Call); isCall && len(call.Call.Args) > 0 && core.CallDesc(&call.Call).Is("math/big", "Int", "") && obj(call.Call.Args[0]) == v {
					nm := core.CallDesc(&call.Call).Name
					if nm != "Add" && nm != "Cmp" && nm != "String" && nm != "Sign" {
						okAll = false
					}
				}
				add := isBig(iv, "Add")
				if add == nil || obj(add.Call.Args[0]) != v {
					return
				}
				if !add.Block().Dominates(at) {
					okAll = false
				}
				for _, a := range add.Call.Args[1:] {
					if obj(a) == v {
						continue
					}
					ak, hit := core.ExprKey(a), false
					for suf := range want {
						if strings.HasSuffix(ak, suf) {
							want[suf]++
							hit = true
						}
					}
					if !hit {
						okAll = false
					}
				}
			})
			for _, k := range want {
				if k != 1 {
					okAll = false
				}
			}
			return okAll
		}
		for _, r := range core.Returns(fn) {
			if !core.NilReturn(r, nil) {
				continue
			}
			n++
			scHere, sumHere := false, false
			for _, cd := range core.CondsAt(r.Block()) {
				f := core.FactOf(cd)
				if f.Op == "T" && strings.Contains(f.A, "IsSmartContractAddress(") && strings.HasPrefix(f.A, "!") && strings.Contains(f.A, "AddressBytes") {
					scHere = true
				}
				if !cd.Taken {
					continue
				}
				// isSupplyCorrect := 0 < Supply && Supply.Cmp(sum) == 0   (conjunction)
				for _, cj := range core.Conjuncts(cd.V) {
					bo, isBo := cj.(*ssa.BinOp)
					if !isBo || bo.Op != token.EQL {
						continue
					}
					cmp, k := isBig(bo.X, "Cmp"), bo.Y
					if cmp == nil {
						cmp, k = isBig(bo.Y, "Cmp"), bo.X
					}
					if z, isC := core.ConstInt(k); cmp == nil || !isC || z != 0 {
						continue
					}
					a, b := cmp.Call.Args[0], cmp.Call.Args[1]
					if strings.HasSuffix(core.ExprKey(b), ".Supply") {
						a, b = b, a
					}
					if strings.HasSuffix(core.ExprKey(a), ".Supply") && sumOfParts(b, cmp.Block()) {
						sumHere = true
					}
				}
			}
			sc, sum = sc && scHere, sum && sumHere
		}
		c.Check(sc && n > 0, "C47/entry-checks", "checkInitialAccount/not-a-contract-address", fn.Pos(), "nil only past the smart-contract-address test on the decoded address", "an entry can be accepted without the smart-contract-address test on its decoded bytes")
		c.Check(sum && n > 0, "C47/entry-checks", "checkInitialAccount/supply-equals-parts", fn.Pos(), "nil only when Supply == Balance + StakingValue + Delegation.Value", "an entry can be accepted without Supply having been compared with the sum of balance, staked and delegated value")
	}
	if fn := anchorM(c, pkg, "accountsParser", "checkForDuplicates"); fn != nil {
		n := 0
		for _, b := range fn.Blocks {
			ifi, ok := b.Instrs[len(b.Instrs)-1].(*ssa.If)
			if !ok {
				continue
			}
			errBranch := false
			for _, s := range b.Succs {
				if core.OnlyErrorReturnsFrom(s, b, nil) {
					errBranch = true
				}
			}
			if !errBranch {
				continue
			}
			n++
			key := core.ExprKey(ifi.Cond)
			canonical := strings.Contains(key, "AddressBytes(") || strings.Contains(key, "ToLower(") || strings.Contains(key, "ToUpper(") || strings.Contains(key, "EqualFold(")
			raw := strings.Contains(key, ".Address ") || strings.HasSuffix(strings.TrimSuffix(key, ")"), ".Address")
			c.Check(canonical && !raw, "C47/duplicate-test-canonical", fmt.Sprintf("accountsParser.checkForDuplicates#%d", n), ifi.Pos(), "duplicates are detected on decoded address bytes (or a case-normalised form): "+key,
				"the duplicate test compares the raw textual Address fields ("+key+"): the same account written in another letter case is not detected")
		}
		if n == 0 {
			c.Fail("C47/duplicate-test-canonical", "accountsParser.checkForDuplicates", fn.Pos(), "no duplicate test leading to an error found")
		}
		// nowhere in the duplicate detection (including comparators of a sort) may the raw textual address decide anything
		rawCmp := ""
		for _, f := range core.WithAnon(fn) {
			core.Instrs(f, func(in ssa.Instruction) {
				b, ok := in.(*ssa.BinOp)
				if !ok {
					return
				}
				switch b.Op {
				case token.EQL, token.NEQ, token.LSS, token.GTR, token.LEQ, token.GEQ:
				default:
					return
				}
				for _, side := range []ssa.Value{b.X, b.Y} {
					if _, fl := core.FieldLoad(side); fl != nil && fl.Name() == "Address" {
						rawCmp = c.P.Pos(b.Pos())
					}
				}
			})
		}
		c.Check(rawCmp == "", "C47/duplicate-test-canonical", "accountsParser.checkForDuplicates/no-textual-ordering", fn.Pos(), "no comparison on the textual Address field",
			"the textual Address field is compared/ordered at "+rawCmp+": entries that denote the same account in different letter case are not brought together")
		// all pairs: the test sits in two nested loops over the entries (or everything is compared through canonical keys above)
		nested := false
		for _, l1 := range core.Loops(fn) {
			for _, l2 := range core.Loops(fn) {
				if l1 != l2 && l1.Body[l2.Header] {
					nested = true
				}
			}
		}
		c.Check(nested, "C47/duplicate-test-canonical", "accountsParser.checkForDuplicates/all-pairs", fn.Pos(), "every pair of entries is compared (nested loops)", "the duplicate test no longer compares every pair of entries")
	}
	c.Floor("C47/process-passes-all-checks", 6)
}
