package rules

import (
	"fmt"
	"go/token"
	"sort"
	"strings"

	"golang.org/x/tools/go/ssa"

	"verif/checker/internal/core"
)

func init() {
	register(&Rule{
		ID:    "C47",
		Title: "Accepted genesis configuration accounts for the whole supply",
		Pkgs:  []string{"genesis/parsing"},
		Explain: "Decides the guard structure of accountsParser. (S1) process() returns nil only after, for every entry of the list (the loop leaves only on exhaustion or error), parseElement and checkInitialAccount " +
			"succeeded and the entry's supply was added to the running total, after checkForDuplicates succeeded, and past the comparison of the running total with the configured entire supply. " +
			"checkInitialAccount returns nil only past the smart-contract-address test on the decoded address and the comparison of Supply with the sum built from Balance, StakingValue and Delegation.Value. " +
			"(S2) the duplicate test compares a canonical key: its operands derive from the decoded address bytes (AddressBytes) or from a case normalisation, not from the raw textual field - " +
			"bech32 text is accepted in both letter cases, so a textual comparison lets the same account appear twice. " +
			"The supply test at every nil return of checkInitialAccount compares Supply with a zero-initialised object to which exactly Balance, StakingValue and Delegation.Value were added in place before the comparison. " +
			"Not decided (value-level): big-int arithmetic, delegation/staking cross checks.",
		Run: runC47,
	})
}

func runC47(c *core.Ctx) {
	const pkg = "genesis/parsing"
	if fn := anchorM(c, pkg, "accountsParser", "process"); fn != nil {
		// loop over all entries
		var loop *core.Loop
		for _, l := range core.Loops(fn) {
			if src := l.RangeSource(); src != nil && isFieldOf(src, "initialAccounts") {
				loop = l
			}
		}
		if loop == nil {
			c.Fail("C47/process-passes-all-checks", "accountsParser.process/loop", fn.Pos(), "no loop over initialAccounts")
		} else {
			bad := loopComplete(c, loop, nil)
			c.Check(bad == "", "C47/process-passes-all-checks", "accountsParser.process/all-entries", fn.Pos(), "the per-entry checks run over every entry (the loop leaves only on exhaustion or error)", bad+": the remaining entries are not checked")
			var body *ssa.BasicBlock
			for _, s := range loop.Header.Succs {
				if loop.Body[s] {
					body = s
				}
			}
			for _, ev := range []string{"parseElement", "checkInitialAccount"} {
				ev := ev
				isEv := func(in ssa.Instruction, cc *ssa.CallCommon) bool { return core.CallDesc(cc).Name == ev }
				cv := core.NewCheckedVia(fn, func(in ssa.Instruction, cc *ssa.CallCommon) bool {
					if !loop.Body[in.Block()] {
						return false
					}
					if isEv(in, cc) {
						return true
					}
					// a per-entry helper of the parser that succeeds only after the check did
					if h := cc.StaticCallee(); h != nil && h.Pkg == fn.Pkg && h != fn && succeedsOnlyAfter(h, isEv) {
						c.Analysed(fname(h))
						return true
					}
					return false
				})
				q := core.PathQ{Fn: fn, FromBlk: body, Via: cv.Via, ViaEdge: cv.ViaEdge, Target: func(in ssa.Instruction, _ *ssa.BasicBlock) bool { return in == loop.Header.Instrs[0] }}
				esc, p := q.Escape()
				c.Check(esc == nil && len(cv.Calls) > 0 && len(cv.Unhandled) == 0, "C47/process-passes-all-checks", "accountsParser.process/per-entry-"+ev, fn.Pos(),
					"every entry passes "+ev+" (error checked)", "an entry can be accepted without a successful "+ev+": "+c.P.PathString(p))
			}
			// supply accumulated per entry: a call to (*big.Int).Add with the entry's Supply inside the loop
			acc := false
			core.Instrs(fn, func(in ssa.Instruction) {
				if cc := core.CallOf(in); cc != nil && loop.Body[in.Block()] && core.CallDesc(cc).Is("math/big", "Int", "Add") {
					for _, a := range cc.Args {
						if strings.HasSuffix(core.ExprKey(a), ".Supply") {
							acc = true
						}
					}
				}
			})
			c.Check(acc, "C47/process-passes-all-checks", "accountsParser.process/supply-accumulated", fn.Pos(), "each entry's Supply is added to the running total", "the entries' supplies are not accumulated")
		}
		mustPassChecked(c, fn, "C47/process-passes-all-checks", "accountsParser.process/duplicates", nil,
			func(in ssa.Instruction, cc *ssa.CallCommon) bool {
				return core.CallDesc(cc).Name == "checkForDuplicates"
			},
			core.NilReturn, nil, "checkForDuplicates succeeds before nil is returned")
		okTotal := false
		comparedAt := func(r *ssa.Return) bool {
			for _, f := range core.FactsAt(r.Block()) {
				if f.Op == "==" && strings.Contains(f.String(), "Cmp(") && strings.Contains(f.String(), "recv.entireSupply") {
					return true
				}
			}
			return false
		}
		for _, r := range core.Returns(fn) {
			if core.NilReturn(r, nil) {
				okTotal = comparedAt(r)
				if !okTotal {
					break
				}
				continue
			}
			// `return ap.checkEntireSupply(total)`: the verdict is the helper's, each nil of which needs the comparison
			call, isCall := core.RetErrOperand(r).(*ssa.Call)
			if !core.SuccessReturn(r, nil) {
				continue
			}
			if !isCall || call.Call.StaticCallee() == nil || call.Call.StaticCallee().Blocks == nil || call.Call.StaticCallee().Pkg != fn.Pkg {
				continue
			}
			h := call.Call.StaticCallee()
			nNil, all := 0, true
			for _, hr := range core.Returns(h) {
				if core.NilReturn(hr, nil) {
					nNil++
					all = all && comparedAt(hr)
				} else if core.SuccessReturn(hr, nil) {
					all = false // a further delegation is not followed
				}
			}
			if nNil > 0 {
				c.Analysed(fname(h))
				okTotal = all
				if !okTotal {
					break
				}
			}
		}
		c.Check(okTotal, "C47/process-passes-all-checks", "accountsParser.process/total-supply", fn.Pos(), "nil only when the running total equals the entire supply (Cmp == 0)", "nil is returned without the total having been compared with the entire supply")
	}
	if fn := anchorM(c, pkg, "accountsParser", "checkInitialAccount"); fn != nil {
		sc, sum := true, true
		n := 0
		isBig := func(v ssa.Value, name string) *ssa.Call {
			call, ok := v.(*ssa.Call)
			if !ok || !core.CallDesc(&call.Call).Is("math/big", "Int", name) {
				return nil
			}
			return call
		}
		// sumOfParts(v): v is a zero-initialised big.Int to which exactly Balance, StakingValue and
		// Delegation.Value of the entry are added (in place) before `at`
		// obj: the big.Int object a value denotes (in-place operations return their receiver)
		var obj func(v ssa.Value) ssa.Value
		obj = func(v ssa.Value) ssa.Value {
			if call, ok := v.(*ssa.Call); ok && core.CallDesc(&call.Call).Is("math/big", "Int", "") && len(call.Call.Args) > 0 {
				switch core.CallDesc(&call.Call).Name {
				case "Add", "Sub", "Mul", "Set", "SetUint64", "SetInt64", "Div", "Quo", "Neg", "Abs":
					return obj(call.Call.Args[0])
				}
			}
			return v
		}
		var sumOfPartsIn func(g *ssa.Function, v ssa.Value, at *ssa.BasicBlock) bool
		sumOfParts := func(v ssa.Value, at *ssa.BasicBlock) bool { return sumOfPartsIn(fn, v, at) }
		sumOfPartsIn = func(fn *ssa.Function, v ssa.Value, at *ssa.BasicBlock) bool {
			v = obj(v)
			mk, ok := v.(*ssa.Call)
			// the sum may be built by a helper of the package that returns it: judged there, and only read here
			if ok && mk.Call.StaticCallee() != nil && mk.Call.StaticCallee().Blocks != nil && mk.Call.StaticCallee().Pkg == fn.Pkg && mk.Call.StaticCallee() != fn {
				h := mk.Call.StaticCallee()
				rets := core.Returns(h)
				if len(rets) != 1 || core.RetOperand(rets[0], 0) == nil {
					return false
				}
				readOnly := true
				core.Instrs(fn, func(in ssa.Instruction) {
					if call, isCall := in.(*ssa.Call); isCall && len(call.Call.Args) > 0 && core.CallDesc(&call.Call).Is("math/big", "Int", "") && obj(call.Call.Args[0]) == v {
						if nm := core.CallDesc(&call.Call).Name; nm != "Cmp" && nm != "String" && nm != "Sign" {
							readOnly = false
						}
					}
				})
				c.Analysed(fname(h))
				return readOnly && sumOfPartsIn(h, core.RetOperand(rets[0], 0), rets[0].Block())
			}
			if !ok || !core.CallDesc(&mk.Call).Is("math/big", "", "NewInt") {
				return false
			}
			if z, isC := core.ConstInt(mk.Call.Args[0]); !isC || z != 0 {
				return false
			}
			want := map[string]int{".Balance": 0, ".StakingValue": 0, ".Delegation.Value": 0}
			okAll := true
			core.Instrs(fn, func(in ssa.Instruction) {
				iv, isV := in.(ssa.Value)
				if !isV {
					return
				}
				// any in-place operation on v other than Add / readers spoils the sum
				if call, isCall := iv.(*ssa.Call); isCall && len(call.Call.Args) > 0 && core.CallDesc(&call.Call).Is("math/big", "Int", "") && obj(call.Call.Args[0]) == v {
					nm := core.CallDesc(&call.Call).Name
					if nm != "Add" && nm != "Cmp" && nm != "String" && nm != "Sign" {
						okAll = false
					}
				}
				add := isBig(iv, "Add")
				if add == nil || obj(add.Call.Args[0]) != v {
					return
				}
				if !add.Block().Dominates(at) {
					okAll = false
				}
				for _, a := range add.Call.Args[1:] {
					if obj(a) == v {
						continue
					}
					ak, hit := core.ExprKey(a), false
					for suf := range want {
						if strings.HasSuffix(ak, suf) {
							want[suf]++
							hit = true
						}
					}
					if !hit {
						okAll = false
					}
				}
			})
			for _, k := range want {
				if k != 1 {
					okAll = false
				}
			}
			return okAll
		}
		for _, r := range core.Returns(fn) {
			if !core.NilReturn(r, nil) {
				continue
			}
			n++
			scHere, sumHere := false, false
			for _, cd := range core.CondsAt(r.Block()) {
				f := core.FactOf(cd)
				if f.Op == "T" && strings.Contains(f.A, "IsSmartContractAddress(") && strings.HasPrefix(f.A, "!") && strings.Contains(f.A, "AddressBytes") {
					scHere = true
				}
				// isSupplyCorrect := 0 < Supply && Supply.Cmp(sum) == 0   (conjunction, known true), or the same
				// test stated for the refusal: 0 >= Supply || Supply.Cmp(sum) != 0   (disjunction, known false)
				parts, wantOp := core.Conjuncts(cd.V), token.EQL
				if !cd.Taken {
					parts, wantOp = core.Disjuncts(cd.V), token.NEQ
				}
				for _, cj := range parts {
					bo, isBo := cj.(*ssa.BinOp)
					if !isBo || bo.Op != wantOp {
						continue
					}
					cmp, k := isBig(bo.X, "Cmp"), bo.Y
					if cmp == nil {
						cmp, k = isBig(bo.Y, "Cmp"), bo.X
					}
					if z, isC := core.ConstInt(k); cmp == nil || !isC || z != 0 {
						continue
					}
					a, b := cmp.Call.Args[0], cmp.Call.Args[1]
					if strings.HasSuffix(core.ExprKey(b), ".Supply") {
						a, b = b, a
					}
					if strings.HasSuffix(core.ExprKey(a), ".Supply") && sumOfParts(b, cmp.Block()) {
						sumHere = true
					}
				}
			}
			sc, sum = sc && scHere, sum && sumHere
		}
		c.Check(sc && n > 0, "C47/entry-checks", "checkInitialAccount/not-a-contract-address", fn.Pos(), "nil only past the smart-contract-address test on the decoded address", "an entry can be accepted without the smart-contract-address test on its decoded bytes")
		c.Check(sum && n > 0, "C47/entry-checks", "checkInitialAccount/supply-equals-parts", fn.Pos(), "nil only when Supply == Balance + StakingValue + Delegation.Value", "an entry can be accepted without Supply having been compared with the sum of balance, staked and delegated value")
	}
	if fn := anchorM(c, pkg, "accountsParser", "checkForDuplicates"); fn != nil {
		n := 0
		type helperTest struct {
			site *ssa.Call
			h    *ssa.Function
		}
		var viaHelper []helperTest
		for _, b := range fn.Blocks {
			ifi, ok := b.Instrs[len(b.Instrs)-1].(*ssa.If)
			if !ok {
				continue
			}
			errBranch := false
			for _, s := range b.Succs {
				if core.OnlyErrorReturnsFrom(s, b, nil) {
					errBranch = true
				}
			}
			if !errBranch {
				continue
			}
			n++
			key := core.ExprKey(ifi.Cond)
			// the pair test may be a boolean method of the parser (`if ap.isRepeatedAfter(i) { return err }`): what
			// decides is then what that method branches on before it answers true
			if hc, isCall := ifi.Cond.(*ssa.Call); isCall {
				if h := hc.Call.StaticCallee(); h != nil && h.Blocks != nil && h.Pkg == fn.Pkg && h != fn {
					var keys []string
					for _, hb := range h.Blocks {
						hif, isIf := hb.Instrs[len(hb.Instrs)-1].(*ssa.If)
						if !isIf {
							continue
						}
						for _, sb := range hb.Succs {
							if onlyConstBoolReturnsFrom(sb, true) {
								keys = append(keys, core.ExprKey(hif.Cond))
							}
						}
					}
					for _, hr := range core.Returns(h) {
						if _, isC := core.ConstBool(core.RetOperand(hr, 0)); !isC {
							keys = append(keys, core.ExprKey(core.RetOperand(hr, 0)))
						}
					}
					if len(keys) > 0 {
						sort.Strings(keys)
						key = strings.Join(keys, " ; ")
						c.Analysed(fname(h))
						viaHelper = append(viaHelper, helperTest{hc, h})
					}
				}
			}
			canonical := strings.Contains(key, "AddressBytes(") || strings.Contains(key, "ToLower(") || strings.Contains(key, "ToUpper(") || strings.Contains(key, "EqualFold(")
			raw := strings.Contains(key, ".Address ") || strings.HasSuffix(strings.TrimSuffix(key, ")"), ".Address")
			c.Check(canonical && !raw, "C47/duplicate-test-canonical", fmt.Sprintf("accountsParser.checkForDuplicates#%d", n), ifi.Pos(), "duplicates are detected on decoded address bytes (or a case-normalised form): "+key,
				"the duplicate test compares the raw textual Address fields ("+key+"): the same account written in another letter case is not detected")
		}
		if n == 0 {
			c.Fail("C47/duplicate-test-canonical", "accountsParser.checkForDuplicates", fn.Pos(), "no duplicate test leading to an error found")
		}
		// nowhere in the duplicate detection (including comparators of a sort) may the raw textual address decide anything
		rawCmp := ""
		scope := core.WithAnon(fn)
		for _, ht := range viaHelper {
			scope = append(scope, core.WithAnon(ht.h)...)
		}
		for _, f := range scope {
			core.Instrs(f, func(in ssa.Instruction) {
				b, ok := in.(*ssa.BinOp)
				if !ok {
					return
				}
				switch b.Op {
				case token.EQL, token.NEQ, token.LSS, token.GTR, token.LEQ, token.GEQ:
				default:
					return
				}
				for _, side := range []ssa.Value{b.X, b.Y} {
					if _, fl := core.FieldLoad(side); fl != nil && fl.Name() == "Address" {
						rawCmp = c.P.Pos(b.Pos())
					}
				}
			})
		}
		c.Check(rawCmp == "", "C47/duplicate-test-canonical", "accountsParser.checkForDuplicates/no-textual-ordering", fn.Pos(), "no comparison on the textual Address field",
			"the textual Address field is compared/ordered at "+rawCmp+": entries that denote the same account in different letter case are not brought together")
		// all pairs: the test sits in two nested loops over the entries (or everything is compared through canonical keys above)
		nested := false
		for _, l1 := range core.Loops(fn) {
			for _, l2 := range core.Loops(fn) {
				if l1 != l2 && l1.Body[l2.Header] {
					nested = true
				}
			}
		}
		// ... or the inner loop is the helper's: the call sits in a loop of checkForDuplicates and the helper loops itself
		for _, ht := range viaHelper {
			if core.InnermostLoop(fn, ht.site.Block()) != nil && len(core.Loops(ht.h)) > 0 {
				nested = true
			}
		}
		c.Check(nested, "C47/duplicate-test-canonical", "accountsParser.checkForDuplicates/all-pairs", fn.Pos(), "every pair of entries is compared (nested loops)", "the duplicate test no longer compares every pair of entries")
	}
	c.Floor("C47/process-passes-all-checks", 6)
}
