package rules

import (
	"fmt"
	"go/token"
	"go/types"
	"sort"
	"strings"

	"golang.org/x/tools/go/ssa"

	"verif/checker/internal/core"
)

func init() {
	register(&Rule{
		ID:    "C17",
		Title: "Accepted blocks carry a BFT quorum of signatures",
		Pkgs:  []string{"process/headerCheck", "fallback", "crypto/signing/multisig", "consensus/spos", "consensus/spos/bls"},
		Explain: "Decides structural conditions of the quorum check. (S1) every success exit of HeaderSigVerifier.VerifySignature lies behind: a non-empty bitmap test, the leader-bit test (bitmap[0]&1), a checked " +
			"verifyConsensusSize for the consensus group of the header, and the multi-signature Verify of a verifier created for that same group (tail-returned). (S2) verifyConsensusSize returns nil only when " +
			"the bitmap length equals the expected size derived from the group size and the counted signers reach a threshold derived from core.GetPBFTThreshold / GetPBFTFallbackThreshold of the group size. " +
			"(S3, member-bounded count) the value compared with the threshold counts only bits that designate a member: accepted idioms are a per-member loop bounded by the group size, or a population count of " +
			"masked bytes; a population count over raw bitmap bytes also counts the padding bits of the last byte, which the multi-signature verifier ignores, so fewer real signers than the threshold are accepted. " +
			"(S3) the lower fallback threshold is earned only by a metachain start-of-epoch header whose previous header was found, and the round distance is not an unguarded unsigned subtraction. (S4) blsMultiSigner.Verify tests every member index once (counter advanced by exactly one, no early exit) and adds the member's key on every pass where the bitmap test succeeded, so the keys verified are the members the quorum test counted. " +
			"Writer and readers of the signers bitmap agree: every access b[x/8] &/| m has m = 1 << (x % 8) for the same x. " +
			"Not decided (value-level): distinctness of group members, the BLS aggregation itself.",
		Run: runC17,
	})
}

func runC17(c *core.Ctx) {
	c17BitmapAccessorsAgree(c)
	const pkg = "process/headerCheck"
	c17Fallback(c)
	c17MultisigCoversBitmap(c)
	vs := anchorM(c, pkg, "HeaderSigVerifier", "VerifySignature")
	vcs := anchorM(c, pkg, "HeaderSigVerifier", "verifyConsensusSize")
	if vs == nil || vcs == nil {
		return
	}
	// ---- S1
	var group ssa.Value
	mustPassChecked(c, vs, "C17/verify-passes-all-checks", "VerifySignature/consensus-size", nil,
		func(in ssa.Instruction, cc *ssa.CallCommon) bool {
			if core.CallDesc(cc).Is(pkg, "HeaderSigVerifier", "verifyConsensusSize") {
				group = cc.Args[1]
				return true
			}
			return false
		}, core.SuccessReturn, nil, "verifyConsensusSize (error checked) precedes every success exit")
	okVerify := false
	why := "no success exit returns verifier.Verify(...)"
	for _, r := range core.Returns(vs) {
		if !core.SuccessReturn(r, nil) {
			continue
		}
		call, ok := core.RetErrOperand(r).(*ssa.Call)
		if !ok || !isInvoke(&call.Call, "Verify") {
			okVerify, why = false, "a success exit does not return the result of the multi-signature Verify: "+c.P.Pos(r.Pos())
			break
		}
		// verifier comes from multiSigVerifier.Create(group, ...)
		ex, isEx := call.Call.Value.(*ssa.Extract)
		if !isEx {
			okVerify, why = false, "the verifier is not the result of multiSigVerifier.Create"
			break
		}
		cr, isCall := ex.Tuple.(*ssa.Call)
		// the verifier may come from a method of the verifier that creates it for the group it is handed
		// (and, say, loads the aggregated signature): every verifier it answers is Create(param, ...)
		if isCall && !isInvoke(&cr.Call, "Create") {
			if h := cr.Call.StaticCallee(); h != nil && h.Blocks != nil && h.Pkg == vs.Pkg {
				good, any := true, false
				for _, hr := range core.Returns(h) {
					if !core.SuccessReturn(hr, nil) {
						continue
					}
					hex, isHex := core.RetOperand(hr, 0).(*ssa.Extract)
					var hcr *ssa.Call
					if isHex {
						hcr, _ = hex.Tuple.(*ssa.Call)
					}
					if hcr == nil || !isInvoke(&hcr.Call, "Create") {
						good = false
						continue
					}
					okArg := false
					for i, p := range h.Params {
						if ssa.Value(p) == hcr.Call.Args[0] && i < len(cr.Call.Args) && cr.Call.Args[i] == group {
							okArg = true
						}
					}
					good, any = good && okArg, true
				}
				if good && any {
					c.Analysed(fname(h))
					if !strings.Contains(core.ExprKey(call.Call.Args[1]), "GetPubKeysBitmap") {
						okVerify, why = false, "Verify is not given the header's public keys bitmap"
						break
					}
					okVerify = true
					continue
				}
			}
		}
		if !isCall || !isInvoke(&cr.Call, "Create") || cr.Call.Args[0] != group {
			okVerify, why = false, "the verifier is not created for the consensus group whose size was checked"
			break
		}
		// bitmap argument is the header's bitmap
		if !strings.Contains(core.ExprKey(call.Call.Args[1]), "GetPubKeysBitmap") {
			okVerify, why = false, "Verify is not given the header's public keys bitmap"
			break
		}
		okVerify = true
	}
	c.Check(okVerify, "C17/verify-passes-all-checks", "VerifySignature/multisig-verify", vs.Pos(), "success only as the result of Verify(hash, header bitmap) on a verifier created for the checked group", why)
	// guards known at the Verify call
	var verifyBlk *ssa.BasicBlock
	for _, in := range core.CallsIn(vs, func(in ssa.Instruction, cc *ssa.CallCommon) bool { return isInvoke(cc, "Verify") }) {
		verifyBlk = in.Block()
	}
	if verifyBlk != nil {
		nonEmpty, leader := false, false
		for _, f := range core.FactsAt(verifyBlk) {
			if strings.Contains(f.String(), "len(") && strings.Contains(f.String(), "GetPubKeysBitmap") {
				if lb, ok := f.LowerBound(f.B); ok && lb >= 1 {
					nonEmpty = true
				}
				if f.Op == "!=" && (f.A == "0" || f.B == "0") {
					nonEmpty = true
				}
			}
			for _, side := range []string{f.A, f.B} {
				if strings.Contains(side, "[0]") && (strings.Contains(side, "& 1)") || strings.Contains(side, "(1 &")) {
					// (bitmap[0] & 1) != 0, == 1, >= 1: the masked bit is known to be set
					if lb, ok := f.LowerBound(side); ok && lb >= 1 {
						leader = true
					}
				}
			}
		}
		c.Check(nonEmpty, "C17/verify-passes-all-checks", "VerifySignature/bitmap-non-empty", vs.Pos(), "an empty bitmap is rejected first", "no dominating test rejects an empty bitmap")
		c.Check(leader, "C17/verify-passes-all-checks", "VerifySignature/leader-bit", vs.Pos(), "the leader's bit (bitmap[0]&1) is required", "no dominating test requires the leader's signature bit")
	}
	c.Floor("C17/verify-passes-all-checks", 4)

	// ---- S2
	groupParam := vcs.Params[1]
	sizeKey := "len(p1)"
	var countV ssa.Value
	for i, r := range core.Returns(vcs) {
		if !core.NilReturn(r, nil) {
			continue
		}
		name := fmt.Sprintf("verifyConsensusSize/nil-return#%d", i)
		lenOK, thrOK := false, false
		for _, cd := range core.CondsAt(r.Block()) {
			f := core.FactOf(cd)
			if f.Op == "==" && strings.Contains(f.String(), "GetPubKeysBitmap") && strings.Contains(f.String(), "len(") {
				// other side derives from the group size
				if b, ok := cd.V.(*ssa.BinOp); ok {
					for _, side := range []ssa.Value{b.X, b.Y} {
						if !strings.Contains(core.ExprKey(side), "GetPubKeysBitmap") {
							for v := range core.BackwardReach(side) {
								if core.ExprKey(v) == sizeKey {
									lenOK = true
								}
							}
						}
					}
				}
			}
			if f.Op == "<=" || f.Op == "<" {
				if b, ok := cd.V.(*ssa.BinOp); ok {
					// f.A <= f.B : threshold <= count
					var thr, cnt ssa.Value
					if core.ExprKey(b.X) == f.A {
						thr, cnt = b.X, b.Y
					} else {
						thr, cnt = b.Y, b.X
					}
					// every threshold that can reach the comparison (normal and fallback) is computed from the group size
					okT, nThr := true, 0
					for v := range core.BackwardReach(thr) {
						if call, ok := v.(*ssa.Call); ok {
							d := core.CallDesc(&call.Call)
							if (d.Name == "GetPBFTThreshold" || d.Name == "GetPBFTFallbackThreshold") && len(call.Call.Args) == 1 {
								nThr++
								if core.ExprKey(call.Call.Args[0]) != sizeKey {
									okT = false
								}
							}
						}
					}
					if nThr == 0 {
						okT = false
					}
					if okT {
						thrOK = true
						countV = cnt
					}
				}
			}
		}
		c.Check(lenOK, "C17/size-and-threshold", name+"/bitmap-length", r.Pos(), "bitmap length equals the size expected for the group", "nil is returned without the bitmap length matching the group size")
		c.Check(thrOK, "C17/size-and-threshold", name+"/threshold", r.Pos(), "count ≥ PBFT threshold of the group size", "nil is returned without the signer count reaching a threshold derived from GetPBFTThreshold(len(group))")
	}
	_ = groupParam
	c.Floor("C17/size-and-threshold", 2)

	// ---- S3
	if countV == nil {
		c.Undecided("C17/count-bounded-by-group", "HeaderSigVerifier.verifyConsensusSize", vcs.Pos(), "the counted value compared with the threshold was not identified")
		return
	}
	// the count may be produced by a helper of the package (one return): the accumulation is then the
	// helper's, and a collection the helper ranges over is named by the argument it was handed
	var via *ssa.Call
	if call, isCall := countV.(*ssa.Call); isCall {
		if h := call.Call.StaticCallee(); h != nil && h.Blocks != nil && h.Pkg == vcs.Pkg {
			if rets := core.Returns(h); len(rets) == 1 && core.RetOperand(rets[0], 0) != nil {
				via, countV = call, core.RetOperand(rets[0], 0)
				c.Analysed(fname(h))
			}
		}
	}
	argName := func(v ssa.Value) string {
		if p, isP := v.(*ssa.Parameter); isP && via != nil {
			for i, hp := range via.Call.StaticCallee().Params {
				if hp == p && i < len(via.Call.Args) {
					return core.ExprKey(via.Call.Args[i])
				}
			}
		}
		return core.ExprKey(v)
	}
	incs := accumulationTerms(countV)
	if len(incs) == 0 {
		c.Undecided("C17/count-bounded-by-group", "HeaderSigVerifier.verifyConsensusSize", vcs.Pos(), "the signer count is not a recognised accumulation")
		return
	}
	ok, detail := true, ""
	for _, t := range incs {
		switch x := t.term.(type) {
		case *ssa.Const:
			// +1 per iteration: the loop must be bounded by the group size
			bounded := false
			if l := core.InnermostLoop(t.at.Parent(), t.at.Block()); l != nil {
				for _, in := range l.Header.Instrs {
					if b, isB := in.(*ssa.BinOp); isB && (b.Op == token.LSS || b.Op == token.LEQ) {
						for v := range core.BackwardReach(b.Y) {
							if core.ExprKey(v) == sizeKey {
								bounded = true
							}
						}
					}
				}
			}
			if !bounded {
				ok, detail = false, "the counter is incremented in a loop that is not bounded by the group size"
			}
		case *ssa.Call, *ssa.Convert:
			var call *ssa.Call
			if cv, isCv := x.(*ssa.Convert); isCv {
				call, _ = cv.X.(*ssa.Call)
			} else {
				call = x.(*ssa.Call)
			}
			if call == nil || !strings.HasPrefix(core.CallDesc(&call.Call).Name, "OnesCount") {
				ok, detail = false, "unrecognised increment "+core.ExprKey(t.term)
				break
			}
			masked := false
			for v := range core.BackwardReach(call.Call.Args[0]) {
				if b, isB := v.(*ssa.BinOp); isB && b.Op == token.AND {
					masked = true
				}
			}
			if !masked {
				ok, detail = false, "bits.OnesCount8 is applied to raw bitmap bytes: the padding bits of the last byte are counted as signers although the multi-signature verifier ignores them (a group of 63 with 42 real signers and padding bit 63 set passes the 43 threshold)"
			}
		default:
			ok, detail = false, "unrecognised increment "+core.ExprKey(t.term)
		}
	}
	// the construct carries a fingerprint of WHAT is accumulated (term and the collection its loop ranges
	// over), so that a listed finding about one way of counting does not hide another way of miscounting
	var fp []string
	for _, t := range incs {
		src := "?"
		if l := core.InnermostLoop(t.at.Parent(), t.at.Block()); l != nil {
			if rs := l.RangeSource(); rs != nil {
				src = "range " + argName(rs)
			} else {
				src = "loop"
			}
			// every element once: a range loop, or a counter that starts at 0 and advances by one
			if rs := l.RangeSource(); rs == nil {
				ok, detail = false, "the signer count is accumulated in a loop that is not a range over the bitmap: elements can be skipped or visited twice"
			} else {
				for _, in := range l.Header.Instrs {
					ph, isPhi := in.(*ssa.Phi)
					if !isPhi {
						continue
					}
					if b, isB := ph.Type().Underlying().(*types.Basic); !isB || b.Info()&types.IsInteger == 0 {
						continue
					}
					isCounter := false
					for i, p := range l.Header.Preds {
						if l.Body[p] {
							if add, isAdd := ph.Edges[i].(*ssa.BinOp); isAdd && add.Op == token.ADD && add.X == ssa.Value(ph) {
								if n, isC := core.ConstInt(add.Y); isC && n == 1 {
									isCounter = true
								}
							}
						}
					}
					if !isCounter || !core.BackwardReachPure(t.term)[ph] {
						continue
					}
					for i, p := range l.Header.Preds {
						if l.Body[p] {
							continue
						}
						if n, isC := core.ConstInt(ph.Edges[i]); !isC || (n != 0 && n != -1) {
							ok, detail = false, "the loop that accumulates "+core.ExprKey(t.term)+" does not start at the first element ("+core.ExprKey(ph.Edges[i])+"): part of the bitmap is skipped or, together with another loop, counted twice"
						}
					}
				}
			}
		}
		termKey := "?"
		switch x := t.term.(type) {
		case *ssa.Call:
			termKey = core.CallDesc(&x.Call).Name
		case *ssa.Convert:
			if call, isCall := x.X.(*ssa.Call); isCall {
				termKey = core.CallDesc(&call.Call).Name
			}
		case *ssa.Const:
			termKey = "const"
		}
		fp = append(fp, termKey+" over "+src)
	}
	sort.Strings(fp)
	c.Check(ok, "C17/count-bounded-by-group", "HeaderSigVerifier.verifyConsensusSize["+strings.Join(fp, "; ")+"]", vcs.Pos(), "the counted value only counts bits that designate a group member", detail)
}

type accTerm struct {
	term ssa.Value
	at   ssa.Instruction
}

// accumulationTerms returns the terms added into an accumulator value (phi of `acc + term`).
func accumulationTerms(v ssa.Value) []accTerm {
	var out []accTerm
	seen := map[ssa.Value]bool{}
	var visit func(x ssa.Value)
	visit = func(x ssa.Value) {
		if seen[x] {
			return
		}
		seen[x] = true
		switch t := x.(type) {
		case *ssa.Phi:
			for _, e := range t.Edges {
				visit(e)
			}
		case *ssa.BinOp:
			if t.Op == token.ADD {
				for _, pair := range [][2]ssa.Value{{t.X, t.Y}, {t.Y, t.X}} {
					if _, isPhi := pair[0].(*ssa.Phi); isPhi {
						out = append(out, accTerm{pair[1], t})
						visit(pair[0])
						return
					}
				}
			}
		}
	}
	visit(v)
	return out
}

// c17Fallback: the lower (fallback) threshold is earned only by a start-of-epoch metablock whose
// previous header is known and old enough; the round distance must not wrap.
func c17Fallback(c *core.Ctx) {
	fn := anchorM(c, "fallback", "fallbackHeaderValidator", "ShouldApplyFallbackValidation")
	if fn == nil {
		return
	}
	c.Analysed(fname(fn))
	n := 0
	for _, r := range core.Returns(fn) {
		v := core.RetOperand(r, 0)
		if b, isC := core.ConstBool(v); isC && !b {
			continue
		}
		n++
		meta, soe, prev := false, false, false
		for _, cd := range core.CondsAt(r.Block()) {
			for x := range core.BackwardReachPure(cd.V) {
				call, ok := x.(*ssa.Call)
				if !ok {
					continue
				}
				switch {
				case call.Call.IsInvoke() && call.Call.Method.Name() == "GetShardID":
					f := core.FactOf(cd)
					if f.Op == "==" {
						meta = true
					}
				case call.Call.IsInvoke() && call.Call.Method.Name() == "IsStartOfEpochBlock":
					if cd.Taken == !isNegated(cd.V) {
						soe = true
					}
				case call.Call.StaticCallee() != nil && call.Call.StaticCallee().Name() == "GetMetaHeader":
					if core.KnownNil(core.ErrResult(call), []core.Cond{cd}) {
						prev = true
					}
				}
			}
		}
		c.Check(meta && soe && prev, "C17/fallback-threshold-only-when-earned", fmt.Sprintf("ShouldApplyFallbackValidation/true-return#%d", n), r.Pos(),
			"`true` only for a metachain start-of-epoch header whose previous header was found",
			fmt.Sprintf("`true` can be returned without all of: shard == metachain (%v), IsStartOfEpochBlock (%v), previous header found (%v): ordinary blocks get the lower signature threshold", meta, soe, prev))
	}
	bad := ""
	subs := core.UnsignedSubs(fn)
	for _, s := range subs {
		if !s.Guarded {
			bad = fmt.Sprintf("%s at %s: %s", core.ExprKey(s.Op), c.P.Pos(s.Op.Pos()), s.Why)
		}
	}
	c.Check(bad == "", "C17/fallback-threshold-only-when-earned", "ShouldApplyFallbackValidation/round-distance", fn.Pos(),
		fmt.Sprintf("the round distance is not an unguarded unsigned subtraction (%d unsigned subtraction(s))", len(subs)),
		"the round distance is an unsigned subtraction that wraps when the header's round is below its predecessor's: the header counts as 'too old' and gets the lower threshold: "+bad)
	c.Floor("C17/fallback-threshold-only-when-earned", 2)
}

func isNegated(v ssa.Value) bool {
	u, ok := v.(*ssa.UnOp)
	return ok && u.Op == token.NOT
}

// c17MultisigCoversBitmap: the key set the aggregated signature is verified against is exactly
// the members whose bit is set: the loop over the members visits every index (advance by one,
// no early exit) and adds the member's key on every pass where the bitmap test succeeded.
func c17MultisigCoversBitmap(c *core.Ctx) {
	const pkg = "crypto/signing/multisig"
	fn := anchorM(c, pkg, "blsMultiSigner", "Verify")
	if fn == nil {
		return
	}
	c.Analysed(fname(fn))
	var loop *core.Loop
	var test *ssa.Call
	isTest := func(in ssa.Instruction, cc *ssa.CallCommon) bool {
		return cc.StaticCallee() != nil && cc.StaticCallee().Name() == "isIndexInBitmap"
	}
	// the selection loop may live in a method of the signer that Verify calls to obtain the keys it verifies with
	if len(core.CallsIn(fn, isTest)) == 0 {
		for _, in := range core.CallsIn(fn, func(_ ssa.Instruction, cc *ssa.CallCommon) bool {
			h := cc.StaticCallee()
			return h != nil && h.Blocks != nil && h.Pkg == fn.Pkg && h != fn && len(core.CallsIn(h, isTest)) > 0
		}) {
			// its result is what reaches the low-level verification
			used := false
			for _, v := range core.CallsIn(fn, func(_ ssa.Instruction, cc *ssa.CallCommon) bool { return isInvoke(cc, "VerifyAggregatedSig") }) {
				for _, a := range core.CallOf(v).Args {
					if a == in.(ssa.Value) {
						used = true
					}
				}
			}
			if used {
				fn = core.CallOf(in).StaticCallee()
				c.Analysed(fname(fn))
			}
		}
	}
	for _, in := range core.CallsIn(fn, isTest) {
		test = in.(*ssa.Call)
		loop = core.InnermostLoop(fn, in.Block())
	}
	if test == nil || loop == nil {
		c.Undecided("C17/verified-keys-are-the-bitmap-members", "blsMultiSigner.Verify", fn.Pos(), "no loop testing member indexes against the bitmap")
		return
	}
	hdr := loop.Header
	// induction variable: the header phi the tested index derives from
	var ind *ssa.Phi
	for x := range core.BackwardReachPure(test.Call.Args[1]) {
		if ph, ok := x.(*ssa.Phi); ok && ph.Block() == hdr {
			ind = ph
		}
	}
	okStep, why := ind != nil, "the tested index does not derive from the loop counter"
	if ind != nil {
		// range loops keep the counter as phi(-1, phi+1) and use phi+1; classic loops phi(0, phi+1)
		for i, p := range hdr.Preds {
			if !loop.Body[p] {
				continue
			}
			e := ind.Edges[i]
			add, isAdd := e.(*ssa.BinOp)
			if isAdd && add.Op == token.ADD && add.X == ssa.Value(ind) {
				if n, isC := core.ConstInt(add.Y); isC && n == 1 {
					continue
				}
			}
			okStep, why = false, "the loop counter is advanced by something other than exactly one on a pass ("+core.ExprKey(e)+")"
		}
	}
	if okStep {
		if w := loopComplete(c, loop, nil); w != "" {
			okStep, why = false, w
		}
	}
	c.Check(okStep, "C17/verified-keys-are-the-bitmap-members", "blsMultiSigner.Verify/every-member-visited", test.Pos(),
		"the loop tests every member index once (counter advanced by one, no early exit)",
		why+": a member whose bit is set (and is counted by the quorum test) does not contribute its key to the verification")
	// every pass on which the bitmap test succeeded appends a key
	edges, _, handled := core.ErrNilEdges(test)
	isAppend := func(in ssa.Instruction) bool {
		call, ok := in.(*ssa.Call)
		if !ok || !loop.Body[in.Block()] {
			return false
		}
		b, ok := call.Call.Value.(*ssa.Builtin)
		return ok && b.Name() == "append"
	}
	okApp, whyApp := handled && len(edges) > 0, "the result of the bitmap test is not branched on"
	for e := range edges {
		from := fn.Blocks[e[0]].Succs[e[1]]
		esc, path := core.PathQ{Fn: fn, FromBlk: from, Via: isAppend,
			Target: func(in ssa.Instruction, _ *ssa.BasicBlock) bool { return in == hdr.Instrs[0] }}.Escape()
		if esc != nil {
			okApp, whyApp = false, "a pass on which the member's bit is set reaches the next pass without adding the member's key ("+c.P.PathString(path)+")"
		}
	}
	c.Check(okApp, "C17/verified-keys-are-the-bitmap-members", "blsMultiSigner.Verify/member-key-added", test.Pos(),
		"every pass on which isIndexInBitmap succeeded appends to the key list", whyApp)
	c.Floor("C17/verified-keys-are-the-bitmap-members", 2)
}

// c17BitmapAccessorsAgree: the signers' bitmap is written by the consensus state and read by the
// end-round subround and by the multi-signer; all of them address member x as bit (x mod 8) of byte
// (x div 8). Every access of the form b[x/8] &/| m in those packages has m = 1 << (x % 8) for the
// same x: a mask built any other way (e.g. `1<<uint8(x)%8`, which Go parses as (1<<x)%8) selects no
// member beyond position 2, or the wrong one, and the verified key set is no longer the bitmap's.
func c17BitmapAccessorsAgree(c *core.Ctx) {
	n := 0
	for _, rel := range []string{"crypto/signing/multisig", "consensus/spos", "consensus/spos/bls"} {
		for _, fn := range c.P.FuncsOfPkg(rel) {
			k := 0
			core.Instrs(fn, func(in ssa.Instruction) {
				bo, ok := in.(*ssa.BinOp)
				if !ok || (bo.Op != token.AND && bo.Op != token.OR && bo.Op != token.AND_NOT) {
					return
				}
				// one operand is b[q] with q = x / 8 (or x >> 3)
				narrowed := ""
				byteOf := func(v ssa.Value) ssa.Value {
					ld, ok := v.(*ssa.UnOp)
					if !ok || ld.Op != token.MUL {
						return nil
					}
					ia, ok := ld.X.(*ssa.IndexAddr)
					if !ok {
						return nil
					}
					q, ok := stripConv(ia.Index).(*ssa.BinOp)
					if !ok {
						return nil
					}
					d, isC := core.ConstInt(q.Y)
					if isC && ((q.Op == token.QUO && d == 8) || (q.Op == token.SHR && d == 3)) {
						// a conversion that narrows x BEFORE the division drops the high bits of the position
						for v := q.X; ; {
							cv, isCv := v.(*ssa.Convert)
							if !isCv {
								break
							}
							if sizeOfType(cv.Type()) < sizeOfType(cv.X.Type()) {
								narrowed = core.ExprKey(cv)
							}
							v = cv.X
						}
						return stripConv(q.X)
					}
					return nil
				}
				x, m := byteOf(bo.X), bo.Y
				if x == nil {
					x, m = byteOf(bo.Y), bo.X
				}
				if x == nil {
					return
				}
				k++
				n++
				c.Sites++
				c.Analysed(fname(fn))
				good, why := false, "the mask is not 1 << (...)"
				if sh, isSh := stripConv(m).(*ssa.BinOp); isSh && sh.Op == token.SHL {
					one, isOne := core.ConstInt(sh.X)
					r, isR := stripConv(sh.Y).(*ssa.BinOp)
					switch {
					case !isOne || one != 1:
						why = "the value shifted is not the constant 1"
					case !isR:
						why = "the shift count is " + core.ExprKey(sh.Y) + ", not (x mod 8)"
					default:
						d, isC := core.ConstInt(r.Y)
						if isC && ((r.Op == token.REM && d == 8) || (r.Op == token.AND && d == 7)) && core.ExprKey(stripConv(r.X)) == core.ExprKey(x) {
							good = true
						} else {
							why = "the shift count is " + core.ExprKey(sh.Y) + ", not (x mod 8) of the x that selects the byte"
						}
					}
				} else if isSh {
					why = "the mask is " + core.ExprKey(m)
				}
				if good && narrowed != "" {
					good, why = false, "the position is narrowed ("+narrowed+") before it is divided by 8: members beyond the narrow type's range address the bytes of other members"
				}
				c.Check(good, "C17/bitmap-accessors-agree", fmt.Sprintf("%s/bit#%d", fname(fn), k), bo.Pos(),
					"member x is bit (x mod 8) of byte (x div 8)",
					"a bitmap access addresses byte x/8 but "+why+": writer and readers of the signers' bitmap no longer agree on which bit is member x, so the keys verified are not the members the bitmap names")
			})
		}
	}
	c.Floor("C17/bitmap-accessors-agree", 3)
}

func sizeOfType(t types.Type) int {
	b, ok := t.Underlying().(*types.Basic)
	if !ok {
		return 0
	}
	return sizeOfBasic(b)
}
