package rules

import (
	"fmt"
	"go/token"
	"strings"

	"golang.org/x/tools/go/ssa"

	"verif/checker/internal/core"
)

func init() {
	register(&Rule{
		ID:    "C17",
		Title: "Accepted blocks carry a BFT quorum of signatures",
		Pkgs:  []string{"process/headerCheck"},
		Explain: "Decides structural conditions of the quorum check. (S1) every success exit of HeaderSigVerifier.VerifySignature lies behind: a non-empty bitmap test, the leader-bit test (bitmap[0]&1), a checked " +
			"verifyConsensusSize for the consensus group of the header, and the multi-signature Verify of a verifier created for that same group (tail-returned). (S2) verifyConsensusSize returns nil only when " +
			"the bitmap length equals the expected size derived from the group size and the counted signers reach a threshold derived from core.GetPBFTThreshold / GetPBFTFallbackThreshold of the group size. " +
			"(S3, member-bounded count) the value compared with the threshold counts only bits that designate a member: accepted idioms are a per-member loop bounded by the group size, or a population count of " +
			"masked bytes; a population count over raw bitmap bytes also counts the padding bits of the last byte, which the multi-signature verifier ignores, so fewer real signers than the threshold are accepted. " +
			"Not decided (value-level): distinctness of group members, the BLS aggregation itself.",
		Run: runC17,
	})
}

func runC17(c *core.Ctx) {
	const pkg = "process/headerCheck"
	vs := anchorM(c, pkg, "HeaderSigVerifier", "VerifySignature")
	vcs := anchorM(c, pkg, "HeaderSigVerifier", "verifyConsensusSize")
	if vs == nil || vcs == nil {
		return
	}
	// ---- S1
	var group ssa.Value
	mustPassChecked(c, vs, "C17/verify-passes-all-checks", "VerifySignature/consensus-size", nil,
		func(in ssa.Instruction, cc *ssa.CallCommon) bool {
			if core.CallDesc(cc).Is(pkg, "HeaderSigVerifier", "verifyConsensusSize") {
				group = cc.Args[1]
				return true
			}
			return false
		}, core.SuccessReturn, nil, "verifyConsensusSize (error checked) precedes every success exit")
	okVerify := false
	why := "no success exit returns verifier.Verify(...)"
	for _, r := range core.Returns(vs) {
		if !core.SuccessReturn(r, nil) {
			continue
		}
		call, ok := core.RetErrOperand(r).(*ssa.Call)
		if !ok || !isInvoke(&call.Call, "Verify") {
			okVerify, why = false, "a success exit does not return the result of the multi-signature Verify: "+c.P.Pos(r.Pos())
			break
		}
		// verifier comes from multiSigVerifier.Create(group, ...)
		ex, isEx := call.Call.Value.(*ssa.Extract)
		if !isEx {
			okVerify, why = false, "the verifier is not the result of multiSigVerifier.Create"
			break
		}
		cr, isCall := ex.Tuple.(*ssa.Call)
		if !isCall || !isInvoke(&cr.Call, "Create") || cr.Call.Args[0] != group {
			okVerify, why = false, "the verifier is not created for the consensus group whose size was checked"
			break
		}
		// bitmap argument is the header's bitmap
		if !strings.Contains(core.ExprKey(call.Call.Args[1]), "GetPubKeysBitmap") {
			okVerify, why = false, "Verify is not given the header's public keys bitmap"
			break
		}
		okVerify = true
	}
	c.Check(okVerify, "C17/verify-passes-all-checks", "VerifySignature/multisig-verify", vs.Pos(), "success only as the result of Verify(hash, header bitmap) on a verifier created for the checked group", why)
	// guards known at the Verify call
	var verifyBlk *ssa.BasicBlock
	for _, in := range core.CallsIn(vs, func(in ssa.Instruction, cc *ssa.CallCommon) bool { return isInvoke(cc, "Verify") }) {
		verifyBlk = in.Block()
	}
	if verifyBlk != nil {
		nonEmpty, leader := false, false
		for _, f := range core.FactsAt(verifyBlk) {
			if strings.Contains(f.String(), "len(") && strings.Contains(f.String(), "GetPubKeysBitmap") {
				if lb, ok := f.LowerBound(f.B); ok && lb >= 1 {
					nonEmpty = true
				}
				if f.Op == "!=" && (f.A == "0" || f.B == "0") {
					nonEmpty = true
				}
			}
			for _, side := range []string{f.A, f.B} {
				if strings.Contains(side, "[0]") && (strings.Contains(side, "& 1)") || strings.Contains(side, "(1 &")) {
					// (bitmap[0] & 1) != 0, == 1, >= 1: the masked bit is known to be set
					if lb, ok := f.LowerBound(side); ok && lb >= 1 {
						leader = true
					}
				}
			}
		}
		c.Check(nonEmpty, "C17/verify-passes-all-checks", "VerifySignature/bitmap-non-empty", vs.Pos(), "an empty bitmap is rejected first", "no dominating test rejects an empty bitmap")
		c.Check(leader, "C17/verify-passes-all-checks", "VerifySignature/leader-bit", vs.Pos(), "the leader's bit (bitmap[0]&1) is required", "no dominating test requires the leader's signature bit")
	}
	c.Floor("C17/verify-passes-all-checks", 4)

	// ---- S2
	groupParam := vcs.Params[1]
	sizeKey := "len(p1)"
	var countV ssa.Value
	for i, r := range core.Returns(vcs) {
		if !core.NilReturn(r, nil) {
			continue
		}
		name := fmt.Sprintf("verifyConsensusSize/nil-return#%d", i)
		lenOK, thrOK := false, false
		for _, cd := range core.CondsAt(r.Block()) {
			f := core.FactOf(cd)
			if f.Op == "==" && strings.Contains(f.String(), "GetPubKeysBitmap") && strings.Contains(f.String(), "len(") {
				// other side derives from the group size
				if b, ok := cd.V.(*ssa.BinOp); ok {
					for _, side := range []ssa.Value{b.X, b.Y} {
						if !strings.Contains(core.ExprKey(side), "GetPubKeysBitmap") {
							for v := range core.BackwardReach(side) {
								if core.ExprKey(v) == sizeKey {
									lenOK = true
								}
							}
						}
					}
				}
			}
			if f.Op == "<=" || f.Op == "<" {
				if b, ok := cd.V.(*ssa.BinOp); ok {
					// f.A <= f.B : threshold <= count
					var thr, cnt ssa.Value
					if core.ExprKey(b.X) == f.A {
						thr, cnt = b.X, b.Y
					} else {
						thr, cnt = b.Y, b.X
					}
					okT := false
					for v := range core.BackwardReach(thr) {
						if call, ok := v.(*ssa.Call); ok {
							d := core.CallDesc(&call.Call)
							if (d.Name == "GetPBFTThreshold" || d.Name == "GetPBFTFallbackThreshold") && len(call.Call.Args) == 1 && core.ExprKey(call.Call.Args[0]) == sizeKey {
								okT = true
							}
						}
					}
					if okT {
						thrOK = true
						countV = cnt
					}
				}
			}
		}
		c.Check(lenOK, "C17/size-and-threshold", name+"/bitmap-length", r.Pos(), "bitmap length equals the size expected for the group", "nil is returned without the bitmap length matching the group size")
		c.Check(thrOK, "C17/size-and-threshold", name+"/threshold", r.Pos(), "count ≥ PBFT threshold of the group size", "nil is returned without the signer count reaching a threshold derived from GetPBFTThreshold(len(group))")
	}
	_ = groupParam
	c.Floor("C17/size-and-threshold", 2)

	// ---- S3
	if countV == nil {
		c.Undecided("C17/count-bounded-by-group", "HeaderSigVerifier.verifyConsensusSize", vcs.Pos(), "the counted value compared with the threshold was not identified")
		return
	}
	incs := accumulationTerms(countV)
	if len(incs) == 0 {
		c.Undecided("C17/count-bounded-by-group", "HeaderSigVerifier.verifyConsensusSize", vcs.Pos(), "the signer count is not a recognised accumulation")
		return
	}
	ok, detail := true, ""
	for _, t := range incs {
		switch x := t.term.(type) {
		case *ssa.Const:
			// +1 per iteration: the loop must be bounded by the group size
			bounded := false
			if l := core.InnermostLoop(vcs, t.at.Block()); l != nil {
				for _, in := range l.Header.Instrs {
					if b, isB := in.(*ssa.BinOp); isB && (b.Op == token.LSS || b.Op == token.LEQ) {
						for v := range core.BackwardReach(b.Y) {
							if core.ExprKey(v) == sizeKey {
								bounded = true
							}
						}
					}
				}
			}
			if !bounded {
				ok, detail = false, "the counter is incremented in a loop that is not bounded by the group size"
			}
		case *ssa.Call, *ssa.Convert:
			var call *ssa.Call
			if cv, isCv := x.(*ssa.Convert); isCv {
				call, _ = cv.X.(*ssa.Call)
			} else {
				call = x.(*ssa.Call)
			}
			if call == nil || !strings.HasPrefix(core.CallDesc(&call.Call).Name, "OnesCount") {
				ok, detail = false, "unrecognised increment "+core.ExprKey(t.term)
				break
			}
			masked := false
			for v := range core.BackwardReach(call.Call.Args[0]) {
				if b, isB := v.(*ssa.BinOp); isB && b.Op == token.AND {
					masked = true
				}
			}
			if !masked {
				ok, detail = false, "bits.OnesCount8 is applied to raw bitmap bytes: the padding bits of the last byte are counted as signers although the multi-signature verifier ignores them (a group of 63 with 42 real signers and padding bit 63 set passes the 43 threshold)"
			}
		default:
			ok, detail = false, "unrecognised increment "+core.ExprKey(t.term)
		}
	}
	c.Check(ok, "C17/count-bounded-by-group", "HeaderSigVerifier.verifyConsensusSize", vcs.Pos(), "the counted value only counts bits that designate a group member", detail)
}

type accTerm struct {
	term ssa.Value
	at   ssa.Instruction
}

// accumulationTerms returns the terms added into an accumulator value (phi of `acc + term`).
func accumulationTerms(v ssa.Value) []accTerm {
	var out []accTerm
	seen := map[ssa.Value]bool{}
	var visit func(x ssa.Value)
	visit = func(x ssa.Value) {
		if seen[x] {
			return
		}
		seen[x] = true
		switch t := x.(type) {
		case *ssa.Phi:
			for _, e := range t.Edges {
				visit(e)
			}
		case *ssa.BinOp:
			if t.Op == token.ADD {
				for _, pair := range [][2]ssa.Value{{t.X, t.Y}, {t.Y, t.X}} {
					if _, isPhi := pair[0].(*ssa.Phi); isPhi {
						out = append(out, accTerm{pair[1], t})
						visit(pair[0])
						return
					}
				}
			}
		}
	}
	visit(v)
	return out
}
