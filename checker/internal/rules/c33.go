package rules

import (
	"fmt"
	"go/token"

	"golang.org/x/tools/go/ssa"

	"verif/checker/internal/core"
)

func init() {
	register(&Rule{
		ID:    "C33",
		Title: "Block body size estimate does not undershoot beyond the safety margin",
		Pkgs:  []string{"process/block/preprocess"},
		Explain: "Decides the wiring of the linear size model of blockSizeComputation - structural necessary conditions of 'fits by the estimate implies fits on the wire'; the numeric margin itself is NOT decided. " +
			"(S1) isMaxBlockSizeReached and isMaxBlockSizeWithoutThrottleReached answer with a comparison `sum > limit` (or >=) whose sum contains both products miniblockSize x totalMiniBlocks and txSize x totalTxs - each " +
			"precomputed unit size multiplies its own counter - and never answer a constant 'fits'. (S2) the exported tests pass on, as totals, the atomically loaded counters numMiniBlocks / numTxs PLUS the new items, each " +
			"in its own argument position. (S3) AddNumMiniBlocks and AddNumTxs each add to their own counter. (S4) in precomputeValues the per-hash size is the difference of two measured dummy bodies with the same number of " +
			"miniblocks, divided by at most the difference of their hash counts (a larger divisor halves the per-hash size and every estimate with it). " +
			"(S5) in every function of the package that asks a size test and then accepts the items, the amounts added to the running totals equal the arguments of the last test that dominates the accumulation. " +
			"Not decided (value-level): that the measured dummy miniblock is at least as large as a real one (varint widths of shard ids and types), the margin between the configured maximum and the network limit, uint32 wrap of the products.",
		Run: runC33,
	})
}

func runC33(c *core.Ctx) {
	const pkg = "process/block/preprocess"
	fieldAddrOf := func(v ssa.Value, name string) bool {
		fa, ok := v.(*ssa.FieldAddr)
		return ok && core.FieldOfAddr(fa) != nil && core.FieldOfAddr(fa).Name() == name
	}
	var leaves func(v ssa.Value, op token.Token, out *[]ssa.Value)
	leaves = func(v ssa.Value, op token.Token, out *[]ssa.Value) {
		if bo, ok := v.(*ssa.BinOp); ok && bo.Op == op {
			leaves(bo.X, op, out)
			leaves(bo.Y, op, out)
			return
		}
		*out = append(*out, v)
	}
	isProduct := func(v ssa.Value, field string, counter ssa.Value) bool {
		bo, ok := v.(*ssa.BinOp)
		if !ok || bo.Op != token.MUL {
			return false
		}
		return (isFieldOf(bo.X, field) && bo.Y == counter) || (isFieldOf(bo.Y, field) && bo.X == counter)
	}
	// S1
	for _, name := range []string{"isMaxBlockSizeReached", "isMaxBlockSizeWithoutThrottleReached"} {
		fn := anchorM(c, pkg, "blockSizeComputation", name)
		if fn == nil || len(fn.Params) != 3 {
			continue
		}
		for i, r := range core.Returns(fn) {
			v := core.RetOperand(r, 0)
			construct := fmt.Sprintf("blockSizeComputation.%s/return#%d", name, i+1)
			if b, isC := core.ConstBool(v); isC {
				c.Check(b, "C33/each-unit-size-multiplies-its-counter", construct, r.Pos(), "a constant answer is 'reached'",
					"the test answers a constant 'fits' on this path without computing the size")
				continue
			}
			bo, ok := v.(*ssa.BinOp)
			var sum ssa.Value
			if ok {
				switch bo.Op {
				case token.GTR, token.GEQ:
					sum = bo.X
				case token.LSS, token.LEQ:
					sum = bo.Y
				}
			}
			mb, tx := false, false
			cntMb, cntTx := ssa.Value(fn.Params[1]), ssa.Value(fn.Params[2])
			// the estimate may be computed by a helper of the package handed the two counters
			if call, isCall := sum.(*ssa.Call); isCall {
				if h := call.Call.StaticCallee(); h != nil && h.Blocks != nil && h.Pkg == fn.Pkg {
					if rets := core.Returns(h); len(rets) == 1 && core.RetOperand(rets[0], 0) != nil {
						sum = core.RetOperand(rets[0], 0)
						var hm, ht ssa.Value
						for k, p := range h.Params {
							if k < len(call.Call.Args) && call.Call.Args[k] == cntMb {
								hm = p
							}
							if k < len(call.Call.Args) && call.Call.Args[k] == cntTx {
								ht = p
							}
						}
						cntMb, cntTx = hm, ht
						c.Analysed(fname(h))
					}
				}
			}
			if sum != nil {
				var ls []ssa.Value
				leaves(sum, token.ADD, &ls)
				for _, l := range ls {
					if cntMb != nil && isProduct(l, "miniblockSize", cntMb) {
						mb = true
					}
					if cntTx != nil && isProduct(l, "txSize", cntTx) {
						tx = true
					}
				}
			}
			c.Check(mb && tx, "C33/each-unit-size-multiplies-its-counter", construct, r.Pos(),
				"reached iff miniblockSize*totalMiniBlocks + txSize*totalTxs exceeds the limit",
				fmt.Sprintf("the answer is not a comparison of a sum containing miniblockSize x totalMiniBlocks (found: %v) and txSize x totalTxs (found: %v) with the limit: a term of the size model is missing or multiplies the wrong counter, so bodies larger than the limit are reported to fit", mb, tx))
		}
	}
	c.Floor("C33/each-unit-size-multiplies-its-counter", 2)
	// S2
	atomicOn := func(v ssa.Value, fnName, field string) bool {
		call, ok := v.(*ssa.Call)
		if !ok || call.Call.StaticCallee() == nil || call.Call.StaticCallee().Name() != fnName || len(call.Call.Args) == 0 {
			return false
		}
		return fieldAddrOf(call.Call.Args[0], field)
	}
	for _, w := range [][2]string{{"IsMaxBlockSizeReached", "isMaxBlockSizeReached"}, {"IsMaxBlockSizeWithoutThrottleReached", "isMaxBlockSizeWithoutThrottleReached"}} {
		fn := anchorM(c, pkg, "blockSizeComputation", w[0])
		if fn == nil || len(fn.Params) != 3 {
			continue
		}
		n := 0
		core.Instrs(fn, func(in ssa.Instruction) {
			cc := core.CallOf(in)
			if cc == nil || cc.StaticCallee() == nil || cc.StaticCallee().Name() != w[1] || len(cc.Args) != 3 {
				return
			}
			n++
			for k, fld := range []string{"numMiniBlocks", "numTxs"} {
				var ls []ssa.Value
				total := cc.Args[k+1]
				// the totals may be computed by a method of the package handed the new counts (one return): the
				// sum is then that result, its parameters standing for the arguments
				unbind := func(v ssa.Value) ssa.Value { return v }
				if ex, isEx := total.(*ssa.Extract); isEx {
					if hc, isCall := ex.Tuple.(*ssa.Call); isCall {
						if h := hc.Call.StaticCallee(); h != nil && h.Blocks != nil && h.Pkg == fn.Pkg {
							if rets := core.Returns(h); len(rets) == 1 && core.RetOperand(rets[0], ex.Index) != nil {
								total = core.RetOperand(rets[0], ex.Index)
								unbind = func(v ssa.Value) ssa.Value {
									for i, p := range h.Params {
										if ssa.Value(p) == v && i < len(hc.Call.Args) {
											return hc.Call.Args[i]
										}
									}
									return v
								}
								c.Analysed(fname(h))
							}
						}
					}
				}
				leaves(total, token.ADD, &ls)
				acc, fresh := false, false
				for _, l := range ls {
					if atomicOn(l, "LoadUint32", fld) {
						acc = true
					}
					if unbind(stripConv(l)) == ssa.Value(fn.Params[k+1]) {
						fresh = true
					}
				}
				c.Check(acc && fresh, "C33/totals-include-what-is-already-in-the-block", fmt.Sprintf("blockSizeComputation.%s/%s", w[0], fld), in.Pos(),
					"the total is the accumulated counter plus the new items",
					fmt.Sprintf("argument %d of %s is not the accumulated %s (found: %v) plus the new items of the same kind (found: %v): what is already in the block, or what is about to be added, is left out of the estimate", k+1, w[1], fld, acc, fresh))
			}
		})
		if n == 0 {
			c.Undecided("C33/totals-include-what-is-already-in-the-block", "blockSizeComputation."+w[0], fn.Pos(), "no call of "+w[1])
		}
	}
	c.Floor("C33/totals-include-what-is-already-in-the-block", 4)
	// S3
	for _, w := range [][2]string{{"AddNumMiniBlocks", "numMiniBlocks"}, {"AddNumTxs", "numTxs"}} {
		fn := anchorM(c, pkg, "blockSizeComputation", w[0])
		if fn == nil || len(fn.Params) != 2 {
			continue
		}
		ok, other := false, ""
		core.Instrs(fn, func(in ssa.Instruction) {
			v, isV := in.(ssa.Value)
			if !isV {
				return
			}
			call, isC := v.(*ssa.Call)
			if !isC || call.Call.StaticCallee() == nil || call.Call.StaticCallee().Name() != "AddUint32" {
				return
			}
			if atomicOn(v, "AddUint32", w[1]) && stripConv(call.Call.Args[1]) == ssa.Value(fn.Params[1]) {
				ok = true
			} else {
				other = core.ExprKey(call.Call.Args[0])
			}
		})
		c.Check(ok && other == "", "C33/counters-wired", "blockSizeComputation."+w[0], fn.Pos(), "adds its argument to "+w[1],
			"the items are not added to "+w[1]+" ("+other+"): the estimate counts them with the wrong unit size or not at all")
	}
	// S5: what was tested is what is counted. A preprocessor that asks "do these n miniblocks and
	// m hashes still fit?" and then accepts them adds the same n and m to the running totals; the last
	// test that dominates the accumulation is the reference (an earlier, smaller test of the same
	// function - before the cross-shard results were known - is not).
	nAcc := 0
	for _, fn := range c.P.FuncsOfPkg(pkg) {
		type sizeCall struct {
			in   ssa.Instruction
			args []ssa.Value
		}
		var tests []sizeCall
		var adds [2][]sizeCall // AddNumMiniBlocks, AddNumTxs
		core.Instrs(fn, func(in ssa.Instruction) {
			cc := core.CallOf(in)
			if cc == nil || !cc.IsInvoke() {
				return
			}
			switch cc.Method.Name() {
			case "IsMaxBlockSizeWithoutThrottleReached", "IsMaxBlockSizeReached":
				if len(cc.Args) == 2 {
					tests = append(tests, sizeCall{in, cc.Args})
				}
			case "AddNumMiniBlocks":
				adds[0] = append(adds[0], sizeCall{in, cc.Args})
			case "AddNumTxs":
				adds[1] = append(adds[1], sizeCall{in, cc.Args})
			}
		})
		if len(tests) == 0 || len(adds[0])+len(adds[1]) == 0 {
			continue
		}
		c.Analysed(fname(fn))
		for k, kind := range []string{"AddNumMiniBlocks", "AddNumTxs"} {
			for i, a := range adds[k] {
				// the last test dominating this accumulation
				var ref *sizeCall
				for j := range tests {
					if core.DominatesInstr(tests[j].in, a.in) && (ref == nil || core.DominatesInstr(ref.in, tests[j].in)) {
						ref = &tests[j]
					}
				}
				if ref == nil {
					continue
				}
				nAcc++
				c.Sites++
				c.Check(core.ExprKey(a.args[0]) == core.ExprKey(ref.args[k]), "C33/what-was-tested-is-what-is-counted", fmt.Sprintf("%s/%s#%d", fname(fn), kind, i+1), a.in.Pos(),
					"the amount added is the amount the last size test was asked about",
					fmt.Sprintf("%s adds %s to the running total, but the size test that admitted the items (at %s) was asked about %s: what is left out of the total is in the body all the same, and later tests admit more than fits", kind, core.ExprKey(a.args[0]), c.P.Pos(ref.in.Pos()), core.ExprKey(ref.args[k])))
			}
		}
	}
	c.Floor("C33/what-was-tested-is-what-is-counted", 8)
	// S6: every hash the selection loop puts into the body is counted. In createAndProcessMiniBlocksFromMe
	// a pass that appends a hash to a miniblock, or that classifies the transaction as failed (its hash
	// goes into the invalid-transactions miniblock), reaches the next pass only through AddNumTxs.
	if fn := anchorM(c, pkg, "transactions", "createAndProcessMiniBlocksFromMe"); fn != nil {
		counts := func(in ssa.Instruction) bool {
			cc := core.CallOf(in)
			return cc != nil && cc.IsInvoke() && cc.Method.Name() == "AddNumTxs"
		}
		var starts []ssa.Instruction
		var what []string
		core.Instrs(fn, func(in ssa.Instruction) {
			l := core.InnermostLoop(fn, in.Block())
			if l == nil {
				return
			}
			// a store of an append result into a TxHashes field
			if st, ok := in.(*ssa.Store); ok {
				if fa, isFa := st.Addr.(*ssa.FieldAddr); isFa && core.FieldOfAddr(fa).Name() == "TxHashes" {
					starts = append(starts, in)
					what = append(what, "a hash appended to a miniblock")
				}
			}
			// the branch taken for errors.Is(err, process.ErrFailedTransaction)
			if ifi, ok := in.(*ssa.If); ok {
				if call, isCall := ifi.Cond.(*ssa.Call); isCall && core.CallDesc(&call.Call).Is("errors", "", "Is") && len(call.Call.Args) == 2 {
					if u, isU := call.Call.Args[1].(*ssa.UnOp); isU {
						if g, isG := u.X.(*ssa.Global); isG && g.Name() == "ErrFailedTransaction" {
							if first := ifi.Block().Succs[0]; len(first.Instrs) > 0 {
								starts = append(starts, first.Instrs[0])
								what = append(what, "a transaction classified as failed (its hash goes into the invalid-transactions miniblock)")
							}
						}
					}
				}
			}
		})
		for i, from := range starts {
			l := core.InnermostLoop(fn, from.Block())
			if l == nil {
				continue
			}
			q := core.PathQ{Fn: fn, From: from, Via: counts, Target: func(x ssa.Instruction, _ *ssa.BasicBlock) bool { return x == l.Header.Instrs[0] }}
			if counts(from) {
				continue
			}
			esc, path := q.Escape()
			c.Check(esc == nil, "C33/every-selected-hash-is-counted", fmt.Sprintf("transactions.createAndProcessMiniBlocksFromMe/site#%d", i+1), from.Pos(),
				what[i]+" is followed by AddNumTxs before the next pass",
				"in createAndProcessMiniBlocksFromMe "+what[i]+" can reach the next pass of the selection loop without AddNumTxs ("+c.P.PathString(path)+"): the hash is in the body but not in the running total, and the size test keeps admitting transactions after the body is full")
		}
		c.Floor("C33/every-selected-hash-is-counted", 2)
	}
	// S4
	if fn := anchorM(c, pkg, "blockSizeComputation", "precomputeValues"); fn != nil {
		measure := func(v ssa.Value) (mbs, hashes int64, ok bool) {
			ex, isE := v.(*ssa.Extract)
			if !isE || ex.Index != 0 {
				return
			}
			call, isC := ex.Tuple.(*ssa.Call)
			if !isC || call.Call.StaticCallee() == nil || call.Call.StaticCallee().Name() != "generateDummyBlockbodySize" || len(call.Call.Args) != 4 {
				return
			}
			a, okA := core.ConstInt(call.Call.Args[2])
			b, okB := core.ConstInt(call.Call.Args[3])
			return a, b, okA && okB
		}
		// the arithmetic may be done by a pure helper of the package (`txSize, mbSize = model(m1, m2, ...)`): a
		// value is read with the helper's parameters bound to the arguments it was handed
		type bound struct {
			v   ssa.Value
			env map[*ssa.Parameter]*bound
		}
		var norm func(b bound, depth int) bound
		norm = func(b bound, depth int) bound {
			for ; depth < 6; depth++ {
				if p, isP := b.v.(*ssa.Parameter); isP && b.env != nil && b.env[p] != nil {
					b = *b.env[p]
					continue
				}
				var call *ssa.Call
				idx := 0
				if ex, isE := b.v.(*ssa.Extract); isE {
					call, _ = ex.Tuple.(*ssa.Call)
					idx = ex.Index
				} else {
					call, _ = b.v.(*ssa.Call)
				}
				if call == nil {
					return b
				}
				h := call.Call.StaticCallee()
				if h == nil || h.Blocks == nil || h.Pkg != fn.Pkg || h.Name() == "generateDummyBlockbodySize" {
					return b
				}
				rets := core.Returns(h)
				if len(rets) != 1 || core.RetOperand(rets[0], idx) == nil {
					return b
				}
				env := map[*ssa.Parameter]*bound{}
				for i, p := range h.Params {
					if i < len(call.Call.Args) {
						a := norm(bound{call.Call.Args[i], b.env}, depth+1)
						env[p] = &a
					}
				}
				c.Analysed(fname(h))
				b = bound{core.RetOperand(rets[0], idx), env}
			}
			return b
		}
		n := 0
		core.Instrs(fn, func(in ssa.Instruction) {
			st, ok := in.(*ssa.Store)
			if !ok || !fieldAddrOf(st.Addr, "txSize") {
				return
			}
			n++
			good, why := false, "the stored value is not (measure - measure) / constant"
			qb := norm(bound{st.Val, nil}, 0)
			if q, isQ := qb.v.(*ssa.BinOp); isQ && q.Op == token.QUO {
				db := norm(bound{q.X, qb.env}, 0)
				if d, isD := db.v.(*ssa.BinOp); isD && d.Op == token.SUB {
					a1, b1, ok1 := measure(norm(bound{d.X, db.env}, 0).v)
					a2, b2, ok2 := measure(norm(bound{d.Y, db.env}, 0).v)
					k, okK := core.ConstInt(norm(bound{q.Y, qb.env}, 0).v)
					switch {
					case !ok1 || !ok2 || !okK:
					case a1 != a2:
						why = "the two measured bodies differ in the number of miniblocks"
					case k <= 0 || k > a1*(b1-b2):
						why = fmt.Sprintf("the difference of bodies with %d and %d hashes is divided by %d", a1*b1, a2*b2, k)
					default:
						good = true
					}
				}
			}
			c.Check(good, "C33/per-hash-size-from-matching-measurements", fmt.Sprintf("blockSizeComputation.precomputeValues/txSize#%d", n), st.Pos(),
				"txSize = (size with more hashes - size with fewer) / at most the difference in hashes",
				"the per-hash size is understated: "+why+" - every estimate built on it undershoots the encoded size")
		})
		c.Floor("C33/per-hash-size-from-matching-measurements", 1)
	}
}
