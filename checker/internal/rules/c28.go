package rules

import (
	"fmt"
	"go/token"
	"sort"
	"strings"

	"golang.org/x/tools/go/ssa"

	"verif/checker/internal/core"
)

func init() {
	register(&Rule{
		ID:    "C28",
		Title: "Size-bounded LRU cache matches a reference LRU",
		Pkgs:  []string{"storage/lrucache/capacity"},
		Explain: "Decides the co-update discipline that 'reported byte size = sum of the sizes of the items present' depends on (a necessary condition of matching a reference LRU): in capacityLRU, " +
			"membership (the items map), recency (the eviction list) and the byte counter change together - addNew: list PushFront + map insert + counter += the size stored in the entry; " +
			"removeElement: list Remove + map delete + counter -= that entry's size; Purge resets all three; every store to an entry's size (update, adjustSize) is accompanied by a counter adjustment in the same function - " +
			"and no other function writes the map, changes list membership or writes the counter (who-may-write tables, enumerated from the SSA on every run). " +
			"A method that inserts returns only once shouldEvict() is false (evictIfNeeded, or the false edge of the test); addSized refreshes the recency of a rewritten key. " +
			"Not decided (value-level): equivalence of the eviction order with a reference LRU, that update+adjustSize net to exactly one size difference, capacity comparisons.",
		Run: runC28,
	})
}

func runC28(c *core.Ctx) {
	c28InsertionEndsWithTheEvictionLoop(c)
	const pkg = "storage/lrucache/capacity"
	capF := c.P.Field(pkg, "capacityLRU", "currentCapacityInBytes")
	itemsF := c.P.Field(pkg, "capacityLRU", "items")
	sizeF := c.P.Field(pkg, "entry", "size")
	if capF == nil || itemsF == nil || sizeF == nil {
		c.Undecided("anchor", "capacityLRU fields", 0, "fields not found")
		return
	}
	type eff struct{ counter, mapIns, mapDel, mapReset, listIn, listOut, listInit, sizeStore []ssa.Instruction }
	effs := map[string]*eff{}
	fnOf := map[string]*ssa.Function{}
	get := func(fn *ssa.Function) *eff {
		n := fname(fn)
		if effs[n] == nil {
			effs[n] = &eff{}
			fnOf[n] = fn
		}
		return effs[n]
	}
	for _, fn := range c.P.FuncsOfPkg(pkg) {
		core.Instrs(fn, func(in ssa.Instruction) {
			switch x := in.(type) {
			case *ssa.Store:
				if fa, ok := x.Addr.(*ssa.FieldAddr); ok {
					_, fresh := fa.X.(*ssa.Alloc)
					switch core.FieldOfAddr(fa) {
					case capF:
						if !fresh {
							get(fn).counter = append(get(fn).counter, in)
						}
					case itemsF:
						if !fresh {
							get(fn).mapReset = append(get(fn).mapReset, in)
						}
					case sizeF:
						if !fresh {
							get(fn).sizeStore = append(get(fn).sizeStore, in)
						}
					}
				}
			case *ssa.MapUpdate:
				if _, f := core.FieldLoad(x.Map); f == itemsF {
					get(fn).mapIns = append(get(fn).mapIns, in)
				}
			}
			if cc := core.CallOf(in); cc != nil {
				d := core.CallDesc(cc)
				if d.Pkg == "builtin" && d.Name == "delete" {
					if _, f := core.FieldLoad(cc.Args[0]); f == itemsF {
						get(fn).mapDel = append(get(fn).mapDel, in)
					}
				}
				if d.Pkg == "container/list" && d.Recv == "List" && len(cc.Args) > 0 && isFieldOf(cc.Args[0], "evictList") {
					switch d.Name {
					case "PushFront", "PushBack", "InsertAfter", "InsertBefore":
						get(fn).listIn = append(get(fn).listIn, in)
					case "Remove":
						get(fn).listOut = append(get(fn).listOut, in)
					case "Init":
						get(fn).listInit = append(get(fn).listInit, in)
					}
				}
			}
		})
	}
	// who-may-write
	set := func(sel func(e *eff) []ssa.Instruction) []string {
		var out []string
		for n, e := range effs {
			if len(sel(e)) > 0 {
				out = append(out, n)
			}
		}
		sort.Strings(out)
		return out
	}
	tables := []struct {
		name string
		got  []string
		want []string
	}{
		{"byte-counter", set(func(e *eff) []ssa.Instruction { return e.counter }), []string{"capacityLRU.Purge", "capacityLRU.addNew", "capacityLRU.adjustSize", "capacityLRU.removeElement", "capacityLRU.update"}},
		{"map-insert", set(func(e *eff) []ssa.Instruction { return e.mapIns }), []string{"capacityLRU.addNew"}},
		{"map-delete", set(func(e *eff) []ssa.Instruction { return e.mapDel }), []string{"capacityLRU.removeElement"}},
		{"map-reset", set(func(e *eff) []ssa.Instruction { return e.mapReset }), []string{"capacityLRU.Purge"}},
		{"list-insert", set(func(e *eff) []ssa.Instruction { return e.listIn }), []string{"capacityLRU.addNew"}},
		{"list-remove", set(func(e *eff) []ssa.Instruction { return e.listOut }), []string{"capacityLRU.removeElement"}},
		{"entry-size", set(func(e *eff) []ssa.Instruction { return e.sizeStore }), []string{"capacityLRU.adjustSize", "capacityLRU.update"}},
	}
	for _, t := range tables {
		c.Check(strings.Join(t.got, ",") == strings.Join(t.want, ","), "C28/who-may-write", t.name, 0,
			"written exactly by "+strings.Join(t.want, ", "), fmt.Sprintf("%s is performed by %v, reviewed set is %v", t.name, t.got, t.want))
	}
	for n := range effs {
		c.Analysed(pkg + ":" + n)
	}
	// co-update per function
	each := func(fnName, what string, evs ...[]ssa.Instruction) {
		fn := fnOf[fnName]
		if fn == nil {
			c.Fail("C28/co-update", fnName+"/"+what, 0, "function has no effects on the cache state any more")
			return
		}
		for i, ev := range evs {
			set := map[ssa.Instruction]bool{}
			for _, x := range ev {
				set[x] = true
			}
			q := core.PathQ{Fn: fn, Via: func(in ssa.Instruction) bool { return set[in] }, Target: core.AnyReturn}
			esc, path := q.Escape()
			c.Check(esc == nil && len(ev) > 0, "C28/co-update", fmt.Sprintf("%s/%s#%d", fnName, what, i), fn.Pos(), "performed on every path",
				"a path through "+fnName+" skips one of the three coupled updates ("+what+"): "+c.P.PathString(path))
		}
	}
	if e := effs["capacityLRU.addNew"]; e != nil {
		each("capacityLRU.addNew", "insert(list,map,counter)", e.listIn, e.mapIns, e.counter)
		// counter += the size stored in the entry (same parameter)
		fn := fnOf["capacityLRU.addNew"]
		ok := false
		for _, st := range e.counter {
			if b, isB := st.(*ssa.Store).Val.(*ssa.BinOp); isB && b.Op == token.ADD && core.ExprKey(b.Y) == "p3" {
				core.Instrs(fn, func(in ssa.Instruction) {
					if s2, isS := in.(*ssa.Store); isS {
						if fa, isFA := s2.Addr.(*ssa.FieldAddr); isFA && core.FieldOfAddr(fa) == sizeF && core.ExprKey(s2.Val) == "p3" {
							ok = true
						}
					}
				})
			}
		}
		c.Check(ok, "C28/co-update", "capacityLRU.addNew/size-identity", fn.Pos(), "the counter grows by the size recorded in the entry", "the counter is not increased by the same size that is recorded in the new entry")
	}
	if e := effs["capacityLRU.removeElement"]; e != nil {
		each("capacityLRU.removeElement", "remove(list,map,counter)", e.listOut, e.mapDel, e.counter)
		ok := false
		for _, st := range e.counter {
			if b, isB := st.(*ssa.Store).Val.(*ssa.BinOp); isB && b.Op == token.SUB {
				if _, f := core.FieldLoad(b.Y); f == sizeF && strings.HasPrefix(core.ExprKey(b.Y), "p1.Value") {
					ok = true
				}
			}
		}
		c.Check(ok, "C28/co-update", "capacityLRU.removeElement/size-identity", fnOf["capacityLRU.removeElement"].Pos(), "the counter shrinks by the removed entry's recorded size", "the counter is not decreased by the size recorded in the removed element's entry")
	}
	if e := effs["capacityLRU.Purge"]; e != nil {
		each("capacityLRU.Purge", "reset(list,map,counter)", e.listInit, e.mapReset, e.counter)
	}
	for _, n := range []string{"capacityLRU.update", "capacityLRU.adjustSize"} {
		if e := effs[n]; e != nil && len(e.sizeStore) > 0 {
			c.Check(len(e.counter) > 0, "C28/co-update", n+"/size-change-adjusts-counter", fnOf[n].Pos(), "a change of an entry's size adjusts the counter in the same function", "an entry's size is changed without adjusting the byte counter")
		}
	}
	// recency: writing or reading an existing key makes it the most recent one on every path
	for _, n := range []string{"update", "Get"} {
		if fn := optM(c, pkg, "capacityLRU", n); fn != nil {
			tgt := core.AnyReturn
			if n == "Get" {
				tgt = func(in ssa.Instruction, _ *ssa.BasicBlock) bool {
					r, ok := in.(*ssa.Return)
					if !ok {
						return false
					}
					b, isB := core.ConstBool(core.RetOperand(r, 1))
					return isB && b
				}
			}
			mustPass(c, fn, "C28/recency-refreshed", "capacityLRU."+n, nil, func(in ssa.Instruction) bool {
				cc := core.CallOf(in)
				return cc != nil && core.CallDesc(cc).Is("container/list", "List", "MoveToFront")
			}, tgt, nil, "the touched entry is moved to the front of the eviction list")
		}
	}
	c.Floor("C28/who-may-write", 7)
	c.Floor("C28/co-update", 11)
}

// c28InsertionEndsWithTheEvictionLoop: after an insertion the cache is brought back under its
// limits by evicting until shouldEvict() is false - however many entries that takes. Every method
// that inserts returns only past a call of evictIfNeeded or the false edge of a shouldEvict() test;
// evictIfNeeded itself returns only on that edge. A single conditional eviction leaves the cache
// over its byte limit when the new entry displaces more than one.
func c28InsertionEndsWithTheEvictionLoop(c *core.Ctx) {
	const pkg = "storage/lrucache/capacity"
	notNeeded := func(b *ssa.BasicBlock, si int) bool {
		ifi, ok := b.Instrs[len(b.Instrs)-1].(*ssa.If)
		if !ok || si != 1 {
			return false
		}
		call, ok := ifi.Cond.(*ssa.Call)
		return ok && core.CallDesc(&call.Call).Name == "shouldEvict"
	}
	loops := func(in ssa.Instruction) bool {
		cc := core.CallOf(in)
		return cc != nil && core.CallDesc(cc).Name == "evictIfNeeded"
	}
	n := 0
	for _, fn := range c.P.FuncsOfPkg(pkg) {
		if fn.Signature.Recv() == nil || !token.IsExported(fn.Name()) {
			continue
		}
		k := 0
		core.Instrs(fn, func(in ssa.Instruction) {
			cc := core.CallOf(in)
			if cc == nil {
				return
			}
			if nm := core.CallDesc(cc).Name; nm != "addNew" && nm != "addSized" {
				return
			}
			k++
			n++
			c.Analysed(fname(fn))
			esc, path := core.PathQ{Fn: fn, From: in, Via: loops, ViaEdge: notNeeded, Target: core.AnyReturn}.Escape()
			c.Check(esc == nil, "C28/insertion-ends-with-the-eviction-loop", fmt.Sprintf("%s/insert#%d", fname(fn), k), in.Pos(),
				"after the insertion the method returns only once shouldEvict() is false",
				fname(fn)+" can return after an insertion without evicting until shouldEvict() is false ("+c.P.PathString(path)+"): an entry that displaces more than one older entry leaves the cache over its byte limit and holding keys a size-bounded LRU has evicted")
		})
	}
	if fn := anchorM(c, pkg, "capacityLRU", "evictIfNeeded"); fn != nil {
		esc, path := core.PathQ{Fn: fn, ViaEdge: notNeeded, Target: core.AnyReturn}.Escape()
		c.Check(esc == nil, "C28/insertion-ends-with-the-eviction-loop", "capacityLRU.evictIfNeeded", fn.Pos(),
			"evictIfNeeded returns only when shouldEvict() is false",
			"evictIfNeeded can return while shouldEvict() may still be true ("+c.P.PathString(path)+")")
	}
	c.Floor("C28/insertion-ends-with-the-eviction-loop", 4)
	// a rewrite of an existing key refreshes its recency like any other use
	if fn := anchorM(c, pkg, "capacityLRU", "addSized"); fn != nil {
		var found ssa.Instruction
		core.Instrs(fn, func(in ssa.Instruction) {
			if lk, ok := in.(*ssa.Lookup); ok && lk.CommaOk && isFieldOf(lk.X, "items") {
				found = in
			}
		})
		refresh := func(in ssa.Instruction) bool {
			cc := core.CallOf(in)
			if cc == nil {
				return false
			}
			nm := core.CallDesc(cc).Name
			return nm == "update" || nm == "MoveToFront" || nm == "addNew"
		}
		if found == nil {
			c.Undecided("C28/recency-refreshed", "capacityLRU.addSized", fn.Pos(), "no lookup of the key in items")
		} else {
			esc, path := core.PathQ{Fn: fn, From: found, Via: refresh, Target: core.AnyReturn}.Escape()
			c.Check(esc == nil, "C28/recency-refreshed", "capacityLRU.addSized/rewrite", found.Pos(),
				"every path after the key lookup goes through update (MoveToFront) or addNew",
				"capacityLRU.addSized can finish after looking the key up without update/MoveToFront or addNew ("+c.P.PathString(path)+"): rewriting an existing key does not refresh its recency, and the key is evicted as if it had not been used")
		}
	}
}
