package rules

import (
	"fmt"
	"go/token"
	"strings"

	"golang.org/x/tools/go/ssa"

	"verif/checker/internal/core"
)

func init() {
	register(&Rule{
		ID:    "C07",
		Title: "Contract code is stored once and reference-counted correctly",
		Pkgs:  []string{"data/state"},
		Explain: "Decides the structural discipline of the code reference counter. (S1) who-may-write: outside generated code, CodeEntry.NumReferences of a shared entry is written only by the three reviewed " +
			"functions, each by exactly ±1 in its reviewed direction (updateOldCodeEntry −1, updateNewCodeEntry +1, journalEntryCode.revertNewCodeEntry −1). " +
			"(S2) every decrement is on the `NumReferences > 1` side of a test whose other side deletes the entry (Update(hash, nil)), so the counter never underflows and no entry with count 0 survives. " +
			"(S3) every counter change is persisted by a checked saveCodeEntry of the same entry before a success exit; in saveCode the old-entry and new-entry updates occur together on success paths. " +
			"Nothing in the package clears an account instance's hasNewCode flag. " +
			"Not decided (value-level): equality of the count with the number of referring accounts over histories.",
		Run: runC07,
	})
}

func runC07(c *core.Ctx) {
	c07NewCodeFlagOnlySet(c)
	const pkg = "data/state"
	numRef := c.P.Field(pkg, "CodeEntry", "NumReferences")
	if numRef == nil {
		c.Undecided("anchor", "CodeEntry.NumReferences", token.NoPos, "field not found")
		return
	}
	reviewed := map[string]int{"AccountsDB.updateOldCodeEntry": -1, "AccountsDB.updateNewCodeEntry": +1, "journalEntryCode.revertNewCodeEntry": -1}
	seen := map[string]bool{}
	for _, fn := range c.P.FuncsOfPkg(pkg) {
		pos := c.P.Fset.Position(fn.Pos())
		if strings.HasSuffix(pos.Filename, ".pb.go") {
			continue
		}
		core.Instrs(fn, func(in ssa.Instruction) {
			st, ok := in.(*ssa.Store)
			if !ok {
				return
			}
			fa, ok := st.Addr.(*ssa.FieldAddr)
			if !ok || core.FieldOfAddr(fa) != numRef {
				return
			}
			c.Sites++
			c.Analysed(core.QualName(fn))
			if _, fresh := fa.X.(*ssa.Alloc); fresh {
				c.Pass("C07/counter-writers", fname(fn)+"/init-copy", st.Pos(), "initialises NumReferences of an entry allocated in this function")
				return
			}
			dir, ok := reviewed[fname(fn)]
			if !ok {
				c.Fail("C07/counter-writers", fname(fn)+"/store", st.Pos(), "CodeEntry.NumReferences of a shared entry is written by a function outside the reviewed set")
				return
			}
			seen[fname(fn)] = true
			// value must be load(same field, same base) ± 1
			delta := 0
			if b, ok := st.Val.(*ssa.BinOp); ok && (b.Op == token.ADD || b.Op == token.SUB) {
				base, f := core.FieldLoad(b.X)
				if n, isC := core.ConstInt(b.Y); isC && n == 1 && f == numRef && base == fa.X {
					delta = 1
					if b.Op == token.SUB {
						delta = -1
					}
				}
			}
			c.Check(delta == dir, "C07/counter-writers", fname(fn)+"/step", st.Pos(),
				fmt.Sprintf("changes the counter by exactly %+d", dir), fmt.Sprintf("the reviewed direction for this function is %+d but the store is not `NumReferences %+d`", dir, dir))
			if dir < 0 {
				// S2 guard: dominated by NumReferences <= 1 being false on the same entry
				key := core.ExprKey(fa.X) + ".NumReferences"
				isGuard := func(cd core.Cond) bool {
					lb, ok := core.FactOf(cd).LowerBound(key)
					return ok && lb >= 2
				}
				var guard *core.Cond
				for _, cd := range core.CondsAt(st.Block()) {
					cd := cd
					if isGuard(cd) {
						guard = &cd
					}
				}
				if guard == nil {
					c.Fail("C07/decrement-guarded", fname(fn), st.Pos(), "decrement of NumReferences not dominated by a test establishing NumReferences > 1: the counter can underflow / reach 0 with the entry still stored")
				} else {
					// the other side deletes the entry
					other := guard.If.Block().Succs[0]
					// find the successor on which the guard fact does NOT hold
					for i, s := range guard.If.Block().Succs {
						holds := false
						for _, cd := range core.CondsOnEdge(guard.If.Block(), i) {
							if cd.If == guard.If && isGuard(cd) {
								holds = true
							}
						}
						if !holds {
							other = s
						}
					}
					deleted := false
					for _, b := range fn.Blocks {
						if !other.Dominates(b) {
							continue
						}
						for _, in2 := range b.Instrs {
							if cc := core.CallOf(in2); cc != nil && isTrieUpdate(cc) && len(cc.Args) == 2 && core.IsNilConst(cc.Args[1]) {
								deleted = true
							}
						}
					}
					c.Check(deleted, "C07/decrement-guarded", fname(fn), st.Pos(), "decrement only when NumReferences > 1; the last reference deletes the entry (Update(hash, nil))",
						"the branch taken for the last reference does not delete the entry")
				}
			}
			// S3 persisted
			mustPassChecked(c, fn, "C07/counter-change-persisted", fname(fn), st,
				func(in ssa.Instruction, cc *ssa.CallCommon) bool {
					return core.CallDesc(cc).Is(pkg, "", "saveCodeEntry") && len(cc.Args) >= 2 && cc.Args[1] == fa.X
				}, core.SuccessReturn, nil, "the changed entry is written back by a checked saveCodeEntry before a success exit")
		})
	}
	for n := range reviewed {
		if !seen[n] {
			c.Undecided("C07/counter-writers", n, token.NoPos, "reviewed counter writer no longer writes the counter: the table is stale")
		}
	}
	// S3b saveCode: old and new entry updated together
	if fn := anchorM(c, pkg, "AccountsDB", "saveCode"); fn != nil {
		olds := callsMatching(fn, pkg, "AccountsDB", "updateOldCodeEntry")
		for i, o := range olds {
			mustPassChecked(c, fn, "C07/old-and-new-entry-together", fmt.Sprintf("AccountsDB.saveCode#%d", i), o,
				func(in ssa.Instruction, cc *ssa.CallCommon) bool {
					return core.CallDesc(cc).Is(pkg, "AccountsDB", "updateNewCodeEntry")
				},
				core.SuccessReturn, nil, "after the old code entry was released, the new one is referenced (checked) before a success exit")
		}
		if len(olds) == 0 {
			c.Fail("C07/old-and-new-entry-together", "AccountsDB.saveCode", fn.Pos(), "saveCode no longer releases the old code entry")
		}
	}
	if fn := anchorM(c, pkg, "AccountsDB", "saveCode"); fn != nil {
		newAcc, oldAcc := fn.Params[1], fn.Params[2]
		// the account record always ends up pointing at the hash of the code it carries: every success exit taken
		// with new code sets the account's code hash to the hash computed from that code
		noNew := core.PruneWhen(func(cd core.Cond) bool {
			call, ok := cd.V.(*ssa.Call)
			return ok && call.Call.IsInvoke() && call.Call.Method.Name() == "HasNewCode" && !cd.Taken
		})
		mustPass(c, fn, "C07/account-points-at-its-code", "AccountsDB.saveCode/SetCodeHash", nil, func(in ssa.Instruction) bool {
			cc := core.CallOf(in)
			if cc == nil || !cc.IsInvoke() || cc.Method.Name() != "SetCodeHash" || cc.Value != ssa.Value(newAcc) {
				return false
			}
			for v := range core.BackwardReachPure(cc.Args[0]) {
				if call, ok := v.(*ssa.Call); ok && core.CallDesc(&call.Call).Name == "Compute" {
					return true
				}
			}
			// the nil hash of an account whose new code is empty
			_, isPhi := cc.Args[0].(*ssa.Phi)
			return isPhi
		}, core.NilReturn, noNew, "whenever new code is saved the account's code hash is set to the hash of that code")
		// the entry released is the one the STORED account refers to (old record), not whatever the handle being saved carries
		for i, in := range callsMatching(fn, pkg, "AccountsDB", "updateOldCodeEntry") {
			arg := core.CallOf(in).Args[1]
			fromOld, fromNew := false, false
			for v := range core.BackwardReachPure(arg) {
				if call, ok := v.(*ssa.Call); ok && call.Call.IsInvoke() && call.Call.Method.Name() == "GetCodeHash" {
					if call.Call.Value == ssa.Value(oldAcc) {
						fromOld = true
					}
					if call.Call.Value == ssa.Value(newAcc) {
						fromNew = true
					}
				}
			}
			c.Check(fromOld && !fromNew, "C07/account-points-at-its-code", fmt.Sprintf("AccountsDB.saveCode/released-entry#%d", i), in.Pos(), "the released code entry is the one recorded for the stored account (oldAcc.GetCodeHash())",
				"the code entry that is released is not taken from the stored account record: with a stale handle the wrong entry is decremented and the replaced one leaks")
		}
	}
	if fn := anchorM(c, pkg, "AccountsDB", "removeCode"); fn != nil {
		mustPassChecked(c, fn, "C07/old-and-new-entry-together", "AccountsDB.removeCode", nil,
			func(in ssa.Instruction, cc *ssa.CallCommon) bool {
				return core.CallDesc(cc).Is(pkg, "AccountsDB", "updateOldCodeEntry")
			},
			core.SuccessReturn, nil, "removing an account releases its code entry (checked)")
	}
	c07SameCodeAndErrors(c)
	c.Floor("C07/counter-writers", 4)
	c.Floor("C07/decrement-guarded", 2)
	c.Floor("C07/counter-change-persisted", 3)
}

// c07SameCodeAndErrors: (a) saving the code an account already has must not touch the code
// entries, neither when saving nor when that save is undone: the entry updates in saveCode and
// the undo steps of journalEntryCode.Revert lie behind the false branch of
// bytes.Equal(oldCodeHash, newCodeHash). (b) a failed read of a code entry is an error of the
// operation, never "no entry yet": the non-nil error edge of every getCodeEntry call leads only
// to error returns.
func c07SameCodeAndErrors(c *core.Ctx) {
	const pkg = "data/state"
	notEqualHashes := func(b *ssa.BasicBlock, oldKey, newKey string) bool {
		for _, cd := range core.CondsAt(b) {
			call, ok := cd.V.(*ssa.Call)
			if !ok || cd.Taken || call.Call.StaticCallee() == nil || call.Call.StaticCallee().Name() != "Equal" || len(call.Call.Args) != 2 {
				continue
			}
			a0, a1 := core.ExprKey(call.Call.Args[0]), core.ExprKey(call.Call.Args[1])
			if (a0 == oldKey && a1 == newKey) || (a0 == newKey && a1 == oldKey) {
				return true
			}
		}
		return false
	}
	if fn := anchorM(c, pkg, "AccountsDB", "saveCode"); fn != nil {
		var upOld, upNew *ssa.Call
		core.Instrs(fn, func(in ssa.Instruction) {
			if call, ok := in.(*ssa.Call); ok && call.Call.StaticCallee() != nil {
				switch call.Call.StaticCallee().Name() {
				case "updateOldCodeEntry":
					upOld = call
				case "updateNewCodeEntry":
					upNew = call
				}
			}
		})
		if upOld == nil || upNew == nil {
			c.Undecided("C07/same-code-leaves-entries-alone", "AccountsDB.saveCode", fn.Pos(), "updateOldCodeEntry/updateNewCodeEntry not found")
		} else {
			oldKey, newKey := core.ExprKey(upOld.Call.Args[1]), core.ExprKey(upNew.Call.Args[1])
			ok := notEqualHashes(upOld.Block(), oldKey, newKey) && notEqualHashes(upNew.Block(), oldKey, newKey)
			c.Check(ok, "C07/same-code-leaves-entries-alone", "AccountsDB.saveCode", upOld.Pos(),
				"the old entry is released and the new one acquired only when bytes.Equal(oldCodeHash, newCodeHash) is false",
				"the code entries are updated without a dominating test that the old and the new code hash differ: saving the code an account already has goes through release+acquire and is journalised, and undoing that save decrements the entry once more")
		}
	}
	if fn := anchorM(c, pkg, "journalEntryCode", "Revert"); fn != nil {
		// every trie write of the undo lies behind old != new
		n := 0
		okAll := true
		core.Instrs(fn, func(in ssa.Instruction) {
			cc := core.CallOf(in)
			if cc == nil {
				return
			}
			isWrite := cc.IsInvoke() && (cc.Method.Name() == "Update" || cc.Method.Name() == "Delete")
			if g := cc.StaticCallee(); g != nil && (g.Name() == "revertOldCodeEntry" || g.Name() == "revertNewCodeEntry" || g.Name() == "saveCodeEntry") {
				isWrite = true
			}
			if !isWrite {
				return
			}
			n++
			if !notEqualHashes(in.Block(), "recv.oldCodeHash", "recv.newCodeHash") {
				okAll = false
			}
		})
		c.Check(okAll && n > 0, "C07/same-code-leaves-entries-alone", "journalEntryCode.Revert", fn.Pos(),
			"the undo touches code entries only when bytes.Equal(oldCodeHash, newCodeHash) is false",
			"the undo of a code change touches code entries without a dominating test that the two hashes differ: undoing a same-code save restores the entry and then decrements it again")
	}
	get := c.P.Method(pkg, "AccountsDB", "getCodeEntry")
	if get == nil {
		get = c.P.Func(pkg, "getCodeEntry")
	}
	n := 0
	for _, fn := range c.P.FuncsOfPkg(pkg) {
		k := 0
		for _, in := range core.CallsIn(fn, func(in ssa.Instruction, cc *ssa.CallCommon) bool {
			return cc.StaticCallee() != nil && cc.StaticCallee().Name() == "getCodeEntry"
		}) {
			call, ok := in.(*ssa.Call)
			if !ok {
				continue
			}
			k++
			n++
			c.Analysed(fname(fn))
			edges, tail, handled := core.ErrNilEdges(call)
			okErr := handled && (tail || len(edges) > 0)
			why := "the error of the read is not tested"
			if okErr && !tail {
				for e := range edges {
					b := fn.Blocks[e[0]]
					other := b.Succs[1-e[1]]
					if !core.OnlyErrorReturnsFrom(other, b, nil) {
						okErr, why = false, "the branch taken when the read fails continues instead of returning the error ("+c.P.Pos(firstPos(other))+")"
					}
				}
			}
			c.Check(okErr, "C07/code-entry-read-errors-propagate", fmt.Sprintf("%s/getCodeEntry#%d", fname(fn), k), in.Pos(),
				"a failed read of the code entry makes the operation fail",
				why+": a transient read failure is taken for 'no entry yet', the entry is re-created with one reference and every reference counted so far is lost")
		}
	}
	_ = get
	c.Floor("C07/code-entry-read-errors-propagate", 2)
	c.Floor("C07/same-code-leaves-entries-alone", 2)
}

// c07NewCodeFlagOnlySet: an account instance on which SetCode was called keeps asking for the code
// bookkeeping on every later save - the reference counts are rebuilt from the stored record each
// time, which is what keeps them right when the entry was released in between (revert, removal,
// another instance). Nothing in the package clears the flag.
func c07NewCodeFlagOnlySet(c *core.Ctx) {
	const pkg = "data/state"
	fld := c.P.Field(pkg, "baseAccount", "hasNewCode")
	if fld == nil {
		c.Undecided("anchor", "baseAccount.hasNewCode", 0, "field not found")
		return
	}
	sets, clears := 0, ""
	for _, fn := range c.P.FuncsOfPkg(pkg) {
		core.Instrs(fn, func(in ssa.Instruction) {
			st, ok := in.(*ssa.Store)
			if !ok {
				return
			}
			fa, ok := st.Addr.(*ssa.FieldAddr)
			if !ok || core.FieldOfAddr(fa) != fld {
				return
			}
			if b, isC := core.ConstBool(st.Val); isC && b {
				sets++
				return
			}
			clears = fname(fn) + " at " + c.P.Pos(st.Pos())
		})
	}
	c.Check(sets >= 1 && clears == "", "C07/new-code-flag-only-set", "baseAccount.hasNewCode", 0,
		"hasNewCode is only ever set to true",
		"hasNewCode is assigned something other than true ("+clears+"): a later save of the same account instance skips the code bookkeeping although the entry may have been released meanwhile - the account then refers to a code hash with no entry, or the entry's reference count is too low")
}
