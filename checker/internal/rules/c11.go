package rules

import (
	"fmt"
	"go/token"

	"golang.org/x/tools/go/ssa"

	"verif/checker/internal/core"
)

func init() {
	register(&Rule{
		ID:    "C11",
		Title: "Every address maps to exactly one valid shard",
		Pkgs:  []string{"sharding", "core"},
		Explain: "Decides the clauses of the property that are code shape; the central one (the masked value is one of the configured shards) is arithmetic over masks and is NOT decided. (S1) multiShardCoordinator.ComputeIdFromBytes " +
			"returns the metachain id only on the branch where core.IsSmartContractOnMetachain answered true for the same address; every other return is the masked value. (S2) SameShard answers true only for byte-equal " +
			"addresses or equal ComputeId results of its two arguments, and false only when the two ComputeId results differ: 'same shard exactly when the computed shards are equal'. (S3) determinism: the call cone of " +
			"ComputeIdFromBytes inside the module contains no map iteration, goroutine, select, time, random source or write to shared state. (S4) core.CommunicationIdentifierBetweenShards is symmetric by construction: " +
			"every return that concatenates two identifiers puts the smaller shard first under a dominating comparison of its two parameters, and the equal / all-shards cases return an identifier that does not depend on the order. " +
			"(S5) the window of the address that IsSmartContractOnMetachain tests for the zero prefix starts at NumInitCharactersForScAddress and is numInitCharactersForOnMetachainSC bytes long. " +
			"Not decided (value-level): masks and the range of the result, distinctness of identifiers for distinct pairs.",
		Run: runC11,
	})
}

func runC11(c *core.Ctx) {
	cid := anchorM(c, "sharding", "multiShardCoordinator", "ComputeIdFromBytes")
	if cid != nil {
		c.Analysed(fname(cid))
		n := 0
		for _, r := range core.Returns(cid) {
			v := core.RetOperand(r, 0)
			cst, isC := v.(*ssa.Const)
			if !isC {
				continue
			}
			n++
			_ = cst
			okMeta := false
			for _, cd := range core.CondsAt(r.Block()) {
				call, isCall := cd.V.(*ssa.Call)
				if isCall && cd.Taken && call.Call.StaticCallee() != nil && call.Call.StaticCallee().Name() == "IsSmartContractOnMetachain" {
					// the same address
					for _, a := range call.Call.Args {
						if a == ssa.Value(cid.Params[1]) {
							okMeta = true
						}
					}
				}
			}
			c.Check(okMeta, "C11/metachain-only-for-metachain-contracts", fmt.Sprintf("ComputeIdFromBytes/const-return#%d", n), r.Pos(),
				"a constant shard id (the metachain) is returned only where IsSmartContractOnMetachain(…, address) is known true",
				"a constant shard id is returned without the dominating metachain-contract test on the same address: ordinary addresses are mapped to the metachain (or to a fixed shard)")
		}
		c.Floor("C11/metachain-only-for-metachain-contracts", 1)
		c11MetachainWindow(c)
		// S3 determinism of the cone
		cone := c.P.Cone([]*ssa.Function{cid}, nil)
		var bad []string
		for _, f := range cone {
			for _, s := range core.NondetSources(f) {
				bad = append(bad, fname(f)+": "+s.String()+" at "+c.P.Pos(s.Pos()))
			}
			for _, ml := range core.MapLoops(f) {
				_ = ml
				bad = append(bad, fname(f)+": ranges over a map")
			}
		}
		c.Check(len(bad) == 0, "C11/assignment-deterministic", "ComputeIdFromBytes/cone", cid.Pos(),
			fmt.Sprintf("%d functions in the call cone, none with a map range, goroutine, select, clock or random source", len(cone)),
			fmt.Sprintf("the shard computation can depend on something other than the address and the configuration: %v", bad))
	}
	if ss := anchorM(c, "sharding", "multiShardCoordinator", "SameShard"); ss != nil {
		c.Analysed(fname(ss))
		ok := true
		why := ""
		n := 0
		for _, r := range core.Returns(ss) {
			n++
			v := core.RetOperand(r, 0)
			if b, isC := core.ConstBool(v); isC {
				if !b {
					ok, why = false, "a constant false is returned"
					continue
				}
				eq := false
				for _, cd := range core.CondsAt(r.Block()) {
					if call, isCall := cd.V.(*ssa.Call); isCall && cd.Taken && call.Call.StaticCallee() != nil && call.Call.StaticCallee().Name() == "Equal" {
						a0, a1 := call.Call.Args[0], call.Call.Args[1]
						if (a0 == ssa.Value(ss.Params[1]) && a1 == ssa.Value(ss.Params[2])) || (a1 == ssa.Value(ss.Params[1]) && a0 == ssa.Value(ss.Params[2])) {
							eq = true
						}
					}
				}
				if !eq {
					ok, why = false, "true is returned without the two addresses being byte-equal"
				}
				continue
			}
			bo, isBo := v.(*ssa.BinOp)
			good := false
			if isBo && bo.Op == token.EQL {
				argOf := func(x ssa.Value) ssa.Value {
					call, isCall := x.(*ssa.Call)
					if !isCall || call.Call.StaticCallee() == nil {
						return nil
					}
					if nm := call.Call.StaticCallee().Name(); nm != "ComputeId" && nm != "ComputeIdFromBytes" {
						return nil
					}
					return call.Call.Args[1]
				}
				a, b := argOf(bo.X), argOf(bo.Y)
				good = (a == ssa.Value(ss.Params[1]) && b == ssa.Value(ss.Params[2])) || (b == ssa.Value(ss.Params[1]) && a == ssa.Value(ss.Params[2]))
			}
			if !good {
				ok, why = false, "the answer is not ComputeId(first) == ComputeId(second)"
			}
		}
		c.Check(ok && n > 0, "C11/same-shard-is-equality-of-computed-shards", "multiShardCoordinator.SameShard", ss.Pos(),
			"every answer is byte-equality of the addresses or equality of their computed shards", why+": two addresses can be reported same-shard although their computed shards differ, or the reverse")
	}
	if ci := anchorF(c, "core", "CommunicationIdentifierBetweenShards"); ci != nil {
		c.Analysed(fname(ci))
		p1, p2 := ssa.Value(ci.Params[0]), ssa.Value(ci.Params[1])
		n := 0
		for _, r := range core.Returns(ci) {
			n++
			v := core.RetOperand(r, 0)
			name := fmt.Sprintf("CommunicationIdentifierBetweenShards/return#%d", n)
			if bo, isBo := v.(*ssa.BinOp); isBo && bo.Op == token.ADD {
				argOf := func(x ssa.Value) ssa.Value {
					if call, ok := x.(*ssa.Call); ok && len(call.Call.Args) == 1 {
						return call.Call.Args[0]
					}
					return nil
				}
				first, second := argOf(bo.X), argOf(bo.Y)
				// the first component is the smaller id under the dominating comparison; when the two
				// components are locals chosen by a comparison (phis of one block), each incoming edge is
				// one case and the comparison is the one known on that edge
				type symCase struct {
					first, second ssa.Value
					facts         []core.Fact
				}
				cases := []symCase{{first, second, core.FactsAt(r.Block())}}
				if pf, ok := first.(*ssa.Phi); ok {
					if ps, ok := second.(*ssa.Phi); ok && ps.Block() == pf.Block() {
						cases = nil
						for i, pred := range pf.Block().Preds {
							var facts []core.Fact
							for si, s := range pred.Succs {
								if s == pf.Block() {
									for _, cnd := range core.CondsOnEdge(pred, si) {
										facts = append(facts, core.FactOf(cnd))
									}
									break
								}
							}
							cases = append(cases, symCase{pf.Edges[i], ps.Edges[i], append(facts, core.FactsAt(r.Block())...)})
						}
					}
				}
				ordered, both := len(cases) > 0, len(cases) > 0
				for _, cs := range cases {
					o := false
					for _, f := range cs.facts {
						if (f.Op == "<" || f.Op == "<=") && cs.first != nil && cs.second != nil && f.A == core.ExprKey(cs.first) && f.B == core.ExprKey(cs.second) {
							o = true
						}
					}
					ordered = ordered && o
					both = both && ((cs.first == p1 && cs.second == p2) || (cs.first == p2 && cs.second == p1))
				}
				c.Check(ordered && both, "C11/identifier-symmetric", name, r.Pos(), "the concatenation puts the smaller shard id first (dominating comparison of the two parameters)",
					"the two shard ids are concatenated without a dominating comparison that puts the smaller one first: the identifier for (a, b) differs from the one for (b, a), the two directions use different topics")
				continue
			}
			// single-identifier returns must not depend on which parameter is which: allowed under a dominating
			// equality of the parameters, or when the value is a constant identifier
			sym := false
			if call, ok := v.(*ssa.Call); ok && len(call.Call.Args) == 1 {
				if _, isC := call.Call.Args[0].(*ssa.Const); isC {
					sym = true
				}
				for _, f := range core.FactsAt(r.Block()) {
					if f.Op == "==" && ((f.A == core.ExprKey(p1) && f.B == core.ExprKey(p2)) || (f.A == core.ExprKey(p2) && f.B == core.ExprKey(p1))) {
						sym = true
					}
				}
			}
			c.Check(sym, "C11/identifier-symmetric", name, r.Pos(), "a single identifier is returned for equal shards or as a constant", "a single shard's identifier is returned although the two shards may differ: the identifier depends on the direction")
		}
		c.Floor("C11/identifier-symmetric", 4)
	}
}

// c11MetachainWindow: what makes an address a metachain system-contract address is the run of
// numInitCharactersForOnMetachainSC zero bytes that follows the NumInitCharactersForScAddress-byte
// contract prefix. Every window of the address that IsSmartContractOnMetachain cuts out for that
// test starts at the one constant and is as long as the other: a shorter window classifies
// ordinary contract addresses (non-zero bytes further on) as metachain ones.
func c11MetachainWindow(c *core.Ctx) {
	fn := anchorF(c, "core", "IsSmartContractOnMetachain")
	if fn == nil {
		return
	}
	lowC, lenC := c.P.Const("core", "NumInitCharactersForScAddress"), c.P.Const("core", "numInitCharactersForOnMetachainSC")
	if lowC == nil || lenC == nil || len(fn.Params) < 2 {
		c.Undecided("anchor", "core.NumInitCharactersForScAddress/numInitCharactersForOnMetachainSC", fn.Pos(), "constants not found")
		return
	}
	wantLow, _ := constInt64(lowC)
	wantLen, _ := constInt64(lenC)
	n := 0
	core.Instrs(fn, func(in ssa.Instruction) {
		sl, ok := in.(*ssa.Slice)
		if !ok || sl.X != ssa.Value(fn.Params[1]) {
			return
		}
		n++
		lo, hi := int64(0), int64(-1)
		okB := true
		if sl.Low != nil {
			lo, okB = core.ConstInt(sl.Low)
		}
		if sl.High != nil && okB {
			hi, okB = core.ConstInt(sl.High)
		} else {
			okB = false
		}
		c.Check(okB && lo == wantLow && hi-lo == wantLen, "C11/metachain-prefix-window", fmt.Sprintf("IsSmartContractOnMetachain/window#%d", n), sl.Pos(),
			fmt.Sprintf("the window tested is address[%d:%d]", wantLow, wantLow+wantLen),
			fmt.Sprintf("the window of the address tested for the metachain prefix is [%d:%d] (constant bounds: %v), not the %d bytes after the %d-byte contract prefix: addresses with non-zero bytes outside the window are classified as metachain contracts and mapped to the metachain", lo, hi, okB, wantLen, wantLow))
	})
	if n == 0 {
		c.Undecided("C11/metachain-prefix-window", "IsSmartContractOnMetachain", fn.Pos(), "no window of the address is cut out for the zero-prefix test (the test was rewritten): the rule cannot be evaluated")
	}
}
