package rules

import (
	"fmt"
	"go/token"
	"go/types"
	"strings"

	"golang.org/x/tools/go/ssa"

	"verif/checker/internal/core"
)

func init() {
	register(&Rule{
		ID:    "C42",
		Title: "Per-peer flood quotas are enforced",
		Pkgs:  []string{"process/throttle/antiflood/floodPreventers"},
		Explain: "Decides the guard structure of quotaFloodPreventer.increaseLoad: a message of a peer that already has a quota record is accepted (nil) only on the branch where the disjunction of BOTH limit " +
			"tests is false - isMaximumReached(max number of messages, received count) and isMaximumReached(max total size, received size) on that peer's own record - and both received counters were incremented " +
			"(count by 1, size by the message size) before the tests; the only other accepting paths create the default quota for a peer seen for the first time. A missing test or a test on the wrong counter lets a peer exceed its quota. " +
			"Looking a record up, counting on it and storing a new one is one exclusive critical section: every use of the records cache in a method that (itself or through the preventer's methods) also modifies it runs with mutOperation write-locked. " +
			"Not decided (value-level): the numeric bounds (percent reserved arithmetic), eviction of quota records from the cache.",
		Run: runC42,
	})
}

func runC42(c *core.Ctx) {
	const pkg = "process/throttle/antiflood/floodPreventers"
	// the admission: increaseLoad, or - when that helper was folded into its only caller - IncreaseLoad itself
	// (same parameters: the peer and the message size)
	fn := optM(c, pkg, "quotaFloodPreventer", "increaseLoad")
	if fn == nil {
		fn = anchorM(c, pkg, "quotaFloodPreventer", "IncreaseLoad")
	}
	if fn == nil {
		return
	}
	isDefault := func(in ssa.Instruction) bool { return core.IsCall(in, pkg, "quotaFloodPreventer", "putDefaultQuota") }
	n := 0
	for i, r := range core.Returns(fn) {
		if !core.NilReturn(r, nil) {
			continue
		}
		n++
		name := fmt.Sprintf("increaseLoad/accept#%d", i)
		// first-message path?
		first := false
		for _, in := range r.Block().Instrs {
			if isDefault(in) {
				first = true
			}
		}
		if first {
			c.Pass("C42/accept-only-under-quota", name, r.Pos(), "accepts while creating the default quota for a peer without a record")
			continue
		}
		// dominated by the quota test being false
		// every dominating condition known to be false contributes its disjuncts (`if a || b` lowers either to
		// one phi condition or to two nested conditions)
		var testedCalls []ssa.Value
		testedAt := map[ssa.Value]ssa.Instruction{} // where in increaseLoad a test made in a helper takes place
		for _, cd := range core.CondsAt(r.Block()) {
			if !cd.Taken {
				ds := core.Disjuncts(cd.V)
				calls := 0
				var found []ssa.Value
				for _, d := range ds {
					call, ok := d.(*ssa.Call)
					if !ok {
						continue
					}
					if core.CallDesc(&call.Call).Name == "isMaximumReached" {
						calls++
						found = append(found, d)
						continue
					}
					// a boolean helper of the preventer whose every answer is a disjunction of limit tests
					h := call.Call.StaticCallee()
					if h == nil || h.Blocks == nil || h.Pkg != fn.Pkg {
						continue
					}
					all, any := true, false
					var inner []ssa.Value
					for _, hr := range core.Returns(h) {
						if len(hr.Results) != 1 {
							all = false
							continue
						}
						rv := core.RetOperand(hr, 0)
						if b, isC := core.ConstBool(rv); isC {
							all = all && b // a constant 'reached' refuses; a constant 'not reached' accepts untested
							continue
						}
						for _, hd := range core.Disjuncts(rv) {
							hc, isCall := hd.(*ssa.Call)
							if !isCall || core.CallDesc(&hc.Call).Name != "isMaximumReached" {
								all = false
								continue
							}
							any = true
							inner = append(inner, hd)
						}
					}
					if all && any {
						calls++
						c.Analysed(fname(h))
						for _, x := range inner {
							testedAt[x] = call
						}
						found = append(found, inner...)
					}
				}
				if calls == len(ds) && calls > 0 {
					testedCalls = append(testedCalls, found...)
				}
			}
		}
		if len(testedCalls) == 0 {
			c.Fail("C42/accept-only-under-quota", name, r.Pos(), "a message of a known peer is accepted without the quota test having failed to trigger")
			continue
		}
		num, size := false, false
		var tests []*ssa.Call
		for _, d := range testedCalls {
			call := d.(*ssa.Call)
			tests = append(tests, call)
			a0, a1 := core.ExprKey(call.Call.Args[1]), core.ExprKey(call.Call.Args[2])
			if strings.Contains(a0, "recv.computedMaxNumMessagesPerPeer") && strings.HasSuffix(a1, ".numReceivedMessages") {
				num = true
			}
			if strings.Contains(a0, "recv.maxTotalSizePerPeer") && strings.HasSuffix(a1, ".sizeReceivedMessages") {
				size = true
			}
		}
		c.Check(num, "C42/accept-only-under-quota", name+"/message-count-limit", r.Pos(), "accepted only if isMaximumReached(max messages per peer, received count) is false",
			"the accepting branch is not guarded by the message-count limit on the peer's received-message counter")
		c.Check(size, "C42/accept-only-under-quota", name+"/total-size-limit", r.Pos(), "accepted only if isMaximumReached(max total size per peer, received size) is false",
			"the accepting branch is not guarded by the total-size limit on the peer's received-size counter")
		// counters incremented before the tests
		for _, fld := range []string{"numReceivedMessages", "sizeReceivedMessages"} {
			ok := false
			core.Instrs(fn, func(in ssa.Instruction) {
				st, isSt := in.(*ssa.Store)
				if !isSt {
					return
				}
				fa, isFA := st.Addr.(*ssa.FieldAddr)
				if !isFA || core.FieldOfAddr(fa).Name() != fld {
					return
				}
				b, isB := st.Val.(*ssa.BinOp)
				if !isB || b.Op != token.ADD {
					return
				}
				inc := core.ExprKey(b.Y)
				want := "1"
				if fld == "sizeReceivedMessages" {
					want = "p2"
				}
				if inc != want {
					return
				}
				dom := true
				for _, t := range tests {
					var at ssa.Instruction = t
					if a, via := testedAt[t]; via {
						at = a
					}
					if !core.DominatesInstr(st, at) {
						dom = false
					}
				}
				if dom {
					ok = true
				}
			})
			// ... or by a method of the record called before the tests, which increases the field on every path
			// (by 1, or by the parameter that stands for the message size)
			if !ok {
				for _, site := range core.CallsIn(fn, func(_ ssa.Instruction, cc *ssa.CallCommon) bool {
					h := cc.StaticCallee()
					return h != nil && h.Blocks != nil && h.Pkg == fn.Pkg && h != fn
				}) {
					cc := core.CallOf(site)
					h := cc.StaticCallee()
					core.Instrs(h, func(in ssa.Instruction) {
						st, isSt := in.(*ssa.Store)
						if !isSt {
							return
						}
						fa, isFA := st.Addr.(*ssa.FieldAddr)
						if !isFA || core.FieldOfAddr(fa).Name() != fld {
							return
						}
						b, isB := st.Val.(*ssa.BinOp)
						if !isB || b.Op != token.ADD {
							return
						}
						inc := core.ExprKey(b.Y)
						for i, p := range h.Params {
							if ssa.Value(p) == b.Y && i < len(cc.Args) {
								inc = core.ExprKey(cc.Args[i])
							}
						}
						want := "1"
						if fld == "sizeReceivedMessages" {
							want = "p2"
						}
						if inc != want {
							return
						}
						for _, hr := range core.Returns(h) {
							if !st.Block().Dominates(hr.Block()) {
								return
							}
						}
						dom := true
						for _, t := range tests {
							var at ssa.Instruction = t
							if a, via := testedAt[t]; via {
								at = a
							}
							if !core.DominatesInstr(site, at) {
								dom = false
							}
						}
						if dom {
							ok = true
							c.Analysed(fname(h))
						}
					})
				}
			}
			c.Check(ok, "C42/accept-only-under-quota", name+"/"+fld+"-incremented-first", r.Pos(), fld+" is increased before the limits are tested",
				fld+" is not increased (by 1 / by the message size) before the limit tests: the tests see the load without the current message")
		}
	}
	if n == 0 {
		c.Fail("C42/accept-only-under-quota", "increaseLoad", fn.Pos(), "no accepting exit found")
	}
	// the quota threshold is computed in integer arithmetic (a float32 cannot represent large quotas exactly and rounds some of them up)
	if im := anchorM(c, pkg, "quotaFloodPreventer", "isMaximumReached"); im != nil {
		fl := ""
		core.Instrs(im, func(in ssa.Instruction) {
			cv, ok := in.(*ssa.Convert)
			if !ok {
				return
			}
			if bt, ok := cv.Type().Underlying().(*types.Basic); !ok || bt.Info()&types.IsFloat == 0 {
				return
			}
			// the (possibly large) absolute quota must stay an integer; only the small percentage may be a float
			if core.BackwardReachPure(cv.X)[im.Params[1]] {
				fl = c.P.Pos(in.Pos())
			}
		})
		c.Check(fl == "", "C42/quota-arithmetic", "quotaFloodPreventer.isMaximumReached/integer-only", im.Pos(), "the absolute quota is never converted to floating point", "the absolute quota is converted to floating point in the threshold computation ("+fl+"): large quotas are rounded and can be exceeded")
	}
	// the effective per-peer quota is derived from the configured base, never from its own previous value (no ratchet over repeated calls)
	if ac := anchorM(c, pkg, "quotaFloodPreventer", "ApplyConsensusSize"); ac != nil {
		n := 0
		core.Instrs(ac, func(in ssa.Instruction) {
			st, ok := in.(*ssa.Store)
			if !ok || !isRecvFieldAddr(ac, st.Addr, "computedMaxNumMessagesPerPeer") {
				return
			}
			n++
			base, self := false, false
			for v := range reachWithHelpers(st.Val, ac.Pkg) {
				k := core.ExprKey(v)
				if k == "recv.baseMaxNumMessagesPerPeer" {
					base = true
				}
				if k == "recv.computedMaxNumMessagesPerPeer" {
					self = true
				}
			}
			c.Check(base && !self, "C42/quota-arithmetic", "quotaFloodPreventer.ApplyConsensusSize/from-base", st.Pos(), "computedMaxNumMessagesPerPeer = base + increase",
				"the effective message quota is computed from its own previous value instead of the configured base: every call raises it further and it never shrinks")
		})
		if n == 0 {
			c.Fail("C42/quota-arithmetic", "quotaFloodPreventer.ApplyConsensusSize", ac.Pos(), "the effective quota is no longer set here: anchor drift")
		}
	}
	c.Floor("C42/accept-only-under-quota", 6)
	c42OneCriticalSection(c)
}

// c42OneCriticalSection: looking a peer's record up, counting the message on it and storing a new
// record is one exclusive critical section. Every use of the records cache in a method of the
// preventer that (itself or through the preventer's own methods) also modifies the cache, and
// every modification, happens with mutOperation write-locked: under a shared lock concurrent
// messages of one peer all miss, or all count on a stale value, and the peer exceeds its quota.
func c42OneCriticalSection(c *core.Ctx) {
	const pkg = "process/throttle/antiflood/floodPreventers"
	mu := c.P.Field(pkg, "quotaFloodPreventer", "mutOperation")
	cacheF := c.P.Field(pkg, "quotaFloodPreventer", "cacher")
	if mu == nil || cacheF == nil {
		c.Undecided("anchor", "quotaFloodPreventer.{mutOperation,cacher}", 0, "fields not found")
		return
	}
	var fns []*ssa.Function
	for _, f := range c.P.FuncsOfPkg(pkg) {
		if f.Signature.Recv() != nil && strings.HasSuffix(f.Signature.Recv().Type().String(), "floodPreventers.quotaFloodPreventer") {
			fns = append(fns, f)
		}
	}
	readOnly := map[string]bool{"Get": true, "Peek": true, "Has": true, "Keys": true, "Len": true, "MaxSize": true, "IsInterfaceNil": true, "SizeInBytesContained": true}
	cacheCall := func(in ssa.Instruction) (string, bool) {
		cc := core.CallOf(in)
		if cc == nil || !cc.IsInvoke() {
			return "", false
		}
		if _, f := core.FieldLoad(cc.Value); f != cacheF {
			return "", false
		}
		return cc.Method.Name(), true
	}
	mutates := map[*ssa.Function]bool{}
	for changed := true; changed; {
		changed = false
		for _, f := range fns {
			if mutates[f] {
				continue
			}
			core.Instrs(f, func(in ssa.Instruction) {
				if name, ok := cacheCall(in); ok && !readOnly[name] {
					mutates[f] = true
				}
				if cc := core.CallOf(in); cc != nil && cc.StaticCallee() != nil && mutates[cc.StaticCallee()] {
					mutates[f] = true
				}
			})
			if mutates[f] {
				changed = true
			}
		}
	}
	entry := core.EntryModes(fns, mu)
	n := 0
	for _, f := range fns {
		if !mutates[f] {
			continue
		}
		modes := core.LockModes(f, mu, entry[f])
		k := 0
		core.Instrs(f, func(in ssa.Instruction) {
			name, ok := cacheCall(in)
			if !ok || name == "IsInterfaceNil" {
				return
			}
			if fa, isFa := core.CallOf(in).Value.(*ssa.UnOp); isFa {
				if a, isA := fa.X.(*ssa.FieldAddr); isA {
					if _, fresh := a.X.(*ssa.Alloc); fresh {
						return // constructor
					}
				}
			}
			n++
			k++
			c.Sites++
			c.Check(modes[in] == core.ModeW, "C42/counting-is-one-critical-section", fmt.Sprintf("%s/cacher.%s#%d", fname(f), name, k), in.Pos(),
				"cacher."+name+" while mutOperation is write-locked",
				fmt.Sprintf("cacher.%s in a method that also modifies the records cache runs while mutOperation is only %s: lookup, count and store of one peer's record are no longer atomic - concurrent messages of that peer each see a miss (or a stale count) and all are accepted", name, modes[in]))
		})
	}
	c.Floor("C42/counting-is-one-critical-section", 3)
}
