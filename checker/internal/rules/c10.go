package rules

import (
	"fmt"
	"go/token"
	"go/types"
	"strings"

	"golang.org/x/tools/go/ssa"

	"verif/checker/internal/core"
)

func init() {
	register(&Rule{
		ID:    "C10",
		Title: "State snapshots and checkpoints are complete",
		Pkgs:  []string{"data/trie", "data/trie/hashesHolder", "data/trie/factory", "data/state"},
		Explain: "Decides structural conditions of completeness. (S1 pairing) TakeSnapshot/SetCheckpoint enter pruning-buffering mode before enqueueing; takeSnapshot leaves it exactly once on every path (deferred); " +
			"SnapshotState/setStateCheckpoint enter once and their goroutine exits once. (S2 traversal) commitSnapshot/commitCheckpoint of branch nodes visit every child slot (resolve-if-collapsed then recurse, errors checked, " +
			"no exit other than exhaustion, error, or ShouldCommit==false), extension nodes resolve and recurse, and every node type writes itself to the target DB (error checked) before reporting success; leaves are " +
			"pushed on the leaves channel first. (S3) SnapshotState and setStateCheckpoint hand the same leaves channel to the storage manager and to snapshotUserAccountDataTrie, which snapshots/checkpoints the data trie " +
			"of every leaf that decodes to an account with a non-empty root hash. A skipped child, an unpersisted node or an unvisited data trie makes the snapshot unrecoverable. " +
			"checkpointHashesHolder.RemoveCommitted drops entries only behind the test that the entry reached is the given root (directly or through a found-flag). " +
			"trieCreator.Create gives each storage manager a checkpoint hashes holder created in that call. " +
			"Not decided (schedules/value-level): atomicity against concurrent commits, errors swallowed by takeSnapshot's logging, queue capacity.",
		Run: runC10,
	})
}

func runC10(c *core.Ctx) {
	c10HolderPerStorageManager(c)
	c10DropOnlyUpToAFoundRoot(c)
	const tp = "data/trie"
	const sp = "data/state"
	isEnter := func(in ssa.Instruction) bool {
		cc := core.CallOf(in)
		return cc != nil && core.CallDesc(cc).Name == "EnterPruningBufferingMode"
	}
	isExit := func(in ssa.Instruction) bool {
		cc := core.CallOf(in)
		return cc != nil && core.CallDesc(cc).Name == "ExitPruningBufferingMode"
	}
	// S1a
	for _, m := range []string{"TakeSnapshot", "SetCheckpoint"} {
		fn := anchorM(c, tp, "trieStorageManager", m)
		if fn == nil {
			continue
		}
		q := core.PathQ{Fn: fn, Via: isEnter, Target: func(in ssa.Instruction, _ *ssa.BasicBlock) bool {
			return core.IsCall(in, tp, "trieStorageManager", "writeOnChan")
		}}
		esc, path := q.Escape()
		n := len(callsMatching(fn, tp, "trieStorageManager", "writeOnChan"))
		c.Check(esc == nil && n > 0, "C10/enter-before-enqueue", "trieStorageManager."+m, fn.Pos(), "EnterPruningBufferingMode precedes the enqueue on every path",
			"the snapshot request is enqueued without entering pruning-buffering mode (or is not enqueued at all): "+c.P.PathString(path))
	}
	// S1b takeSnapshot: deferred closure exits exactly once
	if fn := anchorM(c, tp, "trieStorageManager", "takeSnapshot"); fn != nil {
		var deferred *ssa.Function
		var deferIn ssa.Instruction
		core.Instrs(fn, func(in ssa.Instruction) {
			if d, ok := in.(*ssa.Defer); ok {
				if mc, ok := d.Call.Value.(*ssa.MakeClosure); ok {
					if f, ok := mc.Fn.(*ssa.Function); ok && len(core.CallsIn(f, func(i ssa.Instruction, cc *ssa.CallCommon) bool { return isExit(i) })) > 0 {
						deferred, deferIn = f, in
					}
				}
			}
		})
		direct := core.CallsIn(fn, func(i ssa.Instruction, cc *ssa.CallCommon) bool { return isExit(i) })
		ok, why := true, ""
		if deferred == nil {
			ok, why = false, "no deferred closure calling ExitPruningBufferingMode"
		} else {
			// defer executes before any return
			q := core.PathQ{Fn: fn, Via: func(in ssa.Instruction) bool { return in == deferIn }, Target: core.AnyReturn}
			if esc, p := q.Escape(); esc != nil {
				ok, why = false, "a return is reachable before the deferred exit is registered: "+c.P.PathString(p)
			}
			for r, cnt := range core.CountEvents(deferred, func(in ssa.Instruction) int {
				if isExit(in) {
					return 1
				}
				return 0
			}, core.AnyReturn) {
				if cnt.Min != 1 || cnt.Max != 1 {
					ok, why = false, fmt.Sprintf("the deferred closure calls ExitPruningBufferingMode %d..%d times on the path to %s", cnt.Min, cnt.Max, c.P.Pos(r.Pos()))
				}
			}
			if len(direct) > 0 {
				ok, why = false, "ExitPruningBufferingMode is also called directly: the mode counter is decremented twice"
			}
		}
		c.Check(ok, "C10/exit-exactly-once", "trieStorageManager.takeSnapshot", fn.Pos(), "ExitPruningBufferingMode runs exactly once on every path (deferred)", why)
		// both traversals are reachable: commitSnapshot and commitCheckpoint are invoked on the root loaded from rootHash
		for _, m := range []string{"commitSnapshot", "commitCheckpoint"} {
			calls := core.CallsIn(fn, func(in ssa.Instruction, cc *ssa.CallCommon) bool { return isInvoke(cc, m) })
			c.Check(len(calls) == 1, "C10/traversal-started", "trieStorageManager.takeSnapshot/"+m, fn.Pos(), "the traversal is started on the root node", "takeSnapshot no longer starts "+m)
		}
	}
	// S1c + S3 AccountsDB
	for _, a := range [][2]string{{"SnapshotState", "TakeSnapshot"}, {"setStateCheckpoint", "SetCheckpoint"}} {
		fn := anchorM(c, sp, "AccountsDB", a[0])
		if fn == nil {
			continue
		}
		ok, why := true, ""
		for r, cnt := range core.CountEvents(fn, func(in ssa.Instruction) int {
			if isEnter(in) {
				return 1
			}
			return 0
		}, core.AnyReturn) {
			if cnt.Min != 1 || cnt.Max != 1 {
				ok, why = false, fmt.Sprintf("EnterPruningBufferingMode is called %d..%d times before %s", cnt.Min, cnt.Max, c.P.Pos(r.Pos()))
			}
		}
		var gofn *ssa.Function
		nGo := 0
		core.Instrs(fn, func(in ssa.Instruction) {
			if g, isGo := in.(*ssa.Go); isGo {
				nGo++
				if mc, ok := g.Call.Value.(*ssa.MakeClosure); ok {
					gofn, _ = mc.Fn.(*ssa.Function)
				}
			}
		})
		if gofn == nil || nGo != 1 {
			ok, why = false, "expected exactly one goroutine closure doing the snapshot work"
		} else {
			c.Analysed(core.QualName(gofn))
			for r, cnt := range core.CountEvents(gofn, func(in ssa.Instruction) int {
				if isExit(in) {
					return 1
				}
				return 0
			}, core.AnyReturn) {
				if cnt.Min != 1 || cnt.Max != 1 {
					ok, why = false, fmt.Sprintf("the goroutine calls ExitPruningBufferingMode %d..%d times before %s", cnt.Min, cnt.Max, c.P.Pos(r.Pos()))
				}
			}
		}
		c.Check(ok, "C10/enter-exit-paired", "AccountsDB."+a[0], fn.Pos(), "one Enter in the caller, exactly one Exit in its goroutine", why)
		if gofn != nil {
			// S3: same leaves channel to the storage manager and to snapshotUserAccountDataTrie, in that order
			var chArg ssa.Value
			var tsCall ssa.Instruction
			for _, in := range core.CallsIn(gofn, func(in ssa.Instruction, cc *ssa.CallCommon) bool { return isInvoke(cc, a[1]) }) {
				cc := core.CallOf(in)
				chArg = cc.Args[len(cc.Args)-1]
				tsCall = in
			}
			good := false
			for _, in := range core.CallsIn(gofn, func(in ssa.Instruction, cc *ssa.CallCommon) bool {
				return core.CallDesc(cc).Is(sp, "AccountsDB", "snapshotUserAccountDataTrie")
			}) {
				cc := core.CallOf(in)
				if chArg != nil && cc.Args[len(cc.Args)-1] == chArg && !core.IsNilConst(chArg) && core.DominatesInstr(tsCall, in) {
					good = true
				}
			}
			c.Check(good, "C10/data-tries-visited", "AccountsDB."+a[0], fn.Pos(), "the leaves channel given to "+a[1]+" is the one consumed by snapshotUserAccountDataTrie",
				"the account leaves produced by the main-trie traversal are not consumed by snapshotUserAccountDataTrie: data tries are missing from the snapshot")
			// pruning stays buffered until the data tries were requested: no Exit before snapshotUserAccountDataTrie returned
			q := core.PathQ{Fn: gofn, Via: func(in ssa.Instruction) bool {
				return core.IsCall(in, sp, "AccountsDB", "snapshotUserAccountDataTrie")
			}, Target: func(in ssa.Instruction, _ *ssa.BasicBlock) bool { return isExit(in) }}
			esc, path := q.Escape()
			c.Check(esc == nil, "C10/buffering-covers-data-tries", "AccountsDB."+a[0], fn.Pos(),
				"ExitPruningBufferingMode is reached only after snapshotUserAccountDataTrie returned",
				"pruning-buffering mode is left before the data tries were snapshotted: a prune in that window deletes nodes the pending data-trie snapshots still need ("+c.P.PathString(path)+")")
		}
	}
	if fn := anchorM(c, sp, "AccountsDB", "snapshotUserAccountDataTrie"); fn != nil {
		// per leaf: TakeSnapshot / SetCheckpoint unless unmarshal failed or the root hash is empty
		var loop *core.Loop
		for _, l := range core.Loops(fn) {
			loop = l
		}
		ok, why := loop != nil, "no loop over the leaves channel"
		if loop != nil {
			var body *ssa.BasicBlock
			for _, s := range loop.Header.Succs {
				if loop.Body[s] {
					body = s
				}
			}
			// header: receive from the channel parameter
			recvOK := false
			for _, in := range loop.Header.Instrs {
				if u, isU := in.(*ssa.UnOp); isU && u.Op == token.ARROW && u.X == ssa.Value(fn.Params[2]) {
					recvOK = true
				}
			}
			if !recvOK {
				ok, why = false, "the loop does not receive from the leaves channel parameter"
			}
			isSnap := func(in ssa.Instruction) bool {
				cc := core.CallOf(in)
				if cc == nil || !(isInvoke(cc, "TakeSnapshot") || isInvoke(cc, "SetCheckpoint")) {
					return false
				}
				_, f := core.FieldLoad(cc.Args[0])
				return f != nil && f.Name() == "RootHash"
			}
			prune := core.PruneWhen(func(cd core.Cond) bool {
				if v, eq, isNil := core.NilTest(cd.V); isNil && !eq == cd.Taken && isErrorTyped(v) {
					return true // unmarshal error: not an account leaf
				}
				f := core.FactOf(cd)
				return f.Op == "==" && f.A == "0" && len(f.B) > 4 && f.B[:4] == "len(" && containsStr(f.B, "RootHash")
			})
			q := core.PathQ{Fn: fn, FromBlk: body, Via: isSnap, Prune: prune, Target: func(in ssa.Instruction, _ *ssa.BasicBlock) bool {
				return in == loop.Header.Instrs[0]
			}}
			if esc, p := q.Escape(); esc != nil && ok {
				ok, why = false, "an account leaf with a non-empty root hash can be skipped: "+c.P.PathString(p)
			}
			if bad := loopComplete(c, loop, nil); bad != "" && ok {
				ok, why = false, bad
			}
		}
		c.Check(ok, "C10/data-tries-visited", "AccountsDB.snapshotUserAccountDataTrie", fn.Pos(), "every decodable account leaf with a root hash has its data trie snapshotted/checkpointed", why)
	}
	// S2 traversal
	for _, m := range []string{"commitSnapshot", "commitCheckpoint"} {
		notNeeded := func(fn *ssa.Function) pruneFn {
			return core.PruneWhen(func(cd core.Cond) bool {
				call, ok := cd.V.(*ssa.Call)
				return ok && isInvoke(&call.Call, "ShouldCommit") && !cd.Taken
			})
		}
		if fn := anchorM(c, tp, "branchNode", m); fn != nil {
			c10Branch(c, fn, m, notNeeded(fn))
		}
		if fn := anchorM(c, tp, "extensionNode", m); fn != nil {
			recv := receiverOf(fn)
			mustPassChecked(c, fn, "C10/traversal-complete", "extensionNode."+m+"/resolve", nil,
				func(in ssa.Instruction, cc *ssa.CallCommon) bool {
					return core.CallDesc(cc).Is(tp, "", "resolveIfCollapsed") && core.Strip(cc.Args[0]) == ssa.Value(recv)
				}, core.SuccessReturn, notNeeded(fn), "the collapsed child is resolved (error checked) before success")
			mustPassChecked(c, fn, "C10/traversal-complete", "extensionNode."+m+"/recurse", nil,
				func(in ssa.Instruction, cc *ssa.CallCommon) bool {
					return isInvoke(cc, m) && isRecvField(fn, cc.Value, "child")
				},
				core.SuccessReturn, notNeeded(fn), "the child is traversed (error checked) before success")
			if m == "commitCheckpoint" {
				cvc := core.NewCheckedVia(fn, func(in ssa.Instruction, cc *ssa.CallCommon) bool {
					return isInvoke(cc, m) && isRecvField(fn, cc.Value, "child")
				})
				q := core.PathQ{Fn: fn, Via: cvc.Via, ViaEdge: cvc.ViaEdge, Target: func(in ssa.Instruction, _ *ssa.BasicBlock) bool {
					cc := core.CallOf(in)
					return cc != nil && isInvoke(cc, "Remove") && core.CallDesc(cc).Recv == "CheckpointHashesHolder"
				}}
				esc, p := q.Escape()
				c.Check(esc == nil, "C10/marker-dropped-after-children", "extensionNode."+m, fn.Pos(), "the checkpoint marker is removed only after the child was traversed",
					"checkpointHashes.Remove(hash) is reachable before the child was checkpointed: "+c.P.PathString(p))
			}
			mustPassChecked(c, fn, "C10/node-persisted", "extensionNode."+m, nil,
				func(in ssa.Instruction, cc *ssa.CallCommon) bool { return core.CallDesc(cc).Name == "saveToStorage" },
				core.SuccessReturn, notNeeded(fn), "the node is written to the target DB (error checked) before success")
		}
		if fn := anchorM(c, tp, "leafNode", m); fn != nil {
			recv := receiverOf(fn)
			mustPassChecked(c, fn, "C10/node-persisted", "leafNode."+m, nil,
				func(in ssa.Instruction, cc *ssa.CallCommon) bool {
					return core.CallDesc(cc).Is(tp, "", "encodeNodeAndCommitToDB") && core.Strip(cc.Args[0]) == ssa.Value(recv)
				}, core.SuccessReturn, notNeeded(fn), "the leaf is written to the target DB (error checked) before success")
			mustPassChecked(c, fn, "C10/leaf-reported", "leafNode."+m, nil,
				func(in ssa.Instruction, cc *ssa.CallCommon) bool {
					return core.CallDesc(cc).Is(tp, "", "writeNodeOnChannel") && cc.Args[0] == ssa.Value(recv) && cc.Args[1] == ssa.Value(fn.Params[len(fn.Params)-1])
				}, core.SuccessReturn, notNeeded(fn), "the leaf is pushed on the leaves channel (error checked) before success")
		}
	}
	for _, t := range []string{"branchNode", "extensionNode"} {
		if fn := anchorM(c, tp, t, "saveToStorage"); fn != nil {
			recv := receiverOf(fn)
			mustPassChecked(c, fn, "C10/node-persisted", t+".saveToStorage", nil,
				func(in ssa.Instruction, cc *ssa.CallCommon) bool {
					return core.CallDesc(cc).Is(tp, "", "encodeNodeAndCommitToDB") && core.Strip(cc.Args[0]) == ssa.Value(recv) && cc.Args[1] == ssa.Value(fn.Params[1])
				}, core.SuccessReturn, nil, "the node is written to the target DB (error checked) before success")
		}
	}
	if fn := anchorF(c, tp, "writeNodeOnChannel"); fn != nil {
		chNil := core.PruneWhen(func(cd core.Cond) bool {
			v, eq, ok := core.NilTest(cd.V)
			return ok && v == ssa.Value(fn.Params[1]) && eq == cd.Taken
		})
		mustPass(c, fn, "C10/leaf-reported", "writeNodeOnChannel", nil, func(in ssa.Instruction) bool {
			s, ok := in.(*ssa.Send)
			return ok && s.Chan == ssa.Value(fn.Params[1])
		}, core.SuccessReturn, chNil, "a non-nil leaves channel receives the leaf before success")
	}
	c.Floor("C10/traversal-complete", 6)
	c.Floor("C10/node-persisted", 8)
	c.Floor("C10/data-tries-visited", 3)
}

func isErrorTyped(v ssa.Value) bool {
	n, ok := v.Type().(*types.Named)
	return ok && n.Obj().Pkg() == nil && n.Obj().Name() == "error"
}

func containsStr(s, sub string) bool {
	for i := 0; i+len(sub) <= len(s); i++ {
		if s[i:i+len(sub)] == sub {
			return true
		}
	}
	return false
}

// c10Branch: the loop over child slots resolves and traverses every child, then the node is saved.
func c10Branch(c *core.Ctx, fn *ssa.Function, m string, notNeeded pruneFn) {
	const rule = "C10/traversal-complete"
	name := "branchNode." + m
	recv := receiverOf(fn)
	var loop *core.Loop
	var callIn ssa.Instruction
	for _, in := range core.CallsIn(fn, func(in ssa.Instruction, cc *ssa.CallCommon) bool { return isInvoke(cc, m) }) {
		if recvArrayElemIndex(fn, core.CallOf(in).Value, "children") != nil {
			if l := core.InnermostLoop(fn, in.Block()); l != nil {
				loop, callIn = l, in
			}
		}
	}
	if loop == nil {
		c.Fail(rule, name, fn.Pos(), "no loop invoking children[i]."+m+" found")
		return
	}
	arrLen := int64(-1)
	if f := findFieldDeep(namedElem(recv.Type()), "children"); f != nil {
		if a, ok := f.Type().Underlying().(*types.Array); ok {
			arrLen = a.Len()
		}
	}
	full := false
	for _, in := range loop.Header.Instrs {
		if b, ok := in.(*ssa.BinOp); ok && b.Op == token.LSS {
			if n, ok := core.ConstInt(b.Y); ok && n == arrLen {
				full = true
			}
		}
	}
	if !full {
		c.Fail(rule, name, callIn.Pos(), "the loop over children is not bounded by the number of child slots")
		return
	}
	if bad := loopComplete(c, loop, nil); bad != "" {
		c.Fail(rule, name, callIn.Pos(), bad+": remaining children are not traversed")
		return
	}
	var body *ssa.BasicBlock
	for _, s := range loop.Header.Succs {
		if loop.Body[s] {
			body = s
		}
	}
	backToHeader := func(in ssa.Instruction, _ *ssa.BasicBlock) bool { return in == loop.Header.Instrs[0] }
	// (i) resolveIfCollapsed(recv, i) checked in every iteration
	cvR := core.NewCheckedVia(fn, func(in ssa.Instruction, cc *ssa.CallCommon) bool {
		return core.CallDesc(cc).Name == "resolveIfCollapsed" && core.Strip(cc.Args[0]) == ssa.Value(recv) && loop.Body[in.Block()]
	})
	q := core.PathQ{Fn: fn, FromBlk: body, Via: cvR.Via, ViaEdge: cvR.ViaEdge, Target: backToHeader}
	if esc, p := q.Escape(); esc != nil || len(cvR.Calls) == 0 || len(cvR.Unhandled) > 0 {
		c.Fail(rule, name+"/resolve", callIn.Pos(), "an iteration can proceed without a checked resolveIfCollapsed(bn, i): collapsed children are skipped "+c.P.PathString(p))
		return
	}
	c.Pass(rule, name+"/resolve", callIn.Pos(), "every child slot is resolved (error checked)")
	// (ii) child traversed unless nil
	cv := core.NewCheckedVia(fn, func(in ssa.Instruction, cc *ssa.CallCommon) bool { return in == callIn })
	childNil := core.PruneWhen(func(cd core.Cond) bool {
		v, eq, ok := core.NilTest(cd.V)
		return ok && recvArrayElemIndex(fn, v, "children") != nil && eq == cd.Taken
	})
	q = core.PathQ{Fn: fn, FromBlk: body, Via: cv.Via, ViaEdge: cv.ViaEdge, Prune: childNil, Target: backToHeader}
	if esc, p := q.Escape(); esc != nil || len(cv.Unhandled) > 0 {
		c.Fail(rule, name+"/recurse", callIn.Pos(), "an iteration can skip a non-nil child without traversing it (or ignores its error): "+c.P.PathString(p))
		return
	}
	c.Pass(rule, name+"/recurse", callIn.Pos(), "every non-nil child is traversed (error checked)")
	// (iii) success passes exhaustion then saveToStorage
	exh := map[[2]int]bool{}
	for i, s := range loop.Header.Succs {
		if !loop.Body[s] {
			exh[[2]int{loop.Header.Index, i}] = true
		}
	}
	q2 := core.PathQ{Fn: fn, ViaEdge: func(b *ssa.BasicBlock, s int) bool { return exh[[2]int{b.Index, s}] }, Prune: notNeeded, Target: core.SuccessReturn}
	if esc, p := q2.Escape(); esc != nil {
		c.Fail(rule, name+"/exhaustive", esc.Pos(), "a success exit is reachable without running the children loop to exhaustion: "+c.P.PathString(p))
	} else {
		c.Pass(rule, name+"/exhaustive", callIn.Pos(), "success only after the loop ran over all slots (or ShouldCommit was false)")
	}
	mustPassChecked(c, fn, "C10/node-persisted", name, nil,
		func(in ssa.Instruction, cc *ssa.CallCommon) bool { return core.CallDesc(cc).Name == "saveToStorage" },
		core.SuccessReturn, notNeeded, "the node is written to the target DB (error checked) before success")
	// the checkpoint-hash marker is dropped only after all children were traversed
	isRemove := func(in ssa.Instruction, _ *ssa.BasicBlock) bool {
		cc := core.CallOf(in)
		return cc != nil && isInvoke(cc, "Remove") && core.CallDesc(cc).Recv == "CheckpointHashesHolder"
	}
	q3 := core.PathQ{Fn: fn, ViaEdge: func(b *ssa.BasicBlock, s int) bool { return exh[[2]int{b.Index, s}] }, Target: isRemove}
	if esc, p := q3.Escape(); esc != nil {
		c.Fail("C10/marker-dropped-after-children", name, esc.Pos(), "checkpointHashes.Remove(hash) is reachable before the children loop ran to exhaustion: if a child fails afterwards the node is never checkpointed again ("+c.P.PathString(p)+")")
	} else if m == "commitCheckpoint" {
		c.Pass("C10/marker-dropped-after-children", name, callIn.Pos(), "the checkpoint marker is removed only after every child was traversed")
	}
}

// c10DropOnlyUpToAFoundRoot: the holder of not-yet-checkpointed hashes forgets entries only up to a
// root it actually holds: every truncation of hashes / rootHashes in RemoveCommitted sits behind the
// test that the entry reached IS the given root. Snapshots call RemoveCommitted with roots the
// holder never saw (account data tries, repeated snapshots); dropping entries for those makes the
// next checkpoint skip nodes that were never written to the snapshot storage.
func c10DropOnlyUpToAFoundRoot(c *core.Ctx) {
	fn := anchorM(c, "data/trie/hashesHolder", "checkpointHashesHolder", "RemoveCommitted")
	if fn == nil || len(fn.Params) < 2 {
		return
	}
	isFound := func(cd core.Cond) bool {
		call, isCall := cd.V.(*ssa.Call)
		if !isCall || !cd.Taken || !core.CallDesc(&call.Call).Is("bytes", "", "Equal") {
			return false
		}
		return call.Call.Args[0] == ssa.Value(fn.Params[1]) || call.Call.Args[1] == ssa.Value(fn.Params[1])
	}
	n := 0
	core.Instrs(fn, func(in ssa.Instruction) {
		st, ok := in.(*ssa.Store)
		if !ok {
			return
		}
		fa, ok := st.Addr.(*ssa.FieldAddr)
		if !ok || (core.FieldOfAddr(fa).Name() != "hashes" && core.FieldOfAddr(fa).Name() != "rootHashes") {
			return
		}
		n++
		found := false
		for _, cd := range core.CondsAt(st.Block()) {
			if isFound(cd) || foundThroughFlag(cd, isFound) {
				found = true
			}
		}
		c.Check(found, "C10/drop-only-up-to-a-found-root", fmt.Sprintf("checkpointHashesHolder.RemoveCommitted/%s#%d", core.FieldOfAddr(fa).Name(), n), st.Pos(),
			"the entries are dropped only where bytes.Equal(entry root, given root) is known",
			"entries of the holder are dropped on a path where the given root was not found among them: a snapshot of a root the holder never saw (an account's data trie, a repeated snapshot) wipes the hashes of later commits, and the next checkpoint skips nodes that are in no snapshot storage")
	})
	c.Floor("C10/drop-only-up-to-a-found-root", 2)
}

// foundThroughFlag recognises the flag idiom: the condition tests a variable (a phi) that merges
// constants; every incoming edge whose constant satisfies the test - or whose value is not a
// constant - is an edge on which `want` is known. E.g. `idx := -1; for ... { if eq { idx = i; break } };
// if idx < 0 { return }` establishes eq for what follows, as does a boolean `found`.
func foundThroughFlag(cd core.Cond, want func(core.Cond) bool) bool {
	var ph *ssa.Phi
	var op token.Token
	var k int64
	switch x := cd.V.(type) {
	case *ssa.Phi:
		ph, op, k = x, token.EQL, 1 // boolean flag: true
	case *ssa.BinOp:
		p, isP := x.X.(*ssa.Phi)
		kc, isK := core.ConstInt(x.Y)
		if !isP || !isK {
			return false
		}
		ph, op, k = p, x.Op, kc
	default:
		return false
	}
	holds := func(v int64) bool { // does constant v satisfy the condition as known (taken or not)?
		r := false
		switch op {
		case token.EQL:
			r = v == k
		case token.NEQ:
			r = v != k
		case token.LSS:
			r = v < k
		case token.LEQ:
			r = v <= k
		case token.GTR:
			r = v > k
		case token.GEQ:
			r = v >= k
		default:
			return true
		}
		return r == cd.Taken
	}
	// consts: the constants an edge value can be (nil when it may be something else)
	var consts func(v ssa.Value, seen map[ssa.Value]bool) ([]int64, bool)
	consts = func(v ssa.Value, seen map[ssa.Value]bool) ([]int64, bool) {
		if b, ok := core.ConstBool(v); ok {
			if b {
				return []int64{1}, true
			}
			return []int64{0}, true
		}
		if n, ok := core.ConstInt(v); ok {
			return []int64{n}, true
		}
		p, ok := v.(*ssa.Phi)
		if !ok {
			return nil, false
		}
		if seen[p] {
			return nil, true
		}
		seen[p] = true
		var out []int64
		for _, e := range p.Edges {
			cs, ok := consts(e, seen)
			if !ok {
				return nil, false
			}
			out = append(out, cs...)
		}
		return out, true
	}
	any := false
	for i, e := range ph.Edges {
		cs, allConst := consts(e, map[ssa.Value]bool{ph: true})
		live := !allConst
		for _, v := range cs {
			if holds(v) {
				live = true
			}
		}
		if !live {
			continue // this edge cannot reach the store
		}
		any = true
		okEdge := false
		for _, c2 := range core.CondsOnEdgeTo(ph.Block().Preds[i], ph.Block()) {
			if want(c2) {
				okEdge = true
			}
		}
		if !okEdge {
			return false
		}
	}
	return any
}

// c10HolderPerStorageManager: the holder of not-yet-checkpointed hashes belongs to one trie storage
// manager: trieCreator.Create hands each manager a holder created in that very call. A holder shared
// by the tries of one factory lets a snapshot of one trie drop the pending entries of another.
func c10HolderPerStorageManager(c *core.Ctx) {
	fn := anchorM(c, "data/trie/factory", "trieCreator", "Create")
	if fn == nil {
		return
	}
	n := 0
	core.Instrs(fn, func(in ssa.Instruction) {
		st, ok := in.(*ssa.Store)
		if !ok {
			return
		}
		fa, ok := st.Addr.(*ssa.FieldAddr)
		if !ok || core.FieldOfAddr(fa).Name() != "CheckpointHashesHolder" {
			return
		}
		n++
		fresh := false
		v := core.Strip(st.Val)
		if call, isCall := v.(*ssa.Call); isCall && call.Call.StaticCallee() != nil && strings.HasPrefix(call.Call.StaticCallee().Name(), "New") {
			fresh = true
		}
		c.Check(fresh, "C10/holder-per-storage-manager", fmt.Sprintf("trieCreator.Create/holder#%d", n), st.Pos(),
			"the holder given to the storage manager is created in this call",
			"the checkpoint hashes holder given to a new storage manager is "+core.ExprKey(v)+", not an object created in this call: the tries of one factory share it, and TakeSnapshot on one trie drops the pending entries of the others, whose next checkpoint then skips nodes that are in no snapshot storage")
	})
	c.Floor("C10/holder-per-storage-manager", 1)
}
