package rules

import (
	"fmt"
	"go/types"
	"sort"
	"strings"

	"golang.org/x/tools/go/ssa"

	"verif/checker/internal/core"
)

func init() {
	register(&Rule{
		ID:    "C12",
		Title: "Validator reshuffling neither loses nor duplicates validators",
		Pkgs:  []string{"sharding"},
		Explain: "Decides two necessary structural conditions of conservation. (S1, nothing is certainly lost) in shuffleNodes every validator source - the eligible map, the waiting map, the new nodes, " +
			"the shuffled-out map and both leaving lists - has a may-flow (over-approximate value flow through assignments, calls and in-place fills of map/slice arguments) into the field of ResUpdateNodes " +
			"that must receive it (Eligible, Waiting, Leaving); the interface call distributor.DistributeValidators is resolved to both implementations, each of which must move `source` into `destination`. " +
			"If even the may-flow does not connect a source to its destination, those validators are certainly dropped. " +
			"(S2, no two live lists share a backing array) in the cone of UpdateNodeLists no two append() calls extend slices that may share the backing array of the same caller-visible buffer " +
			"(interprocedural may-alias with per-function 'result aliases parameter' summaries): the second append overwrites what the first one added, silently replacing validators in a result list. " +
			"(S3) a list stored into a shard map is never a two-index window x[a:b] of another list (it would keep that array's capacity: the next append overwrites the validators that follow). " +
			"The input hashed for a validator in shuffleList is built in that iteration from that validator's PubKey() (no buffer patched across iterations). " +
			"removeValidatorsFromList leaves its search loop after a removal; the additional-leaving list that reaches shuffleNodes is the result of removeDupplicates. " +
			"Not decided (value-level): duplicates inside the inputs, slice-bound arithmetic, which keys are honoured as leaving.",
		Run: runC12,
	})
}

func runC12(c *core.Ctx) {
	fn := anchorF(c, "sharding", "shuffleNodes")
	if fn == nil {
		return
	}
	// result struct fields
	dest := map[string]ssa.Value{}
	core.Instrs(fn, func(in ssa.Instruction) {
		st, ok := in.(*ssa.Store)
		if !ok {
			return
		}
		fa, ok := st.Addr.(*ssa.FieldAddr)
		if !ok {
			return
		}
		if nt := namedElem(fa.X.Type()); nt != nil && nt.Obj().Name() == "ResUpdateNodes" {
			dest[core.FieldOfAddr(fa).Name()] = st.Val
		}
	})
	for _, f := range []string{"Eligible", "Waiting", "Leaving"} {
		if dest[f] == nil {
			c.Fail("C12/source-reaches-result", "shuffleNodes/ResUpdateNodes."+f, fn.Pos(), "the result field is not set")
			return
		}
	}
	srcKey := func(field string) func(v ssa.Value) bool {
		return func(v ssa.Value) bool { return core.ExprKey(v) == "p0."+field }
	}
	type ob struct {
		src   string
		isSrc func(v ssa.Value) bool
		dests []string
	}
	isShuffledOut := func(v ssa.Value) bool {
		ex, ok := v.(*ssa.Extract)
		if !ok || ex.Index != 0 {
			return false
		}
		call, ok := ex.Tuple.(*ssa.Call)
		return ok && core.CallDesc(&call.Call).Name == "shuffleOutNodes"
	}
	obs := []ob{
		{"arg.eligible", srcKey("eligible"), []string{"Eligible"}},
		{"arg.waiting", srcKey("waiting"), []string{"Waiting", "Eligible"}},
		{"arg.newNodes", srcKey("newNodes"), []string{"Waiting"}},
		{"shuffledOut", isShuffledOut, []string{"Waiting"}},
		{"arg.unstakeLeaving", srcKey("unstakeLeaving"), []string{"Leaving"}},
		{"arg.additionalLeaving", srcKey("additionalLeaving"), []string{"Leaving"}},
	}
	for _, o := range obs {
		ok := false
		for _, d := range o.dests {
			for v := range core.BackwardReach(dest[d]) {
				if o.isSrc(v) {
					ok = true
				}
			}
		}
		c.Sites++
		c.Check(ok, "C12/source-reaches-result", fmt.Sprintf("shuffleNodes/%s→%s", o.src, strings.Join(o.dests, "|")), fn.Pos(),
			"may-flow exists", "no value flow from "+o.src+" into ResUpdateNodes."+strings.Join(o.dests, "/")+": these validators are certainly lost at the epoch change")
	}
	// shuffled-out nodes come from the eligible lists
	okSO := false
	core.Instrs(fn, func(in ssa.Instruction) {
		if call, ok := in.(*ssa.Call); ok && core.CallDesc(&call.Call).Name == "shuffleOutNodes" {
			for v := range core.BackwardReach(call.Call.Args[0]) {
				if core.ExprKey(v) == "p0.eligible" {
					okSO = true
				}
			}
		}
	})
	c.Check(okSO, "C12/source-reaches-result", "shuffleNodes/arg.eligible→shuffleOutNodes", fn.Pos(), "the shuffled-out nodes are taken from the eligible lists", "shuffleOutNodes is not applied to the (remaining) eligible lists")
	// implementations of DistributeValidators and distributeValidators move source into destination
	var impls []*ssa.Function
	for _, f := range c.P.FuncsOfPkg("sharding") {
		if f.Name() == "DistributeValidators" && f.Signature.Recv() != nil {
			impls = append(impls, f)
		}
	}
	if dv := c.P.Func("sharding", "distributeValidators"); dv != nil {
		impls = append(impls, dv)
	}
	sort.Slice(impls, func(i, j int) bool { return fname(impls[i]) < fname(impls[j]) })
	for _, f := range impls {
		c.Analysed(core.QualName(f))
		off := 0
		if f.Signature.Recv() != nil {
			off = 1
		}
		destP, srcP := f.Params[off], f.Params[off+1]
		ok := movesInto(f, off, off+1, 0)
		_, _ = destP, srcP
		c.Check(ok, "C12/source-reaches-result", fname(f)+"/source→destination", f.Pos(), "the validators of `source` are added to `destination`",
			"this distributor does not move its source validators into the destination lists: they are lost")
	}
	c.Floor("C12/source-reaches-result", 9)

	// ---- S2 shared append bases
	up := anchorM(c, "sharding", "randHashShuffler", "UpdateNodeLists")
	if up == nil {
		return
	}
	cone := c.P.Cone([]*ssa.Function{up}, onlyPkgs("sharding"))
	aa := core.NewAliasAnalyzer()
	nApp := 0
	for _, f := range cone {
		type app struct {
			in    ssa.Instruction
			roots map[string]bool
		}
		var apps []app
		core.Instrs(f, func(in ssa.Instruction) {
			call, ok := in.(*ssa.Call)
			if !ok {
				return
			}
			if b, isB := call.Call.Value.(*ssa.Builtin); !isB || b.Name() != "append" {
				return
			}
			// x = append(x, ...) re-assigning the same variable extends one list, not two
			apps = append(apps, app{in, aa.Roots(call.Call.Args[0])})
		})
		nApp += len(apps)
		bad := ""
		for i := 0; i < len(apps); i++ {
			for j := i + 1; j < len(apps); j++ {
				ci, cj := apps[i].in.(*ssa.Call), apps[j].in.(*ssa.Call)
				// chained appends onto the same growing list are fine: one's base is (derived from) the other's result
				if core.BackwardReach(cj.Call.Args[0])[ci] || core.BackwardReach(ci.Call.Args[0])[cj] {
					continue
				}
				for r := range apps[i].roots {
					if strings.HasPrefix(r, "param:") && apps[j].roots[r] {
						bad = fmt.Sprintf("append at %s and append at %s both extend a slice that may share the backing array of %s", c.P.Pos(ci.Pos()), c.P.Pos(cj.Pos()), strings.TrimPrefix(r, "param:"))
					}
				}
			}
		}
		if len(apps) >= 2 {
			c.Check(bad == "", "C12/no-shared-append-base", fname(f), f.Pos(), fmt.Sprintf("%d append sites, no two extend the same caller-visible buffer", len(apps)),
				bad+": with spare capacity the second append overwrites the elements the first one added")
		}
	}
	c.Note("S2: %d functions in the cone, %d append sites", len(cone), nApp)
	// ---- S3 a validator list installed in a shard map is never a window x[a:b] of another list:
	// such a window keeps the capacity of the whole array, so the next append to it overwrites the
	// elements that follow it in that array (one validator lost, another listed twice)
	nMU := 0
	for _, f := range cone {
		k := 0
		core.Instrs(f, func(in ssa.Instruction) {
			mu, ok := in.(*ssa.MapUpdate)
			if !ok {
				return
			}
			if _, isSl := mu.Value.Type().Underlying().(*types.Slice); !isSl {
				return
			}
			k++
			nMU++
			var window *ssa.Slice
			seen := map[ssa.Value]bool{}
			var walk func(v ssa.Value)
			walk = func(v ssa.Value) {
				if seen[v] {
					return
				}
				seen[v] = true
				switch x := v.(type) {
				case *ssa.Phi:
					for _, e := range x.Edges {
						walk(e)
					}
				case *ssa.Slice:
					if x.High != nil && x.Max == nil {
						if _, isAlloc := x.X.(*ssa.Alloc); !isAlloc {
							window = x
						}
					}
				}
			}
			walk(mu.Value)
			wdesc := ""
			if window != nil {
				wdesc = core.ExprKey(window)
			}
			c.Check(window == nil, "C12/installed-list-owns-its-capacity", fmt.Sprintf("%s/map-store#%d", fname(f), k), mu.Pos(),
				"the list stored in the shard map is not a capacity-sharing window of another list",
				"the list stored in the shard map is the window "+wdesc+" of another list and keeps that array's spare capacity: the next append to it overwrites the validators that follow in the array")
		})
	}
	c.Floor("C12/installed-list-owns-its-capacity", 5)
	// ---- S4 inside a loop that hands out parts of one list to several destination lists, each pass
	// takes its part from a position that moves with the loop: a window x[:n] / x[c:n] with a fixed
	// start hands the same validators to every destination (duplicates in two lists, others in none)
	nWin := 0
	for _, f := range cone {
		k := 0
		core.Instrs(f, func(in ssa.Instruction) {
			call, ok := in.(*ssa.Call)
			if !ok {
				return
			}
			b, isB := call.Call.Value.(*ssa.Builtin)
			if !isB || b.Name() != "append" || len(call.Call.Args) != 2 {
				return
			}
			src, isSl := call.Call.Args[1].(*ssa.Slice)
			if !isSl || src.High == nil {
				return
			}
			if _, isAlloc := src.X.(*ssa.Alloc); isAlloc {
				return // varargs array
			}
			l := core.InnermostLoop(f, call.Block())
			if l == nil {
				return
			}
			// the destination differs between passes (a map entry / element selected by a loop-variant key)
			variant := func(v ssa.Value) bool {
				if v == nil {
					return false
				}
				seen := map[ssa.Value]bool{}
				var walk func(x ssa.Value, d int) bool
				walk = func(x ssa.Value, d int) bool {
					if x == nil || seen[x] || d > 12 {
						return false
					}
					seen[x] = true
					if ph, isPhi := x.(*ssa.Phi); isPhi && ph.Block() == l.Header {
						return true
					}
					if nx, isNext := x.(*ssa.Next); isNext && l.Body[nx.Block()] {
						return true
					}
					in, isIn := x.(ssa.Instruction)
					if !isIn || !l.Body[in.Block()] {
						return false // defined outside the loop: invariant
					}
					for _, op := range in.Operands(nil) {
						if op != nil && walk(*op, d+1) {
							return true
						}
					}
					return false
				}
				return walk(v, 0)
			}
			if !variant(call.Call.Args[0]) {
				return
			}
			k++
			nWin++
			c.Check(variant(src.Low) || variant(src.X), "C12/distributed-window-moves", fmt.Sprintf("%s/append-window#%d", fname(f), k), call.Pos(),
				"the window handed to this pass's destination starts at a position carried by the loop",
				"every pass appends a window of "+core.ExprKey(src.X)+" that starts at the same place (only its length varies): the same validators are handed to several destination lists and the ones the position should have advanced to are handed to none")
		})
	}
	c.Floor("C12/distributed-window-moves", 1)
	checkValidatorResultsUsed(c, "C12/validator-results-used", cone)
	c.Floor("C12/validator-results-used", 10)
	c.Floor("C12/no-shared-append-base", 2)
	c12ShuffleKeyPerValidator(c)
	c12OneRemovalPerRequest(c)
	c12DeduplicatedListIsShuffled(c)
}

// c12ShuffleKeyPerValidator: shuffleList identifies each validator by the hash of its key and the
// randomness and puts the validators back through a map keyed by that hash: two validators with
// one hash input collapse into one entry, which then fills two places while the other validator
// is in no list. The input hashed in an iteration is therefore a value built in that iteration
// from that iteration's v.PubKey() - not a buffer that lives across iterations and is patched in
// place (a fixed window keeps stale bytes of a longer key and truncates a longer one).
func c12ShuffleKeyPerValidator(c *core.Ctx) {
	fn := anchorF(c, "sharding", "shuffleList")
	if fn == nil {
		return
	}
	n := 0
	core.Instrs(fn, func(in ssa.Instruction) {
		cc := core.CallOf(in)
		if cc == nil {
			return
		}
		if nm := core.CallDesc(cc).Name; nm != "Compute" {
			return
		}
		l := core.InnermostLoop(fn, in.Block())
		if l == nil {
			return
		}
		n++
		v := cc.Args[len(cc.Args)-1]
		for {
			if cv, ok := v.(*ssa.Convert); ok {
				v = cv.X
				continue
			}
			break
		}
		vi, isI := v.(ssa.Instruction)
		inIter := isI && l.Body[vi.Block()]
		if ph, isPhi := v.(*ssa.Phi); isPhi && ph.Block() == l.Header {
			inIter = false
		}
		fromKey := false
		if inIter {
			for x := range core.BackwardReachPure(v) {
				if call, ok := x.(*ssa.Call); ok && core.CallDesc(&call.Call).Name == "PubKey" && l.Body[call.Block()] {
					fromKey = true
				}
			}
		}
		c.Check(inIter && fromKey, "C12/shuffle-key-built-per-validator", fmt.Sprintf("shuffleList/Compute#%d", n), in.Pos(),
			"the hashed input is built in the iteration from that validator's PubKey()",
			"the input hashed for a validator is "+core.ExprKey(v)+", a buffer that lives across iterations (built in this iteration: "+fmt.Sprint(inIter)+"): keys of different lengths leave stale or truncated bytes in it, two validators get one hash, and the map keyed by the hash puts one of them in two places and the other in none")
	})
	if n == 0 {
		// the key is built by a helper called once per iteration: the same test inside the helper, the
		// validator being the helper's parameter and the argument a value of the iteration
		core.Instrs(fn, func(in ssa.Instruction) {
			cc := core.CallOf(in)
			if cc == nil || cc.StaticCallee() == nil || cc.StaticCallee().Blocks == nil || cc.StaticCallee().Pkg != fn.Pkg {
				return
			}
			l := core.InnermostLoop(fn, in.Block())
			if l == nil {
				return
			}
			h := cc.StaticCallee()
			core.Instrs(h, func(hin ssa.Instruction) {
				hc := core.CallOf(hin)
				if hc == nil || core.CallDesc(hc).Name != "Compute" {
					return
				}
				n++
				c.Analysed(fname(h))
				v := hc.Args[len(hc.Args)-1]
				for {
					if cv, ok := v.(*ssa.Convert); ok {
						v = cv.X
						continue
					}
					break
				}
				base := v
				for {
					if sl, ok := base.(*ssa.Slice); ok {
						base = sl.X
						continue
					}
					break
				}
				_, isI := base.(ssa.Instruction)
				if _, isLoad := base.(*ssa.UnOp); isLoad {
					isI = false
				}
				if core.InnermostLoop(h, hin.Block()) != nil {
					isI = false // a loop of the helper's own is not this rule's shape
				}
				fromKey := false
				if isI {
					for x := range core.BackwardReachPure(v) {
						call, ok := x.(*ssa.Call)
						if !ok || core.CallDesc(&call.Call).Name != "PubKey" {
							continue
						}
						recv := call.Call.Value
						if !call.Call.IsInvoke() && len(call.Call.Args) > 0 {
							recv = call.Call.Args[0]
						}
						for i, p := range h.Params {
							if ssa.Value(p) != recv || i >= len(cc.Args) {
								continue
							}
							if ai, ok := cc.Args[i].(ssa.Instruction); ok && l.Body[ai.Block()] {
								if ph, isPhi := cc.Args[i].(*ssa.Phi); !isPhi || ph.Block() != l.Header {
									fromKey = true
								}
							}
						}
					}
				}
				c.Check(isI && fromKey, "C12/shuffle-key-built-per-validator", fmt.Sprintf("shuffleList/%s/Compute#%d", h.Name(), n), hin.Pos(),
					"the hashed input is built by the helper from its validator's PubKey(), the validator being the iteration's",
					"the input hashed for a validator is "+core.ExprKey(v)+", not a value the helper builds from the PubKey() of the validator the iteration hands it: two validators get one hash, and the map keyed by the hash puts one of them in two places and the other in none")
			})
		})
	}
	c.Floor("C12/shuffle-key-built-per-validator", 1)
}

// movesInto: f stores values derived from parameter srcIdx into the map parameter destIdx, directly
// or through a package-local callee that receives both.
func movesInto(f *ssa.Function, destIdx, srcIdx, depth int) bool {
	if depth > 3 || f.Blocks == nil || destIdx >= len(f.Params) || srcIdx >= len(f.Params) {
		return false
	}
	destP, srcP := f.Params[destIdx], f.Params[srcIdx]
	ok := false
	core.Instrs(f, func(in ssa.Instruction) {
		if mu, isMU := in.(*ssa.MapUpdate); isMU && mu.Map == ssa.Value(destP) {
			if core.BackwardReach(mu.Value)[srcP] {
				ok = true
			}
		}
		cc := core.CallOf(in)
		if cc == nil {
			return
		}
		g := cc.StaticCallee()
		if g == nil || g.Blocks == nil {
			return
		}
		di := -1
		for i, a := range cc.Args {
			if a == ssa.Value(destP) {
				di = i
			}
		}
		if di < 0 {
			return
		}
		for i, a := range cc.Args {
			if i != di && core.BackwardReach(a)[srcP] && movesInto(g, di, i, depth+1) {
				ok = true
			}
		}
	})
	return ok
}

// checkValidatorResultsUsed: a package-local function that returns validator lists (e.g. the part of
// a list that was NOT consumed) must not have that result discarded: the caller would go on with
// the unconsumed list and place the same validators a second time.
func checkValidatorResultsUsed(c *core.Ctx, rule string, cone []*ssa.Function) {
	n := 0
	for _, f := range cone {
		core.Instrs(f, func(in ssa.Instruction) {
			call, ok := in.(*ssa.Call)
			if !ok {
				return
			}
			g := call.Call.StaticCallee()
			if g == nil || g.Blocks == nil || g.Pkg == nil || g.Pkg.Pkg.Path() != core.PkgPath("sharding") {
				return
			}
			res := g.Signature.Results()
			for i := 0; i < res.Len(); i++ {
				ts := res.At(i).Type().String()
				if !strings.Contains(ts, "sharding.Validator") {
					continue
				}
				n++
				used := false
				if res.Len() == 1 {
					used = len(*call.Referrers()) > 0
				} else {
					for _, r := range *call.Referrers() {
						if ex, ok := r.(*ssa.Extract); ok && ex.Index == i && len(*ex.Referrers()) > 0 {
							used = true
						}
					}
				}
				// results explicitly discarded with `_` are allowed only for tabled (callee, result) pairs
				if !used && discardAllowed[fmt.Sprintf("%s#%d", fname(g), i)] != "" {
					c.Pass(rule, fmt.Sprintf("%s→%s#%d", fname(f), fname(g), i), in.Pos(), "discarded by design: "+discardAllowed[fmt.Sprintf("%s#%d", fname(g), i)])
					continue
				}
				c.Check(used, rule, fmt.Sprintf("%s→%s#%d", fname(f), fname(g), i), in.Pos(), "the returned validator list is used",
					fmt.Sprintf("result %d of %s (a validator list) is discarded: the caller continues with the list as it was before the call", i, fname(g)))
			}
		})
	}
	c.Sites += n
}

var discardAllowed = map[string]string{
	"removeLeavingNodesNotExistingInEligibleOrWaiting#1": "the second result lists leaving keys unknown to both maps; they are intentionally ignored",
	"removeValidatorsFromList#1":                         "the second result is the list of removed entries, informational",
}

// c12OneRemovalPerRequest: removeValidatorsFromList takes one occurrence out of the list for every
// entry of the request (and never more than maxToRemove in all): after a removal the search loop
// over the list is left - there is no way from the removal back to the head of that loop without
// leaving it. A search that goes on removes every validator with that key for one request, and the
// callers' per-occurrence bookkeeping (what is still leaving, how many may still be removed) no
// longer matches the lists.
func c12OneRemovalPerRequest(c *core.Ctx) {
	fn := anchorF(c, "sharding", "removeValidatorsFromList")
	if fn == nil {
		return
	}
	n := 0
	core.Instrs(fn, func(in ssa.Instruction) {
		cc := core.CallOf(in)
		if cc == nil || cc.StaticCallee() == nil || cc.StaticCallee().Name() != "removeValidatorFromList" {
			return
		}
		// the search loop: the innermost loop around the test that guards the removal (a removal
		// followed by `break` is not itself part of that loop's body)
		var l *core.Loop
		// the position removed is the induction variable of the search loop; when it is instead the answer
		// of a search done elsewhere (`i := lastIndexOf(list, v)`), one evaluation removes one position
		if ph, isPhi := cc.Args[1].(*ssa.Phi); isPhi {
			for _, lp := range core.Loops(fn) {
				if lp.Header == ph.Block() {
					l = lp
				}
			}
		} else if call, isCall := cc.Args[1].(*ssa.Call); isCall && call.Call.StaticCallee() != nil && call.Call.StaticCallee().Pkg == fn.Pkg {
			n++
			c.Analysed(fname(call.Call.StaticCallee()))
			c.Pass("C12/one-removal-per-request", fmt.Sprintf("removeValidatorsFromList/removal#%d", n), in.Pos(), "the position removed is the single answer of "+call.Call.StaticCallee().Name()+": one removal per request")
			return
		}
		for d := in.Block(); d != nil && l == nil; d = d.Idom() {
			if _, isIf := d.Instrs[len(d.Instrs)-1].(*ssa.If); isIf && d != in.Block() {
				l = core.InnermostLoop(fn, d)
			}
		}
		if l == nil {
			return
		}
		n++
		// can the head of the search loop be reached again from the removal without leaving the loop?
		seen := map[*ssa.BasicBlock]bool{}
		work := []*ssa.BasicBlock{in.Block()}
		again := false
		for len(work) > 0 {
			b := work[0]
			work = work[1:]
			for _, s := range b.Succs {
				if !l.Body[s] {
					continue
				}
				if s == l.Header {
					again = true
					continue
				}
				if !seen[s] {
					seen[s] = true
					work = append(work, s)
				}
			}
		}
		c.Check(!again, "C12/one-removal-per-request", fmt.Sprintf("removeValidatorsFromList/removal#%d", n), in.Pos(),
			"the search loop is left after a removal",
			"after removing a validator the search over the list goes on: one requested entry removes every validator with that key (and more than maxToRemove in all), so a validator is taken out of a list while the bookkeeping still counts it")
	})
	c.Floor("C12/one-removal-per-request", 1)
}

// c12DeduplicatedListIsShuffled: a validator named both in the un-stake leaving list and in the
// additional leaving list is one leaving validator. UpdateNodeLists removes the repetition
// (removeDupplicates) and it is that result which reaches shuffleNodes as the additional leaving
// list - a deduplicated copy used for counting only lets the second request through, and the
// validator is reported as leaving twice.
func c12DeduplicatedListIsShuffled(c *core.Ctx) {
	fn := anchorM(c, "sharding", "randHashShuffler", "UpdateNodeLists")
	if fn == nil {
		return
	}
	n := 0
	core.Instrs(fn, func(in ssa.Instruction) {
		st, ok := in.(*ssa.Store)
		if !ok {
			return
		}
		fa, ok := st.Addr.(*ssa.FieldAddr)
		if !ok || core.FieldOfAddr(fa).Name() != "additionalLeaving" {
			return
		}
		n++
		dedup := false
		for x := range core.BackwardReachPure(st.Val) {
			if call, isCall := x.(*ssa.Call); isCall && call.Call.StaticCallee() != nil && call.Call.StaticCallee().Name() == "removeDupplicates" {
				dedup = true
			}
		}
		c.Check(dedup, "C12/deduplicated-list-is-shuffled", fmt.Sprintf("randHashShuffler.UpdateNodeLists/additionalLeaving#%d", n), st.Pos(),
			"the additional leaving list handed to shuffleNodes is the result of removeDupplicates",
			"the additional leaving list handed to shuffleNodes does not come from removeDupplicates: a validator named in both leaving lists is processed twice and reported as leaving twice")
	})
	c.Floor("C12/deduplicated-list-is-shuffled", 1)
}
