package rules

import (
	"fmt"
	"strings"

	"golang.org/x/tools/go/ssa"

	"verif/checker/internal/core"
)

func init() {
	register(&Rule{
		ID:    "C35",
		Title: "End-of-epoch rewards distribute exactly the computed amount",
		Pkgs:  []string{"epochStart/metachain"},
		Explain: "Decides the conservation SHAPE of reward creation in both creators (rewardsCreator, rewardsCreatorV2), not the arithmetic. (S1) a reward transaction is put into a miniblock only where its value is known " +
			"to be positive (dominating big.Int Cmp against zero). (S2) on every pass of the loop over reward addresses a computed reward is either emitted (AddTx + append to a miniblock) or its value is added to the amount " +
			"that goes to the protocol sustainability reward (a *big.Int Add other than the running total), or the pass is the skip of a non-positive value: nothing that was computed disappears. (S3) rewards for metachain " +
			"addresses are emitted only behind the delegation-contract test (flag set and isSystemDelegationSC). (S4, V2) the dust returned by addValidatorRewardsToMiniBlocks and the dust of the per-node computation both " +
			"flow into adjustProtocolSustainabilityRewards, which adds a non-negative dust to the protocol reward on every path; the protocol reward is adjusted before it is hashed and added to its miniblock, and " +
			"CreateRewardsMiniBlocks succeeds only after that addition (error checked). " +
			"Not decided (value-level): that the per-node amounts and the remainders add up to the economics total (big-int division), top-up arithmetic.",
		Run: runC35,
	})
}

func runC35(c *core.Ctx) {
	const pkg = "epochStart/metachain"
	isBigAdd := func(in ssa.Instruction) *ssa.CallCommon {
		cc := core.CallOf(in)
		if cc == nil || cc.StaticCallee() == nil || cc.StaticCallee().Pkg == nil || cc.StaticCallee().Pkg.Pkg.Path() != "math/big" || cc.StaticCallee().Name() != "Add" {
			return nil
		}
		return cc
	}
	for _, typ := range []string{"rewardsCreator", "rewardsCreatorV2"} {
		fn := anchorM(c, pkg, typ, "addValidatorRewardsToMiniBlocks")
		if fn == nil {
			continue
		}
		c.Analysed(fname(fn))
		// the loop and the reward created in it
		var create *ssa.Call
		for _, in := range core.CallsIn(fn, func(in ssa.Instruction, cc *ssa.CallCommon) bool {
			return cc.StaticCallee() != nil && cc.StaticCallee().Name() == "createRewardFromRwdInfo"
		}) {
			create, _ = in.(*ssa.Call)
		}
		if create == nil {
			c.Undecided("C35/each-reward-emitted-or-moved-to-protocol", typ+".addValidatorRewardsToMiniBlocks", fn.Pos(), "createRewardFromRwdInfo is not called")
			continue
		}
		loop := core.InnermostLoop(fn, create.Block())
		if loop == nil {
			c.Undecided("C35/each-reward-emitted-or-moved-to-protocol", typ+".addValidatorRewardsToMiniBlocks", fn.Pos(), "the reward is not created inside a loop")
			continue
		}
		fromReward := func(v ssa.Value) bool {
			for x := range core.BackwardReachPure(v) {
				if x == ssa.Value(create) {
					return true
				}
			}
			return false
		}
		// emissions
		var emits []ssa.Instruction
		core.Instrs(fn, func(in ssa.Instruction) {
			if !loop.Body[in.Block()] {
				return
			}
			if cc := core.CallOf(in); cc != nil && cc.IsInvoke() && cc.Method.Name() == "AddTx" {
				emits = append(emits, in)
			}
		})
		isEmit := func(in ssa.Instruction) bool {
			for _, e := range emits {
				if e == in {
					return true
				}
			}
			return false
		}
		isTotalCounter := func(v ssa.Value) bool { return strings.Contains(core.ExprKey(v), "accumulatedRewards") }
		isMoveToProtocol := func(in ssa.Instruction) bool {
			cc := isBigAdd(in)
			if cc == nil || !loop.Body[in.Block()] || len(cc.Args) != 3 || isTotalCounter(cc.Args[0]) {
				return false
			}
			return fromReward(cc.Args[1]) || fromReward(cc.Args[2])
		}
		// what a branch condition on x.Cmp(y) says about the reward value: +1 value > other, -1 value <= other
		signOf := func(cd core.Cond) int {
			bo, ok := cd.V.(*ssa.BinOp)
			if !ok {
				return 0
			}
			var cmp *ssa.Call
			for _, side := range []ssa.Value{bo.X, bo.Y} {
				if call, isCall := side.(*ssa.Call); isCall && call.Call.StaticCallee() != nil && call.Call.StaticCallee().Name() == "Cmp" && len(call.Call.Args) == 2 {
					cmp = call
				}
			}
			if cmp == nil {
				return 0
			}
			f := core.FactOf(cd)
			key := core.ExprKey(cmp)
			rel := 0 // +1: receiver > arg, -1: receiver < arg, +2: receiver >= arg, -2: receiver <= arg
			if lb, ok := f.LowerBound(key); ok && lb >= 1 {
				rel = 1
			} else if ub, ok := f.UpperBound(key); ok && ub <= -1 {
				rel = -1
			} else if ub, ok := f.UpperBound(key); ok && ub <= 0 {
				rel = -2
			} else if lb, ok := f.LowerBound(key); ok && lb >= 0 {
				rel = 2
			}
			recvIsValue := fromReward(cmp.Call.Args[0])
			argIsValue := fromReward(cmp.Call.Args[1])
			switch {
			case recvIsValue && !argIsValue:
				if rel == 1 {
					return 1
				}
				if rel == -1 || rel == -2 {
					return -1
				}
			case argIsValue && !recvIsValue:
				if rel == -1 {
					return 1
				}
				if rel == 1 || rel == 2 {
					return -1
				}
			}
			return 0
		}
		// S1
		for i, e := range emits {
			pos := false
			for _, cd := range core.CondsAt(e.Block()) {
				if signOf(cd) == 1 {
					pos = true
				}
			}
			c.Check(pos, "C35/emitted-reward-positive", fmt.Sprintf("%s.addValidatorRewardsToMiniBlocks/emit#%d", typ, i+1), e.Pos(),
				"the reward is emitted only where value.Cmp(zero) > 0 is known", "a reward transaction is emitted without a dominating test that its value is positive: zero or negative rewards reach the miniblocks")
			// S3 metachain destination only behind the delegation test
			okMeta := false
			for _, cd := range core.CondsAt(e.Block()) {
				_ = cd
			}
			// every path from the metachain branch to the emission passes the false edge of the "not a delegation contract" test
			esc, path := core.PathQ{Fn: fn, FromBlk: firstBodyBlock(loop),
				Prune: func(b *ssa.BasicBlock, si int) bool {
					// leave out the passes whose destination is not the metachain
					for _, cd := range core.CondsOnEdge(b, si) {
						if bo, ok := cd.V.(*ssa.BinOp); ok && strings.Contains(core.ExprKey(bo), "ComputeId(") && strings.Contains(core.ExprKey(bo), "4294967295") {
							f := core.FactOf(cd)
							if f.Op == "!=" {
								return true
							}
						}
					}
					return false
				},
				Via: func(in ssa.Instruction) bool {
					cc := core.CallOf(in)
					return cc != nil && cc.StaticCallee() != nil && cc.StaticCallee().Name() == "isSystemDelegationSC"
				},
				Target: func(in ssa.Instruction, _ *ssa.BasicBlock) bool { return in == e }}.Escape()
			okMeta = esc == nil
			c.Check(okMeta, "C35/metachain-rewards-only-to-delegation-contracts", fmt.Sprintf("%s.addValidatorRewardsToMiniBlocks/emit#%d", typ, i+1), e.Pos(),
				"a reward whose address is on the metachain is emitted only after isSystemDelegationSC was consulted",
				"a reward for a metachain address reaches the emission without the delegation-contract test ("+c.P.PathString(path)+")")
		}
		// S2
		nonPositiveSkip := edgeFact(func(f core.Fact, cd core.Cond) bool { return signOf(cd) == -1 })
		esc, path := core.PathQ{Fn: fn, From: create, Via: func(in ssa.Instruction) bool { return isEmit(in) || isMoveToProtocol(in) },
			ViaEdge: nonPositiveSkip,
			Target: func(in ssa.Instruction, pred *ssa.BasicBlock) bool {
				if in == loop.Header.Instrs[0] {
					return true
				}
				r, ok := in.(*ssa.Return)
				return ok && !loop.Body[in.Block()] && core.SuccessReturn(r, pred)
			}}.Escape()
		c.Check(esc == nil && len(emits) > 0, "C35/each-reward-emitted-or-moved-to-protocol", typ+".addValidatorRewardsToMiniBlocks", create.Pos(),
			"every pass either emits the reward, moves its value to the protocol amount, or skips a non-positive value",
			"a pass of the loop ends with a positive reward neither emitted nor added to the protocol sustainability amount ("+c.P.PathString(path)+"): that amount is distributed to nobody, the rewards no longer add up to the total")
	}
	c.Floor("C35/emitted-reward-positive", 2)
	c.Floor("C35/each-reward-emitted-or-moved-to-protocol", 2)
	c.Floor("C35/metachain-rewards-only-to-delegation-contracts", 2)

	// S4 (V2): dust reaches the protocol reward
	if cr := anchorM(c, pkg, "rewardsCreatorV2", "CreateRewardsMiniBlocks"); cr != nil {
		c.Analysed(fname(cr))
		var adj, addV, perNode, addProt *ssa.Call
		core.Instrs(cr, func(in ssa.Instruction) {
			call, ok := in.(*ssa.Call)
			if !ok || call.Call.StaticCallee() == nil {
				return
			}
			switch call.Call.StaticCallee().Name() {
			case "adjustProtocolSustainabilityRewards":
				adj = call
			case "addValidatorRewardsToMiniBlocks":
				addV = call
			case "computeRewardsPerNode":
				perNode = call
			case "addProtocolRewardToMiniBlocks":
				addProt = call
			}
		})
		if adj == nil || addV == nil || perNode == nil || addProt == nil {
			c.Undecided("C35/dust-goes-to-protocol", "rewardsCreatorV2.CreateRewardsMiniBlocks", cr.Pos(), "the calls adjustProtocolSustainabilityRewards / addValidatorRewardsToMiniBlocks / computeRewardsPerNode / addProtocolRewardToMiniBlocks were not all found")
		} else {
			reach := core.BackwardReach(adj.Call.Args[2])
			fromAddV, fromPerNode := false, false
			for x := range reach {
				if ex, ok := x.(*ssa.Extract); ok {
					if ex.Tuple == ssa.Value(addV) && ex.Index == 0 {
						fromAddV = true
					}
					if ex.Tuple == ssa.Value(perNode) && ex.Index == 1 {
						fromPerNode = true
					}
				}
			}
			c.Check(fromAddV && fromPerNode, "C35/dust-goes-to-protocol", "CreateRewardsMiniBlocks/dust-flow", adj.Pos(),
				"the dust of addValidatorRewardsToMiniBlocks and of computeRewardsPerNode both flow into adjustProtocolSustainabilityRewards",
				fmt.Sprintf("the dust handed to adjustProtocolSustainabilityRewards does not derive from both sources (addValidatorRewardsToMiniBlocks: %v, computeRewardsPerNode: %v): remainders are distributed to nobody", fromAddV, fromPerNode))
			c.Check(core.DominatesInstr(adj, addProt) && adj.Call.Args[1] == addProt.Call.Args[1], "C35/dust-goes-to-protocol", "CreateRewardsMiniBlocks/adjust-before-add", addProt.Pos(),
				"the protocol reward is adjusted before it is hashed and added to its miniblock", "the protocol sustainability reward is added to the miniblocks before (or without) being adjusted with the dust, or another transaction is added")
			mustPassChecked(c, cr, "C35/dust-goes-to-protocol", "CreateRewardsMiniBlocks/protocol-reward-added", nil,
				func(in ssa.Instruction, cc *ssa.CallCommon) bool { return in == ssa.Instruction(addProt) }, core.SuccessReturn, nil,
				"miniblocks are returned only after the protocol sustainability reward was added")
		}
	}
	if aj := anchorM(c, pkg, "rewardsCreatorV2", "adjustProtocolSustainabilityRewards"); aj != nil {
		c.Analysed(fname(aj))
		isAddDust := func(in ssa.Instruction) bool {
			cc := isBigAdd(in)
			return cc != nil && len(cc.Args) == 3 && (cc.Args[2] == ssa.Value(aj.Params[2]) || cc.Args[1] == ssa.Value(aj.Params[2]))
		}
		negDust := edgeFact(func(f core.Fact, cd core.Cond) bool {
			bo, isBo := cd.V.(*ssa.BinOp)
			if !isBo {
				return false
			}
			for _, side := range []ssa.Value{bo.X, bo.Y} {
				call, isCall := side.(*ssa.Call)
				if !isCall || !core.CallDesc(&call.Call).Is("math/big", "Int", "Cmp") || len(call.Call.Args) != 2 {
					continue
				}
				key := core.ExprKey(call)
				// dust.Cmp(x) < 0, or the same test written from the other side: x.Cmp(dust) > 0
				if call.Call.Args[0] == ssa.Value(aj.Params[2]) {
					if ub, ok := f.UpperBound(key); ok && ub < 0 {
						return true
					}
				}
				if call.Call.Args[1] == ssa.Value(aj.Params[2]) && isBigZero(call.Call.Args[0]) {
					if lb, ok := f.LowerBound(key); ok && lb > 0 {
						return true
					}
				}
			}
			return false
		})
		esc, path := core.PathQ{Fn: aj, Via: isAddDust, ViaEdge: negDust, Target: core.AnyReturn}.Escape()
		c.Check(esc == nil, "C35/dust-goes-to-protocol", "adjustProtocolSustainabilityRewards/adds-dust", aj.Pos(),
			"every return for a non-negative dust has added it to the protocol reward",
			"adjustProtocolSustainabilityRewards can return without adding a non-negative dust to the protocol reward ("+c.P.PathString(path)+")")
	}
	c.Floor("C35/dust-goes-to-protocol", 4)
	c35CorrectedTotal(c)
	c35DelegationTest(c)
}

// c35CorrectedTotal: ComputeEndOfEpochEconomics corrects the total to distribute on one branch (fees
// above inflation). Everything computed after that point uses the corrected version: no value that
// was derived from the uncorrected total before the branch is used after the merge, except through
// a variable corrected on the same branch. Mixing versions makes the amount handed to the reward
// creator differ from total - fees - protocol share, so the rewards no longer add up to the total.
func c35CorrectedTotal(c *core.Ctx) {
	fn := anchorM(c, "epochStart/metachain", "economics", "ComputeEndOfEpochEconomics")
	if fn == nil {
		return
	}
	c.Analysed(fname(fn))
	n := 0
	for _, b := range fn.Blocks {
		if core.InnermostLoop(fn, b) != nil && core.InnermostLoop(fn, b).Header == b {
			continue
		}
		for _, in := range b.Instrs {
			ph, ok := in.(*ssa.Phi)
			if !ok {
				break
			}
			if !strings.HasSuffix(ph.Type().String(), "math/big.Int") {
				continue
			}
			// the uncorrected version: an edge value defined before the branch (its block dominates the merge)
			var v0 ssa.Value
			for _, e := range ph.Edges {
				if ei, isI := e.(ssa.Instruction); isI && ei.Block() != b && ei.Block().Dominates(b) {
					if _, isPhi := e.(*ssa.Phi); !isPhi {
						v0 = e
					}
				}
			}
			if v0 == nil {
				continue
			}
			n++
			// uses after the merge that reach v0 without going through a phi of the merge block
			stale := ""
			var reaches func(x ssa.Value, d int, seen map[ssa.Value]bool) bool
			reaches = func(x ssa.Value, d int, seen map[ssa.Value]bool) bool {
				if x == nil || seen[x] || d > 10 {
					return false
				}
				seen[x] = true
				if x == v0 {
					return true
				}
				if p2, isPhi := x.(*ssa.Phi); isPhi && p2.Block() == b {
					return false
				}
				xi, isI := x.(ssa.Instruction)
				if !isI {
					return false
				}
				for _, op := range xi.Operands(nil) {
					if op != nil && reaches(*op, d+1, seen) {
						return true
					}
				}
				return false
			}
			for _, b2 := range fn.Blocks {
				if b2 != b && !b.Dominates(b2) {
					continue
				}
				for _, in2 := range b2.Instrs {
					if _, isPhi := in2.(*ssa.Phi); isPhi {
						continue
					}
					for _, op := range in2.Operands(nil) {
						if op == nil || *op == nil {
							continue
						}
						if reaches(*op, 0, map[ssa.Value]bool{}) {
							stale = c.P.Pos(in2.Pos()) + " uses " + core.ExprKey(*op)
						}
					}
				}
			}
			c.Check(stale == "", "C35/economics-use-the-corrected-total", fmt.Sprintf("ComputeEndOfEpochEconomics/%s", ph.Comment), ph.Pos(),
				"after the branch that corrects "+ph.Comment+", nothing derived from its uncorrected value is used",
				"after "+ph.Comment+" is corrected on one branch, "+stale+", which was derived from the uncorrected value: the amount left for block rewards is computed from the smaller total while the total to distribute uses the corrected one - the created rewards no longer add up")
		}
	}
	c.Floor("C35/economics-use-the-corrected-total", 1)
}

// c35DelegationTest: an address counts as a system delegation contract only if the marker value
// stored under DelegationSystemSCKey is non-empty.
func c35DelegationTest(c *core.Ctx) {
	fn := anchorM(c, "epochStart/metachain", "baseRewardsCreator", "isSystemDelegationSC")
	if fn == nil {
		return
	}
	c.Analysed(fname(fn))
	ok, n := true, 0
	for _, r := range core.Returns(fn) {
		v := core.RetOperand(r, 0)
		if b, isC := core.ConstBool(v); isC && !b {
			continue
		}
		n++
		// the value returned is (or lies behind) len(stored value) > 0
		nonEmpty := false
		check := func(f core.Fact) {
			for _, side := range []string{f.A, f.B} {
				if strings.HasPrefix(side, "len(") && strings.Contains(side, "RetrieveValue") {
					if lb, has := f.LowerBound(side); has && lb >= 1 {
						nonEmpty = true
					}
				}
			}
		}
		for _, f := range core.FactsAt(r.Block()) {
			check(f)
		}
		if bo, isBo := v.(*ssa.BinOp); isBo {
			check(core.FactOf(core.Cond{V: bo, Taken: true}))
		}
		if !nonEmpty {
			ok = false
		}
	}
	c.Check(ok && n > 0, "C35/delegation-test-requires-marker", "baseRewardsCreator.isSystemDelegationSC", fn.Pos(),
		"`true` only when the value stored under the delegation marker key is non-empty",
		"an address can be classified as a delegation contract without a non-empty marker value (a missing key reads as (nil, nil)): any metachain account with storage receives reward transactions")
}

func firstBodyBlock(l *core.Loop) *ssa.BasicBlock {
	for _, s := range l.Header.Succs {
		if l.Body[s] {
			return s
		}
	}
	return l.Header
}

// isBigZero: big.NewInt(0).
func isBigZero(v ssa.Value) bool {
	call, ok := v.(*ssa.Call)
	if !ok || !core.CallDesc(&call.Call).Is("math/big", "", "NewInt") || len(call.Call.Args) != 1 {
		return false
	}
	n, isC := core.ConstInt(call.Call.Args[0])
	return isC && n == 0
}
