package rules

import (
	"strings"

	"golang.org/x/tools/go/ssa"

	"verif/checker/internal/core"
)

func init() {
	register(&Rule{
		ID:    "C40",
		Title: "A failed nested system contract call leaves no storage effects",
		Pkgs:  []string{"vm/systemSmartContracts"},
		Explain: "Decides the two structural conditions any rollback of a nested call needs. (S1) the context snapshot taken before the nested call (vmContext.copyToNewContext) does not share the storageUpdate " +
			"map with the live context: SetStorageForAddress mutates that map in place, so a snapshot holding the same map records nothing to return to. (S2) on the branch of ExecuteOnDestContext where the " +
			"nested contract did not return Ok, the live context's storageUpdate is restored (a store to the field, or a call that performs one) before the function returns. " +
			"Not decided (value-level): what exactly is restored, output-account merging, gas.",
		Run: runC40,
	})
}

func runC40(c *core.Ctx) {
	const pkg = "vm/systemSmartContracts"
	if fn := anchorM(c, pkg, "vmContext", "copyToNewContext"); fn != nil {
		n := 0
		core.Instrs(fn, func(in ssa.Instruction) {
			st, ok := in.(*ssa.Store)
			if !ok {
				return
			}
			fa, ok := st.Addr.(*ssa.FieldAddr)
			if !ok || core.FieldOfAddr(fa).Name() != "storageUpdate" {
				return
			}
			n++
			shared := strings.HasSuffix(core.ExprKey(st.Val), "recv.storageUpdate")
			c.Check(!shared, "C40/snapshot-does-not-alias-storage", "vmContext.copyToNewContext", st.Pos(), "the snapshot owns its storage map",
				"the snapshot's storageUpdate is the live context's map itself (copied by reference): writes of the nested call are visible through the snapshot, nothing can be rolled back")
		})
		if n == 0 {
			c.Fail("C40/snapshot-does-not-alias-storage", "vmContext.copyToNewContext", fn.Pos(), "the snapshot does not record storageUpdate at all")
		}
	}
	if fn := anchorM(c, pkg, "vmContext", "ExecuteOnDestContext"); fn != nil {
		var exec ssa.Instruction
		for _, in := range core.CallsIn(fn, func(in ssa.Instruction, cc *ssa.CallCommon) bool { return isInvoke(cc, "Execute") }) {
			exec = in
		}
		if exec == nil {
			c.Fail("C40/failure-restores-storage", "vmContext.ExecuteOnDestContext", fn.Pos(), "the nested Execute call was not found")
			return
		}
		rc := exec.(ssa.Value)
		okBranch := core.PruneWhen(func(cd core.Cond) bool {
			f := core.FactOf(cd)
			return f.Op == "==" && (f.A == core.ExprKey(rc) || f.B == core.ExprKey(rc)) && cd.V.(*ssa.BinOp) != nil && isOkConst(cd.V.(*ssa.BinOp), rc)
		})
		restores := func(in ssa.Instruction) bool {
			if st, ok := in.(*ssa.Store); ok && isRecvFieldAddr(fn, st.Addr, "storageUpdate") {
				return true
			}
			if cc := core.CallOf(in); cc != nil {
				if g := cc.StaticCallee(); g != nil && g.Blocks != nil && g != fn {
					w := false
					core.Instrs(g, func(i2 ssa.Instruction) {
						if st, ok := i2.(*ssa.Store); ok && isRecvFieldAddr(g, st.Addr, "storageUpdate") {
							w = true
						}
					})
					// mergeContext only adds to the map; a restore replaces the field
					return w
				}
			}
			return false
		}
		// what the failed call did to the output accounts (transfers) is discarded on the live context itself
		resetsAccounts := func(in ssa.Instruction) bool {
			st, ok := in.(*ssa.Store)
			if !ok || !isRecvFieldAddr(fn, st.Addr, "outputAccounts") {
				return false
			}
			_, fresh := st.Val.(*ssa.MakeMap)
			return fresh
		}
		qa := core.PathQ{Fn: fn, From: exec, Via: resetsAccounts, Prune: okBranch, Target: core.AnyReturn}
		escA, pathA := qa.Escape()
		c.Check(escA == nil, "C40/failure-discards-output-accounts", "vmContext.ExecuteOnDestContext", exec.Pos(), "when the nested contract fails, the live context's outputAccounts is replaced by an empty map before returning",
			"on the `returnCode != Ok` branch the live context's outputAccounts is not reset ("+c.P.PathString(pathA)+"): transfers made by the failed call are merged into the caller's context")
		q := core.PathQ{Fn: fn, From: exec, Via: restores, Prune: okBranch, Target: core.AnyReturn}
		esc, path := q.Escape()
		c.Check(esc == nil, "C40/failure-restores-storage", "vmContext.ExecuteOnDestContext", exec.Pos(), "when the nested contract fails, storageUpdate is restored before returning",
			"on the `returnCode != Ok` branch only outputAccounts is reset; storageUpdate keeps the nested call's writes ("+c.P.PathString(path)+")")
	}
}

func isOkConst(b *ssa.BinOp, rc ssa.Value) bool {
	for _, pair := range [][2]ssa.Value{{b.X, b.Y}, {b.Y, b.X}} {
		if pair[0] == rc {
			if n, ok := core.ConstInt(pair[1]); ok && n == 0 {
				return true
			}
		}
	}
	return false
}
