package rules

import (
	"fmt"
	"strings"

	"golang.org/x/tools/go/ssa"

	"verif/checker/internal/core"
)

func init() {
	register(&Rule{
		ID:    "C40",
		Title: "A failed nested system contract call leaves no storage effects",
		Pkgs:  []string{"vm/systemSmartContracts"},
		Explain: "Decides the two structural conditions any rollback of a nested call needs. (S1) the context snapshot taken before the nested call (vmContext.copyToNewContext) does not share the storageUpdate " +
			"map with the live context: SetStorageForAddress mutates that map in place, so a snapshot holding the same map records nothing to return to. (S2) on the branch of ExecuteOnDestContext where the " +
			"nested contract did not return Ok, the live context's storageUpdate is restored (a store to the field, or a call that performs one) before the function returns. " +
			"(S3) while storage is not rolled back: in every entry point of stakingSC no storage write is followed, within one pass, by a return of a failure code other than the failure of the write itself (one reviewed site). " +
			"Not decided (value-level): what exactly is restored, output-account merging, gas.",
		Run: runC40,
	})
}

func runC40(c *core.Ctx) {
	c40StakingValidatesBeforeItWrites(c)
	const pkg = "vm/systemSmartContracts"
	if fn := anchorM(c, pkg, "vmContext", "copyToNewContext"); fn != nil {
		n := 0
		core.Instrs(fn, func(in ssa.Instruction) {
			st, ok := in.(*ssa.Store)
			if !ok {
				return
			}
			fa, ok := st.Addr.(*ssa.FieldAddr)
			if !ok || core.FieldOfAddr(fa).Name() != "storageUpdate" {
				return
			}
			n++
			shared := strings.HasSuffix(core.ExprKey(st.Val), "recv.storageUpdate")
			c.Check(!shared, "C40/snapshot-does-not-alias-storage", "vmContext.copyToNewContext", st.Pos(), "the snapshot owns its storage map",
				"the snapshot's storageUpdate is the live context's map itself (copied by reference): writes of the nested call are visible through the snapshot, nothing can be rolled back")
		})
		if n == 0 {
			c.Fail("C40/snapshot-does-not-alias-storage", "vmContext.copyToNewContext", fn.Pos(), "the snapshot does not record storageUpdate at all")
		}
	}
	if fn := anchorM(c, pkg, "vmContext", "ExecuteOnDestContext"); fn != nil {
		var exec ssa.Instruction
		for _, in := range core.CallsIn(fn, func(in ssa.Instruction, cc *ssa.CallCommon) bool { return isInvoke(cc, "Execute") }) {
			exec = in
		}
		if exec == nil {
			c.Fail("C40/failure-restores-storage", "vmContext.ExecuteOnDestContext", fn.Pos(), "the nested Execute call was not found")
			return
		}
		rc := exec.(ssa.Value)
		okBranch := core.PruneWhen(func(cd core.Cond) bool {
			f := core.FactOf(cd)
			return f.Op == "==" && (f.A == core.ExprKey(rc) || f.B == core.ExprKey(rc)) && cd.V.(*ssa.BinOp) != nil && isOkConst(cd.V.(*ssa.BinOp), rc)
		})
		restores := func(in ssa.Instruction) bool {
			if st, ok := in.(*ssa.Store); ok && isRecvFieldAddr(fn, st.Addr, "storageUpdate") {
				return true
			}
			if cc := core.CallOf(in); cc != nil {
				if g := cc.StaticCallee(); g != nil && g.Blocks != nil && g != fn {
					w := false
					core.Instrs(g, func(i2 ssa.Instruction) {
						if st, ok := i2.(*ssa.Store); ok && isRecvFieldAddr(g, st.Addr, "storageUpdate") {
							w = true
						}
					})
					// mergeContext only adds to the map; a restore replaces the field
					return w
				}
			}
			return false
		}
		// what the failed call did to the output accounts (transfers) is discarded on the live context itself
		resetsAccounts := func(in ssa.Instruction) bool {
			st, ok := in.(*ssa.Store)
			if !ok || !isRecvFieldAddr(fn, st.Addr, "outputAccounts") {
				return false
			}
			_, fresh := st.Val.(*ssa.MakeMap)
			return fresh
		}
		qa := core.PathQ{Fn: fn, From: exec, Via: resetsAccounts, Prune: okBranch, Target: core.AnyReturn}
		escA, pathA := qa.Escape()
		c.Check(escA == nil, "C40/failure-discards-output-accounts", "vmContext.ExecuteOnDestContext", exec.Pos(), "when the nested contract fails, the live context's outputAccounts is replaced by an empty map before returning",
			"on the `returnCode != Ok` branch the live context's outputAccounts is not reset ("+c.P.PathString(pathA)+"): transfers made by the failed call are merged into the caller's context")
		q := core.PathQ{Fn: fn, From: exec, Via: restores, Prune: okBranch, Target: core.AnyReturn}
		esc, path := q.Escape()
		c.Check(esc == nil, "C40/failure-restores-storage", "vmContext.ExecuteOnDestContext", exec.Pos(), "when the nested contract fails, storageUpdate is restored before returning",
			"on the `returnCode != Ok` branch only outputAccounts is reset; storageUpdate keeps the nested call's writes ("+c.P.PathString(path)+")")
	}
}

func isOkConst(b *ssa.BinOp, rc ssa.Value) bool {
	for _, pair := range [][2]ssa.Value{{b.X, b.Y}, {b.Y, b.X}} {
		if pair[0] == rc {
			if n, ok := core.ConstInt(pair[1]); ok && n == 0 {
				return true
			}
		}
	}
	return false
}

// c40StakingValidatesBeforeItWrites: ExecuteOnDestContext does not take storage back when a nested
// call fails (the open findings above), and the validator contract carries on after a refused
// nested call in its per-key loops. Until that is repaired, "a refused nested call leaves nothing
// behind" rests on the staking contract refusing BEFORE it writes: in every entry point of
// stakingSC, within one pass (paths through a loop's back edge are the batch case and are left
// out), no storage write is followed by a return of a failure code - other than the failure of the
// write itself. One site is reviewed: see c40ReviewedWriteThenRefuse.
var c40ReviewedWriteThenRefuse = map[string]string{
	"stakingSC.unStake/moveFirstFromWaitingToStaked": "present on the unchanged tree: the refusal `too many left` (StakedNodes - JailedNodes - MinNumNodes <= 0) can follow an effective promotion only when, with a non-empty waiting queue, the jailed nodes had already used up the whole spare capacity plus one; with an empty queue the promotion writes nothing. No history of public operations reaching that state was constructed, so the site is listed as reviewed, not claimed as a finding - any OTHER write-then-refuse in stakingSC is reported",
}

func c40StakingValidatesBeforeItWrites(c *core.Ctx) {
	const pkg = "vm/systemSmartContracts"
	funcs := c.P.FuncsOfPkg(pkg)
	if len(funcs) == 0 {
		return
	}
	wb := core.NewWriteBack(funcs[0].Pkg, funcs)
	wb.Run()
	writes := func(in ssa.Instruction) (string, bool) {
		cc := core.CallOf(in)
		if cc == nil {
			return "", false
		}
		if cc.IsInvoke() {
			n := cc.Method.Name()
			return n, n == "SetStorage" || n == "SetStorageForAddress" || n == "Transfer"
		}
		g := cc.StaticCallee()
		if g == nil || g.Pkg != funcs[0].Pkg || len(g.Blocks) == 0 {
			return "", false
		}
		return g.Name(), !wb.ReadOnly(g)
	}
	backEdge := func(b *ssa.BasicBlock, si int) bool { return b.Succs[si].Dominates(b) }
	n, seen := 0, map[string]bool{}
	for _, fn := range funcs {
		if fn.Signature.Recv() == nil || !strings.HasSuffix(fn.Signature.Recv().Type().String(), ".stakingSC") {
			continue
		}
		if fn.Signature.Results().Len() != 1 || !strings.HasSuffix(fn.Signature.Results().At(0).Type().String(), "ReturnCode") {
			continue
		}
		c.Analysed(fname(fn))
		core.Instrs(fn, func(in ssa.Instruction) {
			name, isW := writes(in)
			if !isW {
				return
			}
			refused := func(x ssa.Instruction, _ *ssa.BasicBlock) bool {
				r, ok := x.(*ssa.Return)
				if !ok {
					return false
				}
				k, isC := core.ConstInt(r.Results[0])
				if !isC || k == 0 {
					return false
				}
				// the failure of a writing call itself is not a validation after the write
				if conds := core.CondsAt(r.Block()); len(conds) > 0 {
					if bo, isBo := conds[0].V.(*ssa.BinOp); isBo {
						for _, side := range []ssa.Value{bo.X, bo.Y} {
							v := side
							if ex, isEx := v.(*ssa.Extract); isEx {
								v = ex.Tuple
							}
							if call, isCall := v.(*ssa.Call); isCall {
								if _, w := writes(call); w {
									return false
								}
							}
						}
					}
				}
				return true
			}
			esc, path := core.PathQ{Fn: fn, From: in, Prune: backEdge, Target: refused}.Escape()
			n++
			key := fname(fn) + "/" + name
			if seen[key] {
				key = fmt.Sprintf("%s#%d", key, n)
			}
			seen[key] = true
			if why, reviewed := c40ReviewedWriteThenRefuse[key]; reviewed && esc != nil {
				c.Pass("C40/staking-validates-before-it-writes", key, in.Pos(), "reviewed: "+why)
				return
			}
			c.Check(esc == nil, "C40/staking-validates-before-it-writes", key, in.Pos(),
				"no refusal can follow this write within the same pass",
				fmt.Sprintf("%s writes storage through %s and can still refuse afterwards (%s, refusal at %s): the nested call fails, ExecuteOnDestContext keeps the write, and the validator contract - which carries on after a refused key - commits it", fname(fn), name, c.P.PathString(path), posOf(c, esc)))
		})
	}
	c.Floor("C40/staking-validates-before-it-writes", 20)
}

func posOf(c *core.Ctx, in ssa.Instruction) string {
	if in == nil {
		return "-"
	}
	return c.P.Pos(in.Pos())
}
